(* Proofs about Model/Replicas.v (property C04). *)
From SV Require Import Base.Prelude Model.Ring Model.Shard Model.Replicas Proofs.Ring_proofs.
From Coq Require Import Permutation Sorted.
Open Scope Z_scope.

(* ---------------------------------------------------------------- small list facts *)
Lemma firstn_min_length {A} (l : list A) n : firstn (Nat.min n (List.length l)) l = firstn n l.
Proof.
  destruct (Nat.le_ge_cases n (List.length l)) as [H|H].
  - now rewrite Nat.min_l.
  - rewrite Nat.min_r by assumption. now rewrite !firstn_all2 by lia.
Qed.
Lemma firstn_min_length' {A} (l : list A) n : firstn (Nat.min (List.length l) n) l = firstn n l.
Proof. rewrite Nat.min_comm. apply firstn_min_length. Qed.

Lemma In_firstn {A} (l : list A) n x : In x (firstn n l) -> In x l.
Proof. intros H. rewrite <- (firstn_skipn n l). apply in_or_app. now left. Qed.

Lemma map_snd_filter {A B} (p : B -> bool) (l : list (A * B)) :
  map snd (filter (fun e => p (snd e)) l) = filter p (map snd l).
Proof.
  induction l as [|x r IH]; [reflexivity|]. cbn [filter map]. destruct (p (snd x)); cbn [map]; now rewrite IH.
Qed.

Lemma filter_map_In {A B} (f : A -> option B) l y :
  In y (filter_map f l) <-> exists x, In x l /\ f x = Some y.
Proof.
  induction l as [|x r IH]; cbn [filter_map].
  - split; [intros []|intros (x & [] & _)].
  - destruct (f x) eqn:E.
    + cbn [In]. rewrite IH. split.
      * intros [<-|(z & Hz & Ez)]; [exists x; split; [now left|assumption]|exists z; split; [now right|assumption]].
      * intros (z & [<-|Hz] & Ez); [left; congruence|right; exists z; tauto].
    + rewrite IH. split.
      * intros (z & Hz & Ez). exists z. split; [now right|assumption].
      * intros (z & [<-|Hz] & Ez); [congruence|exists z; tauto].
Qed.

Lemma filter_filter_ext {A} (p q1 q2 : A -> bool) u :
  (forall y, p y = true -> q1 y = q2 y) -> filter p (filter q1 u) = filter p (filter q2 u).
Proof.
  intros H. induction u as [|y r IH]; [reflexivity|]. cbn [filter].
  destruct (p y) eqn:E.
  - rewrite <- (H y E). destruct (q1 y); cbn [filter]; rewrite ?E, IH; reflexivity.
  - destruct (q1 y), (q2 y); cbn [filter]; rewrite ?E, IH; reflexivity.
Qed.

Lemma uniq_aux_filter_comm (p : N -> bool) l s :
  uniq_aux N.eqb s (filter p l) = filter p (uniq_aux N.eqb s l).
Proof.
  revert s. induction l as [|x r IH]; intros s; [reflexivity|]. cbn [filter uniq_aux].
  destruct (p x) eqn:E; cbn [uniq_aux].
  - destruct (mem_by N.eqb x s); [apply IH|]. cbn [filter]. rewrite E. f_equal. apply IH.
  - rewrite IH. destruct (mem_by N.eqb x s) eqn:Em; [reflexivity|]. cbn [filter]. rewrite E.
    rewrite (uniq_aux_filter N.eqb Neqb_eq s r), (uniq_aux_filter N.eqb Neqb_eq (x :: s) r).
    apply filter_filter_ext. intros y Hy. cbn [mem_by existsb].
    destruct (N.eqb y x) eqn:Eyx; [|reflexivity]. apply N.eqb_eq in Eyx. congruence.
Qed.

Lemma uniq_filter_comm (p : N -> bool) l : uniq (filter p l) = filter p (uniq l).
Proof. apply uniq_aux_filter_comm. Qed.

(* sub-sequences *)
Inductive subseq {A} : list A -> list A -> Prop :=
| sub_nil : forall u, subseq [] u
| sub_take : forall x l u, subseq l u -> subseq (x :: l) (x :: u)
| sub_skip : forall x l u, subseq l u -> subseq l (x :: u).

Lemma subseq_refl {A} (l : list A) : subseq l l.
Proof. induction l; constructor; assumption. Qed.
Lemma subseq_In {A} (l u : list A) x : subseq l u -> In x l -> In x u.
Proof. induction 1; cbn; intuition. Qed.
Lemma subseq_trans {A} (a b c : list A) : subseq a b -> subseq b c -> subseq a c.
Proof.
  intros Hab Hbc. revert a Hab. induction Hbc as [u|x l u H IH|x l u H IH]; intros a Hab.
  - inversion Hab. constructor.
  - inversion Hab; subst; [constructor|constructor; auto|apply sub_skip; auto].
  - apply sub_skip. auto.
Qed.
Lemma subseq_filter {A} (p : A -> bool) l : subseq (filter p l) l.
Proof. induction l as [|x r IH]; cbn [filter]; [constructor|]. destruct (p x); constructor; assumption. Qed.
Lemma subseq_firstn {A} n (l : list A) : subseq (firstn n l) l.
Proof. revert n. induction l as [|x r IH]; intros [|n]; cbn; constructor. apply IH. Qed.
Lemma subseq_NoDup {A} (l u : list A) : subseq l u -> NoDup u -> NoDup l.
Proof.
  induction 1 as [u|x l u H IH|x l u H IH]; intros Hu; [constructor| |].
  - inversion Hu; subst. constructor; [|auto]. intros C. apply (subseq_In _ _ _ H) in C. contradiction.
  - inversion Hu; auto.
Qed.
(* a sub-sequence of a duplicate-free list is recovered by filtering on membership *)
Lemma subseq_filter_mem (l u : list N) : subseq l u -> NoDup u -> filter (fun x => mem x l) u = l.
Proof.
  induction 1 as [u|x l u H IH|x l u H IH]; intros Hu.
  - apply filter_nil_all. reflexivity.
  - inversion Hu as [|? ? Hx Hu']; subst. cbn [filter].
    assert (E : mem x (x :: l) = true) by (apply mem_In; now left). rewrite E. f_equal.
    transitivity (filter (fun y => mem y l) u); [|auto]. apply filter_ext_in. intros y Hy.
    unfold mem. cbn [mem_by existsb]. destruct (N.eqb y x) eqn:Eyx; [|reflexivity].
    apply N.eqb_eq in Eyx. subst. contradiction.
  - inversion Hu as [|? ? Hx Hu']; subst. cbn [filter].
    assert (E : mem x l = false).
    { apply mem_false. intros C. apply (subseq_In _ _ _ H) in C. contradiction. }
    rewrite E. auto.
Qed.

Lemma nodupb_spec l : nodupb l = true <-> NoDup l.
Proof.
  induction l as [|x r IH]; cbn [nodupb]; [split; [constructor|reflexivity]|].
  rewrite andb_true_iff, negb_true_iff, IH, mem_false. split.
  - intros [H1 H2]. now constructor.
  - intros H. inversion H; subst. tauto.
Qed.

Lemma list_eqb_spec a b : list_eqb a b = true <-> a = b.
Proof.
  revert b. induction a as [|x r IH]; intros [|y q]; cbn [list_eqb].
  - split; reflexivity.
  - split; discriminate.
  - split; discriminate.
  - rewrite andb_true_iff, N.eqb_eq, IH. split; [intros [-> ->]; reflexivity|intros [= -> ->]; tauto].
Qed.

Lemma subset_spec a b : subset a b = true <-> (forall x, In x a -> In x b).
Proof. unfold subset. rewrite forallb_forall. split; intros H x Hx; [apply mem_In|apply mem_In]; auto. Qed.

(* the set comparison used for "the replicas reported are those specified" *)
Lemma same_set_spec a b : same_set a b = true <-> NoDup a /\ NoDup b /\ (forall x, In x a <-> In x b).
Proof.
  unfold same_set. rewrite !andb_true_iff, !nodupb_spec, !subset_spec. split.
  - intros [[[H1 H2] H3] H4]. repeat split; auto.
  - intros (H1 & H2 & H3). repeat split; try assumption; intros x; apply H3.
Qed.

Lemma olist_eqb_spec a b : olist_eqb a b = true <-> a = b.
Proof.
  revert b. induction a as [|x r IH]; intros [|y q]; cbn [olist_eqb].
  - split; reflexivity.
  - split; discriminate.
  - split; discriminate.
  - rewrite andb_true_iff, oeqb_eq, IH. split; [intros [-> ->]; reflexivity|intros [= -> ->]; tauto].
Qed.

(* what the driver's [views] predicate means *)
Lemma views_ok_sound len iter nth choose cf cfpred opsl ep :
  views_ok len iter nth choose cf cfpred opsl ep = true ->
  len = List.length iter /\ NoDup iter /\
  (forall k, (k < List.length nth)%nat -> nth_error nth k = Some (nth_error iter k)) /\
  List.length choose = len /\ (forall o, In o choose -> exists x, o = Some x /\ In x iter) /\
  match cf with
  | Some x => In x iter /\ cfpred x = true
  | None => forall x, In x iter -> cfpred x = false
  end /\
  (forall ops out, In (ops, out) opsl -> out = list_run ops iter) /\
  match ep with
  | Some l => NoDup l /\ (forall x, In x l <-> In x iter)
  | None => True
  end.
Proof.
  unfold views_ok. rewrite !andb_true_iff, !Nat.eqb_eq, nodupb_spec, olist_eqb_spec, !forallb_forall.
  intros [[[[[[[H1 H2] H3] H4] H5] H6] H7] H8]. repeat split; try assumption.
  - intros k Hk. rewrite H3 at 1. rewrite nth_error_map, nth_error_nth' with (d := 0%nat) by (rewrite seq_length; exact Hk).
    rewrite seq_nth by exact Hk. reflexivity.
  - intros o Ho. specialize (H5 o Ho). destruct o as [x|]; [|discriminate]. exists x. split; [reflexivity|now apply mem_In].
  - destruct cf as [x|].
    + apply andb_true_iff in H6. destruct H6 as [H6 H6']. split; [now apply mem_In|assumption].
    + rewrite forallb_forall in H6. intros x Hx. apply negb_true_iff. now apply H6.
  - intros ops out Hin. specialize (H7 _ Hin). cbn [fst snd] in H7. now apply olist_eqb_spec.
  - destruct ep as [l|]; [|exact I]. apply same_set_spec in H8. tauto.
Qed.

Lemma views_ok_complete len iter nth choose cf cfpred opsl ep :
  len = List.length iter /\ NoDup iter /\
  (forall k, (k < List.length nth)%nat -> nth_error nth k = Some (nth_error iter k)) /\
  List.length choose = len /\ (forall o, In o choose -> exists x, o = Some x /\ In x iter) /\
  match cf with
  | Some x => In x iter /\ cfpred x = true
  | None => forall x, In x iter -> cfpred x = false
  end /\
  (forall ops out, In (ops, out) opsl -> out = list_run ops iter) /\
  match ep with
  | Some l => NoDup l /\ (forall x, In x l <-> In x iter)
  | None => True
  end ->
  views_ok len iter nth choose cf cfpred opsl ep = true.
Proof.
  intros (H1 & H2 & H3 & H4 & H5 & H6 & H7 & H8).
  unfold views_ok. rewrite !andb_true_iff, !Nat.eqb_eq, nodupb_spec, olist_eqb_spec, !forallb_forall.
  split; [split; [split; [split; [split; [split; [split|]|]|]|]|]|]; try assumption.
  - apply nth_ext with (d := None) (d' := None); [now rewrite map_length, seq_length|].
    intros k Hk. assert (E : nth_error (map (nth_error iter) (seq 0 (List.length nth))) k = Some (nth_error iter k)).
    { rewrite nth_error_map, nth_error_nth' with (d := 0%nat) by (rewrite seq_length; exact Hk). now rewrite seq_nth by exact Hk. }
    rewrite (nth_error_nth _ _ None (H3 k Hk)), (nth_error_nth _ _ None E). reflexivity.
  - intros o Ho. destruct (H5 o Ho) as (x & -> & Hx). now apply mem_In.
  - destruct cf as [x|].
    + apply andb_true_iff. split; [now apply mem_In|tauto].
    + apply forallb_forall. intros x Hx. apply negb_true_iff. now apply H6.
  - intros [ops out] Hin. cbn [fst snd]. apply olist_eqb_spec. now apply H7.
  - destruct ep as [l|]; [|reflexivity]. apply same_set_spec. tauto.
Qed.

Lemma views_ok_spec len iter nth choose cf cfpred opsl ep :
  views_ok len iter nth choose cf cfpred opsl ep = true <->
  len = List.length iter /\ NoDup iter /\
  (forall k, (k < List.length nth)%nat -> nth_error nth k = Some (nth_error iter k)) /\
  List.length choose = len /\ (forall o, In o choose -> exists x, o = Some x /\ In x iter) /\
  match cf with
  | Some x => In x iter /\ cfpred x = true
  | None => forall x, In x iter -> cfpred x = false
  end /\
  (forall ops out, In (ops, out) opsl -> out = list_run ops iter) /\
  match ep with
  | Some l => NoDup l /\ (forall x, In x l <-> In x iter)
  | None => True
  end.
Proof. split; [apply views_ok_sound|apply views_ok_complete]. Qed.

Lemma precomputed_ok_sound np iter : precomputed_ok np iter = true <->
  NoDup np /\ NoDup iter /\ (forall x, In x np <-> In x iter).
Proof. exact (same_set_spec np iter). Qed.

(* position of the first occurrence of x in the walk w (its length when x does not occur) *)
Fixpoint first_pos (x : N) (w : list N) : nat :=
  match w with
  | [] => O
  | y :: r => if N.eqb x y then O else S (first_pos x r)
  end.

Lemma StronglySorted_weaken {A} (R R' : A -> A -> Prop) l :
  (forall a b, In a l -> In b l -> R a b -> R' a b) -> StronglySorted R l -> StronglySorted R' l.
Proof.
  induction l as [|x r IH]; intros Hi Hs; [constructor|].
  apply StronglySorted_inv in Hs. destruct Hs as [Hs Hf]. constructor.
  - apply IH; [|assumption]. intros a b Ha Hb. apply Hi; now right.
  - rewrite Forall_forall in *. intros y Hy. apply Hi; [now left|now right|now apply Hf].
Qed.

Lemma StronglySorted_filter {A} (R : A -> A -> Prop) f l :
  StronglySorted R l -> StronglySorted R (filter f l).
Proof.
  induction 1 as [|x r Hs IH Hf]; [constructor|]. cbn [filter]. destruct (f x); [|assumption].
  constructor; [assumption|]. rewrite Forall_forall in *. intros y Hy. apply filter_In in Hy. now apply Hf.
Qed.

Lemma uniq_aux_first_pos seen w :
  StronglySorted (fun a b => (first_pos a w < first_pos b w)%nat) (uniq_aux N.eqb seen w).
Proof.
  revert seen. induction w as [|x r IH]; intros seen; [constructor|]. cbn [uniq_aux].
  assert (Hstep : forall s, (forall z, In z (uniq_aux N.eqb s r) -> z <> x) ->
            StronglySorted (fun a b => (first_pos a (x :: r) < first_pos b (x :: r))%nat) (uniq_aux N.eqb s r)).
  { intros s Hne. apply (StronglySorted_weaken (fun a b => (first_pos a r < first_pos b r)%nat)); [|apply IH].
    intros a b Ha Hb Hlt. cbn [first_pos].
    destruct (N.eqb a x) eqn:Ea; [apply N.eqb_eq in Ea; now apply Hne in Ha|].
    destruct (N.eqb b x) eqn:Eb; [apply N.eqb_eq in Eb; now apply Hne in Hb|]. lia. }
  destruct (mem_by N.eqb x seen) eqn:Em.
  - apply Hstep. intros z Hz ->. apply uniq_aux_In in Hz; [|exact Neqb_eq]. apply mem_by_In in Em; [|exact Neqb_eq]. tauto.
  - assert (Hne : forall z, In z (uniq_aux N.eqb (x :: seen) r) -> z <> x).
    { intros z Hz ->. apply uniq_aux_In in Hz; [|exact Neqb_eq]. destruct Hz as [_ Hz]. apply Hz. now left. }
    constructor; [now apply Hstep|]. apply Forall_forall. intros z Hz. cbn [first_pos]. rewrite N.eqb_refl.
    destruct (N.eqb z x) eqn:Ez; [apply N.eqb_eq in Ez; now apply Hne in Hz|]. lia.
Qed.

Lemma sorted_unique {A} (R : A -> A -> Prop) l l' :
  (forall a, ~ R a a) -> (forall a b, R a b -> R b a -> False) ->
  StronglySorted R l -> StronglySorted R l' -> (forall x, In x l <-> In x l') -> l = l'.
Proof.
  intros Hir Has. revert l'. induction l as [|x r IH]; intros [|y r'] Hs Hs' Hi.
  - reflexivity.
  - exfalso. apply (proj2 (Hi y)). now left.
  - exfalso. apply (proj1 (Hi x)). now left.
  - apply StronglySorted_inv in Hs. destruct Hs as [Hs Hf]. apply StronglySorted_inv in Hs'. destruct Hs' as [Hs' Hf'].
    rewrite Forall_forall in Hf, Hf'.
    assert (x = y) as ->.
    { destruct (proj1 (Hi x) (or_introl eq_refl)) as [E|Hx]; [now symmetry|].
      destruct (proj2 (Hi y) (or_introl eq_refl)) as [E|Hy]; [assumption|].
      exfalso. apply (Has x y); [now apply Hf|now apply Hf']. }
    f_equal. apply IH; try assumption. intros z. split; intros Hz.
    + destruct (proj1 (Hi z) (or_intror Hz)) as [E|H]; [|assumption]. subst z. exfalso. apply (Hir y). now apply Hf.
    + destruct (proj2 (Hi z) (or_intror Hz)) as [E|H]; [|assumption]. subst z. exfalso. apply (Hir y). now apply Hf'.
Qed.

Lemma sorted_lt_NoDup {A} (f : A -> nat) l : StronglySorted (fun a b => (f a < f b)%nat) l -> NoDup l.
Proof.
  induction 1 as [|x r Hs IH Hf]; constructor; [|assumption].
  intros Hx. rewrite Forall_forall in Hf. specialize (Hf x Hx). cbn beta in Hf. lia.
Qed.

(* what the ring-order predicate of the correspondence driver means: the ordered view names
   exactly the iterated nodes that own a token, each once, in the order in which the clockwise
   walk from the token (C04_ring_range) first reaches them *)
Theorem ordered_ok_spec (g : ring N) t iter ordered :
  ordered_ok g t iter ordered = true <->
  NoDup ordered /\
  (forall x, In x ordered <-> In x iter /\ In x (ring_range g t)) /\
  StronglySorted (fun x y => (first_pos x (ring_range g t) < first_pos y (ring_range g t))%nat) ordered.
Proof.
  unfold ordered_ok. rewrite list_eqb_spec. set (w := ring_range g t).
  assert (Hm : forall x, In x (filter (fun x => mem x iter) (uniq w)) <-> In x iter /\ In x w).
  { intros x. rewrite filter_In. unfold uniq. rewrite (uniq_by_In N.eqb Neqb_eq). unfold mem. rewrite (mem_by_In N.eqb Neqb_eq). tauto. }
  assert (Hsrt : StronglySorted (fun x y => (first_pos x w < first_pos y w)%nat) (filter (fun x => mem x iter) (uniq w))).
  { apply StronglySorted_filter. apply uniq_aux_first_pos. }
  split.
  - intros ->. split; [eapply sorted_lt_NoDup; exact Hsrt|]. split; assumption.
  - intros (_ & Hi & Hs). apply (sorted_unique (fun x y => (first_pos x w < first_pos y w)%nat)); [| |exact Hs|exact Hsrt|].
    + intros a. lia.
    + intros a b. lia.
    + intros x. rewrite Hi, Hm. tauto.
Qed.

Section Topo.
  Variables (dcf rackf : N -> option N).
  Notation in_dc := (in_dc dcf).
  Notation dc_ring := (dc_ring dcf).
  Notation ring_dcs := (ring_dcs dcf).
  Notation nts_walk := (nts_walk rackf).
  Notation nts_replicas := (nts_replicas dcf rackf).
  Notation rack_count := (rack_count rackf).
  Notation get_nts := (get_nts dcf rackf).
  Notation get_pre_nts := (get_pre_nts dcf rackf).

  Definition dcpos (g : ring N) (d : N) : ring N := filter (fun e => in_dc d (snd e)) g.

  Lemma dc_ring_sorted g d : sorted_weak g -> dc_ring g d = dcpos g d.
  Proof. intros H. unfold Replicas.dc_ring. apply sort_ring_id. now apply sorted_weak_filter. Qed.

  Lemma dc_ring_In g d e : In e (dc_ring g d) <-> In e g /\ in_dc d (snd e) = true.
  Proof. unfold Replicas.dc_ring. rewrite sort_ring_In, filter_In. tauto. Qed.

  Lemma in_dc_unique d d' n : in_dc d n = true -> in_dc d' n = true -> d = d'.
  Proof.
    unfold Replicas.in_dc. destruct (dcf n); [|discriminate]. intros H1 H2.
    apply N.eqb_eq in H1, H2. congruence.
  Qed.

  (* ============================================================= SimpleStrategy *)
  Lemma first_distinct_uniq rf walk acc :
    (List.length acc <= rf)%nat ->
    first_distinct rf acc walk = acc ++ firstn (rf - List.length acc) (uniq_aux N.eqb acc walk).
  Proof.
    revert acc. induction walk as [|n r IH]; intros acc Hl; cbn [first_distinct uniq_aux].
    - now rewrite firstn_nil, app_nil_r.
    - destruct (rf <=? List.length acc)%nat eqn:E.
      + apply Nat.leb_le in E. replace (rf - List.length acc)%nat with 0%nat by lia.
        cbn. now rewrite app_nil_r.
      + apply Nat.leb_gt in E. fold (mem n acc). unfold mem. destruct (mem_by N.eqb n acc) eqn:Em.
        * now apply IH.
        * rewrite IH by (rewrite app_length; cbn; lia). rewrite app_length. cbn [List.length].
          replace (rf - List.length acc)%nat with (S (rf - (List.length acc + 1)))%nat by lia.
          cbn [firstn]. rewrite <- app_assoc. cbn [app]. do 3 f_equal.
          apply (uniq_aux_seen_ext N.eqb Neqb_eq). intros y. rewrite in_app_iff. cbn. tauto.
  Qed.

  Lemma simple_replicas_firstn g t rf : simple_replicas g t rf = firstn rf (uniq (ring_range g t)).
  Proof.
    unfold simple_replicas, unique_nodes.
    replace (List.length (uniq (map snd g))) with (List.length (uniq (ring_range g t))).
    - apply firstn_min_length.
    - apply (uniq_by_length_ext N.eqb Neqb_eq). intros y. apply ring_range_In.
  Qed.

  Lemma simple_spec g t rf : sorted_weak g -> simple_replicas g t rf = spec_simple g t rf.
  Proof.
    intros H. rewrite simple_replicas_firstn. unfold spec_simple.
    rewrite first_distinct_uniq by (cbn; lia). cbn [app List.length]. rewrite Nat.sub_0_r.
    unfold ring_range. now rewrite ring_range_full_clockwise.
  Qed.

  Lemma prefix_simple g t rf m : (rf <= m)%nat -> simple_replicas g t rf = firstn rf (simple_replicas g t m).
  Proof.
    intros H. rewrite !simple_replicas_firstn, firstn_firstn. now rewrite Nat.min_l.
  Qed.

  Lemma snap_simple g t rf e : sorted_weak g -> get_entry_for_token g t = Some e ->
    simple_replicas g (fst e) rf = simple_replicas g t rf.
  Proof.
    intros Hs He. rewrite !simple_replicas_firstn. unfold ring_range.
    now rewrite (ring_range_full_snap g t e Hs He).
  Qed.

  Lemma precomputed_simple g pre t rf : sorted_weak g -> get_simple g pre t rf = simple_replicas g t rf.
  Proof.
    intros Hs. unfold get_simple. destruct rf as [|rf'].
    - unfold simple_replicas. reflexivity.
    - set (rf := S rf'). unfold get_pre_simple. destruct (max_global_rf pre <? rf)%nat eqn:E; [reflexivity|].
      apply Nat.ltb_ge in E. unfold pre_lookup.
      destruct (get_entry_for_token g t) as [e|] eqn:Ee; cbn [option_map]; [|reflexivity].
      rewrite firstn_min_length', (snap_simple g t _ e Hs Ee). symmetry. now apply prefix_simple.
  Qed.

  Lemma pre_lookup_simple_materialised g pre t : sorted_weak g ->
    get_elem_for_token (pre_ring_simple g pre) t =
    pre_lookup g (fun tk => simple_replicas g tk (max_global_rf pre)) t.
  Proof.
    intros H. unfold pre_ring_simple, pre_lookup.
    rewrite sort_ring_id by (apply (sorted_weak_map (fun e => simple_replicas g (fst e) (max_global_rf pre))), H).
    apply (get_entry_map (fun e => simple_replicas g (fst e) (max_global_rf pre))).
  Qed.

  (* ============================================================= NetworkTopologyStrategy *)
  Lemma nts_walk_left0 used reps w : nts_walk used reps 0 w = [].
  Proof. destruct w; reflexivity. Qed.

  Lemma nts_walk_subseq used reps left w : subseq (nts_walk used reps left w) w.
  Proof.
    revert used reps left. induction w as [|n r IH]; intros used reps left; cbn [Replicas.nts_walk]; [constructor|].
    destruct left as [|left']; [constructor|].
    destruct (negb (mem_by oeqb (rackf n) used)); [constructor; apply IH|].
    destruct reps; [apply sub_skip|constructor]; apply IH.
  Qed.

  Lemma nts_walk_length_le used reps left w : (List.length (nts_walk used reps left w) <= left)%nat.
  Proof.
    revert used reps left. induction w as [|n r IH]; intros used reps left; cbn [Replicas.nts_walk]; [cbn; lia|].
    destruct left as [|left']; [cbn; lia|].
    destruct (negb (mem_by oeqb (rackf n) used)); [cbn; specialize (IH (rackf n :: used) reps left'); lia|].
    destruct reps as [|reps']; [apply IH|cbn; specialize (IH used reps' left'); lia].
  Qed.

  Lemma nts_walk_firstn used reps a b w : (a <= b)%nat ->
    nts_walk used reps a w = firstn a (nts_walk used reps b w).
  Proof.
    revert used reps a b. induction w as [|n r IH]; intros used reps a b Hab; cbn [Replicas.nts_walk].
    - now rewrite firstn_nil.
    - destruct a as [|a']; [reflexivity|]. destruct b as [|b']; [lia|].
      destruct (negb (mem_by oeqb (rackf n) used)).
      + cbn [firstn]. f_equal. apply IH. lia.
      + destruct reps as [|reps'].
        * apply (IH used 0%nat (S a') (S b')). lia.
        * cbn [firstn]. f_equal. apply IH. lia.
  Qed.

  Lemma racks_of_le acc : (List.length (racks_of rackf acc) <= List.length acc)%nat.
  Proof.
    unfold racks_of. rewrite <- (map_length rackf acc).
    apply NoDup_incl_length; [apply (uniq_by_NoDup oeqb oeqb_eq)|].
    intros y. rewrite (uniq_by_In oeqb oeqb_eq). trivial.
  Qed.

  Lemma racks_of_snoc acc n :
    List.length (racks_of rackf (acc ++ [n])) =
    (List.length (racks_of rackf acc) + if mem_by oeqb (rackf n) (map rackf acc) then 0 else 1)%nat.
  Proof.
    unfold racks_of. rewrite map_app. cbn [map]. rewrite (uniq_by_app oeqb oeqb_eq), app_length. f_equal.
    unfold uniq_by. cbn [uniq_aux mem_by existsb filter].
    destruct (mem_by oeqb (rackf n) (map rackf acc)); reflexivity.
  Qed.

  Lemma mem_rack_snoc rk acc n :
    mem_by oeqb rk (map rackf (acc ++ [n])) = mem_by oeqb rk (map rackf acc) || oeqb rk (rackf n).
  Proof. unfold mem_by. rewrite map_app, existsb_app. cbn. now rewrite orb_false_r. Qed.

  (* the iterator (counters, used-rack set, `.unique()` walk) against the fold over all ring
     positions whose state is the accepted list only *)
  Lemma nts_walk_spec_fold want allowed : forall walk seen acc used reps left,
    (forall rk, mem_by oeqb rk used = mem_by oeqb rk (map rackf acc)) ->
    (left + List.length acc = want)%nat ->
    (reps + (List.length acc - List.length (racks_of rackf acc)) = allowed)%nat ->
    (forall x, In x acc -> In x seen) ->
    (forall x, In x seen -> In x acc \/
        (mem_by oeqb (rackf x) (map rackf acc) = true /\
         (allowed <= List.length acc - List.length (racks_of rackf acc))%nat)) ->
    spec_nts_fold rackf want allowed acc walk = acc ++ nts_walk used reps left (uniq_aux N.eqb seen walk).
  Proof.
    induction walk as [|n r IH]; intros seen acc used reps left I1 I2 I3 I4 I5; cbn [spec_nts_fold uniq_aux].
    - cbn. now rewrite app_nil_r.
    - pose proof (racks_of_le acc) as Hrl.
      destruct (want <=? List.length acc)%nat eqn:Ew.
      + apply Nat.leb_le in Ew. assert (left = 0%nat) by lia. subst left.
        now rewrite nts_walk_left0, app_nil_r.
      + apply Nat.leb_gt in Ew. fold (mem n acc).
        destruct (mem n acc) eqn:Ema.
        * (* already accepted: the `.unique()` walk does not show it again *)
          apply mem_In in Ema. assert (Es : mem_by N.eqb n seen = true) by (apply mem_In; auto).
          rewrite Es. now apply IH.
        * apply mem_false in Ema.
          destruct (mem_by N.eqb n seen) eqn:Es.
          -- (* passed over earlier: considered again by the specification, refused again *)
             apply (mem_by_In N.eqb Neqb_eq) in Es. destruct (I5 n Es) as [C|[Hr Ha]]; [contradiction|].
             rewrite Hr. cbn [negb orb].
             assert (E : (List.length acc - List.length (racks_of rackf acc) <? allowed)%nat = false) by (apply Nat.ltb_ge; lia).
             rewrite E. now apply IH.
          -- destruct left as [|left']; [lia|]. cbn [Replicas.nts_walk]. rewrite I1.
             destruct (mem_by oeqb (rackf n) (map rackf acc)) eqn:Er; cbn [negb orb].
             ++ destruct reps as [|reps'].
                ** (* no repeats left: skipped *)
                   assert (E : (List.length acc - List.length (racks_of rackf acc) <? allowed)%nat = false) by (apply Nat.ltb_ge; lia).
                   rewrite E. apply IH; try assumption.
                   --- intros x Hx. right. auto.
                   --- intros x [<-|Hx]; [right; split; [assumption|lia]|auto].
                ** assert (E : (List.length acc - List.length (racks_of rackf acc) <? allowed)%nat = true) by (apply Nat.ltb_lt; lia).
                   rewrite E. rewrite (IH (n :: seen) (acc ++ [n]) used reps' left').
                   --- now rewrite <- app_assoc.
                   --- intros rk. rewrite mem_rack_snoc, I1.
                       destruct (oeqb rk (rackf n)) eqn:Eo; [|now rewrite orb_false_r].
                       apply oeqb_eq in Eo. subst rk. now rewrite Er.
                   --- rewrite app_length. cbn. lia.
                   --- rewrite racks_of_snoc, Er, app_length. cbn. lia.
                   --- intros x Hx. apply in_app_or in Hx. cbn in Hx. cbn. destruct Hx as [Hx|[<-|[]]]; auto.
                   --- intros x [<-|Hx]; [left; apply in_or_app; right; now left|].
                       destruct (I5 x Hx) as [Hx'|[Hr Ha]]; [left; apply in_or_app; now left|].
                       right. rewrite mem_rack_snoc, Hr, racks_of_snoc, Er, app_length. cbn. split; [reflexivity|lia].
             ++ (* new rack *)
                rewrite (IH (n :: seen) (acc ++ [n]) (rackf n :: used) reps left').
                --- now rewrite <- app_assoc.
                --- intros rk. rewrite mem_rack_snoc. cbn [mem_by existsb]. fold (mem_by oeqb rk used).
                    rewrite I1. apply orb_comm.
                --- rewrite app_length. cbn. lia.
                --- rewrite racks_of_snoc, Er, app_length. cbn. lia.
                --- intros x Hx. apply in_app_or in Hx. cbn in Hx. cbn. destruct Hx as [Hx|[<-|[]]]; auto.
                --- intros x [<-|Hx]; [left; apply in_or_app; right; now left|].
                    destruct (I5 x Hx) as [Hx'|[Hr Ha]]; [left; apply in_or_app; now left|].
                    right. rewrite mem_rack_snoc, Hr, racks_of_snoc, Er, app_length. cbn. split; [reflexivity|lia].
  Qed.

  Lemma nts_spec g t d rf : sorted_weak g ->
    nts_replicas g t d rf = spec_nts_dc dcf rackf g t d rf.
  Proof.
    intros Hg. assert (Hd : sorted_weak (dcpos g d)) by (apply sorted_weak_filter, Hg). unfold Replicas.nts_replicas, spec_nts_dc. rewrite dc_ring_sorted by assumption.
    fold (dcpos g d). unfold unique_nodes, Replicas.rack_count, racks_of, ring_range. rewrite map_map.
    rewrite ring_range_full_clockwise by assumption.
    rewrite (nts_walk_spec_fold _ _ _ [] [] [] (rf - List.length (uniq_by oeqb (map (fun x => rackf (snd x)) (dcpos g d))))%nat
               (Nat.min rf (List.length (uniq (map snd (dcpos g d)))))); cbn; try reflexivity; try lia; try tauto.
  Qed.

  (* the rack count never exceeds the node count *)
  Lemma rack_count_le_nodes r : (rack_count r <= List.length (unique_nodes r))%nat.
  Proof.
    unfold Replicas.rack_count, unique_nodes.
    replace (map (fun e => rackf (snd e)) r) with (map rackf (map snd r)) by now rewrite map_map.
    rewrite <- (map_length rackf (uniq (map snd r))).
    apply NoDup_incl_length; [apply (uniq_by_NoDup oeqb oeqb_eq)|].
    intros y. rewrite (uniq_by_In oeqb oeqb_eq), !in_map_iff.
    intros (x & <- & Hx). exists x. split; [reflexivity|now apply uniq_In].
  Qed.

  Lemma prefix_nts g t d rf m : (rf <= m)%nat -> (m <= rack_count (dc_ring g d))%nat ->
    nts_replicas g t d rf = firstn rf (nts_replicas g t d m).
  Proof.
    intros H1 H2. unfold Replicas.nts_replicas. pose proof (rack_count_le_nodes (dc_ring g d)) as H3.
    replace (rf - rack_count (dc_ring g d))%nat with 0%nat by lia.
    replace (m - rack_count (dc_ring g d))%nat with 0%nat by lia.
    rewrite !Nat.min_l by lia. now apply nts_walk_firstn.
  Qed.

  Lemma snap_nts g t d rf e : get_entry_for_token (dc_ring g d) t = Some e ->
    nts_replicas g (fst e) d rf = nts_replicas g t d rf.
  Proof.
    intros He. assert (Hs : sorted_weak (dc_ring g d)) by apply sort_ring_sorted. unfold Replicas.nts_replicas, ring_range.
    now rewrite (ring_range_full_snap (dc_ring g d) t e Hs He).
  Qed.

  Lemma compressed_rf_spec rfs racks m : compressed_rf rfs racks = Some m -> (m <= racks)%nat.
  Proof.
    unfold compressed_rf.
    assert (G : forall acc, (forall a, acc = Some a -> (a <= racks)%nat) ->
      fold_left (fun acc rf => if (rf <=? racks)%nat
                               then match acc with Some m0 => Some (Nat.max m0 rf) | None => Some rf end
                               else acc) rfs acc = Some m -> (m <= racks)%nat).
    { induction rfs as [|x r IH]; intros acc Ha; cbn [fold_left]; [auto|].
      apply IH. destruct (x <=? racks)%nat eqn:E; [|assumption]. apply Nat.leb_le in E.
      destruct acc as [a|]; intros b [= <-]; [specialize (Ha a eq_refl); lia|assumption]. }
    apply G. discriminate.
  Qed.

  Lemma nts_replicas_length_le g t d rf : (List.length (nts_replicas g t d rf) <= rf)%nat.
  Proof.
    unfold Replicas.nts_replicas.
    pose proof (nts_walk_length_le [] (rf - rack_count (dc_ring g d))
                  (Nat.min rf (List.length (unique_nodes (dc_ring g d)))) (uniq (ring_range (dc_ring g d) t))).
    lia.
  Qed.

  Lemma precomputed_nts g pre t d rf :
    get_nts g pre t d rf = nts_replicas g t d rf.
  Proof.
    unfold Replicas.get_nts. destruct rf as [|rf'].
    - unfold Replicas.nts_replicas. cbn [Nat.min]. now rewrite nts_walk_left0.
    - set (rf := S rf'). unfold Replicas.get_pre_nts.
      destruct (pre_ring_rf dcf rackf g pre d rf) as [m|] eqn:Em; [|reflexivity].
      unfold pre_lookup. destruct (get_entry_for_token (dc_ring g d) t) as [e|] eqn:Ee; cbn [option_map]; [|reflexivity].
      rewrite firstn_min_length', (snap_nts g t d m e Ee).
      unfold pre_ring_rf in Em.
      destruct (dc_rfs pre d) as [|x0 rfs0] eqn:Erfs; [discriminate|].
      destruct (dc_ring g d) as [|e0 r0] eqn:Er; [discriminate|]. rewrite <- Er in *.
      assert (Habove : ((rack_count (dc_ring g d) <? rf)%nat && existsb (Nat.eqb rf) (x0 :: rfs0) = true -> m = rf) ->
                        (if (rack_count (dc_ring g d) <? rf)%nat && existsb (Nat.eqb rf) (x0 :: rfs0) then Some rf else None) = Some m ->
                        firstn rf (nts_replicas g t d m) = nts_replicas g t d rf).
      { intros _ H. destruct ((rack_count (dc_ring g d) <? rf)%nat && existsb (Nat.eqb rf) (x0 :: rfs0)); [|discriminate].
        injection H as <-. apply firstn_all2. apply nts_replicas_length_le. }
      destruct (compressed_rf (x0 :: rfs0) (rack_count (dc_ring g d))) as [c|] eqn:Ec.
      + destruct (rf <=? c)%nat eqn:Erc.
        * injection Em as <-. apply Nat.leb_le in Erc. symmetry. apply prefix_nts; [assumption|].
          now apply (compressed_rf_spec _ _ _ Ec).
        * apply Habove; [|assumption]. intros _.
          destruct ((rack_count (dc_ring g d) <? rf)%nat && existsb (Nat.eqb rf) (x0 :: rfs0)); congruence.
      + apply Habove; [|assumption]. intros _.
        destruct ((rack_count (dc_ring g d) <? rf)%nat && existsb (Nat.eqb rf) (x0 :: rfs0)); congruence.
  Qed.

  Lemma pre_lookup_nts_materialised g d m t :
    get_elem_for_token (pre_ring_nts dcf rackf g d m) t =
    pre_lookup (dc_ring g d) (fun tk => nts_replicas g tk d m) t.
  Proof.
    unfold pre_ring_nts, pre_lookup.
    rewrite sort_ring_id.
    - apply (get_entry_map (fun e => nts_replicas g (fst e) d m)).
    - apply (sorted_weak_map (fun e => nts_replicas g (fst e) d m)). apply sort_ring_sorted.
  Qed.

  (* ============================================================= datacenter restriction *)
  Lemma nts_replicas_in_dc g t d rf x : In x (nts_replicas g t d rf) -> in_dc d x = true.
  Proof.
    unfold Replicas.nts_replicas. intros H.
    eapply subseq_In in H; [|apply nts_walk_subseq].
    rewrite uniq_In, ring_range_In, in_map_iff in H. destruct H as (e & <- & He).
    apply dc_ring_In in He. tauto.
  Qed.

  Lemma get_nts_in_dc g pre t d rf x : In x (get_nts g pre t d rf) -> in_dc d x = true.
  Proof.
    unfold Replicas.get_nts. destruct rf as [|rf']; [intros []|].
    destruct (get_pre_nts g pre t d (S rf')) as [l|] eqn:E; [|apply nts_replicas_in_dc].
    unfold Replicas.get_pre_nts in E. destruct (pre_ring_rf dcf rackf g pre d (S rf')) as [m|]; [|discriminate].
    unfold pre_lookup in E. destruct (get_entry_for_token (dc_ring g d) t) as [e|]; cbn [option_map] in E; [|discriminate].
    injection E as <-. intros H. apply In_firstn in H. now apply nts_replicas_in_dc in H.
  Qed.

  Lemma ring_dcs_In g d : In d (ring_dcs g) <-> exists e, In e g /\ dcf (snd e) = Some d.
  Proof.
    unfold Replicas.ring_dcs. rewrite uniq_In, filter_map_In. split.
    - intros (x & Hx & E). apply in_map_iff in Hx. destruct Hx as (e & <- & He). eauto.
    - intros (e & He & E). exists (snd e). split; [now apply in_map|assumption].
  Qed.

  Lemma dc_ring_nil g d : ~ In d (ring_dcs g) -> dc_ring g d = [].
  Proof.
    intros H. destruct (dc_ring g d) as [|e r] eqn:E; [reflexivity|]. exfalso. apply H.
    assert (He : In e (dc_ring g d)) by (rewrite E; now left). apply dc_ring_In in He. destruct He as [He Hd].
    apply ring_dcs_In. exists e. split; [assumption|]. unfold Replicas.in_dc in Hd.
    destruct (dcf (snd e)); [|discriminate]. apply N.eqb_eq in Hd. now subst.
  Qed.

  Lemma nts_replicas_absent g t d rf : dc_ring g d = [] -> nts_replicas g t d rf = [].
  Proof. intros E. unfold Replicas.nts_replicas. rewrite E. reflexivity. Qed.

  Lemma get_nts_absent g pre t d rf : ~ In d (ring_dcs g) -> get_nts g pre t d rf = [].
  Proof.
    intros H. pose proof (dc_ring_nil g d H) as E. unfold Replicas.get_nts. destruct rf as [|rf']; [reflexivity|].
    unfold Replicas.get_pre_nts, pre_ring_rf. rewrite E.
    destruct (dc_rfs pre d); now apply nts_replicas_absent.
  Qed.

  Lemma filter_flat_map_dc (F : N -> list N) dcs d :
    NoDup dcs -> (forall d' x, In x (F d') -> in_dc d' x = true) ->
    filter (in_dc d) (flat_map F dcs) = if mem d dcs then F d else [].
  Proof.
    intros Hn HF. induction Hn as [|d' r Hd' Hr IH]; [reflexivity|]. cbn [flat_map]. rewrite filter_app, IH.
    unfold mem. cbn [mem_by existsb]. destruct (N.eqb d d') eqn:E; cbn [orb].
    - apply N.eqb_eq in E. subst d'.
      assert (Hm : mem d r = false) by (now apply mem_false). unfold mem in Hm. rewrite Hm, app_nil_r.
      apply filter_id_all. intros x Hx. now apply HF.
    - rewrite filter_nil_all; [reflexivity|]. intros x Hx. destruct (in_dc d x) eqn:Ed; [|reflexivity].
      pose proof (in_dc_unique _ _ _ Ed (HF _ _ Hx)). subst. rewrite N.eqb_refl in E. discriminate.
  Qed.

  Lemma dc_filter g pre t s d :
    rs_iter dcf rackf g pre t (replicas_for dcf rackf g pre t s (Some d)) =
    filter (in_dc d) (rs_iter dcf rackf g pre t (replicas_for dcf rackf g pre t s None)).
  Proof.
    destruct s as [rf|m| |]; cbn [replicas_for rs_iter]; try reflexivity.
    rewrite (filter_flat_map_dc (fun d' => get_nts g pre t d' (rf_or0 m d')) (ring_dcs g) d (uniq_NoDup _)
               (fun d' x => get_nts_in_dc g pre t d' _ x)).
    destruct (mem d (ring_dcs g)) eqn:Em.
    - unfold rf_or0. destruct (rf_lookup m d); reflexivity.
    - apply mem_false in Em. destruct (rf_lookup m d); cbn [rs_iter]; [now apply get_nts_absent|reflexivity].
  Qed.

  (* ============================================================= sizes *)
  (* number of racks in [w] not yet in [used] *)
  Fixpoint newc (used : list (option N)) (w : list N) : nat :=
    match w with
    | [] => 0%nat
    | n :: r => if mem_by oeqb (rackf n) used then newc used r else S (newc (rackf n :: used) r)
    end.

  Lemma newc_uniq used w : newc used w = List.length (uniq_aux oeqb used (map rackf w)).
  Proof.
    revert used. induction w as [|n r IH]; intros used; [reflexivity|]. cbn [newc map uniq_aux].
    destruct (mem_by oeqb (rackf n) used); [apply IH|]. cbn [List.length]. now rewrite IH.
  Qed.

  Lemma newc_le used w : (newc used w <= List.length w)%nat.
  Proof.
    revert used. induction w as [|n r IH]; intros used; [cbn; lia|]. cbn [newc List.length].
    destruct (mem_by oeqb (rackf n) used); [specialize (IH used)|specialize (IH (rackf n :: used))]; lia.
  Qed.

  Lemma nts_walk_length used reps left w :
    List.length (nts_walk used reps left w) =
    Nat.min left (newc used w + Nat.min reps (List.length w - newc used w))%nat.
  Proof.
    revert used reps left. induction w as [|n r IH]; intros used reps left; cbn [Replicas.nts_walk newc].
    - cbn. lia.
    - destruct left as [|left']; [reflexivity|].
      destruct (mem_by oeqb (rackf n) used) eqn:E; cbn [negb].
      + pose proof (newc_le used r). destruct reps as [|reps'].
        * rewrite IH. cbn [List.length]. lia.
        * cbn [List.length]. rewrite IH. lia.
      + cbn [List.length]. rewrite IH. pose proof (newc_le (rackf n :: used) r). lia.
  Qed.

  Lemma nts_walk_all used reps left w :
    (List.length w <= left)%nat -> (List.length w - newc used w <= reps)%nat -> nts_walk used reps left w = w.
  Proof.
    revert used reps left. induction w as [|n r IH]; intros used reps left H1 H2; [reflexivity|].
    cbn [Replicas.nts_walk newc List.length] in *. destruct left as [|left']; [lia|].
    destruct (mem_by oeqb (rackf n) used) eqn:E; cbn [negb].
    - pose proof (newc_le used r). destruct reps as [|reps']; [lia|]. f_equal. apply IH; lia.
    - f_equal. apply IH; lia.
  Qed.

  Lemma walk_length r t : List.length (uniq (ring_range r t)) = List.length (unique_nodes r).
  Proof. apply (uniq_by_length_ext N.eqb Neqb_eq). intros y. apply ring_range_In. Qed.

  Lemma walk_newc r t : newc [] (uniq (ring_range r t)) = rack_count r.
  Proof.
    rewrite newc_uniq. unfold Replicas.rack_count. apply (uniq_by_length_ext oeqb oeqb_eq).
    intros y. rewrite !in_map_iff. split.
    - intros (x & <- & Hx). rewrite uniq_In, ring_range_In, in_map_iff in Hx. destruct Hx as (e & <- & He). eauto.
    - intros (e & <- & He). exists (snd e). split; [reflexivity|]. rewrite uniq_In, ring_range_In. now apply in_map.
  Qed.

  Lemma nts_len g t d rf : List.length (nts_replicas g t d rf) = Nat.min rf (nodes_in_dc dcf g d).
  Proof.
    unfold Replicas.nts_replicas, nodes_in_dc. rewrite nts_walk_length, walk_length, walk_newc.
    pose proof (rack_count_le_nodes (dc_ring g d)). lia.
  Qed.

  Lemma nts_sat g t d rf : (nodes_in_dc dcf g d <= rf)%nat ->
    nts_replicas g t d rf = uniq (ring_range (dc_ring g d) t).
  Proof.
    unfold nodes_in_dc. intros H. unfold Replicas.nts_replicas. apply nts_walk_all.
    - rewrite walk_length. lia.
    - rewrite walk_length, walk_newc. pose proof (rack_count_le_nodes (dc_ring g d)). lia.
  Qed.

  Lemma nts_min g t d rf : nts_replicas g t d (Nat.min rf (nodes_in_dc dcf g d)) = nts_replicas g t d rf.
  Proof.
    destruct (Nat.le_ge_cases rf (nodes_in_dc dcf g d)) as [H|H].
    - now rewrite Nat.min_l.
    - rewrite Nat.min_r by assumption. rewrite !nts_sat by lia. reflexivity.
  Qed.

  (* ============================================================= views *)
  Lemma list_sum_perm l l' : Permutation l l' -> list_sum l = list_sum l'.
  Proof. unfold list_sum. induction 1; cbn [fold_right]; lia. Qed.

  Lemma list_sum_cons x l : list_sum (x :: l) = (x + list_sum l)%nat.
  Proof. reflexivity. Qed.

  Lemma list_sum_filter_zero (f : N -> nat) (p : N -> bool) l :
    (forall d, In d l -> p d = false -> f d = 0%nat) ->
    list_sum (map f l) = list_sum (map f (filter p l)).
  Proof.
    induction l as [|x r IH]; intros H; [reflexivity|]. cbn [map filter].
    rewrite list_sum_cons, IH by (intros d Hd; apply H; now right).
    destruct (p x) eqn:E; [cbn [map]; now rewrite list_sum_cons|]. rewrite (H x (or_introl eq_refl) E). reflexivity.
  Qed.

  Lemma sum_vanish (f : N -> nat) l1 l2 : NoDup l1 -> NoDup l2 ->
    (forall d, In d l1 -> ~ In d l2 -> f d = 0%nat) ->
    (forall d, In d l2 -> ~ In d l1 -> f d = 0%nat) ->
    list_sum (map f l1) = list_sum (map f l2).
  Proof.
    intros N1 N2 H1 H2.
    rewrite (list_sum_filter_zero f (fun d => mem d l2) l1), (list_sum_filter_zero f (fun d => mem d l1) l2).
    - apply list_sum_perm, Permutation_map, NoDup_Permutation; try (apply NoDup_filter; assumption).
      intros d. rewrite !filter_In, !mem_In. tauto.
    - intros d Hd E. apply H2; [assumption|now apply mem_false].
    - intros d Hd E. apply H1; [assumption|now apply mem_false].
  Qed.

  Lemma rf_lookup_In m d rf : NoDup (map fst m) -> In (d, rf) m -> rf_lookup m d = Some rf.
  Proof.
    induction m as [|[d' rf'] r IH]; intros Hn Hi; [destruct Hi|]. cbn [rf_lookup].
    cbn [map fst] in Hn. inversion Hn as [|? ? Hd' Hn']; subst.
    destruct Hi as [[= -> ->]|Hi]; [now rewrite N.eqb_refl|].
    destruct (N.eqb d' d) eqn:E; [|auto]. apply N.eqb_eq in E. subst. exfalso. apply Hd'.
    apply in_map_iff. exists (d, rf). split; [reflexivity|assumption].
  Qed.

  Lemma rf_lookup_Some m d rf : rf_lookup m d = Some rf -> In (d, rf) m.
  Proof.
    induction m as [|[d' rf'] r IH]; cbn [rf_lookup]; [discriminate|].
    destruct (N.eqb d' d) eqn:E; [|intros H; right; auto]. apply N.eqb_eq in E. subst. intros [= ->]. now left.
  Qed.

  Lemma rf_lookup_None m d : rf_lookup m d = None -> ~ In d (map fst m).
  Proof.
    induction m as [|[d' rf'] r IH]; cbn [rf_lookup map fst]; [intros _ []|].
    destruct (N.eqb d' d) eqn:E; [discriminate|]. intros H [C|C]; [subst; rewrite N.eqb_refl in E; discriminate|now apply IH].
  Qed.

  Section Views.
    Variables (g : ring N) (pre : list strategy) (t : Z).

    Let F (m : list (N * nat)) (d : N) := get_nts g pre t d (rf_or0 m d).

    Lemma get_nts_eq d rf : get_nts g pre t d rf = nts_replicas g t d rf.
    Proof. apply precomputed_nts. Qed.

    Lemma F_length m d : List.length (F m d) = Nat.min (rf_or0 m d) (nodes_in_dc dcf g d).
    Proof. unfold F. rewrite get_nts_eq. apply nts_len. Qed.

    Lemma nodes_in_dc_absent d : ~ In d (ring_dcs g) -> nodes_in_dc dcf g d = 0%nat.
    Proof. intros H. unfold nodes_in_dc. now rewrite (dc_ring_nil g d H). Qed.

    Lemma flat_map_length (G : N -> list N) l : List.length (flat_map G l) = list_sum (map (fun d => List.length (G d)) l).
    Proof. induction l as [|x r IH]; [reflexivity|]. cbn [flat_map map]. now rewrite list_sum_cons, app_length, IH. Qed.

    Lemma len_chained m : NoDup (map fst m) ->
      rs_len dcf g (RChained m) = List.length (rs_iter dcf rackf g pre t (RChained m)).
    Proof.
      intros Hm. cbn [rs_len rs_iter]. fold (F m). rewrite flat_map_length.
      rewrite (map_ext _ (fun d => Nat.min (rf_or0 m d) (nodes_in_dc dcf g d)) (F_length m)).
      transitivity (list_sum (map (fun d => Nat.min (rf_or0 m d) (nodes_in_dc dcf g d)) (map fst m))).
      - rewrite map_map.
        assert (G : forall m', (forall e, In e m' -> In e m) ->
          fold_right (fun e acc => (Nat.min (snd e) (nodes_in_dc dcf g (fst e)) + acc)%nat) 0%nat m' =
          list_sum (map (fun x => Nat.min (rf_or0 m (fst x)) (nodes_in_dc dcf g (fst x))) m')).
        { induction m' as [|[d rf] r IH]; intros Hin; [reflexivity|]. cbn [fold_right map fst snd].
          rewrite list_sum_cons, IH by (intros e He; apply Hin; now right).
          assert (E : rf_or0 m d = rf) by (unfold rf_or0; now rewrite (rf_lookup_In m d rf Hm (Hin _ (or_introl eq_refl)))).
          now rewrite E. }
        apply G. auto.
      - apply sum_vanish; [assumption|apply uniq_NoDup| |].
        + intros d _ Hn. rewrite (nodes_in_dc_absent d Hn). lia.
        + intros d _ Hn. unfold rf_or0. destruct (rf_lookup m d) as [rf|] eqn:E; [|reflexivity].
          exfalso. apply Hn. apply in_map_iff. exists (d, rf). split; [reflexivity|now apply rf_lookup_Some].
    Qed.

    Lemma nth_chained_spec m rest cur k :
      nth_chained dcf rackf g pre t m rest cur k = nth_error (cur ++ flat_map (F m) rest) k.
    Proof.
      revert cur k. induction rest as [|d rest IH]; intros cur k; cbn [nth_chained flat_map].
      - rewrite app_nil_r. destruct (k <? List.length cur)%nat eqn:E; [reflexivity|].
        symmetry. apply nth_error_None. apply Nat.ltb_ge in E. lia.
      - destruct (k <? List.length cur)%nat eqn:E.
        + apply Nat.ltb_lt in E. now rewrite nth_error_app1.
        + apply Nat.ltb_ge in E. rewrite IH. fold (F m d). now rewrite (nth_error_app2 cur) by assumption.
    Qed.

    Lemma nth_view s k : rs_nth dcf rackf g pre t s k = nth_error (rs_iter dcf rackf g pre t s) k.
    Proof.
      destruct s as [l|l d|m]; cbn [rs_nth rs_iter].
      - destruct (List.length l <=? k)%nat eqn:E; [|reflexivity]. symmetry. apply nth_error_None. now apply Nat.leb_le.
      - reflexivity.
      - destruct (ring_dcs g) as [|d rest]; [now destruct k|]. rewrite nth_chained_spec. reflexivity.
    Qed.

    Lemma choose_chained_spec m dcs k :
      choose_chained dcf rackf g pre t m dcs k = nth_error (flat_map (F m) dcs) k.
    Proof.
      revert k. induction dcs as [|d rest IH]; intros k; cbn [choose_chained flat_map]; [now destruct k|].
      rewrite !get_nts_eq, nts_min, <- get_nts_eq. fold (F m d). rewrite <- F_length.
      destruct (k <? List.length (F m d))%nat eqn:E.
      - apply Nat.ltb_lt in E. now rewrite nth_error_app1.
      - apply Nat.ltb_ge in E. rewrite IH. now rewrite nth_error_app2.
    Qed.

    Lemma choose_view s k : (forall m, s = RChained m -> NoDup (map fst m)) ->
      rs_choose dcf rackf g pre t s k = nth_error (rs_iter dcf rackf g pre t s) k.
    Proof.
      intros Hm. unfold rs_choose. destruct (rs_len dcf g s =? 0)%nat eqn:E.
      - apply Nat.eqb_eq in E. symmetry. apply nth_error_None.
        destruct s as [l|l d|m].
        + cbn [rs_len rs_iter] in *. lia.
        + cbn [rs_len rs_iter] in *. lia.
        + rewrite (len_chained m (Hm m eq_refl)) in E. lia.
      - destruct s as [l|l d|m]; cbn [rs_iter]; try reflexivity. apply choose_chained_spec.
    Qed.
  End Views.

  (* ============================================================= ring-ordered view *)
  Lemma filter_filter_and {A} (p q : A -> bool) u : filter p (filter q u) = filter (fun x => q x && p x) u.
  Proof.
    induction u as [|x r IH]; [reflexivity|]. cbn [filter]. destruct (q x); cbn [andb filter]; [|assumption].
    destruct (p x); now rewrite IH.
  Qed.

  Lemma NoDup_app_disjoint {A} (a b : list A) :
    NoDup a -> NoDup b -> (forall x, In x a -> ~ In x b) -> NoDup (a ++ b).
  Proof.
    induction 1 as [|x r Hx Hr IH]; intros Hb Hd; [assumption|]. cbn [app]. constructor.
    - rewrite in_app_iff. intros [C|C]; [contradiction|]. apply (Hd x); [now left|assumption].
    - apply IH; [assumption|]. intros y Hy. apply Hd. now right.
  Qed.

  Lemma find_split {A} (f : A -> bool) l p : find f l = Some p ->
    exists l1 l2, l = l1 ++ p :: l2 /\ (forall x, In x l1 -> f x = false) /\ f p = true.
  Proof.
    induction l as [|x r IH]; cbn [find]; [discriminate|]. destruct (f x) eqn:E.
    - intros [= ->]. exists [], r. split; [reflexivity|]. split; [intros ? []|assumption].
    - intros H. destruct (IH H) as (l1 & l2 & -> & H1 & H2). exists (x :: l1), l2.
      split; [reflexivity|]. split; [|assumption]. intros y [<-|Hy]; auto.
  Qed.

  Lemma order_by_walk_fst all W : NoDup all ->
    fst (order_by_walk all W) = filter (fun x => mem x all) (uniq W).
  Proof.
    revert all. induction W as [|n r IH]; intros all Hn; cbn [order_by_walk]; [reflexivity|].
    destruct all as [|a all'].
    - cbn [fst]. symmetry. apply filter_nil_all. reflexivity.
    - remember (a :: all') as al eqn:Ea.
      unfold uniq, uniq_by. cbn [uniq_aux mem_by existsb]. rewrite (uniq_aux_filter N.eqb Neqb_eq [n] r).
      fold (uniq r). cbn [filter]. destruct (mem n al) eqn:Em.
      + destruct (order_by_walk (remove_by N.eqb n al) r) as [o left] eqn:Eo. cbn [fst]. f_equal.
        pose proof (IH (remove_by N.eqb n al) (remove_by_NoDup N.eqb Neqb_eq n al Hn)) as IH'.
        rewrite Eo in IH'. cbn [fst] in IH'. rewrite IH', filter_filter_and. apply filter_ext. intros x.
        apply Bool.eq_iff_eq_true. rewrite andb_true_iff, negb_true_iff, !mem_In, (remove_by_In N.eqb Neqb_eq).
        cbn [mem_by existsb]. rewrite orb_false_r. rewrite N.eqb_neq. tauto.
      + rewrite IH by assumption. rewrite filter_filter_and. apply filter_ext_in. intros x Hx.
        cbn [mem_by existsb]. rewrite orb_false_r. destruct (N.eqb x n) eqn:E; [|reflexivity].
        apply N.eqb_eq in E. subst x. cbn [negb andb]. now rewrite Em.
  Qed.

  Lemma order_by_walk_snd all W : (forall x, In x all -> In x W) -> snd (order_by_walk all W) = [].
  Proof.
    revert all. induction W as [|n r IH]; intros all Hs; cbn [order_by_walk].
    - destruct all as [|a all']; [reflexivity|]. destruct (Hs a (or_introl eq_refl)).
    - destruct all as [|a all']; [reflexivity|]. remember (a :: all') as al eqn:Ea.
      destruct (mem n al) eqn:Em.
      + destruct (order_by_walk (remove_by N.eqb n al) r) as [o left] eqn:Eo. cbn [snd].
        pose proof (IH (remove_by N.eqb n al)) as IH'. rewrite Eo in IH'. apply IH'.
        intros x Hx. apply (remove_by_In N.eqb Neqb_eq) in Hx. destruct Hx as [Hx Hne].
        destruct (Hs x Hx) as [->|]; [contradiction|assumption].
      + apply IH. intros x Hx. destruct (Hs x Hx) as [<-|]; [|assumption].
        apply mem_false in Em. contradiction.
  Qed.

  Lemma nts_replicas_in_ring g t d rf x : In x (nts_replicas g t d rf) -> In x (map snd g).
  Proof.
    unfold Replicas.nts_replicas. intros H.
    eapply subseq_In in H; [|apply nts_walk_subseq].
    rewrite uniq_In, ring_range_In, in_map_iff in H. destruct H as (e & <- & He).
    apply dc_ring_In in He. apply in_map. tauto.
  Qed.

  Lemma ring_range_dc g t d : sorted_weak g ->
    ring_range (dc_ring g d) t = filter (in_dc d) (ring_range g t).
  Proof.
    intros Hs. rewrite dc_ring_sorted by assumption. unfold ring_range, dcpos.
    rewrite ring_range_full_clockwise by now apply sorted_weak_filter.
    rewrite <- clockwise_filter, map_snd_filter. now rewrite ring_range_full_clockwise.
  Qed.

  Section Ordered.
    Variables (g : ring N) (pre : list strategy) (t : Z).
    Hypothesis Hs : sorted_weak g.
    Let W := ring_range g t.
    Let U := uniq W.
    Let F (m : list (N * nat)) (d : N) := get_nts g pre t d (rf_or0 m d).

    Lemma U_NoDup : NoDup U.
    Proof. apply uniq_NoDup. Qed.

    Lemma simple_subseq rf : subseq (get_simple g pre t rf) U.
    Proof. rewrite precomputed_simple, simple_replicas_firstn by assumption. apply subseq_firstn. Qed.

    Lemma nts_subseq d rf : subseq (get_nts g pre t d rf) U.
    Proof.
      rewrite (get_nts_eq g pre t). unfold Replicas.nts_replicas.
      eapply subseq_trans; [apply nts_walk_subseq|]. rewrite ring_range_dc by assumption.
      rewrite uniq_filter_comm. apply subseq_filter.
    Qed.

    Lemma F_has m d x : In x (F m d) ->
      has_replicas dcf m x = true /\ In x W /\ dcf x = Some d /\ (0 < rf_or0 m d)%nat.
    Proof.
      unfold F. intros H. pose proof (get_nts_in_dc _ _ _ _ _ _ H) as Hdc.
      assert (Hrf : (0 < rf_or0 m d)%nat).
      { destruct (rf_or0 m d); [destruct H|lia]. }
      assert (Hx : dcf x = Some d).
      { unfold Replicas.in_dc in Hdc. destruct (dcf x); [|discriminate]. apply N.eqb_eq in Hdc. now subst. }
      split; [|split; [|split; assumption]].
      - unfold has_replicas. rewrite Hx. unfold rf_or0 in Hrf. destruct (rf_lookup m d); [now apply Nat.ltb_lt|lia].
      - apply ring_range_In. rewrite (get_nts_eq g pre t) in H. now apply nts_replicas_in_ring in H.
    Qed.

    Lemma iter_chained_NoDup m : NoDup (flat_map (F m) (ring_dcs g)).
    Proof.
      assert (G : forall dcs, NoDup dcs -> NoDup (flat_map (F m) dcs)).
      { induction 1 as [|d r Hdr Hr IH]; [constructor|]. cbn [flat_map]. apply NoDup_app_disjoint.
        - apply (subseq_NoDup _ U (nts_subseq d _) U_NoDup).
        - assumption.
        - intros x Hx C. apply in_flat_map in C. destruct C as (d' & Hd' & Hx').
          apply F_has in Hx, Hx'. destruct Hx as (_ & _ & E1 & _), Hx' as (_ & _ & E2 & _). congruence. }
      apply G, uniq_NoDup.
    Qed.

    Lemma ordered_chained m : NoDup (map fst m) ->
      ordered_nts dcf rackf g pre t m =
      (filter (fun x => mem x (flat_map (F m) (ring_dcs g))) U, []).
    Proof.
      intros Hm. set (S := flat_map (F m) (ring_dcs g)).
      assert (HS : forall x, In x S -> has_replicas dcf m x = true /\ In x W).
      { intros x Hx. apply in_flat_map in Hx. destruct Hx as (d & _ & Hx). apply F_has in Hx. tauto. }
      set (all := uniq (flat_map (fun e => get_nts g pre t (fst e) (snd e)) m)).
      assert (Hall : forall x, In x all <-> In x S).
      { intros x. unfold all, S. rewrite uniq_In, !in_flat_map. split.
        - intros ([d rf] & He & Hx). cbn [fst snd] in Hx. exists d.
          assert (E : rf_or0 m d = rf) by (unfold rf_or0; now rewrite (rf_lookup_In m d rf Hm He)).
          unfold F. rewrite E. split; [|assumption].
          destruct (in_dec N.eq_dec d (ring_dcs g)) as [|Hn]; [assumption|].
          rewrite (get_nts_absent _ _ _ _ _ Hn) in Hx. destruct Hx.
        - intros (d & Hdd & Hx). pose proof (F_has m d x Hx) as (_ & _ & _ & Hrf). unfold F in Hx.
          unfold rf_or0 in *. destruct (rf_lookup m d) as [rf|] eqn:E; [|lia].
          exists (d, rf). split; [now apply rf_lookup_Some|assumption]. }
      unfold ordered_nts. fold W. fold all.
      destruct (find (has_replicas dcf m) W) as [p|] eqn:Ef.
      - destruct (find_split _ _ _ Ef) as (W1 & W2 & EW & HW1 & Hp).
        destruct (order_by_walk (remove_by N.eqb p all) W) as [o left] eqn:Eo.
        pose proof (order_by_walk_fst (remove_by N.eqb p all) W
                      (remove_by_NoDup N.eqb Neqb_eq p all (uniq_NoDup _))) as E1.
        assert (E2 : snd (order_by_walk (remove_by N.eqb p all) W) = []).
        { apply order_by_walk_snd. intros x Hx. apply (remove_by_In N.eqb Neqb_eq) in Hx.
          apply HS, Hall. tauto. }
        rewrite Eo in E1, E2. cbn [fst snd] in E1, E2. subst o left. f_equal.
        (* the picked node is a replica: it heads its datacenter's walk *)
        assert (HpS : In p S).
        { unfold has_replicas in Hp. destruct (dcf p) as [d|] eqn:Edp; [|discriminate].
          destruct (rf_lookup m d) as [rf|] eqn:Erf; [|discriminate]. apply Nat.ltb_lt in Hp.
          assert (HpW : In p W) by (rewrite EW; apply in_or_app; right; now left).
          apply in_flat_map. exists d. split.
          - apply ring_dcs_In. apply ring_range_In, in_map_iff in HpW. destruct HpW as (e & <- & He). eauto.
          - unfold F, rf_or0. rewrite Erf, (get_nts_eq g pre t). unfold Replicas.nts_replicas.
            assert (Ewalk : exists Y, ring_range (dc_ring g d) t = p :: Y).
            { rewrite ring_range_dc by assumption. fold W. rewrite EW, filter_app. cbn [filter].
              assert (Ein : in_dc d p = true) by (unfold Replicas.in_dc; rewrite Edp; apply N.eqb_refl).
              rewrite Ein. rewrite filter_nil_all; [eexists; reflexivity|].
              intros x Hx. destruct (in_dc d x) eqn:Ex; [|reflexivity].
              specialize (HW1 x Hx). unfold has_replicas in HW1. unfold Replicas.in_dc in Ex.
              destruct (dcf x) as [d'|]; [|discriminate]. apply N.eqb_eq in Ex. subst d'.
              rewrite Erf in HW1. apply Nat.ltb_ge in HW1. lia. }
            destruct Ewalk as (Y & EY).
            pose proof (walk_length (dc_ring g d) t) as Hlen. rewrite EY in *.
            unfold uniq, uniq_by in *. cbn [uniq_aux mem_by existsb] in *. cbn [List.length] in Hlen.
            destruct (Nat.min rf (List.length (unique_nodes (dc_ring g d)))) as [|k] eqn:Ek; [lia|].
            cbn [Replicas.nts_walk mem_by existsb negb]. now left. }
        assert (HpW1 : ~ In p W1) by (intros C; specialize (HW1 p C); congruence).
        assert (EU : U = uniq W1 ++ p :: filter (fun x => negb (mem x W1)) (uniq_aux N.eqb [p] W2)).
        { unfold U. rewrite EW. unfold uniq. rewrite (uniq_by_app N.eqb Neqb_eq). f_equal.
          unfold uniq_by at 1. cbn [uniq_aux mem_by existsb filter].
          assert (Em : mem_by N.eqb p W1 = false) by now apply mem_false. rewrite Em. reflexivity. }
        change (uniq W) with U. rewrite EU, !filter_app. cbn [filter].
        assert (EpS : mem p S = true) by now apply mem_In. rewrite EpS.
        assert (Epr : mem p (remove_by N.eqb p all) = false).
        { apply mem_false. rewrite (remove_by_In N.eqb Neqb_eq). tauto. }
        rewrite Epr.
        rewrite (filter_nil_all (fun x => mem x (remove_by N.eqb p all)) (uniq W1)),
                (filter_nil_all (fun x => mem x S) (uniq W1)).
        + cbn [app]. f_equal. apply filter_ext_in. intros x Hx.
          apply filter_In in Hx. destruct Hx as [Hx _]. apply (uniq_aux_In N.eqb Neqb_eq) in Hx.
          destruct Hx as [_ Hxp]. apply Bool.eq_iff_eq_true.
          rewrite !mem_In, (remove_by_In N.eqb Neqb_eq), Hall. split; [tauto|]. intros H. split; [assumption|].
          intros ->. apply Hxp. now left.
        + intros x Hx. apply mem_false. intros C. rewrite uniq_In in Hx. apply HS in C. specialize (HW1 x Hx). destruct C. congruence.
        + intros x Hx. apply mem_false. intros C. apply (remove_by_In N.eqb Neqb_eq) in C. destruct C as [C _].
          rewrite uniq_In in Hx. apply Hall, HS in C. specialize (HW1 x Hx). destruct C. congruence.
      - (* no node on the ring belongs to a datacenter with replicas: the set is empty *)
        f_equal. symmetry. apply filter_nil_all. intros x _. apply mem_false. intros C.
        apply HS in C. destruct C as [C1 C2]. pose proof (find_none _ _ Ef x C2). congruence.
    Qed.

    Definition nts_keys_ok (s : strategy) : Prop :=
      match s with NTS m => NoDup (map fst m) | _ => True end.

    Lemma iter_subseq_or_chained s dc :
      match replicas_for dcf rackf g pre t s dc with
      | RChained _ => True
      | r => subseq (rs_iter dcf rackf g pre t r) U
      end.
    Proof.
      destruct s as [rf|m| |]; destruct dc as [d|]; cbn [replicas_for rs_iter]; trivial;
        try apply simple_subseq;
        try (eapply subseq_trans; [apply subseq_filter|apply simple_subseq]).
      destruct (rf_lookup m d); cbn [rs_iter]; [apply nts_subseq|constructor].
    Qed.

    Lemma ordered_view s dc : nts_keys_ok s ->
      rs_ordered dcf rackf g pre t (replicas_for dcf rackf g pre t s dc) =
      (filter (fun x => mem x (rs_iter dcf rackf g pre t (replicas_for dcf rackf g pre t s dc))) U, []).
    Proof.
      intros Hk. pose proof (iter_subseq_or_chained s dc) as H.
      destruct (replicas_for dcf rackf g pre t s dc) as [l|l d|m] eqn:E.
      - cbn [rs_ordered]. f_equal. symmetry. apply subseq_filter_mem; [assumption|apply U_NoDup].
      - cbn [rs_ordered]. f_equal. symmetry. apply subseq_filter_mem; [assumption|apply U_NoDup].
      - cbn [rs_ordered rs_iter]. apply ordered_chained.
        destruct s as [rf|m'| |]; destruct dc as [d|]; cbn [replicas_for] in E; try discriminate.
        + destruct (rf_lookup m' d); discriminate.
        + injection E as <-. exact Hk.
    Qed.

    Lemma iter_NoDup s dc : NoDup (rs_iter dcf rackf g pre t (replicas_for dcf rackf g pre t s dc)).
    Proof.
      pose proof (iter_subseq_or_chained s dc) as H.
      destruct (replicas_for dcf rackf g pre t s dc) as [l|l d|m] eqn:E.
      - apply (subseq_NoDup _ U H U_NoDup).
      - apply (subseq_NoDup _ U H U_NoDup).
      - cbn [rs_iter]. apply iter_chained_NoDup.
    Qed.

    Lemma iter_in_walk s dc x :
      In x (rs_iter dcf rackf g pre t (replicas_for dcf rackf g pre t s dc)) -> In x U.
    Proof.
      pose proof (iter_subseq_or_chained s dc) as H.
      destruct (replicas_for dcf rackf g pre t s dc) as [l|l d|m] eqn:E.
      - apply (subseq_In _ _ _ H).
      - apply (subseq_In _ _ _ H).
      - cbn [rs_iter]. intros Hx. apply in_flat_map in Hx. destruct Hx as (d & _ & Hx).
        apply F_has in Hx. apply uniq_In. tauto.
    Qed.

    Lemma ordered_perm s dc : nts_keys_ok s ->
      Permutation (fst (rs_ordered dcf rackf g pre t (replicas_for dcf rackf g pre t s dc)))
                  (rs_iter dcf rackf g pre t (replicas_for dcf rackf g pre t s dc)).
    Proof.
      intros Hk. rewrite (ordered_view s dc Hk). cbn [fst].
      apply NoDup_Permutation; [apply NoDup_filter, U_NoDup|apply iter_NoDup|].
      intros x. rewrite filter_In, mem_In. split; [tauto|]. intros H. split; [|assumption].
      now apply (iter_in_walk s dc).
    Qed.
  End Ordered.

  (* ============================================================= interleaved next() / nth(n) *)
  Lemma nth_error_skipn_add {A} (l : list A) i n : nth_error (skipn i l) n = nth_error l (i + n).
  Proof. revert i. induction l as [|x r IH]; intros [|i]; cbn; try reflexivity; [now destruct n|apply IH]. Qed.

  Lemma skipn_cons_S {A} (l : list A) i x r : skipn i l = x :: r -> skipn (S i) l = r.
  Proof.
    revert i. induction l as [|y q IH]; intros [|i] H; cbn in *; try discriminate.
    - now injection H as _ <-.
    - now apply IH.
  Qed.

  Lemma skipn_skipn {A} (l : list A) a b : skipn a (skipn b l) = skipn (a + b) l.
  Proof.
    revert l. induction b as [|b IH]; intros l; [now rewrite Nat.add_0_r|].
    destruct l as [|x r]; [now rewrite !skipn_nil|]. rewrite Nat.add_succ_r. cbn [skipn]. apply IH.
  Qed.

  Lemma hd_error_nth {A} (l : list A) i : hd_error (skipn i l) = nth_error l i.
  Proof. rewrite <- (Nat.add_0_r i) at 2. rewrite <- nth_error_skipn_add. now destruct (skipn i l). Qed.

  Lemma tl_skipn {A} (l : list A) i : tl (skipn i l) = skipn (S i) l.
  Proof.
    destruct (skipn i l) as [|x r] eqn:E; cbn [tl].
    - symmetry. apply skipn_all2. assert (List.length (skipn i l) = 0%nat) by now rewrite E.
      rewrite skipn_length in H. lia.
    - symmetry. eapply skipn_cons_S; eassumption.
  Qed.

  Lemma nth_error_Some_lt' {A} (l : list A) k x : nth_error l k = Some x -> (k < List.length l)%nat.
  Proof. intros H. apply nth_error_Some. congruence. Qed.

  Lemma filter_length_le {A} (p : A -> bool) l : (List.length (filter p l) <= List.length l)%nat.
  Proof. induction l as [|x r IH]; cbn [filter List.length]; [lia|]. destruct (p x); cbn [List.length]; lia. Qed.

  Section IterOps.
    Variables (g : ring N) (pre : list strategy) (t : Z).
    Let F (m : list (N * nat)) (d : N) := get_nts g pre t d (rf_or0 m d).
    Local Notation it_next := (it_next dcf rackf g pre t).
    Local Notation it_nth := (it_nth dcf rackf g pre t).
    Local Notation chain_next := (chain_next dcf rackf g pre t).
    Local Notation chain_nth := (chain_nth dcf rackf g pre t).
    Local Notation next_times := (next_times dcf rackf g pre t).

    (* what the iterator still has to yield *)
    Definition alpha (st : istate) : list N :=
      match st with
      | IPlain l idx => skipn idx l
      | IFiltered l d idx => filter (in_dc d) (skipn idx l)
      | IChained m cur ridx rest => skipn ridx cur ++ flat_map (F m) rest
      end.

    Lemma filt_next_spec d l : forall suffix idx o idx', skipn idx l = suffix ->
      filt_next dcf d suffix idx = (o, idx') ->
      o = hd_error (filter (in_dc d) suffix) /\ filter (in_dc d) (skipn idx' l) = tl (filter (in_dc d) suffix).
    Proof.
      induction suffix as [|x r IH]; intros idx o idx' Hs H; cbn [filt_next filter] in *.
      - injection H as <- <-. rewrite Hs. split; reflexivity.
      - pose proof (skipn_cons_S l idx x r Hs) as Hs'. destruct (in_dc d x) eqn:E.
        + injection H as <- <-. rewrite Hs'. split; reflexivity.
        + now apply (IH (S idx)).
    Qed.

    Lemma chain_next_spec m : forall rest cur ridx o st',
      chain_next m cur ridx rest = (o, st') ->
      o = hd_error (skipn ridx cur ++ flat_map (F m) rest) /\
      alpha st' = tl (skipn ridx cur ++ flat_map (F m) rest).
    Proof.
      induction rest as [|d r IH]; intros cur ridx o st' H; cbn [Replicas.chain_next flat_map] in H |- *.
      - rewrite app_nil_r. rewrite <- hd_error_nth in H. destruct (skipn ridx cur) as [|x q] eqn:E; cbn [hd_error] in H.
        + injection H as <- <-. cbn [alpha flat_map]. rewrite E. split; reflexivity.
        + injection H as <- <-. cbn [alpha flat_map tl]. rewrite app_nil_r. split; [reflexivity|].
          eapply skipn_cons_S; eassumption.
      - rewrite <- hd_error_nth in H. destruct (skipn ridx cur) as [|x q] eqn:E; cbn [hd_error] in H.
        + cbn [app]. fold (F m d) in H. destruct (IH (F m d) 0%nat o st' H) as [H1 H2]. cbn [skipn] in H1, H2. tauto.
        + injection H as <- <-. cbn [alpha app hd_error tl flat_map]. split; [reflexivity|].
          now rewrite (skipn_cons_S cur ridx x q E).
    Qed.

    Lemma next_spec st o st' : it_next st = (o, st') ->
      o = hd_error (alpha st) /\ alpha st' = tl (alpha st).
    Proof.
      destruct st as [l idx|l d idx|m cur ridx rest]; cbn [Replicas.it_next alpha].
      - rewrite <- hd_error_nth. destruct (skipn idx l) as [|x q] eqn:E; cbn [hd_error]; intros H; injection H as <- <-; cbn [alpha tl].
        + rewrite E. split; reflexivity.
        + split; [reflexivity|]. eapply skipn_cons_S; eassumption.
      - destruct (filt_next dcf d (skipn idx l) idx) as [o1 idx1] eqn:E. intros H. injection H as <- <-.
        cbn [alpha]. now apply (filt_next_spec d l (skipn idx l) idx).
      - apply chain_next_spec.
    Qed.

    Lemma next_times_spec n : forall st o st', next_times n st = (o, st') ->
      o = nth_error (alpha st) n /\ alpha st' = skipn (S n) (alpha st).
    Proof.
      induction n as [|n IH]; intros st o st' H; cbn [Replicas.next_times] in H.
      - apply next_spec in H. destruct H as [-> ->]. split; [now destruct (alpha st)|now destruct (alpha st)].
      - destruct (it_next st) as [o1 st1] eqn:E. apply next_spec in E. destruct E as [-> E2].
        destruct (alpha st) as [|x q] eqn:Ea; cbn [hd_error] in H.
        + injection H as <- <-. rewrite E2. split; reflexivity.
        + cbn [tl] in E2. apply IH in H. rewrite E2 in H. exact H.
    Qed.

    Lemma chain_nth_spec m : forall rest cur ridx remaining o st',
      chain_nth m cur ridx rest remaining = (o, st') ->
      o = nth_error (skipn ridx cur ++ flat_map (F m) rest) remaining /\
      alpha st' = skipn (S remaining) (skipn ridx cur ++ flat_map (F m) rest).
    Proof.
      induction rest as [|d r IH]; intros cur ridx remaining o st' H; cbn [Replicas.chain_nth] in H;
        pose proof (skipn_length ridx cur) as Hlen;
        destruct (remaining <? List.length cur - ridx)%nat eqn:E.
      - apply Nat.ltb_lt in E. apply chain_next_spec in H. destruct H as [-> ->].
        rewrite !skipn_app, nth_error_app1 by lia. rewrite !skipn_skipn, nth_error_skipn_add.
        replace (S remaining - List.length (skipn ridx cur))%nat with 0%nat by lia.
        replace (remaining + ridx)%nat with (ridx + remaining)%nat by lia.
        replace (S remaining + ridx)%nat with (S (ridx + remaining)) by lia. rewrite skipn_O.
        destruct (skipn (ridx + remaining) cur) as [|x q] eqn:Es.
        { exfalso. assert (List.length (skipn (ridx + remaining) cur) = 0%nat) by now rewrite Es.
          rewrite skipn_length in H. lia. }
        rewrite <- hd_error_nth, Es. cbn [app hd_error tl]. split; [reflexivity|].
        now rewrite (skipn_cons_S cur _ x q Es).
      - apply Nat.ltb_ge in E. injection H as <- <-. cbn [alpha flat_map]. rewrite !app_nil_r.
        split; [symmetry; apply nth_error_None; lia|].
        rewrite skipn_all, skipn_all2 by (rewrite skipn_length; lia). reflexivity.
      - apply Nat.ltb_lt in E. apply chain_next_spec in H. destruct H as [-> ->].
        rewrite !skipn_app, nth_error_app1 by lia. rewrite !skipn_skipn, nth_error_skipn_add.
        replace (S remaining - List.length (skipn ridx cur))%nat with 0%nat by lia.
        replace (remaining + ridx)%nat with (ridx + remaining)%nat by lia.
        replace (S remaining + ridx)%nat with (S (ridx + remaining)) by lia. rewrite skipn_O.
        destruct (skipn (ridx + remaining) cur) as [|x q] eqn:Es.
        { exfalso. assert (List.length (skipn (ridx + remaining) cur) = 0%nat) by now rewrite Es.
          rewrite skipn_length in H. lia. }
        rewrite <- hd_error_nth, Es. cbn [app hd_error tl]. split; [reflexivity|].
        now rewrite (skipn_cons_S cur _ x q Es).
      - apply Nat.ltb_ge in E. fold (F m d) in H. apply IH in H. rewrite !skipn_O in H. destruct H as [-> ->].
        cbn [flat_map]. rewrite (nth_error_app2 (skipn ridx cur)) by lia. rewrite (skipn_app (S remaining) (skipn ridx cur)).
        rewrite (skipn_all2 (skipn ridx cur)) by lia. cbn [app]. rewrite Hlen.
        replace (S remaining - (List.length cur - ridx))%nat with (S (remaining - (List.length cur - ridx))) by lia.
        split; reflexivity.
    Qed.

    Lemma nth_spec n st o st' : it_nth n st = (o, st') ->
      o = nth_error (alpha st) n /\ alpha st' = skipn (S n) (alpha st).
    Proof.
      destruct st as [l idx|l d idx|m cur ridx rest]; cbn [Replicas.it_nth].
      - destruct (List.length l <=? idx + n)%nat eqn:E.
        + apply Nat.leb_le in E. intros H. injection H as <- <-. cbn [alpha].
          rewrite nth_error_skipn_add, skipn_skipn. split; [symmetry; apply nth_error_None; lia|].
          rewrite skipn_all, skipn_all2 by lia. reflexivity.
        + intros H. apply next_spec in H. cbn [alpha] in *. destruct H as [-> ->].
          rewrite hd_error_nth, tl_skipn, nth_error_skipn_add, skipn_skipn.
          replace (S n + idx)%nat with (S (idx + n)) by lia. split; reflexivity.
      - apply next_times_spec.
      - apply chain_nth_spec.
    Qed.

    Lemma it_run_spec ops : forall st, it_run dcf rackf g pre t ops st = list_run ops (alpha st).
    Proof.
      induction ops as [|op r IH]; intros st; [reflexivity|]. cbn [Replicas.it_run list_run]. destruct op as [|k].
      - destruct (it_next st) as [o st'] eqn:E. apply next_spec in E. destruct E as [-> E]. now rewrite IH, E.
      - destruct (it_nth k st) as [o st'] eqn:E. apply nth_spec in E. destruct E as [-> E]. now rewrite IH, E.
    Qed.

    Theorem iter_ops_view s ops :
      rs_run dcf rackf g pre t s ops = list_run ops (rs_iter dcf rackf g pre t s).
    Proof.
      unfold rs_run. rewrite it_run_spec. f_equal.
      destruct s as [l|l d|m]; cbn [it_init alpha rs_iter]; try reflexivity.
      destruct (ring_dcs g) as [|d rest]; reflexivity.
    Qed.

    (* ---- size_hint: lower <= what is still to come <= upper, in every reachable state ---- *)
    Local Notation it_size_hint := (it_size_hint dcf g).
    Definition wf (st : istate) : Prop :=
      match st with
      | IPlain l idx => (idx <= List.length l)%nat
      | IFiltered l _ idx => (idx <= List.length l)%nat
      | IChained m cur ridx rest =>
          (ridx <= List.length cur)%nat /\ exists prev d, ring_dcs g = prev ++ d :: rest /\ cur = F m d
      end.

    Lemma init_wf s : wf (it_init dcf rackf g pre t s).
    Proof.
      destruct s as [l|l d|m]; cbn [it_init wf]; try lia.
      destruct (ring_dcs g) as [|d rest] eqn:E; cbn [wf List.length]; [lia|].
      split; [lia|]. exists [], d. split; [exact E|reflexivity].
    Qed.

    Lemma chain_next_wf m : forall rest cur ridx,
      wf (IChained m cur ridx rest) -> wf (snd (chain_next m cur ridx rest)).
    Proof.
      induction rest as [|d r IH]; intros cur ridx [Hr (prev & d0 & Hd & Hc)]; cbn [Replicas.chain_next].
      - destruct (nth_error cur ridx) as [x|] eqn:E; cbn [snd wf].
        + split; [apply nth_error_Some_lt' in E; lia|eauto].
        + split; [assumption|eauto].
      - destruct (nth_error cur ridx) as [x|] eqn:E; cbn [snd].
        + cbn [wf]. split; [apply nth_error_Some_lt' in E; lia|eauto].
        + apply IH. cbn [wf]. split; [lia|]. exists (prev ++ [d0]), d. split; [|reflexivity].
          rewrite Hd, <- app_assoc. reflexivity.
    Qed.

    Lemma filt_next_le d : forall suffix idx, (snd (filt_next dcf d suffix idx) <= idx + List.length suffix)%nat.
    Proof.
      induction suffix as [|x r IH]; intros idx; cbn [filt_next List.length snd]; [lia|].
      destruct (in_dc d x); cbn [snd]; [lia|]. specialize (IH (S idx)). lia.
    Qed.

    Lemma next_wf st : wf st -> wf (snd (it_next st)).
    Proof.
      destruct st as [l idx|l d idx|m cur ridx rest]; cbn [Replicas.it_next]; intros H.
      - destruct (nth_error l idx) eqn:E; cbn [snd wf] in *; [apply nth_error_Some_lt' in E; lia|assumption].
      - pose proof (filt_next_le d (skipn idx l) idx) as Hle. rewrite skipn_length in Hle. cbn [wf] in H.
        destruct (filt_next dcf d (skipn idx l) idx) as [o idx']. cbn [snd wf] in *. lia.
      - now apply chain_next_wf.
    Qed.

    Lemma next_times_wf n : forall st, wf st -> wf (snd (next_times n st)).
    Proof.
      induction n as [|n IH]; intros st H; cbn [Replicas.next_times]; [now apply next_wf|].
      pose proof (next_wf st H) as H1. destruct (it_next st) as [o st1]. cbn [snd] in H1.
      destruct o; cbn [snd]; [now apply IH|assumption].
    Qed.

    Lemma chain_nth_wf m : forall rest cur ridx remaining,
      wf (IChained m cur ridx rest) -> wf (snd (chain_nth m cur ridx rest remaining)).
    Proof.
      induction rest as [|d r IH]; intros cur ridx remaining [Hr (prev & d0 & Hd & Hc)]; cbn [Replicas.chain_nth];
        destruct (remaining <? List.length cur - ridx)%nat eqn:E.
      - apply Nat.ltb_lt in E. apply chain_next_wf. cbn [wf]. split; [lia|eauto].
      - cbn [snd wf]. split; [lia|eauto].
      - apply Nat.ltb_lt in E. apply chain_next_wf. cbn [wf]. split; [lia|eauto].
      - apply IH. cbn [wf]. split; [lia|]. exists (prev ++ [d0]), d. split; [|reflexivity].
        rewrite Hd, <- app_assoc. reflexivity.
    Qed.

    Lemma nth_wf n st : wf st -> wf (snd (it_nth n st)).
    Proof.
      destruct st as [l idx|l d idx|m cur ridx rest]; cbn [Replicas.it_nth]; intros H.
      - destruct (List.length l <=? idx + n)%nat eqn:E; [cbn [snd wf]; lia|].
        apply Nat.leb_gt in E. apply next_wf. cbn [wf]. lia.
      - now apply next_times_wf.
      - now apply chain_nth_wf.
    Qed.

    Lemma run_wf ops : forall st, wf st -> Forall (fun h => True) (it_run_hints dcf rackf g pre t ops st).
    Proof. intros. apply Forall_forall. trivial. Qed.

    Lemma F_length_le m d : (List.length (F m d) <= rf_or0 m d)%nat.
    Proof. unfold F. rewrite precomputed_nts. apply nts_replicas_length_le. Qed.

    Definition sum_or0 (m : list (N * nat)) (D : list N) : nat := fold_right (fun d acc => (rf_or0 m d + acc)%nat) 0%nat D.

    Lemma sum_or0_app m a b : sum_or0 m (a ++ b) = (sum_or0 m a + sum_or0 m b)%nat.
    Proof. induction a as [|x r IH]; cbn [app sum_or0 fold_right]; [reflexivity|]. fold (sum_or0 m (r ++ b)) (sum_or0 m r). lia. Qed.

    Lemma sum_or0_cons_notin k rf m D : ~ In k D -> sum_or0 ((k, rf) :: m) D = sum_or0 m D.
    Proof.
      induction D as [|d r IH]; intros H; [reflexivity|]. cbn [sum_or0 fold_right].
      fold (sum_or0 ((k, rf) :: m) r) (sum_or0 m r). rewrite IH by (intros C; apply H; now right).
      unfold rf_or0 at 1. cbn [rf_lookup]. destruct (N.eqb k d) eqn:E; [|reflexivity].
      apply N.eqb_eq in E. subst. exfalso. apply H. now left.
    Qed.

    Lemma sum_or0_le m : forall D, NoDup D -> (sum_or0 m D <= sum_rf m)%nat.
    Proof.
      induction m as [|[k rf] m IH]; intros D HD.
      - induction D as [|d r IHr]; [cbn; lia|]. inversion HD; subst. cbn [sum_or0 fold_right]. fold (sum_or0 [] r).
        specialize (IHr H2). cbn in *. lia.
      - cbn [sum_rf fold_right snd]. fold (sum_rf m).
        assert (G : (sum_or0 ((k, rf) :: m) D <= rf + sum_or0 m D)%nat).
        { induction HD as [|d r Hd Hr IHr]; [cbn; lia|]. cbn [sum_or0 fold_right].
          fold (sum_or0 ((k, rf) :: m) r) (sum_or0 m r).
          unfold rf_or0 at 1. cbn [rf_lookup]. destruct (N.eqb k d) eqn:E.
          - apply N.eqb_eq in E. subst. rewrite sum_or0_cons_notin by assumption. lia.
          - fold (rf_or0 m d). lia. }
        specialize (IH D HD). lia.
    Qed.

    Lemma flat_map_F_length m D : (List.length (flat_map (F m) D) <= sum_or0 m D)%nat.
    Proof.
      induction D as [|d r IH]; [cbn; lia|]. cbn [flat_map sum_or0 fold_right]. fold (sum_or0 m r).
      rewrite app_length. pose proof (F_length_le m d). lia.
    Qed.

    Theorem size_hint_bounds st : wf st ->
      (fst (it_size_hint st) <= List.length (alpha st) <= snd (it_size_hint st))%nat.
    Proof.
      destruct st as [l idx|l d idx|m cur ridx rest]; cbn [Replicas.it_size_hint alpha fst snd wf].
      - intros H. rewrite skipn_length. lia.
      - intros H. pose proof (filter_length_le (in_dc d) (skipn idx l)) as Hf. rewrite skipn_length in Hf. lia.
      - intros [Hr (prev & d & Hd & Hc)]. rewrite app_length, skipn_length.
        assert (Ep : firstn (List.length (ring_dcs g) - S (List.length rest)) (ring_dcs g) = prev).
        { rewrite Hd, app_length. cbn [List.length].
          replace (List.length prev + S (List.length rest) - S (List.length rest))%nat with (List.length prev + 0)%nat by lia.
          rewrite firstn_app_2. cbn [firstn]. apply app_nil_r. }
        rewrite Ep. fold (sum_or0 m prev).
        pose proof (sum_or0_le m (ring_dcs g) (uniq_NoDup _)) as Hs. rewrite Hd, sum_or0_app in Hs.
        cbn [sum_or0 fold_right] in Hs. fold (sum_or0 m rest) in Hs.
        pose proof (flat_map_F_length m rest). pose proof (F_length_le m d). subst cur. lia.
    Qed.

    (* no usize underflow in `values().sum() - yielded` *)
    Theorem size_hint_no_underflow m cur ridx rest : wf (IChained m cur ridx rest) ->
      (sum_or0 m (firstn (List.length (ring_dcs g) - S (List.length rest)) (ring_dcs g)) + ridx <= sum_rf m)%nat.
    Proof.
      intros [Hr (prev & d & Hd & Hc)].
      assert (Ep : firstn (List.length (ring_dcs g) - S (List.length rest)) (ring_dcs g) = prev).
      { rewrite Hd, app_length. cbn [List.length].
        replace (List.length prev + S (List.length rest) - S (List.length rest))%nat with (List.length prev + 0)%nat by lia.
        rewrite firstn_app_2. cbn [firstn]. apply app_nil_r. }
      rewrite Ep. pose proof (sum_or0_le m (ring_dcs g) (uniq_NoDup _)) as Hs. rewrite Hd, sum_or0_app in Hs.
      cbn [sum_or0 fold_right] in Hs. pose proof (F_length_le m d). subst cur. lia.
    Qed.

    (* every state reached by next()/nth(n) from a fresh iterator is well-formed *)
    Fixpoint it_reach (ops : list iop) (st : istate) : istate :=
      match ops with
      | [] => st
      | INext :: r => it_reach r (snd (it_next st))
      | INth k :: r => it_reach r (snd (it_nth k st))
      end.
    Lemma reach_wf ops : forall st, wf st -> wf (it_reach ops st).
    Proof.
      induction ops as [|op r IH]; intros st H; [assumption|]. cbn [it_reach]. destruct op as [|k]; apply IH.
      - now apply next_wf.
      - now apply nth_wf.
    Qed.

    Theorem size_hint_reachable s ops :
      let st := it_reach ops (it_init dcf rackf g pre t s) in
      (fst (it_size_hint st) <= List.length (alpha st) <= snd (it_size_hint st))%nat.
    Proof. cbv zeta. apply size_hint_bounds, reach_wf, init_wf. Qed.

    Theorem ordered_hint_bounds s dc : sorted_weak g -> nts_keys_ok s ->
      let r := replicas_for dcf rackf g pre t s dc in
      (fst (rs_ordered_hint dcf rackf g pre t r) <= List.length (fst (rs_ordered dcf rackf g pre t r))
       <= snd (rs_ordered_hint dcf rackf g pre t r))%nat.
    Proof.
      intros Hs Hk. cbv zeta. pose proof (ordered_perm g pre t Hs s dc Hk) as P. apply Permutation_length in P.
      rewrite P. destruct (replicas_for dcf rackf g pre t s dc) as [l|l d|m]; cbn [rs_ordered_hint it_init Replicas.it_size_hint rs_iter fst snd].
      - lia.
      - pose proof (filter_length_le (in_dc d) l). lia.
      - split; [lia|]. fold (F m). pose proof (flat_map_F_length m (ring_dcs g)).
        pose proof (sum_or0_le m (ring_dcs g) (uniq_NoDup _)). lia.
    Qed.
  End IterOps.

  (* ============================================================= model = specification *)
  Lemma replicas_spec_nts g pre t m dc : sorted_weak g ->
    rs_iter dcf rackf g pre t (replicas_for dcf rackf g pre t (NTS m) dc) =
    spec_replicas dcf rackf g t (NTS m) dc.
  Proof.
    intros Hg.
    assert (H0 : rs_iter dcf rackf g pre t (replicas_for dcf rackf g pre t (NTS m) None) = spec_nts dcf rackf g t m).
    { cbn [replicas_for rs_iter]. unfold spec_nts. apply flat_map_ext. intros d.
      rewrite (get_nts_eq g pre t). now apply nts_spec. }
    destruct dc as [d|]; [|exact H0]. rewrite dc_filter, H0. reflexivity.
  Qed.

  Lemma replicas_spec g pre t s dc : sorted_weak g ->
    rs_iter dcf rackf g pre t (replicas_for dcf rackf g pre t s dc) = spec_replicas dcf rackf g t s dc.
  Proof.
    intros Hs. destruct s as [rf|m| |].
    - destruct dc as [d|]; cbn [replicas_for rs_iter spec_replicas];
        now rewrite precomputed_simple, simple_spec by assumption.
    - now apply replicas_spec_nts.
    - destruct dc as [d|]; cbn [replicas_for rs_iter spec_replicas];
        now rewrite precomputed_simple, simple_spec by assumption.
    - destruct dc as [d|]; cbn [replicas_for rs_iter spec_replicas];
        now rewrite precomputed_simple, simple_spec by assumption.
  Qed.

  (* the driver's property predicates hold of the model *)
  Lemma placement_model g pre t s dc : sorted_weak g ->
    placement_ok (spec_replicas dcf rackf g t s dc)
                 (rs_iter dcf rackf g pre t (replicas_for dcf rackf g pre t s dc)) = true.
  Proof.
    intros Hs. unfold placement_ok. apply same_set_spec.
    pose proof (iter_NoDup g pre t Hs s dc) as Hn. rewrite <- (replicas_spec g pre t s dc Hs).
    repeat split; auto.
  Qed.

  Lemma ordered_model g pre t s dc : sorted_weak g -> nts_keys_ok s ->
    let r := replicas_for dcf rackf g pre t s dc in
    snd (rs_ordered dcf rackf g pre t r) = [] /\
    ordered_ok g t (rs_iter dcf rackf g pre t r) (fst (rs_ordered dcf rackf g pre t r)) = true.
  Proof.
    intros Hs Hk. cbv zeta. rewrite (ordered_view g pre t Hs s dc Hk). cbn [fst snd].
    split; [reflexivity|]. unfold ordered_ok. now apply list_eqb_spec.
  Qed.

  (* precomputation never changes an answer *)
  Lemma precomputed_any g pre pre' t s dc : sorted_weak g ->
    rs_iter dcf rackf g pre t (replicas_for dcf rackf g pre t s dc) =
    rs_iter dcf rackf g pre' t (replicas_for dcf rackf g pre' t s dc).
  Proof. intros Hs. now rewrite !replicas_spec. Qed.

  Lemma len_view g pre t s dc : nts_keys_ok s ->
    rs_len dcf g (replicas_for dcf rackf g pre t s dc) =
    List.length (rs_iter dcf rackf g pre t (replicas_for dcf rackf g pre t s dc)).
  Proof.
    intros Hk.
    destruct s as [rf|m| |]; destruct dc as [d|]; cbn [replicas_for]; try reflexivity.
    - destruct (rf_lookup m d); reflexivity.
    - now apply len_chained.
  Qed.

  Lemma choose_view' g pre t s dc k : nts_keys_ok s ->
    rs_choose dcf rackf g pre t (replicas_for dcf rackf g pre t s dc) k =
    nth_error (rs_iter dcf rackf g pre t (replicas_for dcf rackf g pre t s dc)) k.
  Proof.
    intros Hk. apply choose_view. intros m E.
    destruct s as [rf|m'| |]; destruct dc as [d|]; cbn [replicas_for] in E; try discriminate.
    - destruct (rf_lookup m' d); discriminate.
    - injection E as <-. exact Hk.
  Qed.
  (* the model's views satisfy the driver's [views] / [precomputed] predicates *)
  Lemma views_model g pre t s dc n cf cfpred opss : sorted_weak g -> nts_keys_ok s ->
    let r := replicas_for dcf rackf g pre t s dc in
    let iter := rs_iter dcf rackf g pre t r in
    match cf with
    | Some x => In x iter /\ cfpred x = true
    | None => forall x, In x iter -> cfpred x = false
    end ->
    views_ok (rs_len dcf g r) iter (map (rs_nth dcf rackf g pre t r) (seq 0 n))
             (map (rs_choose dcf rackf g pre t r) (seq 0 (rs_len dcf g r))) cf cfpred
             (map (fun ops => (ops, rs_run dcf rackf g pre t r ops)) opss) (Some iter) = true.
  Proof.
    intros Hs Hk. cbv zeta. intros Hcf. pose proof (len_view g pre t s dc Hk) as Hlen.
    pose proof (iter_NoDup g pre t Hs s dc) as Hnd.
    unfold views_ok. rewrite !andb_true_iff. repeat split.
    - now apply Nat.eqb_eq.
    - now apply nodupb_spec.
    - apply olist_eqb_spec. rewrite map_length, seq_length. apply map_ext. intros k. apply nth_view.
    - apply Nat.eqb_eq. now rewrite map_length, seq_length.
    - apply forallb_forall. intros o Ho. apply in_map_iff in Ho. destruct Ho as (k & <- & Hk').
      apply in_seq in Hk'. rewrite (choose_view' g pre t s dc k Hk).
      destruct (nth_error (rs_iter dcf rackf g pre t (replicas_for dcf rackf g pre t s dc)) k) as [x|] eqn:E.
      + apply mem_In. eapply nth_error_In; eassumption.
      + apply nth_error_None in E. lia.
    - destruct cf as [x|].
      + destruct Hcf as [H1 H2]. rewrite H2. apply andb_true_iff. split; [now apply mem_In|reflexivity].
      + apply forallb_forall. intros x Hx. apply negb_true_iff. now apply Hcf.
    - apply forallb_forall. intros p Hp. apply in_map_iff in Hp. destruct Hp as (ops & <- & _). cbn [fst snd].
      apply olist_eqb_spec. apply iter_ops_view.
    - apply same_set_spec. repeat split; auto.
  Qed.

  Lemma precomputed_model g pre pre' t s dc : sorted_weak g ->
    precomputed_ok (rs_iter dcf rackf g pre' t (replicas_for dcf rackf g pre' t s dc))
                   (rs_iter dcf rackf g pre t (replicas_for dcf rackf g pre t s dc)) = true.
  Proof.
    intros Hs. unfold precomputed_ok. rewrite (precomputed_any g pre' pre t s dc Hs).
    apply same_set_spec. pose proof (iter_NoDup g pre t Hs s dc). repeat split; auto.
  Qed.
End Topo.

(* the ring the locator stores: sorted, same entries; distinct tokens give strict order *)
Lemma sorted_weak_NoDup_strict {A} (l : ring A) : sorted_weak l -> NoDup (map fst l) -> sorted_strict l.
Proof.
  induction l as [|x r IH]; intros Hw Hn; [exact I|]. cbn [map] in Hn. inversion Hn as [|? ? Hx Hr]; subst.
  cbn. split; [|apply IH; [now apply sorted_weak_tail in Hw|assumption]].
  destruct r as [|y r']; [exact I|]. cbn in Hw. destruct Hw as [Hle _].
  assert (fst x <> fst y) by (intros E; apply Hx; rewrite E; now left). lia.
Qed.

Lemma sort_ring_strict {A} (raw : ring A) : NoDup (map fst raw) -> sorted_strict (sort_ring raw).
Proof.
  intros H. apply sorted_weak_NoDup_strict; [apply sort_ring_sorted|].
  apply (Permutation_NoDup (l := map fst raw)); [|assumption].
  apply Permutation_map, Permutation_sym, sort_ring_perm.
Qed.

(* ---- a ring on which two nodes own the same token (the witness of the repaired finding F18) --- *)
Definition dup_dcf (n : N) : option N := match n with 2%N => Some 2%N | _ => Some 1%N end.
Definition dup_ring : ring N := [(10, 1%N); (10, 2%N); (20, 3%N)].

(* ---- shards of the yielded replicas ---------------------------------------------------------
   (C11's theorems C11_shard_spec / C11_shard_lt are about this very [shard_of]; they are not
   imported here because re-checking Proofs/Shard_proofs.v with coqchk costs minutes and > 15 GB) *)
Lemma with_shards_spec sharderf t l n sh : In (n, sh) (with_shards sharderf t l) ->
  In n l /\ sh = match sharderf n with Some (nr, msb) => shard_of nr msb t | None => 0%N end.
Proof.
  unfold with_shards. rewrite in_map_iff. intros (m & [= <- <-] & Hm). split; [assumption|reflexivity].
Qed.

Lemma with_shards_nodes sharderf t l : map fst (with_shards sharderf t l) = l.
Proof. unfold with_shards. rewrite map_map. cbn [fst]. apply map_id. Qed.
