(* Proofs about Model/Replicas.v (property C04). *)
From SV Require Import Base.Prelude Model.Ring Model.Replicas Proofs.Ring_proofs.
From Coq Require Import Permutation.
Open Scope Z_scope.

(* ---------------------------------------------------------------- small list facts *)
Lemma firstn_min_length {A} (l : list A) n : firstn (Nat.min n (List.length l)) l = firstn n l.
Proof.
  destruct (Nat.le_ge_cases n (List.length l)) as [H|H].
  - now rewrite Nat.min_l.
  - rewrite Nat.min_r by assumption. now rewrite !firstn_all2 by lia.
Qed.
Lemma firstn_min_length' {A} (l : list A) n : firstn (Nat.min (List.length l) n) l = firstn n l.
Proof. rewrite Nat.min_comm. apply firstn_min_length. Qed.

Lemma In_firstn {A} (l : list A) n x : In x (firstn n l) -> In x l.
Proof. intros H. rewrite <- (firstn_skipn n l). apply in_or_app. now left. Qed.

Lemma map_snd_filter {A B} (p : B -> bool) (l : list (A * B)) :
  map snd (filter (fun e => p (snd e)) l) = filter p (map snd l).
Proof.
  induction l as [|x r IH]; [reflexivity|]. cbn [filter map]. destruct (p (snd x)); cbn [map]; now rewrite IH.
Qed.

Lemma filter_map_In {A B} (f : A -> option B) l y :
  In y (filter_map f l) <-> exists x, In x l /\ f x = Some y.
Proof.
  induction l as [|x r IH]; cbn [filter_map].
  - split; [intros []|intros (x & [] & _)].
  - destruct (f x) eqn:E.
    + cbn [In]. rewrite IH. split.
      * intros [<-|(z & Hz & Ez)]; [exists x; split; [now left|assumption]|exists z; split; [now right|assumption]].
      * intros (z & [<-|Hz] & Ez); [left; congruence|right; exists z; tauto].
    + rewrite IH. split.
      * intros (z & Hz & Ez). exists z. split; [now right|assumption].
      * intros (z & [<-|Hz] & Ez); [congruence|exists z; tauto].
Qed.

Lemma filter_filter_ext {A} (p q1 q2 : A -> bool) u :
  (forall y, p y = true -> q1 y = q2 y) -> filter p (filter q1 u) = filter p (filter q2 u).
Proof.
  intros H. induction u as [|y r IH]; [reflexivity|]. cbn [filter].
  destruct (p y) eqn:E.
  - rewrite <- (H y E). destruct (q1 y); cbn [filter]; rewrite ?E, IH; reflexivity.
  - destruct (q1 y), (q2 y); cbn [filter]; rewrite ?E, IH; reflexivity.
Qed.

Lemma uniq_aux_filter_comm (p : N -> bool) l s :
  uniq_aux N.eqb s (filter p l) = filter p (uniq_aux N.eqb s l).
Proof.
  revert s. induction l as [|x r IH]; intros s; [reflexivity|]. cbn [filter uniq_aux].
  destruct (p x) eqn:E; cbn [uniq_aux].
  - destruct (mem_by N.eqb x s); [apply IH|]. cbn [filter]. rewrite E. f_equal. apply IH.
  - rewrite IH. destruct (mem_by N.eqb x s) eqn:Em; [reflexivity|]. cbn [filter]. rewrite E.
    rewrite (uniq_aux_filter N.eqb Neqb_eq s r), (uniq_aux_filter N.eqb Neqb_eq (x :: s) r).
    apply filter_filter_ext. intros y Hy. cbn [mem_by existsb].
    destruct (N.eqb y x) eqn:Eyx; [|reflexivity]. apply N.eqb_eq in Eyx. congruence.
Qed.

Lemma uniq_filter_comm (p : N -> bool) l : uniq (filter p l) = filter p (uniq l).
Proof. apply uniq_aux_filter_comm. Qed.

(* sub-sequences *)
Inductive subseq {A} : list A -> list A -> Prop :=
| sub_nil : forall u, subseq [] u
| sub_take : forall x l u, subseq l u -> subseq (x :: l) (x :: u)
| sub_skip : forall x l u, subseq l u -> subseq l (x :: u).

Lemma subseq_refl {A} (l : list A) : subseq l l.
Proof. induction l; constructor; assumption. Qed.
Lemma subseq_In {A} (l u : list A) x : subseq l u -> In x l -> In x u.
Proof. induction 1; cbn; intuition. Qed.
Lemma subseq_trans {A} (a b c : list A) : subseq a b -> subseq b c -> subseq a c.
Proof.
  intros Hab Hbc. revert a Hab. induction Hbc as [u|x l u H IH|x l u H IH]; intros a Hab.
  - inversion Hab. constructor.
  - inversion Hab; subst; [constructor|constructor; auto|apply sub_skip; auto].
  - apply sub_skip. auto.
Qed.
Lemma subseq_filter {A} (p : A -> bool) l : subseq (filter p l) l.
Proof. induction l as [|x r IH]; cbn [filter]; [constructor|]. destruct (p x); constructor; assumption. Qed.
Lemma subseq_firstn {A} n (l : list A) : subseq (firstn n l) l.
Proof. revert n. induction l as [|x r IH]; intros [|n]; cbn; constructor. apply IH. Qed.
Lemma subseq_NoDup {A} (l u : list A) : subseq l u -> NoDup u -> NoDup l.
Proof.
  induction 1 as [u|x l u H IH|x l u H IH]; intros Hu; [constructor| |].
  - inversion Hu; subst. constructor; [|auto]. intros C. apply (subseq_In _ _ _ H) in C. contradiction.
  - inversion Hu; auto.
Qed.
(* a sub-sequence of a duplicate-free list is recovered by filtering on membership *)
Lemma subseq_filter_mem (l u : list N) : subseq l u -> NoDup u -> filter (fun x => mem x l) u = l.
Proof.
  induction 1 as [u|x l u H IH|x l u H IH]; intros Hu.
  - apply filter_nil_all. reflexivity.
  - inversion Hu as [|? ? Hx Hu']; subst. cbn [filter].
    assert (E : mem x (x :: l) = true) by (apply mem_In; now left). rewrite E. f_equal.
    transitivity (filter (fun y => mem y l) u); [|auto]. apply filter_ext_in. intros y Hy.
    unfold mem. cbn [mem_by existsb]. destruct (N.eqb y x) eqn:Eyx; [|reflexivity].
    apply N.eqb_eq in Eyx. subst. contradiction.
  - inversion Hu as [|? ? Hx Hu']; subst. cbn [filter].
    assert (E : mem x l = false).
    { apply mem_false. intros C. apply (subseq_In _ _ _ H) in C. contradiction. }
    rewrite E. auto.
Qed.

Section Topo.
  Variables (dcf rackf : N -> option N).
  Notation in_dc := (in_dc dcf).
  Notation dc_ring := (dc_ring dcf).
  Notation ring_dcs := (ring_dcs dcf).
  Notation nts_walk := (nts_walk rackf).
  Notation nts_replicas := (nts_replicas dcf rackf).
  Notation rack_count := (rack_count rackf).
  Notation get_nts := (get_nts dcf rackf).
  Notation get_pre_nts := (get_pre_nts dcf rackf).

  Definition dcpos (g : ring N) (d : N) : ring N := filter (fun e => in_dc d (snd e)) g.

  Lemma dc_ring_sorted g d : sorted_weak g -> dc_ring g d = dcpos g d.
  Proof. intros H. unfold Replicas.dc_ring. apply sort_ring_id. now apply sorted_weak_filter. Qed.

  Lemma dc_ring_In g d e : In e (dc_ring g d) <-> In e g /\ in_dc d (snd e) = true.
  Proof. unfold Replicas.dc_ring. rewrite sort_ring_In, filter_In. tauto. Qed.

  Lemma in_dc_unique d d' n : in_dc d n = true -> in_dc d' n = true -> d = d'.
  Proof.
    unfold Replicas.in_dc. destruct (dcf n); [|discriminate]. intros H1 H2.
    apply N.eqb_eq in H1, H2. congruence.
  Qed.

  (* ============================================================= SimpleStrategy *)
  Lemma first_distinct_uniq rf walk acc :
    (List.length acc <= rf)%nat ->
    first_distinct rf acc walk = acc ++ firstn (rf - List.length acc) (uniq_aux N.eqb acc walk).
  Proof.
    revert acc. induction walk as [|n r IH]; intros acc Hl; cbn [first_distinct uniq_aux].
    - now rewrite firstn_nil, app_nil_r.
    - destruct (rf <=? List.length acc)%nat eqn:E.
      + apply Nat.leb_le in E. replace (rf - List.length acc)%nat with 0%nat by lia.
        cbn. now rewrite app_nil_r.
      + apply Nat.leb_gt in E. fold (mem n acc). unfold mem. destruct (mem_by N.eqb n acc) eqn:Em.
        * now apply IH.
        * rewrite IH by (rewrite app_length; cbn; lia). rewrite app_length. cbn [List.length].
          replace (rf - List.length acc)%nat with (S (rf - (List.length acc + 1)))%nat by lia.
          cbn [firstn]. rewrite <- app_assoc. cbn [app]. do 3 f_equal.
          apply (uniq_aux_seen_ext N.eqb Neqb_eq). intros y. rewrite in_app_iff. cbn. tauto.
  Qed.

  Lemma simple_replicas_firstn g t rf : simple_replicas g t rf = firstn rf (uniq (ring_range g t)).
  Proof.
    unfold simple_replicas, unique_nodes.
    replace (List.length (uniq (map snd g))) with (List.length (uniq (ring_range g t))).
    - apply firstn_min_length.
    - apply (uniq_by_length_ext N.eqb Neqb_eq). intros y. apply ring_range_In.
  Qed.

  Lemma simple_spec g t rf : sorted_strict g -> simple_replicas g t rf = spec_simple g t rf.
  Proof.
    intros H. rewrite simple_replicas_firstn. unfold spec_simple.
    rewrite first_distinct_uniq by (cbn; lia). cbn [app List.length]. rewrite Nat.sub_0_r.
    unfold ring_range. now rewrite ring_range_full_clockwise.
  Qed.

  Lemma prefix_simple g t rf m : (rf <= m)%nat -> simple_replicas g t rf = firstn rf (simple_replicas g t m).
  Proof.
    intros H. rewrite !simple_replicas_firstn, firstn_firstn. now rewrite Nat.min_l.
  Qed.

  Lemma snap_simple g t rf e : sorted_strict g -> get_entry_for_token g t = Some e ->
    simple_replicas g (fst e) rf = simple_replicas g t rf.
  Proof.
    intros Hs He. rewrite !simple_replicas_firstn. unfold ring_range.
    now rewrite (ring_range_full_snap g t e Hs He).
  Qed.

  Lemma precomputed_simple g pre t rf : sorted_strict g -> get_simple g pre t rf = simple_replicas g t rf.
  Proof.
    intros Hs. unfold get_simple. destruct rf as [|rf'].
    - unfold simple_replicas. reflexivity.
    - set (rf := S rf'). unfold get_pre_simple. destruct (max_global_rf pre <? rf)%nat eqn:E; [reflexivity|].
      apply Nat.ltb_ge in E. unfold pre_lookup.
      destruct (get_entry_for_token g t) as [e|] eqn:Ee; cbn [option_map]; [|reflexivity].
      rewrite firstn_min_length', (snap_simple g t _ e Hs Ee). symmetry. now apply prefix_simple.
  Qed.

  Lemma pre_lookup_simple_materialised g pre t : sorted_weak g ->
    get_elem_for_token (pre_ring_simple g pre) t =
    pre_lookup g (fun tk => simple_replicas g tk (max_global_rf pre)) t.
  Proof.
    intros H. unfold pre_ring_simple, pre_lookup.
    rewrite sort_ring_id by (apply (sorted_weak_map (fun e => simple_replicas g (fst e) (max_global_rf pre))), H).
    apply (get_entry_map (fun e => simple_replicas g (fst e) (max_global_rf pre))).
  Qed.

  (* ============================================================= NetworkTopologyStrategy *)
  Lemma nts_walk_left0 used reps w : nts_walk used reps 0 w = [].
  Proof. destruct w; reflexivity. Qed.

  Lemma nts_walk_subseq used reps left w : subseq (nts_walk used reps left w) w.
  Proof.
    revert used reps left. induction w as [|n r IH]; intros used reps left; cbn [Replicas.nts_walk]; [constructor|].
    destruct left as [|left']; [constructor|].
    destruct (negb (mem_by oeqb (rackf n) used)); [constructor; apply IH|].
    destruct reps; [apply sub_skip|constructor]; apply IH.
  Qed.

  Lemma nts_walk_length_le used reps left w : (List.length (nts_walk used reps left w) <= left)%nat.
  Proof.
    revert used reps left. induction w as [|n r IH]; intros used reps left; cbn [Replicas.nts_walk]; [cbn; lia|].
    destruct left as [|left']; [cbn; lia|].
    destruct (negb (mem_by oeqb (rackf n) used)); [cbn; specialize (IH (rackf n :: used) reps left'); lia|].
    destruct reps as [|reps']; [apply IH|cbn; specialize (IH used reps' left'); lia].
  Qed.

  Lemma nts_walk_firstn used reps a b w : (a <= b)%nat ->
    nts_walk used reps a w = firstn a (nts_walk used reps b w).
  Proof.
    revert used reps a b. induction w as [|n r IH]; intros used reps a b Hab; cbn [Replicas.nts_walk].
    - now rewrite firstn_nil.
    - destruct a as [|a']; [reflexivity|]. destruct b as [|b']; [lia|].
      destruct (negb (mem_by oeqb (rackf n) used)).
      + cbn [firstn]. f_equal. apply IH. lia.
      + destruct reps as [|reps'].
        * apply (IH used 0%nat (S a') (S b')). lia.
        * cbn [firstn]. f_equal. apply IH. lia.
  Qed.

  Lemma racks_of_le acc : (List.length (racks_of rackf acc) <= List.length acc)%nat.
  Proof.
    unfold racks_of. rewrite <- (map_length rackf acc).
    apply NoDup_incl_length; [apply (uniq_by_NoDup oeqb oeqb_eq)|].
    intros y. rewrite (uniq_by_In oeqb oeqb_eq). trivial.
  Qed.

  Lemma racks_of_snoc acc n :
    List.length (racks_of rackf (acc ++ [n])) =
    (List.length (racks_of rackf acc) + if mem_by oeqb (rackf n) (map rackf acc) then 0 else 1)%nat.
  Proof.
    unfold racks_of. rewrite map_app. cbn [map]. rewrite (uniq_by_app oeqb oeqb_eq), app_length. f_equal.
    unfold uniq_by. cbn [uniq_aux mem_by existsb filter].
    destruct (mem_by oeqb (rackf n) (map rackf acc)); reflexivity.
  Qed.

  Lemma mem_rack_snoc rk acc n :
    mem_by oeqb rk (map rackf (acc ++ [n])) = mem_by oeqb rk (map rackf acc) || oeqb rk (rackf n).
  Proof. unfold mem_by. rewrite map_app, existsb_app. cbn. now rewrite orb_false_r. Qed.

  (* the iterator (counters, used-rack set, `.unique()` walk) against the fold over all ring
     positions whose state is the accepted list only *)
  Lemma nts_walk_spec_fold want allowed : forall walk seen acc used reps left,
    (forall rk, mem_by oeqb rk used = mem_by oeqb rk (map rackf acc)) ->
    (left + List.length acc = want)%nat ->
    (reps + (List.length acc - List.length (racks_of rackf acc)) = allowed)%nat ->
    (forall x, In x acc -> In x seen) ->
    (forall x, In x seen -> In x acc \/
        (mem_by oeqb (rackf x) (map rackf acc) = true /\
         (allowed <= List.length acc - List.length (racks_of rackf acc))%nat)) ->
    spec_nts_fold rackf want allowed acc walk = acc ++ nts_walk used reps left (uniq_aux N.eqb seen walk).
  Proof.
    induction walk as [|n r IH]; intros seen acc used reps left I1 I2 I3 I4 I5; cbn [spec_nts_fold uniq_aux].
    - cbn. now rewrite app_nil_r.
    - pose proof (racks_of_le acc) as Hrl.
      destruct (want <=? List.length acc)%nat eqn:Ew.
      + apply Nat.leb_le in Ew. assert (left = 0%nat) by lia. subst left.
        now rewrite nts_walk_left0, app_nil_r.
      + apply Nat.leb_gt in Ew. fold (mem n acc).
        destruct (mem n acc) eqn:Ema.
        * (* already accepted: the `.unique()` walk does not show it again *)
          apply mem_In in Ema. assert (Es : mem_by N.eqb n seen = true) by (apply mem_In; auto).
          rewrite Es. now apply IH.
        * apply mem_false in Ema.
          destruct (mem_by N.eqb n seen) eqn:Es.
          -- (* passed over earlier: considered again by the specification, refused again *)
             apply (mem_by_In N.eqb Neqb_eq) in Es. destruct (I5 n Es) as [C|[Hr Ha]]; [contradiction|].
             rewrite Hr. cbn [negb orb].
             assert (E : (List.length acc - List.length (racks_of rackf acc) <? allowed)%nat = false) by (apply Nat.ltb_ge; lia).
             rewrite E. now apply IH.
          -- destruct left as [|left']; [lia|]. cbn [Replicas.nts_walk]. rewrite I1.
             destruct (mem_by oeqb (rackf n) (map rackf acc)) eqn:Er; cbn [negb orb].
             ++ destruct reps as [|reps'].
                ** (* no repeats left: skipped *)
                   assert (E : (List.length acc - List.length (racks_of rackf acc) <? allowed)%nat = false) by (apply Nat.ltb_ge; lia).
                   rewrite E. apply IH; try assumption.
                   --- intros x Hx. right. auto.
                   --- intros x [<-|Hx]; [right; split; [assumption|lia]|auto].
                ** assert (E : (List.length acc - List.length (racks_of rackf acc) <? allowed)%nat = true) by (apply Nat.ltb_lt; lia).
                   rewrite E. rewrite (IH (n :: seen) (acc ++ [n]) used reps' left').
                   --- now rewrite <- app_assoc.
                   --- intros rk. rewrite mem_rack_snoc, I1.
                       destruct (oeqb rk (rackf n)) eqn:Eo; [|now rewrite orb_false_r].
                       apply oeqb_eq in Eo. subst rk. now rewrite Er.
                   --- rewrite app_length. cbn. lia.
                   --- rewrite racks_of_snoc, Er, app_length. cbn. lia.
                   --- intros x Hx. apply in_app_or in Hx. cbn in Hx. cbn. destruct Hx as [Hx|[<-|[]]]; auto.
                   --- intros x [<-|Hx]; [left; apply in_or_app; right; now left|].
                       destruct (I5 x Hx) as [Hx'|[Hr Ha]]; [left; apply in_or_app; now left|].
                       right. rewrite mem_rack_snoc, Hr, racks_of_snoc, Er, app_length. cbn. split; [reflexivity|lia].
             ++ (* new rack *)
                rewrite (IH (n :: seen) (acc ++ [n]) (rackf n :: used) reps left').
                --- now rewrite <- app_assoc.
                --- intros rk. rewrite mem_rack_snoc. cbn [mem_by existsb]. fold (mem_by oeqb rk used).
                    rewrite I1. apply orb_comm.
                --- rewrite app_length. cbn. lia.
                --- rewrite racks_of_snoc, Er, app_length. cbn. lia.
                --- intros x Hx. apply in_app_or in Hx. cbn in Hx. cbn. destruct Hx as [Hx|[<-|[]]]; auto.
                --- intros x [<-|Hx]; [left; apply in_or_app; right; now left|].
                    destruct (I5 x Hx) as [Hx'|[Hr Ha]]; [left; apply in_or_app; now left|].
                    right. rewrite mem_rack_snoc, Hr, racks_of_snoc, Er, app_length. cbn. split; [reflexivity|lia].
  Qed.

  Lemma nts_spec g t d rf : sorted_weak g -> sorted_strict (dcpos g d) ->
    nts_replicas g t d rf = spec_nts_dc dcf rackf g t d rf.
  Proof.
    intros Hg Hd. unfold Replicas.nts_replicas, spec_nts_dc. rewrite dc_ring_sorted by assumption.
    fold (dcpos g d). unfold unique_nodes, Replicas.rack_count, racks_of, ring_range. rewrite map_map.
    rewrite ring_range_full_clockwise by assumption.
    rewrite (nts_walk_spec_fold _ _ _ [] [] [] (rf - List.length (uniq_by oeqb (map (fun x => rackf (snd x)) (dcpos g d))))%nat
               (Nat.min rf (List.length (uniq (map snd (dcpos g d)))))); cbn; try reflexivity; try lia; try tauto.
  Qed.

  (* the rack count never exceeds the node count *)
  Lemma rack_count_le_nodes r : (rack_count r <= List.length (unique_nodes r))%nat.
  Proof.
    unfold Replicas.rack_count, unique_nodes.
    replace (map (fun e => rackf (snd e)) r) with (map rackf (map snd r)) by now rewrite map_map.
    rewrite <- (map_length rackf (uniq (map snd r))).
    apply NoDup_incl_length; [apply (uniq_by_NoDup oeqb oeqb_eq)|].
    intros y. rewrite (uniq_by_In oeqb oeqb_eq), !in_map_iff.
    intros (x & <- & Hx). exists x. split; [reflexivity|now apply uniq_In].
  Qed.

  Lemma prefix_nts g t d rf m : (rf <= m)%nat -> (m <= rack_count (dc_ring g d))%nat ->
    nts_replicas g t d rf = firstn rf (nts_replicas g t d m).
  Proof.
    intros H1 H2. unfold Replicas.nts_replicas. pose proof (rack_count_le_nodes (dc_ring g d)) as H3.
    replace (rf - rack_count (dc_ring g d))%nat with 0%nat by lia.
    replace (m - rack_count (dc_ring g d))%nat with 0%nat by lia.
    rewrite !Nat.min_l by lia. now apply nts_walk_firstn.
  Qed.

  Lemma snap_nts g t d rf e : sorted_strict (dc_ring g d) -> get_entry_for_token (dc_ring g d) t = Some e ->
    nts_replicas g (fst e) d rf = nts_replicas g t d rf.
  Proof.
    intros Hs He. unfold Replicas.nts_replicas, ring_range.
    now rewrite (ring_range_full_snap (dc_ring g d) t e Hs He).
  Qed.

  Lemma compressed_rf_spec rfs racks m : compressed_rf rfs racks = Some m -> (m <= racks)%nat.
  Proof.
    unfold compressed_rf.
    assert (G : forall acc, (forall a, acc = Some a -> (a <= racks)%nat) ->
      fold_left (fun acc rf => if (rf <=? racks)%nat
                               then match acc with Some m0 => Some (Nat.max m0 rf) | None => Some rf end
                               else acc) rfs acc = Some m -> (m <= racks)%nat).
    { induction rfs as [|x r IH]; intros acc Ha; cbn [fold_left]; [auto|].
      apply IH. destruct (x <=? racks)%nat eqn:E; [|assumption]. apply Nat.leb_le in E.
      destruct acc as [a|]; intros b [= <-]; [specialize (Ha a eq_refl); lia|assumption]. }
    apply G. discriminate.
  Qed.

  Lemma nts_replicas_length_le g t d rf : (List.length (nts_replicas g t d rf) <= rf)%nat.
  Proof.
    unfold Replicas.nts_replicas.
    pose proof (nts_walk_length_le [] (rf - rack_count (dc_ring g d))
                  (Nat.min rf (List.length (unique_nodes (dc_ring g d)))) (uniq (ring_range (dc_ring g d) t))).
    lia.
  Qed.

  Lemma precomputed_nts g pre t d rf : sorted_strict (dc_ring g d) ->
    get_nts g pre t d rf = nts_replicas g t d rf.
  Proof.
    intros Hs. unfold Replicas.get_nts. destruct rf as [|rf'].
    - unfold Replicas.nts_replicas. cbn [Nat.min]. now rewrite nts_walk_left0.
    - set (rf := S rf'). unfold Replicas.get_pre_nts.
      destruct (pre_ring_rf dcf rackf g pre d rf) as [m|] eqn:Em; [|reflexivity].
      unfold pre_lookup. destruct (get_entry_for_token (dc_ring g d) t) as [e|] eqn:Ee; cbn [option_map]; [|reflexivity].
      rewrite firstn_min_length', (snap_nts g t d m e Hs Ee).
      unfold pre_ring_rf in Em.
      destruct (dc_rfs pre d) as [|x0 rfs0] eqn:Erfs; [discriminate|].
      destruct (dc_ring g d) as [|e0 r0] eqn:Er; [discriminate|]. rewrite <- Er in *.
      assert (Habove : ((rack_count (dc_ring g d) <? rf)%nat && existsb (Nat.eqb rf) (x0 :: rfs0) = true -> m = rf) ->
                        (if (rack_count (dc_ring g d) <? rf)%nat && existsb (Nat.eqb rf) (x0 :: rfs0) then Some rf else None) = Some m ->
                        firstn rf (nts_replicas g t d m) = nts_replicas g t d rf).
      { intros _ H. destruct ((rack_count (dc_ring g d) <? rf)%nat && existsb (Nat.eqb rf) (x0 :: rfs0)); [|discriminate].
        injection H as <-. apply firstn_all2. apply nts_replicas_length_le. }
      destruct (compressed_rf (x0 :: rfs0) (rack_count (dc_ring g d))) as [c|] eqn:Ec.
      + destruct (rf <=? c)%nat eqn:Erc.
        * injection Em as <-. apply Nat.leb_le in Erc. symmetry. apply prefix_nts; [assumption|].
          now apply (compressed_rf_spec _ _ _ Ec).
        * apply Habove; [|assumption]. intros _.
          destruct ((rack_count (dc_ring g d) <? rf)%nat && existsb (Nat.eqb rf) (x0 :: rfs0)); congruence.
      + apply Habove; [|assumption]. intros _.
        destruct ((rack_count (dc_ring g d) <? rf)%nat && existsb (Nat.eqb rf) (x0 :: rfs0)); congruence.
  Qed.

  Lemma pre_lookup_nts_materialised g d m t :
    get_elem_for_token (pre_ring_nts dcf rackf g d m) t =
    pre_lookup (dc_ring g d) (fun tk => nts_replicas g tk d m) t.
  Proof.
    unfold pre_ring_nts, pre_lookup.
    rewrite sort_ring_id.
    - apply (get_entry_map (fun e => nts_replicas g (fst e) d m)).
    - apply (sorted_weak_map (fun e => nts_replicas g (fst e) d m)). apply sort_ring_sorted.
  Qed.
End Topo.
