(* Extraction of the C12 model for the correspondence driver.  ExtrOcamlBasic and
   ExtrOcamlString only: N, Z, positive, nat stay the extracted inductive datatypes. *)
From SV Require Import Base.Prelude Base.Bytes Model.Ring Model.Replicas Model.Plan Model.Shard Model.Route.
From SV Require Model.Murmur Model.PartKey Model.Tablets.
Require Extraction.
Require Import ExtrOcamlBasic ExtrOcamlString.
Extraction Language OCaml.
Extraction "../ocaml/c12/model.ml" route_ok prop_obs_ok cluster_wfb pool_of assoc_pool assoc_opt sort_ring
  routing_request route_source replica_cands node_cands owners tokens_distinct accept_conn_shard pool_wfb refill_ok refill_closed_ok refill_released refill_dropped pool_run pool_step rf_init
  PartKey.ps_calculate_token PartKey.spec_token PartKey.key_okb
  Tablets.run Tablets.cluster_ops Tablets.info_empty Tablets.lookup Tablets.find_table.
