(* Extraction of the C06 model for the correspondence driver.  ExtrOcamlBasic and
   ExtrOcamlString only: N, Z, positive, nat stay the extracted inductive datatypes. *)
From SV Require Import Base.Prelude Model.Retry Model.Fiber Model.E2EAttempts.
Require Extraction.
Require Import ExtrOcamlBasic ExtrOcamlString.
Extraction Language OCaml.
Extraction "../ocaml/c06/model.ml" new_session decide decide_history safe_errorb named_unsafe_errorb
  is_retry is_same_target carried prop_decision_ok prop_history_ok same_target_budget fiber
  attempts conn_fails attempt_cls prop_trace_ok
  e2e_check check_single check_multi fiber_check prop_frames overlap_ok mkFrame mkCert
  prop_trace_full followed_ok follow check_timeout prop_timeout_frames.
