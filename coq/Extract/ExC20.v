(* Extraction of the C20 model for the correspondence driver.  ExtrOcamlBasic and
   ExtrOcamlString only: N, Z, positive, nat stay the extracted inductive datatypes. *)
From SV Require Import Base.Prelude Model.Keyspace.
Require Extraction.
Require Import ExtrOcamlBasic ExtrOcamlString.
Extraction Language OCaml.
Extraction "../ocaml/c20/model.ml" make_verified valid_nameb use_statement
  verify_result eq_ci use_keyspace_result is_ok is_err
  accept_trace acc_init first_reject
  prop_violb texts_verdict Z.of_N N.to_nat.
