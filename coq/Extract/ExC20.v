(* Extraction of the C20 model for the correspondence driver.  ExtrOcamlBasic and
   ExtrOcamlString only: N, Z, positive, nat stay the extracted inductive datatypes. *)
From SV Require Import Base.Prelude Model.Keyspace.
Require Extraction.
Require Import ExtrOcamlBasic ExtrOcamlString.
Extraction Language OCaml.
Extraction "../ocaml/c20/model.ml" verify_name make_verified valid_nameb use_statement parse_use
  verify_result canon eq_ci use_keyspace_result is_ok is_err
  accept_trace acc_init acc_step first_reject pending_calls
  prop_violb Z.of_N N.to_nat.
