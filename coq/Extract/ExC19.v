(* Extraction of the C19 model for the correspondence driver.  ExtrOcamlBasic and
   ExtrOcamlString only: N, Z, positive, nat stay the extracted inductive datatypes. *)
From SV Require Import Base.Prelude Model.Sched Model.MergeChan Model.MetaUpdate Model.FetchPlan.
Require Extraction.
Require Import ExtrOcamlBasic ExtrOcamlString.
Extraction Language OCaml.
Extraction "../ocaml/c19/model.ml" init step run run_op run_ops spec_check a_init stress_ok
  Z.to_N N.to_nat N.of_nat
  note_full note_routes note_topology plan_empty resolve
  trace_mops run_mops h_init view model_status status_ok requested latest_peers.
