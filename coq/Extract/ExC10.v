(* Extraction of the C10 model for the correspondence driver.  ExtrOcamlBasic and
   ExtrOcamlString only: N, positive, nat stay the extracted inductive datatypes. *)
From SV Require Import Base.Prelude Base.Bytes Model.ConnFail.
Require Extraction.
Require Import ExtrOcamlBasic ExtrOcamlString.
Extraction Language OCaml.
Extraction "../ocaml/c10/model.ml" conn_init step run simulate labels_of outcome_of c_done c_status
  c_handlers c_queue justified sent_for streams_of parse_frame f_stream f_opcode f_flags f_body
  be_dec td_measure broken_class skipped_labels resend_ok run_lenient sent_table accept_obs echo_of rid_of_marker pool_accept pool_labels
  Z.of_N. (* Z.of_N only so that the shared conv.ml finds the type z *)
