(* Extraction of the C13 model for the correspondence driver.  ExtrOcamlBasic and
   ExtrOcamlString only: N, positive, nat stay the extracted inductive datatypes. *)
From SV Require Import Base.Prelude Model.Spec.
From SV Require Model.Retry Model.Fiber Model.E2EAttempts Model.E2ESpec.
Require Extraction.
Require Import ExtrOcamlBasic ExtrOcamlString.
Extraction Language OCaml.
Extraction "../ocaml/c13/model.ml" can_be_ignored classify is_ignorable accept prop_obs timed_runs
  request_error_of_name request_error_name all_request_errors
  btimed_runs baccept_guided prop_trace mkConfig
  E2ESpec.e2e_check13 E2ESpec.prop_overlap E2ESpec.prop_first_real E2ESpec.prop_last_error E2EAttempts.prop_frames E2EAttempts.fiber_check
  E2EAttempts.mkFrame E2EAttempts.mkCert E2EAttempts.e2e_check E2EAttempts.check_multi E2EAttempts.check_timeout E2ESpec.starts_ok E2ESpec.mk_env
  Spec.step Spec.init Fiber.fiber Retry.new_session E2ESpec.conv_result
  Z.of_N. (* Z.of_N only so that the shared glue (ocaml/common/conv.ml) finds the type z *)
