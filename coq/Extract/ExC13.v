(* Extraction of the C13 model for the correspondence driver.  ExtrOcamlBasic and
   ExtrOcamlString only: N, positive, nat stay the extracted inductive datatypes. *)
From SV Require Import Base.Prelude Model.Spec.
Require Extraction.
Require Import ExtrOcamlBasic ExtrOcamlString.
Extraction Language OCaml.
Extraction "../ocaml/c13/model.ml" can_be_ignored classify is_ignorable accept prop_obs timed_runs
  request_error_of_name request_error_name all_request_errors
  btimed_runs baccept_guided prop_trace mkConfig
  Z.of_N. (* Z.of_N only so that the shared glue (ocaml/common/conv.ml) finds the type z *)
