(* Extraction of the C04 model for the correspondence driver.  ExtrOcamlBasic and
   ExtrOcamlString only: N, Z, positive, nat stay the extracted inductive datatypes. *)
From SV Require Import Base.Prelude Model.Tablets Model.TabletSets Model.Ring Model.Replicas.
Require Extraction.
Require Import ExtrOcamlBasic ExtrOcamlString.
Extraction Language OCaml.
Extraction "../ocaml/c04/model.ml" sort_ring assoc_opt replicas_for rs_len rs_iter rs_nth rs_choose
  rs_ordered spec_replicas list_eqb same_set subset nodupb mem tokens_distinct dc_tokens_distinct
  ring_dcs in_dc rs_run list_run placement_ok ordered_ok computed_shard with_shards assoc_pair rs_run_hints rs_ordered_hint views_ok precomputed_ok
  from_raw_tablet add_tablet tt_empty ts_for ts_len ts_iter ts_nth ts_choose ts_ordered ts_run plist_run.
