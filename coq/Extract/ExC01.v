(* Extraction of the C01 model (CQL value codec + vint) for the correspondence driver.
   ExtrOcamlBasic and ExtrOcamlString only: N, Z, positive, nat stay the extracted inductive
   datatypes. *)
From SV Require Import Base.Prelude Base.Bytes Model.Vint Model.Cql Model.CqlTyped.
Require Extraction.
Require Import ExtrOcamlBasic ExtrOcamlString.
Extraction Language OCaml.
Extraction "../ocaml/c01/model.ml"
  ser_cell deser_cell ser_value deser_value pad pad_cell wf wf_cell wf_type
  known_class known_class_cell known_class_of cells_hole
  ser_vector_cells ser_sequence_cells
  enc_spec enc_cell_spec conforms_ok enc_seq_cells_spec deser_listlike_cells cell_okb rust_native domain_excl
  uvint_encode uvint_decode vint_encode vint_decode zigzag_encode zigzag_decode
  spec_uvint spec_vint spec_zigzag spec_uvint_len uvint_nbytes type_size
  typed_write typed_read typed_check typed_read_cell embed unembed of_cell min_twos leaf_embed read_cql_bytes
  ser_cell_fixed ser_vector_cells_fixed.
