(* Extraction of the C17 model for the correspondence driver.  ExtrOcamlBasic and
   ExtrOcamlString only: N, Z, positive, nat stay the extracted inductive datatypes. *)
From SV Require Import Base.Prelude Base.Bytes Model.Vint Model.Cql Model.Accept.
From SV Require Model.Request.
Require Extraction.
Require Import ExtrOcamlBasic ExtrOcamlString.
Extraction Language OCaml.
Extraction "../ocaml/c17/model.ml" ser_buf ser_dyn ser_accepts deser_check deser_accepts row_accepts
  add_value add_value_chunks chunks_bytes sv_iter sv_iter_go sv_new from_row
  doc_compat spec_compat known_class ser_cell_ok deser_cell_ok is_typeck has_carrier populated
  ser_impl deser_impl static all_bases all_ntypes dyn_fits dyn_known is_size_err val_fits val_known row_check typed_rows closure_count code_compat relaxed vector_elem_hole is_refusal from_typed_row named_vser.
