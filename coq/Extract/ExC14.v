(* Extraction of the C14 model for the correspondence driver.  ExtrOcamlBasic and
   ExtrOcamlString only: N, Z, positive, nat stay the extracted inductive datatypes. *)
From SV Require Import Base.Prelude Base.Bytes Model.Reprepare.
Require Extraction.
Require Import ExtrOcamlBasic ExtrOcamlString.
Extraction Language OCaml.
Extraction "../ocaml/c14/model.ml" ginit sinit g_accept s_accept prop_exec_ok prop_batch_tail
  mk_batch_frame obs_of_outcome decode_rows chunk_rows node_answer node_event stale_check known_classb quadrantb g_par present_ok prepare_on_all prep_accept session_prep_accept plain_node_check known_class_prepb.
