(* Extraction of the C02 model for the correspondence driver.  ExtrOcamlBasic and
   ExtrOcamlString only: N, positive, nat stay the extracted inductive datatypes. *)
From SV Require Import Base.Prelude Model.Streams.
Require Extraction.
Require Import ExtrOcamlBasic ExtrOcamlString.
Extraction Language OCaml.
Extraction "../ocaml/c02/model.ml" hm_new hm_step hm_run hm_into_handlers hm_words hm_r2s
  hm_orphans hm_handlers melements used sm_check sm_applicable
  Z.of_N. (* Z.of_N only so that the shared conv.ml finds the type z *)
