(* Extraction of the C02 model for the correspondence driver.  ExtrOcamlBasic and
   ExtrOcamlString only: N, positive, nat stay the extracted inductive datatypes. *)
From SV Require Import Base.Prelude Model.Streams Model.StreamsTrace.
From SV Require Model.ConnFail.
Require Extraction.
Require Import ExtrOcamlBasic ExtrOcamlString.
Extraction Language OCaml.
Extraction "../ocaml/c02/model.ml" hm_new hm_step hm_run hm_into_handlers hm_words hm_r2s
  hm_orphans hm_handlers melements used sm_check sm_applicable
  th_new th_run th_erase th_words th_handlers th_r2s th_ot ot_orphans ot_by
  ids_check reader_dispatch orphaner_tick_breaks old_ids c02_trace_ok acc_init acc_step acc_run final_ok exhaust_ok
  read_frames ConnFail.parse_frame
  Z.of_N. (* Z.of_N only so that the shared conv.ml finds the type z *)
