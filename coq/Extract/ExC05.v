(* Extraction of the C05 model for the correspondence driver.  ExtrOcamlBasic and
   ExtrOcamlString only: N, Z, positive, nat stay the extracted inductive datatypes. *)
From SV Require Import Base.Prelude Model.Ring Model.Replicas Model.Plan.
Require Extraction.
Require Import ExtrOcamlBasic ExtrOcamlString.
Extraction Language OCaml.
Extraction "../ocaml/c05/model.ml" sort_ring assoc_opt tokens_distinct plan_matches pick_matches
  group_of group_with all_nodes local_nodes rep_local rep_any lwt_sequence min_group mem nodupb permitted computed_shard assoc_pair two_reads_matches two_reads_safe_b.
