(* Extraction of the C16 model (generated derive code + documented behaviour) for the
   correspondence driver.  ExtrOcamlBasic and ExtrOcamlString only. *)
From SV Require Import Base.Prelude Base.Bytes Model.Derive.
Require Extraction.
Require Import ExtrOcamlBasic ExtrOcamlString.
Extraction Language OCaml.
Extraction "../ocaml/c16/model.ml"
  gen_ser_value gen_ser_value_cells gen_typeck_value gen_deser_value
  gen_ser_row gen_ser_row_cells gen_typeck_row gen_deser_row leaves_only rd_leaves
  frame_value frame_cells vdesc_valid vvals_ok val_ok
  doc_ser_value_by_name doc_typeck_value_by_name doc_deser_value_by_name
  doc_ser_row_by_name doc_typeck_row_by_name doc_deser_row_by_name
  doc_ser_value_ordered doc_typeck_value_ordered doc_ser_row_ordered doc_typeck_row_ordered
  doc_deser_value_ordered doc_deser_row_ordered vordered_plain rordered_plain
  back_value rback_value outcome_agrees cells_eqb rdesc_wf
  doc_ser_value_ordered_am doc_typeck_value_ordered_am doc_deser_value_ordered_am
  doc_ser_value_snc doc_typeck_value_snc doc_deser_value_snc
  doc_ser_row_ordered_gen doc_typeck_row_snc doc_deser_row_snc nodupb rt_okb
  ordered_am_drops doc_ser_value_ordered_strict doc_typeck_value_ordered_strict doc_deser_value_ordered_strict
  enc_signed dec_signed. (* the last two only pull the Z datatype needed by ocaml/common/conv.ml *)
