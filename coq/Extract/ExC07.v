(* Extraction of the C07 model for the correspondence driver.  ExtrOcamlBasic and
   ExtrOcamlString only: N, positive, nat stay the extracted inductive datatypes. *)
From SV Require Import Base.Prelude Model.Pager.
Require Extraction.
Require Import ExtrOcamlBasic ExtrOcamlString.
Extraction Language OCaml.
Extraction "../ocaml/c07/model.ml" seq_run obs_items req_key accept_full accept_drop coord_ok follows fits last_opt single_run accept_single prop_single_ok accept_drop_timeout accept_full_timeout early_timeouts ctor_fails prop_full_ok prop_drop_ok
  expected known_ignored fail_point plans_ok good_script start spec_stream spec_error_stream spec_requests
  script_pages e_timeout e_unexpected e_empty_plan e_pool e_broken
  Z.of_N. (* Z.of_N only so that the shared conv.ml finds the type z *)
