(* Extraction of the C03 model for the correspondence driver.  ExtrOcamlBasic and
   ExtrOcamlString only: N, Z, positive, nat stay the extracted inductive datatypes. *)
From SV Require Import Base.Prelude Base.Bytes Model.Cql Model.Shard Model.Murmur Model.PartKey Model.PartName
  Model.PartKeyTyped.
Require Extraction.
Require Import ExtrOcamlBasic ExtrOcamlString.
Extraction Language OCaml.
Extraction "../ocaml/c03/model.ml" hash_one feed token_spec murmur3_token_spec cdc_token_spec
  pk_new encoded_pk_chunks ps_calculate_token ps_compute_partition_key token_for_partition_key
  key_okb prop_token_ok prop_pk_token_ok spec_token spec_serialized_key spec_components
  hash3_x64_128 partitioner_from_str table_partitioner ends_with cdc_suffix murmur3_suffix
  prepared_partitioner session_partitioner partitioners_get typed_row ps_calculate_token_typed ps_compute_partition_key_typed
  shard_of spec_shard_of.
