(* Extraction of the C09 model for the correspondence driver.  ExtrOcamlBasic and
   ExtrOcamlString only: N, Z, positive, nat stay the extracted inductive datatypes. *)
From SV Require Import Base.Prelude Base.Bytes Model.Request.
Require Extraction.
Require Import ExtrOcamlBasic ExtrOcamlString.
Extraction Language OCaml.
Extraction "../ocaml/c09/model.ml" encode_request serialize_request parse_frame frame_says
  oversize batch_counts_match set_stream decompress
  batch_body_len uniform_batch_outcome size_outcome body_too_long compress_append make_frame
  bind_row mini_ser big_outcome
  opcode cons_code serial_code batch_type_code event_name frame_flags qp_flags batch_flags.
