(* Extraction of the C15 model for the correspondence driver.  ExtrOcamlBasic and
   ExtrOcamlString only: N, Z, positive, nat stay the extracted inductive datatypes. *)
From SV Require Import Base.Prelude Model.Tablets Model.TabletsPayload.
Require Extraction.
Require Import ExtrOcamlBasic ExtrOcamlString.
Extraction Language OCaml.
Extraction "../ocaml/c15/model.ml" info_empty step payload_check find_table tablet_for_token
  replicas_for_token dc_replicas_for_token token_new spec_step spec_entry spec_lookup spec_lookup_dc
  restrict_dc spec_present_step spec_present ranges_okb op_i64b refresh_op parse_payload step_bytes learn_of_bytes enc_payload payload_check.
