(* Extraction of the C18 model for the correspondence driver.  ExtrOcamlBasic and
   ExtrOcamlString only: N, Z, positive, nat stay the extracted inductive datatypes. *)
From SV Require Import Base.Prelude Model.Sched Model.Timestamp.
Require Extraction.
Require Import ExtrOcamlBasic ExtrOcamlString.
Extraction Language OCaml.
Extraction "../ocaml/c18/model.ml" compute_next compute_next_checked warn_sub_overflows strictly_incr all_distinct prop_ok final_ok
  accept_sample accept_samples phase_ok choose_ts frames_ts gen_consulted step init run handed_out sched_ok
  Z.to_N N.to_nat Z.add Z.sub Z.ltb.
