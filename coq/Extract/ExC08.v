(* Extraction of the C08 model for the correspondence driver.  ExtrOcamlBasic and
   ExtrOcamlString only: N, Z, positive, nat stay the extracted inductive datatypes. *)
From SV Require Import Base.Prelude Base.Bytes Model.FrameBase Model.FrameTypes Model.FrameResp
  Model.FrameCustom Model.FrameEnc Model.FrameValues Model.FrameChunk Model.FrameGuard.
Require Extraction.
Require Import ExtrOcamlBasic ExtrOcamlString.
Extraction Language OCaml.
Extraction "../ocaml/c08/model.ml" decode encode_frame enc_body enc_header parse_custom
  alloc_bound depth_bound stack_bound stack_in_bound is_rejected largest_in_proportion total_in_proportion read_frame read_frame_chunked reader_after cut_chunks tuple_target tuple_rows_first_error typed_rows_first_error tablet_payload payload_lookup tablets_key decode_pair guard within_expansion.
