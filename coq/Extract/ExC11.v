(* Extraction of the C11 model for the correspondence driver.  ExtrOcamlBasic and
   ExtrOcamlString only: N, Z, positive, nat stay the extracted inductive datatypes. *)
From SV Require Import Base.Prelude Model.Shard Model.ShardConnect Model.ShardRange.
Require Extraction.
Require Import ExtrOcamlBasic ExtrOcamlString.
Extraction Language OCaml.
Extraction "../ocaml/c11/model.ml" shard_of spec_shard_of shard_of_source_port ports_for_shard spec_ports
  accept_iter accept_draw prop_iter_ok prop_draw_ok parse_shard_info
  accept_conn accept_conns starvedb
  connect_loop open_shard_aware tried_shard_aware env_busy open_many free_ports some_pivot_gives
  runs_for_shard shard_count_bounds
  port_range_new draw_port_new iter_ports_new.
