#!/bin/sh
# Regenerates _CoqProject (file list discovered from the directory tree) and the Makefile.
cd "$(dirname "$0")"
{
  echo "-Q . SV"
  echo "-arg -w -arg -deprecated-hint-without-locality,-deprecated-instance-without-locality"
  find Base Model Proofs Props Extract -name '*.v' | sort
} > _CoqProject
coq_makefile -f _CoqProject -o Makefile >/dev/null
