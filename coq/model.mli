
type nat =
| O
| S of nat

val fst : ('a1 * 'a2) -> 'a1

val snd : ('a1 * 'a2) -> 'a2

val length : 'a1 list -> nat

val app : 'a1 list -> 'a1 list -> 'a1 list

type comparison =
| Eq
| Lt
| Gt

val compOpp : comparison -> comparison

val add : nat -> nat -> nat

module Nat :
 sig
  val eqb : nat -> nat -> bool
 end

val list_eq_dec : ('a1 -> 'a1 -> bool) -> 'a1 list -> 'a1 list -> bool

val map : ('a1 -> 'a2) -> 'a1 list -> 'a2 list

val existsb : ('a1 -> bool) -> 'a1 list -> bool

val forallb : ('a1 -> bool) -> 'a1 list -> bool

val filter : ('a1 -> bool) -> 'a1 list -> 'a1 list

val firstn : nat -> 'a1 list -> 'a1 list

val skipn : nat -> 'a1 list -> 'a1 list

val seq : nat -> nat -> nat list

type positive =
| XI of positive
| XO of positive
| XH

type n =
| N0
| Npos of positive

type z =
| Z0
| Zpos of positive
| Zneg of positive

module Pos :
 sig
  type mask =
  | IsNul
  | IsPos of positive
  | IsNeg
 end

module Coq_Pos :
 sig
  val succ : positive -> positive

  val add : positive -> positive -> positive

  val add_carry : positive -> positive -> positive

  val pred_double : positive -> positive

  type mask = Pos.mask =
  | IsNul
  | IsPos of positive
  | IsNeg

  val succ_double_mask : mask -> mask

  val double_mask : mask -> mask

  val double_pred_mask : positive -> mask

  val sub_mask : positive -> positive -> mask

  val sub_mask_carry : positive -> positive -> mask

  val mul : positive -> positive -> positive

  val iter : ('a1 -> 'a1) -> 'a1 -> positive -> 'a1

  val pow : positive -> positive -> positive

  val compare_cont : comparison -> positive -> positive -> comparison

  val compare : positive -> positive -> comparison

  val eqb : positive -> positive -> bool

  val iter_op : ('a1 -> 'a1 -> 'a1) -> positive -> 'a1 -> 'a1

  val to_nat : positive -> nat

  val eq_dec : positive -> positive -> bool
 end

module N :
 sig
  val succ_double : n -> n

  val double : n -> n

  val succ : n -> n

  val add : n -> n -> n

  val sub : n -> n -> n

  val mul : n -> n -> n

  val compare : n -> n -> comparison

  val eqb : n -> n -> bool

  val leb : n -> n -> bool

  val ltb : n -> n -> bool

  val pow : n -> n -> n

  val pos_div_eucl : positive -> n -> n * n

  val div_eucl : n -> n -> n * n

  val div : n -> n -> n

  val modulo : n -> n -> n

  val to_nat : n -> nat

  val eq_dec : n -> n -> bool
 end

module Z :
 sig
  val double : z -> z

  val succ_double : z -> z

  val pred_double : z -> z

  val pos_sub : positive -> positive -> z

  val add : z -> z -> z

  val opp : z -> z

  val sub : z -> z -> z

  val mul : z -> z -> z

  val pow_pos : z -> positive -> z

  val pow : z -> z -> z

  val compare : z -> z -> comparison

  val leb : z -> z -> bool

  val ltb : z -> z -> bool

  val to_N : z -> n

  val of_N : n -> z

  val pos_div_eucl : positive -> z -> z * z

  val div_eucl : z -> z -> z * z

  val div : z -> z -> z

  val modulo : z -> z -> z
 end

val n_of_digits : bool list -> n

val n_of_ascii : char -> n

type ('e, 'a) result =
| Ok of 'a
| Err of 'e

val nrange : n -> nat -> n list

val two64 : n

val u16_max : n

val i64_as_u64 : z -> n

val wrapping_add_bias : n -> n

val shl64 : n -> n -> n

val shard_of : n -> n -> z -> n

val shard_of_source_port : n -> n -> n

val spec_shard_of : n -> n -> z -> n

val lowest_port : n -> n -> n -> n -> n option

val step_ports : n -> n -> n -> n list

val ports_for_shard : n -> n -> n -> n -> n list

val spec_ports : n -> n -> n -> n -> n list

val accept_iter : n -> n -> n -> n -> n list -> bool

val accept_draw : n -> n -> n -> n -> n option -> bool

val prop_iter_ok : n -> n -> n -> n -> n list -> bool

val prop_draw_ok : n -> n -> n -> n -> n option -> bool

type shard_err =
| NoShardInfo
| MissingSomeShardInfoParameters
| MissingShardInfoParameterValues
| ZeroShards
| ShardIdOutOfRange
| ParseIntError

val digit_of : char -> n option

val parse_digits : n -> n -> char list -> n option

val parse_unsigned : n -> char list -> n option

val parse_shard_info :
  char list list option -> char list list option -> char list list option ->
  (shard_err, (n * n) * n) result
