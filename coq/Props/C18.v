(* Property C18 - statements only.  Every theorem is closed by [exact] of a lemma from
   Proofs/Timestamp_proofs.v; the statements are pinned again in /verif/pins/C18.v.

   System: N threads x M calls of MonotonicTimestampGenerator::next_timestamp on one generator,
   atomic steps Load / Clock (one reading of the system clock, ANY value) / Cas, interleaved by
   an arbitrary schedule [ls].  The overflow guard [guard B N M ls] is the only hypothesis:
     0 <= B,  every clock reading in the schedule is (as i64) <= B,  B + N*M < i64::MAX. *)
From SV Require Import Base.Prelude Model.Sched Model.Timestamp Proofs.Timestamp_proofs.
From Coq Require Import Sorting.Sorted Permutation.
Open Scope Z_scope.

(* the atomic `last` is the maximum value handed out; the values handed out are exactly the
   targets of the successful compare-exchanges, which form a strictly increasing chain *)
Theorem C18_inv : forall B N M ls s,
  (0 <= B /\ B + Z.of_nat (N * M) < i64_max /\ sched_ok B ls = true) ->
  run step (init N M) ls = Some s ->
  (forall v, In v (handed_out s) -> 0 < v <= last s) /\
  (handed_out s <> [] -> In (last s) (handed_out s)) /\
  (handed_out s = [] -> last s = 0) /\
  Permutation (handed_out s) (chain s) /\ StronglySorted Z.gt (chain s).
Proof. exact c18_inv. Qed.

(* every compare-exchange either fails and changes nothing, or strictly increases `last` and
   returns exactly the new `last` to the calling thread *)
Theorem C18_cas_step : forall B N M ls s t s',
  (0 <= B /\ B + Z.of_nat (N * M) < i64_max /\ sched_ok B ls = true) ->
  run step (init N M) ls = Some s -> step s (Cas t) = Some s' ->
  (last s' = last s /\ chain s' = chain s /\ handed_out s' = handed_out s) \/
  (last s < last s' /\ chain s' = last s' :: chain s /\
   exists th, nth_error (threads s') t = Some th /\ hd_error (t_out th) = Some (last s')).
Proof. exact c18_cas_step. Qed.

(* all timestamps handed out, over all threads, are pairwise distinct *)
Theorem C18_distinct : forall B N M ls s,
  (0 <= B /\ B + Z.of_nat (N * M) < i64_max /\ sched_ok B ls = true) ->
  run step (init N M) ls = Some s -> NoDup (handed_out s).
Proof. exact c18_distinct. Qed.

(* each thread's own sequence (oldest first) is strictly increasing *)
Theorem C18_thread_mono : forall B N M ls s th,
  (0 <= B /\ B + Z.of_nat (N * M) < i64_max /\ sched_ok B ls = true) ->
  run step (init N M) ls = Some s -> In th (threads s) -> StronglySorted Z.lt (rev (t_out th)).
Proof. exact c18_thread_mono. Qed.

(* real-time order across threads: every value a thread obtains from calls it starts after a
   state s1 exceeds `last s1`, which bounds every value handed out to any thread before s1 -
   a call that starts after another call has returned gets a strictly larger timestamp *)
Theorem C18_call_order : forall B N M ls1 ls2 s1 s2 t th1 th2,
  (0 <= B /\ B + Z.of_nat (N * M) < i64_max /\ sched_ok B (ls1 ++ ls2) = true) ->
  run step (init N M) ls1 = Some s1 -> nth_error (threads s1) t = Some th1 -> t_pc th1 = Idle ->
  run step s1 ls2 = Some s2 -> nth_error (threads s2) t = Some th2 ->
  exists newer, t_out th2 = newer ++ t_out th1 /\ Forall (fun v => last s1 < v) newer /\
                (forall v, In v (handed_out s1) -> v <= last s1).
Proof. exact c18_call_order. Qed.

(* compute_next is strictly above `last` whatever the clock says (stall, repeat, step
   backwards, before the epoch), as long as last < i64::MAX *)
Theorem C18_compute_next_gt : forall l c, 0 <= l < i64_max -> l < compute_next l c.
Proof. exact compute_next_gt. Qed.

(* independent specification: compute_next returns the LEAST value that is above `last` and not below the clock
   reading (for a pre-epoch reading: the least value above `last`) - i.e. max(reading, last + 1) *)
Theorem C18_compute_next_spec : forall last c v,
  0 <= last < i64_max -> (forall m, c = Some m -> 0 <= m <= i64_max) ->
  (v = compute_next last c <->
   (last < v /\ (forall m, c = Some m -> m <= v) /\
    forall w, last < w -> (forall m, c = Some m -> m <= w) -> v <= w)).
Proof. exact compute_next_spec. Qed.
Theorem C18_compute_next_max : forall last m, 0 <= last < i64_max -> 0 <= m <= i64_max ->
  compute_next last (Some m) = Z.max m (last + 1) /\ compute_next last None = last + 1.
Proof. exact compute_next_max. Qed.

(* the clock-skew warning branch (i64 `last - u_cur`): it cannot overflow for any reading below 2^63
   microseconds (nor for a pre-epoch reading), and then the warning configuration does not change
   the result; for a reading of 2^63 microseconds it does overflow - a panic under overflow checks *)
Theorem C18_warn_sub_safe : forall last m, 0 <= last <= i64_max -> 0 <= m < 2 ^ 63 ->
  warn_sub_overflows last (Some m) = false /\
  forall w, compute_next_checked w last (Some m) = Some (compute_next last (Some m)).
Proof. exact warn_sub_safe. Qed.
(* the exact boundary: for a reading that fits a u64, the subtraction overflows iff the reading lies in
   [2^63, 2^63 + last] (so never below 2^63 us, and for EVERY reading in that window) *)
Theorem C18_warn_sub_overflow_iff : forall last m, 0 <= last <= i64_max -> 0 <= m < 2 ^ 64 ->
  (warn_sub_overflows last (Some m) = true <-> 2 ^ 63 <= m <= 2 ^ 63 + last).
Proof. exact warn_sub_overflow_iff. Qed.
Theorem C18_warn_sub_overflow_witness :
  warn_sub_overflows 1700000000000000 (Some (2 ^ 63)) = true /\
  compute_next_checked true 1700000000000000 (Some (2 ^ 63)) = None /\
  compute_next_checked false 1700000000000000 (Some (2 ^ 63)) = Some 1700000000000001.
Proof. exact warn_sub_overflow_witness. Qed.

(* which timestamp a frame carries, as a characterisation of choose_ts / frames_ts / gen_consulted (small
   functions: this is what they are specified to be, the end-to-end tie compares the real frames with them):
   every frame of a request - also the ones re-sent after UNPREPARED - carries choose_ts; that is the
   statement's timestamp iff there is one, else the generated one; the generator is consulted iff the
   statement has none *)
Theorem C18_frames_ts_iff : forall stmt gen k f t,
  (In f (frames_ts stmt gen k) <-> f = choose_ts stmt gen) /\
  (choose_ts stmt gen = Some t <-> stmt = Some t \/ (stmt = None /\ gen = Some t)) /\
  (choose_ts stmt gen = None <-> stmt = None /\ gen = None) /\
  List.length (frames_ts stmt gen k) = S k /\
  (gen_consulted stmt = true <-> stmt = None).
Proof. exact frames_ts_iff. Qed.

(* the predicate evaluated by the correspondence check on the real generator's outputs IS the
   property (distinct over all threads, increasing per thread), and every run of the model
   satisfies it *)
Theorem C18_prop_ok_iff : forall seqs,
  prop_ok seqs = true <-> (Forall (StronglySorted Z.lt) seqs /\ NoDup (concat seqs)).
Proof. exact prop_ok_iff. Qed.

Theorem C18_model_accepted : forall B N M ls s,
  (0 <= B /\ B + Z.of_nat (N * M) < i64_max /\ sched_ok B ls = true) ->
  run step (init N M) ls = Some s ->
  prop_ok (map (fun th => rev (t_out th)) (threads s)) = true.
Proof. exact c18_model_accepted. Qed.

(* the single-thread bracket acceptor: accepted => the value is above the previous one and is
   exactly what the model computes for some clock reading inside the bracket; and every model
   outcome for a reading inside the bracket is accepted *)
Theorem C18_accept_sample_sound : forall lastv t0 v t1,
  0 <= lastv < i64_max -> 0 <= t0 -> t1 <= i64_max ->
  accept_sample lastv t0 v t1 = true ->
  lastv < v /\
  (t0 <= t1 -> exists now, t0 <= now <= t1 /\ v = compute_next lastv (Some now)).
Proof. exact accept_sample_sound. Qed.

Theorem C18_accept_sample_complete : forall lastv t0 now t1,
  0 <= lastv < i64_max -> 0 <= t0 <= now -> now <= t1 -> t1 <= i64_max ->
  accept_sample lastv t0 (compute_next lastv (Some now)) t1 = true.
Proof. exact accept_sample_complete. Qed.

(* the two-phase acceptor: accepted => every first-phase value is below every second-phase value *)
Theorem C18_phase_ok_sound : forall firsts seconds, phase_ok firsts seconds = true ->
  forall f a s b, In f firsts -> In a f -> In s seconds -> In b s -> a < b.
Proof. exact phase_ok_sound. Qed.

(* the overflow guard cannot be dropped: a clock reading of i64::MAX makes the next value wrap
   to i64::MIN in the model (in Rust: panic with overflow checks, wrap without) *)
Theorem C18_overflow_witness :
  exists ls s th, run step (init 1 2) ls = Some s /\ nth_error (threads s) 0 = Some th /\
                  t_out th = [i64_min; i64_max].
Proof. exact c18_overflow_witness. Qed.

(* non-vacuity: two threads, a CAS that fails and is retried, a clock that repeats (100, 100),
   steps backwards (90) and is before the epoch (None) *)
Example C18_ex_run :
  let ls := [Load 0; Load 1; Clock 0 (Some 100); Clock 1 (Some 100); Cas 0; Cas 1;
             Load 1; Clock 1 (Some 90); Cas 1; Load 0; Clock 0 None; Cas 0;
             Load 1; Clock 1 (Some 500); Cas 1] in
  sched_ok 1000 ls = true /\
  option_map (fun s => (last s, map t_out (threads s), chain s)) (run step (init 2 2) ls)
  = Some (500, [[102; 100]; [500; 101]], [500; 102; 101; 100]).
Proof. split; vm_compute; reflexivity. Qed.
Example C18_ex_compute :
  compute_next 100 (Some 100) = 101 /\ compute_next 100 (Some 7) = 101 /\
  compute_next 100 None = 101 /\ compute_next 100 (Some 250) = 250 /\
  compute_next i64_max (Some 3) = i64_min.
Proof. repeat split; vm_compute; reflexivity. Qed.
Example C18_ex_accept :
  prop_ok [[1; 5; 9]; [2; 6]] = true /\ prop_ok [[1; 5; 9]; [2; 5]] = false /\
  prop_ok [[1; 5; 5]] = false /\ prop_ok [[3; 2]] = false /\
  accept_sample 100 90 101 95 = true /\ accept_sample 100 90 102 95 = false /\
  accept_sample 100 150 155 160 = true /\ accept_sample 100 150 101 160 = false.
Proof. repeat split; vm_compute; reflexivity. Qed.

(* anchors of the definitions the driver evaluates (accepting and rejecting inputs) *)
Example C18_ex_choose :
  choose_ts (Some 5) (Some 9) = Some 5 /\ choose_ts (Some (-7)) None = Some (-7) /\
  choose_ts None (Some 9) = Some 9 /\ choose_ts None None = None /\
  gen_consulted (Some 5) = false /\ gen_consulted None = true /\
  frames_ts (Some 5) (Some 9) 1 = [Some 5; Some 5] /\ frames_ts None (Some 9) 2 = [Some 9; Some 9; Some 9] /\
  frames_ts None None 0 = [None].
Proof. repeat split; vm_compute; reflexivity. Qed.
Example C18_ex_predicates :
  final_ok [[1; 5]; [2]] 6 = true /\ final_ok [[1; 5]; [2]] 5 = false /\
  phase_ok [[1; 3]; [2]] [[4]; [5; 6]] = true /\ phase_ok [[1; 8]; [2]] [[4]; [9]] = false /\
  all_distinct [[3; 1]; [2]] = true /\ all_distinct [[3; 1]; [1]] = false /\
  strictly_incr [1; 2; 2] = false /\ strictly_incr [-3; 0; 7] = true /\
  accept_samples 0 [(10, 12, 13); (12, 13, 12); (5, 14, 20)] = true /\
  accept_samples 0 [(10, 12, 13); (14, 13, 15)] = false /\
  sched_ok 10 [Clock 0 (Some 11)] = false /\ sched_ok 10 [Clock 0 (Some 10); Clock 1 None; Load 0] = true /\
  wrap64 (2 ^ 63) = i64_min /\ wrap64 (-1) = -1.
Proof. repeat split; vm_compute; reflexivity. Qed.

Print Assumptions C18_inv.
Print Assumptions C18_cas_step.
Print Assumptions C18_distinct.
Print Assumptions C18_thread_mono.
Print Assumptions C18_call_order.
Print Assumptions C18_compute_next_gt.
Print Assumptions C18_compute_next_spec.
Print Assumptions C18_compute_next_max.
Print Assumptions C18_warn_sub_safe.
Print Assumptions C18_warn_sub_overflow_iff.
Print Assumptions C18_warn_sub_overflow_witness.
Print Assumptions C18_frames_ts_iff.
Print Assumptions C18_prop_ok_iff.
Print Assumptions C18_model_accepted.
Print Assumptions C18_accept_sample_sound.
Print Assumptions C18_accept_sample_complete.
Print Assumptions C18_phase_ok_sound.
Print Assumptions C18_overflow_witness.
