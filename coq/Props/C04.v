(* Property C04 — statements only.  Every theorem is closed by [exact] of a lemma from
   Proofs/Ring_proofs.v / Proofs/Replicas_proofs.v / Proofs/C04_d4.v; the statements are pinned again in
   /verif/pins/C04.v.

   [g] is the global token ring as the locator stores it.  The only hypothesis on it is
   [sorted_weak g] (tokens non-decreasing), which C04_ring shows for every ring built by
   TokenRing::new.  Tokens may repeat (across datacenters or not): since the ring walk starts at
   the FIRST position whose token is >= t (partition_point), "clockwise" is definite on such
   rings too — members sharing a token come in the ring's stable (insertion) order.
   [nts_keys_ok s]: an NTS map has one entry per datacenter (it is a HashMap). *)
From SV Require Import Base.Prelude Model.Tablets Model.TabletSets Proofs.TabletSets_proofs Model.Ring Model.Shard Model.Replicas Proofs.Ring_proofs Proofs.Replicas_proofs Proofs.C04_d4.
From Coq Require Import Permutation Sorted.
Open Scope Z_scope.

(* TokenRing::new: the stored ring is the sorted entry list; distinct tokens => strictly sorted *)
Theorem C04_ring : forall (raw : ring N),
  sorted_weak (sort_ring raw) /\ Permutation (sort_ring raw) raw /\
  (NoDup (map fst raw) -> sorted_strict (sort_ring raw)).
Proof. exact (fun raw => conj (sort_ring_sorted raw) (conj (sort_ring_perm raw) (sort_ring_strict raw))). Qed.

(* the ring walk starts at the first token >= t and wraps around *)
Theorem C04_ring_range : forall (g : ring N) t,
  sorted_weak g -> ring_range_full g t = clockwise g t.
Proof. exact (@ring_range_full_clockwise N). Qed.

(* SimpleStrategy: the on-the-fly walker = "the first RF distinct nodes clockwise from the token" *)
Theorem C04_simple : forall (g : ring N) t rf,
  sorted_weak g -> simple_replicas g t rf = spec_simple g t rf.
Proof. exact (simple_spec (fun _ => None) (fun _ => None)). Qed.

(* NetworkTopologyStrategy, one datacenter: the iterator with its counters = the walk of the
   property text (rack new, or repeats still allowed, until min(RF, nodes) are found) *)
Theorem C04_nts : forall dcf rackf (g : ring N) t d rf,
  sorted_weak g -> nts_replicas dcf rackf g t d rf = spec_nts_dc dcf rackf g t d rf.
Proof. exact nts_spec. Qed.

(* every strategy, restricted or not, precomputed or not: reported replicas = specification *)
Theorem C04_replicas : forall dcf rackf (g : ring N) pre t s dc,
  sorted_weak g ->
  rs_iter dcf rackf g pre t (replicas_for dcf rackf g pre t s dc) = spec_replicas dcf rackf g t s dc.
Proof. exact replicas_spec. Qed.

(* the same for the ring TokenRing::new builds from ANY entry list (repeated tokens included) *)
Theorem C04_replicas_any_ring : forall dcf rackf (raw : ring N) pre t s dc,
  rs_iter dcf rackf (sort_ring raw) pre t (replicas_for dcf rackf (sort_ring raw) pre t s dc) =
  spec_replicas dcf rackf (sort_ring raw) t s dc.
Proof. exact (fun dcf rackf raw pre t s dc => replicas_spec dcf rackf (sort_ring raw) pre t s dc (sort_ring_sorted raw)). Qed.

(* the prefix properties the precomputation relies on *)
Theorem C04_prefix_simple : forall (g : ring N) t rf m,
  (rf <= m)%nat -> simple_replicas g t rf = firstn rf (simple_replicas g t m).
Proof. exact prefix_simple. Qed.

Theorem C04_prefix_nts : forall dcf rackf (g : ring N) t d rf m,
  (rf <= m)%nat -> (m <= rack_count rackf (dc_ring dcf g d))%nat ->
  nts_replicas dcf rackf g t d rf = firstn rf (nts_replicas dcf rackf g t d m).
Proof. exact prefix_nts. Qed.

(* token snap: a token and the ring token its lookup lands on have the same replicas *)
Theorem C04_token_snap : forall dcf rackf (g : ring N) t d rf e,
  (sorted_weak g -> get_entry_for_token g t = Some e ->
     simple_replicas g (fst e) rf = simple_replicas g t rf) /\
  (get_entry_for_token (dc_ring dcf g d) t = Some e ->
     nts_replicas dcf rackf g (fst e) d rf = nts_replicas dcf rackf g t d rf).
Proof.
  exact (fun dcf rackf g t d rf e =>
           conj (snap_simple g t rf e) (snap_nts dcf rackf g t d rf e)).
Qed.

(* lookups in the precomputed data = on-the-fly computation, for EVERY set of strategies the
   precomputation was run for (compressed ring, per-RF rings above the rack count, fallback) *)
Theorem C04_precomputed : forall dcf rackf (g : ring N) pre t d rf,
  (sorted_weak g -> get_simple g pre t rf = simple_replicas g t rf) /\
  get_nts dcf rackf g pre t d rf = nts_replicas dcf rackf g t d rf.
Proof.
  exact (fun dcf rackf g pre t d rf =>
           conj (precomputed_simple g pre t rf) (precomputed_nts dcf rackf g pre t d rf)).
Qed.

(* the one-entry evaluation used by the model = a lookup in the materialised precomputed ring *)
Theorem C04_precomputed_rings : forall dcf rackf (g : ring N) pre t d m,
  (sorted_weak g ->
     get_elem_for_token (pre_ring_simple g pre) t =
     pre_lookup g (fun tk => simple_replicas g tk (max_global_rf pre)) t) /\
  get_elem_for_token (pre_ring_nts dcf rackf g d m) t =
  pre_lookup (dc_ring dcf g d) (fun tk => nts_replicas dcf rackf g tk d m) t.
Proof.
  exact (fun dcf rackf g pre t d m =>
           conj (pre_lookup_simple_materialised g pre t) (pre_lookup_nts_materialised dcf rackf g d m t)).
Qed.

Theorem C04_precomputed_any : forall dcf rackf (g : ring N) pre pre' t s dc,
  sorted_weak g ->
  rs_iter dcf rackf g pre t (replicas_for dcf rackf g pre t s dc) =
  rs_iter dcf rackf g pre' t (replicas_for dcf rackf g pre' t s dc).
Proof. exact precomputed_any. Qed.

(* restricting to a datacenter = filtering the unrestricted answer (no hypothesis at all) *)
Theorem C04_dc_filter : forall dcf rackf (g : ring N) pre t s d,
  rs_iter dcf rackf g pre t (replicas_for dcf rackf g pre t s (Some d)) =
  filter (in_dc dcf d) (rs_iter dcf rackf g pre t (replicas_for dcf rackf g pre t s None)).
Proof. exact dc_filter. Qed.

(* sizes of the NTS answer; the lazy chained set asks for min(rf, nodes) in `choose` *)
Theorem C04_nts_len : forall dcf rackf (g : ring N) t d rf,
  List.length (nts_replicas dcf rackf g t d rf) = Nat.min rf (nodes_in_dc dcf g d).
Proof. exact nts_len. Qed.

Theorem C04_nts_sat : forall dcf rackf (g : ring N) t d rf,
  nts_replicas dcf rackf g t d (Nat.min rf (nodes_in_dc dcf g d)) = nts_replicas dcf rackf g t d rf.
Proof. exact nts_min. Qed.

(* the views of one replica set describe the same nodes *)
Theorem C04_views_len : forall dcf rackf (g : ring N) pre t s dc,
  nts_keys_ok s ->
  rs_len dcf g (replicas_for dcf rackf g pre t s dc) =
  List.length (rs_iter dcf rackf g pre t (replicas_for dcf rackf g pre t s dc)).
Proof. exact len_view. Qed.

Theorem C04_views_nth : forall dcf rackf (g : ring N) pre t s k,
  rs_nth dcf rackf g pre t s k = nth_error (rs_iter dcf rackf g pre t s) k.
Proof. exact nth_view. Qed.

Theorem C04_views_choose : forall dcf rackf (g : ring N) pre t s dc index,
  nts_keys_ok s ->
  rs_choose dcf rackf g pre t (replicas_for dcf rackf g pre t s dc) index =
  nth_error (rs_iter dcf rackf g pre t (replicas_for dcf rackf g pre t s dc)) index.
Proof. exact choose_view'. Qed.

Theorem C04_views_nodup : forall dcf rackf (g : ring N) pre t,
  sorted_weak g -> forall s dc, NoDup (rs_iter dcf rackf g pre t (replicas_for dcf rackf g pre t s dc)).
Proof. exact iter_NoDup. Qed.

(* the ring-ordered view: exactly the set's nodes, in the order of their first position on the
   ring walk from the token; the code's `assert!(all_replicas.is_empty())` never fires *)
Theorem C04_views_ordered : forall dcf rackf (g : ring N) pre t,
  sorted_weak g -> forall s dc, nts_keys_ok s ->
  rs_ordered dcf rackf g pre t (replicas_for dcf rackf g pre t s dc) =
  (filter (fun x => mem x (rs_iter dcf rackf g pre t (replicas_for dcf rackf g pre t s dc)))
          (uniq (ring_range g t)), []).
Proof. exact ordered_view. Qed.

Theorem C04_views_ordered_perm : forall dcf rackf (g : ring N) pre t,
  sorted_weak g -> forall s dc, nts_keys_ok s ->
  Permutation (fst (rs_ordered dcf rackf g pre t (replicas_for dcf rackf g pre t s dc)))
              (rs_iter dcf rackf g pre t (replicas_for dcf rackf g pre t s dc)).
Proof. exact ordered_perm. Qed.

(* next() and nth(n) interleaved in any way on one iterator (the stateful ChainedNTS loop
   included) yield what the same operations mean on the iterated sequence — no hypothesis *)
Theorem C04_views_ops : forall dcf rackf (g : ring N) pre t s ops,
  rs_run dcf rackf g pre t s ops = list_run ops (rs_iter dcf rackf g pre t s).
Proof. exact iter_ops_view. Qed.

(* the two predicates the correspondence check evaluates on the implementation's own output
   when it disagrees with the model: what they mean, and that the model satisfies them *)
Theorem C04_placement_sound : forall spec observed,
  placement_ok spec observed = true <->
  NoDup observed /\ NoDup spec /\ (forall x, In x observed <-> In x spec).
Proof. exact (fun spec observed => same_set_spec observed spec). Qed.

(* what the ring-order predicate means: the ordered view names exactly the iterated nodes that
   own a token, each once, in the order in which the clockwise walk from the token (C04_ring_range)
   first reaches them.  [first_pos x w] = index of the first occurrence of x in w. *)
Theorem C04_ordered_ok_sound : forall (g : ring N) t iter ordered,
  ordered_ok g t iter ordered = true <->
  NoDup ordered /\
  (forall x, In x ordered <-> In x iter /\ In x (ring_range g t)) /\
  StronglySorted (fun x y => (first_pos x (ring_range g t) < first_pos y (ring_range g t))%nat) ordered.
Proof. exact ordered_ok_spec. Qed.

Theorem C04_placement_model : forall dcf rackf (g : ring N) pre t s dc,
  sorted_weak g ->
  placement_ok (spec_replicas dcf rackf g t s dc)
               (rs_iter dcf rackf g pre t (replicas_for dcf rackf g pre t s dc)) = true.
Proof. exact placement_model. Qed.

Theorem C04_ordered_model : forall dcf rackf (g : ring N) pre t s dc,
  sorted_weak g -> nts_keys_ok s ->
  let r := replicas_for dcf rackf g pre t s dc in
  snd (rs_ordered dcf rackf g pre t r) = [] /\
  ordered_ok g t (rs_iter dcf rackf g pre t r) (fst (rs_ordered dcf rackf g pre t r)) = true.
Proof. exact ordered_model. Qed.

(* size_hint.  [it_reach ops (it_init s)] is the iterator state after any sequence of next() /
   nth(n) on a fresh iterator, [alpha st] what it still has to yield (C04_remaining: running
   further operations from st is running them on that list).  In every such state
   lower <= number of remaining replicas <= upper, and the usize subtraction in the ChainedNTS
   upper bound does not underflow. *)
Theorem C04_remaining : forall dcf rackf (g : ring N) pre t ops st,
  it_run dcf rackf g pre t ops st = list_run ops (alpha dcf rackf g pre t st).
Proof. exact it_run_spec. Qed.

Theorem C04_size_hint : forall dcf rackf (g : ring N) pre t s ops,
  let st := it_reach dcf rackf g pre t ops (it_init dcf rackf g pre t s) in
  (fst (it_size_hint dcf g st) <= List.length (alpha dcf rackf g pre t st) <= snd (it_size_hint dcf g st))%nat.
Proof. exact size_hint_reachable. Qed.

Theorem C04_size_hint_no_underflow : forall dcf rackf (g : ring N) pre t s ops m cur ridx rest,
  it_reach dcf rackf g pre t ops (it_init dcf rackf g pre t s) = IChained m cur ridx rest ->
  (sum_or0 m (firstn (List.length (ring_dcs dcf g) - S (List.length rest)) (ring_dcs dcf g)) + ridx <= sum_rf m)%nat.
Proof.
  exact (fun dcf rackf g pre t s ops m cur ridx rest E =>
    size_hint_no_underflow dcf rackf g pre t m cur ridx rest
      (eq_ind _ (wf dcf rackf g pre t) (reach_wf dcf rackf g pre t ops _ (init_wf dcf rackf g pre t s)) _ E)).
Qed.

(* the ring-ordered iterator before its first next() *)
Theorem C04_size_hint_ordered : forall dcf rackf (g : ring N) pre t s dc,
  sorted_weak g -> nts_keys_ok s ->
  let r := replicas_for dcf rackf g pre t s dc in
  (fst (rs_ordered_hint dcf rackf g pre t r) <= List.length (fst (rs_ordered dcf rackf g pre t r))
   <= snd (rs_ordered_hint dcf rackf g pre t r))%nat.
Proof. exact ordered_hint_bounds. Qed.

(* the driver's remaining property predicates [views_ok] (size, nth, choose, choose_filtered,
   interleaved next/nth, get_token_endpoints all describe the iterated duplicate-free list) and
   [precomputed_ok]: what they mean, and that the model satisfies them *)
Theorem C04_views_ok_sound : forall len iter nth choose cf cfpred opsl ep,
  views_ok len iter nth choose cf cfpred opsl ep = true <->
  len = List.length iter /\ NoDup iter /\
  (forall k, (k < List.length nth)%nat -> nth_error nth k = Some (nth_error iter k)) /\
  List.length choose = len /\ (forall o, In o choose -> exists x, o = Some x /\ In x iter) /\
  match cf with
  | Some x => In x iter /\ cfpred x = true
  | None => forall x, In x iter -> cfpred x = false
  end /\
  (forall ops out, In (ops, out) opsl -> out = list_run ops iter) /\
  match ep with
  | Some l => NoDup l /\ (forall x, In x l <-> In x iter)
  | None => True
  end.
Proof. exact views_ok_spec. Qed.

(* a restatement: precomputed_ok np iter is placement_ok iter np (C04_placement_sound with the
   arguments swapped); kept so that each extracted predicate has a theorem under its own name *)
Theorem C04_precomputed_ok_sound : forall np iter,
  precomputed_ok np iter = true <-> NoDup np /\ NoDup iter /\ (forall x, In x np <-> In x iter).
Proof. exact precomputed_ok_sound. Qed.

Theorem C04_views_ok_model : forall dcf rackf (g : ring N) pre t s dc n cf cfpred opss,
  sorted_weak g -> nts_keys_ok s ->
  let r := replicas_for dcf rackf g pre t s dc in
  let iter := rs_iter dcf rackf g pre t r in
  match cf with
  | Some x => In x iter /\ cfpred x = true
  | None => forall x, In x iter -> cfpred x = false
  end ->
  views_ok (rs_len dcf g r) iter (map (rs_nth dcf rackf g pre t r) (seq 0 n))
           (map (rs_choose dcf rackf g pre t r) (seq 0 (rs_len dcf g r))) cf cfpred
           (map (fun ops => (ops, rs_run dcf rackf g pre t r ops)) opss) (Some iter) = true.
Proof. exact views_model. Qed.

Theorem C04_precomputed_ok_model : forall dcf rackf (g : ring N) pre pre' t s dc,
  sorted_weak g ->
  precomputed_ok (rs_iter dcf rackf g pre' t (replicas_for dcf rackf g pre' t s dc))
                 (rs_iter dcf rackf g pre t (replicas_for dcf rackf g pre t s dc)) = true.
Proof. exact precomputed_model. Qed.

(* with_computed_shard: every replica a view yields is paired with [shard_of] of its node's
   sharder applied to the token — C11's model function, for which C11_shard_spec (= ScyllaDB's
   algorithm) and C11_shard_lt (< nr_shards) are proved in Props/C11.v — and with 0 for a node
   without sharder; the nodes themselves are unchanged *)
Theorem C04_shards : forall sharderf t l,
  map fst (with_shards sharderf t l) = l /\
  (forall n sh, In (n, sh) (with_shards sharderf t l) ->
     In n l /\ sh = match sharderf n with Some (nr, msb) => shard_of nr msb t | None => 0%N end).
Proof. exact (fun sharderf t l => conj (with_shards_nodes sharderf t l) (with_shards_spec sharderf t l)). Qed.

(* ---- tablet-backed replica sets (ReplicaSetInner::PlainSharded) ---------------------------
   On a table that has tablets the set is the owning tablet's replica list (Model/Tablets.v, C15),
   with the tablet's own shards.  Size, iteration, nth, choose and the ordered view describe that
   list; next()/nth(n) interleaved and size_hint (exact) behave as on the list; restricting to a
   datacenter gives the unrestricted replicas living in that datacenter, in every state the
   tablet map can reach. *)
Theorem C04_views_tablets : forall (s : tset) k,
  ts_len s = List.length (ts_iter s) /\
  ts_nth s k = nth_error (ts_iter s) k /\
  ts_choose s k = nth_error (ts_iter s) k /\
  ts_ordered s = ts_iter s.
Proof. exact (fun s k => conj (ts_len_iter s) (conj (ts_nth_iter s k) (conj (ts_choose_iter s k) eq_refl))). Qed.

Theorem C04_views_tablets_ops : forall (s : tset) ops idx,
  ts_run s ops idx = plist_run ops (skipn idx (ts_iter s)).
Proof. exact ts_run_spec_any. Qed.

Theorem C04_tablets_dc_filter : forall hist s k tok d,
  Forall op_i64 hist -> run hist = Some s ->
  ts_of (lookup_dc s k tok d) = restrict_dc d (ts_of (lookup s k tok)).
Proof. exact ts_dc_filter. Qed.

(* ---- non-vacuity: the 7-node, 2-datacenter ring of the repository's own tests -----------
   nodes A..G = 1..7; eu = 1, us = 2; racks r1 = 1, r2 = 2 *)
Definition ex_dcf (n : N) : option N :=
  match n with 4%N | 5%N | 6%N => Some 2%N | _ => Some 1%N end.
Definition ex_rackf (n : N) : option N :=
  match n with 6%N | 7%N => Some 2%N | _ => Some 1%N end.
Definition ex_raw : ring N :=
  map (fun e : Z * Z => (fst e, Z.to_N (snd e)))
  [(50,1);(250,1);(400,1);(100,2);(600,2);(900,2);(300,3);(650,3);(700,3);(350,4);(550,4);
   (150,5);(750,5);(200,6);(450,6);(500,7);(800,7)].
Definition ex_g := sort_ring ex_raw.

Example C04_ex_hyps : sorted_weak ex_g /\ sorted_strict ex_g /\ nts_keys_ok (NTS [(1%N, 3%nat); (2%N, 3%nat)]).
Proof.
  split; [apply sort_ring_sorted|]. split; [apply sorted_strictb_spec; vm_compute; reflexivity|].
  cbn. repeat constructor; cbn; intuition congruence.
Qed.

Example C04_ex_simple : simple_replicas ex_g 160 2 = [6; 1]%N /\ simple_replicas ex_g 701 8 = [5; 7; 2; 1; 6; 3; 4]%N.
Proof. split; vm_compute; reflexivity. Qed.

Example C04_ex_nts :
  nts_replicas ex_dcf ex_rackf ex_g 160 1 2 = [1; 7]%N /\
  nts_replicas ex_dcf ex_rackf ex_g 160 1 3 = [1; 3; 7]%N /\
  nts_replicas ex_dcf ex_rackf ex_g 160 1 5 = [1; 3; 7; 2]%N /\
  nts_replicas ex_dcf ex_rackf ex_g 160 2 3 = [6; 4; 5]%N.
Proof. repeat split; vm_compute; reflexivity. Qed.

Example C04_ex_views :
  let pre := [Simple 2; NTS [(1%N, 2%nat); (2%N, 2%nat)]] in
  let s := replicas_for ex_dcf ex_rackf ex_g pre 160 (NTS [(1%N, 3%nat); (2%N, 3%nat)]) None in
  rs_len ex_dcf ex_g s = 6%nat /\
  rs_iter ex_dcf ex_rackf ex_g pre 160 s = [1; 3; 7; 6; 4; 5]%N /\
  rs_ordered ex_dcf ex_rackf ex_g pre 160 s = ([6; 1; 3; 4; 7; 5]%N, []) /\
  rs_choose ex_dcf ex_rackf ex_g pre 160 s 4 = Some 4%N /\
  rs_nth ex_dcf ex_rackf ex_g pre 160 s 5 = Some 5%N /\
  rs_iter ex_dcf ex_rackf ex_g pre 160 (replicas_for ex_dcf ex_rackf ex_g pre 160 (NTS [(1%N, 2%nat); (2%N, 2%nat)]) (Some 2%N)) = [6; 4]%N.
Proof. repeat split; vm_compute; reflexivity. Qed.

(* the specification itself and the driver's predicates, on concrete inputs (accepting and
   rejecting): these anchor the definitions *)
Example C04_ex_spec :
  spec_replicas ex_dcf ex_rackf ex_g 160 (Simple 3) None = [6; 1; 3]%N /\
  spec_replicas ex_dcf ex_rackf ex_g 160 (Simple 3) (Some 1%N) = [1; 3]%N /\
  spec_replicas ex_dcf ex_rackf ex_g 160 (NTS [(1%N, 2%nat); (2%N, 1%nat)]) None = [1; 7; 6]%N /\
  spec_replicas ex_dcf ex_rackf ex_g 160 (NTS [(2%N, 0%nat); (1%N, 2%nat)]) None = [1; 7]%N /\
  spec_replicas ex_dcf ex_rackf ex_g 901 LocalS None = [1%N] /\
  spec_nts_dc ex_dcf ex_rackf ex_g 160 1 4 = [1; 3; 7; 2]%N.
Proof. repeat split; vm_compute; reflexivity. Qed.

Example C04_ex_predicates :
  placement_ok [6; 1; 3]%N [3; 6; 1]%N = true /\          (* same nodes in another order *)
  placement_ok [6; 1; 3]%N [6; 1]%N = false /\            (* a replica missing *)
  placement_ok [6; 1; 3]%N [6; 1; 4]%N = false /\         (* a non-replica *)
  placement_ok [6; 1; 3]%N [6; 1; 3; 6]%N = false /\      (* a node twice *)
  ordered_ok ex_g 160 [1; 3; 7; 6; 4; 5]%N [6; 1; 3; 4; 7; 5]%N = true /\
  ordered_ok ex_g 160 [1; 3; 7; 6; 4; 5]%N [1; 3; 7; 6; 4; 5]%N = false /\   (* not ring order *)
  ordered_ok ex_g 160 [1; 7]%N [6; 1; 7]%N = false /\                       (* F5: a non-replica first *)
  ordered_ok dup_ring 10 [1%N] [3; 1]%N = false.                            (* F18 *)
Proof. repeat split; vm_compute; reflexivity. Qed.

Example C04_ex_shards :
  let sharderf := fun n : N => match n with 1%N => Some (8%N, 0%N) | 7%N => Some (3%N, 12%N) | _ => None end in
  with_shards sharderf 160 [1; 3; 7]%N = [(1, 4); (3, 0); (7, 0)]%N /\
  with_shards sharderf (-4611686018427387904) [1; 7]%N = [(1, 2); (7, 0)]%N /\
  computed_shard sharderf 3000000000000000 7%N = 1%N.
Proof. repeat split; vm_compute; reflexivity. Qed.

Example C04_ex_hints :
  let pre := [Simple 2] in
  let s := replicas_for ex_dcf ex_rackf ex_g pre 160 (NTS [(1%N, 3%nat); (2%N, 5%nat); (9%N, 2%nat)]) None in
  rs_run_hints ex_dcf ex_rackf ex_g pre 160 s [INext; INth 1; INext; INth 0; INth 2; INext] =
    [(3, 10); (2, 9); (0, 7); (2, 6); (1, 5); (0, 4); (0, 4)]%nat /\
  rs_ordered_hint ex_dcf ex_rackf ex_g pre 160 s = (0, 10)%nat /\
  rs_run_hints ex_dcf ex_rackf ex_g pre 160 (replicas_for ex_dcf ex_rackf ex_g pre 160 (Simple 3) (Some 1%N)) [INext; INext] =
    [(0, 3); (0, 1); (0, 0)]%nat.
Proof. repeat split; vm_compute; reflexivity. Qed.

Example C04_ex_tablets :
  let a := mkNode 1 0 (Some 1%N) in let b := mkNode 2 0 (Some 2%N) in let c := mkNode 3 0 (Some 1%N) in
  let t1 := from_raw_tablet (-100) 0 [(1, 3); (2, 0)]%N [a; b; c] in
  let t2 := from_raw_tablet 1 50 [(3, 1); (1, 2); (2, 5)]%N [a; b; c] in
  ts_iter (ts_for [t1; t2] 7 None) = [(3, 1); (1, 2); (2, 5)]%N /\
  ts_iter (ts_for [t1; t2] 7 (Some 1%N)) = [(3, 1); (1, 2)]%N /\
  ts_iter (ts_for [t1; t2] 0 (Some 2%N)) = [(2, 0)]%N /\
  ts_iter (ts_for [t1; t2] 51 None) = [] /\ ts_len (ts_for [t1; t2] (-100) None) = 2%nat /\
  ts_choose (ts_for [t1; t2] 7 None) 2 = Some (2, 5)%N /\ ts_nth (ts_for [t1; t2] 7 None) 3 = None /\
  map fst (ts_run (ts_for [t1; t2] 7 None) [TNext; TNth 1; TNext] 0) = [Some (3, 1); Some (2, 5); None]%N.
Proof. repeat split; vm_compute; reflexivity. Qed.

Example C04_ex_views_ok :
  let odd := fun n : N => N.odd n in
  let ops := [INext; INth 1] in
  views_ok 3 [6; 1; 3]%N [Some 6; Some 1; Some 3; None]%N [Some 6; Some 1; Some 3]%N (Some 3%N) odd [(ops, [Some 6; Some 3]%N)] (Some [3; 1; 6]%N) = true /\
  views_ok 2 [6; 1; 3]%N [Some 6; Some 1; Some 3; None]%N [Some 6; Some 1; Some 3]%N (Some 3%N) odd [] None = false /\   (* len *)
  views_ok 3 [6; 1; 3]%N [Some 6; Some 3; Some 1; None]%N [Some 6; Some 1; Some 3]%N (Some 3%N) odd [] None = false /\   (* nth *)
  views_ok 3 [6; 1; 3]%N [Some 6; Some 1; Some 3; None]%N [Some 6; Some 1; Some 4]%N (Some 3%N) odd [] None = false /\   (* choose *)
  views_ok 3 [6; 1; 3]%N [] [Some 6; Some 1; Some 3]%N (Some 6%N) odd [] None = false /\                               (* choose_filtered: predicate *)
  views_ok 3 [6; 1; 3]%N [] [Some 6; Some 1; Some 3]%N None odd [] None = false /\                                      (* choose_filtered: None although 1, 3 qualify *)
  views_ok 3 [6; 1; 3]%N [] [Some 6; Some 1; Some 3]%N (Some 1%N) odd [(ops, [Some 6; Some 1]%N)] None = false /\        (* interleaving *)
  views_ok 3 [6; 1; 3]%N [] [Some 6; Some 1; Some 3]%N (Some 1%N) odd [] (Some [6; 1]%N) = false /\                     (* endpoints *)
  views_ok 3 [6; 1; 6]%N [] [Some 6; Some 1; Some 6]%N (Some 1%N) odd [] None = false /\                                (* a replica named twice *)
  views_ok 3 [6; 1; 3]%N [] [Some 6; Some 1]%N (Some 1%N) odd [] None = false /\                                        (* number of choose results *)
  precomputed_ok [1; 6]%N [6; 1]%N = true /\ precomputed_ok [2; 3]%N [1; 2]%N = false.
Proof. repeat split; vm_compute; reflexivity. Qed.

(* C04_views_ok_model / C04_precomputed_ok_model instantiated: the model's own views pass, and the
   premise about choose_filtered matters (cf = None although odd replicas exist is refused) *)
Example C04_ex_views_model :
  let pre := [Simple 2; NTS [(1%N, 3%nat); (2%N, 3%nat)]] in
  let s := NTS [(1%N, 3%nat); (2%N, 3%nat)] in
  let r := replicas_for ex_dcf ex_rackf ex_g pre 160 s None in
  let iter := rs_iter ex_dcf ex_rackf ex_g pre 160 r in
  let opss := [[INext; INth 1; INext; INth 0; INth 2; INext]; [INth 0; INth 0; INext; INth 3; INext]] in
  let v := fun cf => views_ok (rs_len ex_dcf ex_g r) iter (map (rs_nth ex_dcf ex_rackf ex_g pre 160 r) (seq 0 8))
             (map (rs_choose ex_dcf ex_rackf ex_g pre 160 r) (seq 0 (rs_len ex_dcf ex_g r))) cf N.odd
             (map (fun ops => (ops, rs_run ex_dcf ex_rackf ex_g pre 160 r ops)) opss) (Some iter) in
  List.length iter = 6%nat /\ v (Some 7%N) = true /\ v None = false /\
  precomputed_ok (rs_iter ex_dcf ex_rackf ex_g [] 160 (replicas_for ex_dcf ex_rackf ex_g [] 160 s None)) iter = true.
Proof. repeat split; vm_compute; reflexivity. Qed.

(* first_pos, and the ring-order predicate on a walk that reaches node 3 before node 1 *)
Example C04_ex_first_pos :
  map (fun x => first_pos x [1; 3; 2; 3]%N) [1; 3; 2; 9]%N = [0; 1; 2; 4]%nat /\
  ordered_ok [(10, 3%N); (20, 1%N); (30, 3%N)] 5 [1; 3]%N [3; 1]%N = true /\
  ordered_ok [(10, 3%N); (20, 1%N); (30, 3%N)] 5 [1; 3]%N [1; 3]%N = false /\
  ordered_ok [(10, 3%N); (20, 1%N); (30, 3%N)] 15 [1; 3]%N [1; 3]%N = true.
Proof. repeat split; vm_compute; reflexivity. Qed.

Example C04_ex_ops :
  let pre := [Simple 2] in
  let s := replicas_for ex_dcf ex_rackf ex_g pre 160 (NTS [(1%N, 3%nat); (2%N, 3%nat)]) None in
  rs_run ex_dcf ex_rackf ex_g pre 160 s [INext; INth 1; INext; INth 0; INth 2; INext] =
    [Some 1; Some 7; Some 6; Some 4; None; None]%N /\
  list_run [INth 0; INth 0; INext; INth 3; INext] [1; 3; 7; 6; 4; 5]%N = [Some 1; Some 3; Some 7; None; None]%N.
Proof. split; vm_compute; reflexivity. Qed.

(* the witness of the repaired finding F18: a token owned by nodes of two datacenters *)
Example C04_ex_dup :
  rs_iter dup_dcf (fun _ => None) dup_ring [] 10 (RChained [(1%N, 1%nat)]) = [1%N] /\
  rs_ordered dup_dcf (fun _ => None) dup_ring [] 10 (RChained [(1%N, 1%nat)]) = ([1%N], []) /\
  get_simple dup_ring [] 5 1 = simple_replicas dup_ring 5 1 /\ simple_replicas dup_ring 10 2 = [1; 2]%N.
Proof. repeat split; vm_compute; reflexivity. Qed.

(* ---- deepening round 4 -------------------------------------------------------------------- *)
(* [tokens_distinct] decides in the driver whether a ring has entries sharing a token (then the
   placement / ring-order predicates are tried for every order of those entries): it holds exactly
   for sorted rings with no token twice, and such a ring has ONE stored order — every sorted
   arrangement of the same entries is the ring itself, so no variant is left out *)
Theorem C04_tokens_distinct_sound : forall (g : ring N),
  (tokens_distinct g = true <-> sorted_weak g /\ NoDup (map fst g)) /\
  (tokens_distinct g = true -> forall g', Permutation g' g -> sorted_weak g' -> g' = g).
Proof. exact (fun g => conj (tokens_distinct_spec g) (fun H g' => tokens_distinct_one_order g g' H)). Qed.

(* the list helpers the driver also uses outside the four predicates (agreement test, capped
   shared-token judgement): what each decides *)
Theorem C04_helpers_sound :
  (forall x l, mem x l = true <-> In x l) /\
  (forall l, nodupb l = true <-> NoDup l) /\
  (forall a b, subset a b = true <-> (forall x, In x a -> In x b)) /\
  (forall a b, list_eqb a b = true <-> a = b) /\
  (forall a b, same_set a b = true <-> NoDup a /\ NoDup b /\ (forall x, In x a <-> In x b)).
Proof. exact helpers_spec. Qed.

(* every reported replica owns a token of the ring, and lives in the datacenter asked for *)
Theorem C04_replicas_own_tokens : forall dcf rackf (g : ring N) pre t s dc x,
  sorted_weak g ->
  In x (rs_iter dcf rackf g pre t (replicas_for dcf rackf g pre t s dc)) ->
  In x (map snd g) /\ match dc with Some d => in_dc dcf d x = true | None => True end.
Proof. exact replicas_own_tokens. Qed.

(* SimpleStrategy: as many replicas as asked for, up to the number of nodes (C04_nts_len is the
   NTS counterpart) *)
Theorem C04_simple_len : forall (g : ring N) t rf,
  List.length (simple_replicas g t rf) = Nat.min rf (List.length (unique_nodes g)).
Proof. exact simple_len. Qed.

(* the number of replicas does not depend on the order in which the ring stores entries sharing
   a token (nor on the precomputation) — for every answer except a SimpleStrategy / Local answer
   restricted to a datacenter (C04_ex_count_order shows that exception is real).  This is what the
   driver's judgement of rings with more than 720 shared-token orders relies on. *)
Theorem C04_count_order_independent : forall dcf rackf (g g' : ring N) pre pre' t s dc,
  sorted_weak g -> sorted_weak g' -> Permutation g g' -> nts_keys_ok s ->
  dc = None \/ (exists m, s = NTS m) ->
  List.length (rs_iter dcf rackf g pre t (replicas_for dcf rackf g pre t s dc)) =
  List.length (rs_iter dcf rackf g' pre' t (replicas_for dcf rackf g' pre' t s dc)).
Proof. exact count_order_independent. Qed.

Example C04_ex_tokens_distinct :
  tokens_distinct ex_g = true /\ tokens_distinct dup_ring = false /\
  tokens_distinct [(20, 1%N); (10, 2%N)] = false.            (* distinct tokens, not sorted *)
Proof. repeat split; vm_compute; reflexivity. Qed.

(* the F18 ring in its two stored orders: other replicas, the same number; restricted to a
   datacenter a SimpleStrategy answer has 1 or 0 replicas depending on the order *)
Example C04_ex_count_order :
  let g := dup_ring in let g' := [(10, 2%N); (10, 1%N); (20, 3%N)] in
  let it := fun g s dc => rs_iter dup_dcf (fun _ => None) g [] 5 (replicas_for dup_dcf (fun _ => None) g [] 5 s dc) in
  Permutation g g' /\ sorted_weak g /\ sorted_weak g' /\
  it g (Simple 1) None = [1%N] /\ it g' (Simple 1) None = [2%N] /\
  it g (NTS [(1%N, 1%nat); (2%N, 1%nat)]) None = [1; 2]%N /\ it g' (NTS [(1%N, 1%nat); (2%N, 1%nat)]) None = [2; 1]%N /\
  it g (Simple 1) (Some 1%N) = [1%N] /\ it g' (Simple 1) (Some 1%N) = [] /\
  forallb (fun x => mem x (map snd ex_g) && in_dc ex_dcf 2 x)
          (rs_iter ex_dcf ex_rackf ex_g [] 160 (replicas_for ex_dcf ex_rackf ex_g [] 160 (Simple 5) (Some 2%N))) = true /\
  List.length (rs_iter ex_dcf ex_rackf ex_g [] 160 (replicas_for ex_dcf ex_rackf ex_g [] 160 (Simple 5) (Some 2%N))) = 2%nat.
Proof.
  cbv zeta. split; [apply perm_swap|]. split; [cbn; lia|]. split; [cbn; lia|].
  repeat split; vm_compute; reflexivity.
Qed.

Print Assumptions C04_ring.
Print Assumptions C04_ring_range.
Print Assumptions C04_simple.
Print Assumptions C04_nts.
Print Assumptions C04_replicas.
Print Assumptions C04_replicas_any_ring.
Print Assumptions C04_prefix_simple.
Print Assumptions C04_prefix_nts.
Print Assumptions C04_token_snap.
Print Assumptions C04_precomputed.
Print Assumptions C04_precomputed_rings.
Print Assumptions C04_precomputed_any.
Print Assumptions C04_dc_filter.
Print Assumptions C04_nts_len.
Print Assumptions C04_nts_sat.
Print Assumptions C04_views_len.
Print Assumptions C04_views_nth.
Print Assumptions C04_views_choose.
Print Assumptions C04_views_nodup.
Print Assumptions C04_views_ordered.
Print Assumptions C04_views_ordered_perm.
Print Assumptions C04_views_ops.
Print Assumptions C04_shards.
Print Assumptions C04_views_ok_sound.
Print Assumptions C04_precomputed_ok_sound.
Print Assumptions C04_views_ok_model.
Print Assumptions C04_precomputed_ok_model.
Print Assumptions C04_views_tablets.
Print Assumptions C04_views_tablets_ops.
Print Assumptions C04_tablets_dc_filter.
Print Assumptions C04_remaining.
Print Assumptions C04_size_hint.
Print Assumptions C04_size_hint_no_underflow.
Print Assumptions C04_size_hint_ordered.
Print Assumptions C04_placement_sound.
Print Assumptions C04_ordered_ok_sound.
Print Assumptions C04_placement_model.
Print Assumptions C04_ordered_model.
Print Assumptions C04_tokens_distinct_sound.
Print Assumptions C04_helpers_sound.
Print Assumptions C04_replicas_own_tokens.
Print Assumptions C04_simple_len.
Print Assumptions C04_count_order_independent.
