(* Property C19 - statements only.  Every theorem is closed by [exact] of a lemma from
   Proofs/*.v (seven of them - C19_merge_never_clears, C19_responses_hom, C19_refresh_answered_once,
   C19_loop_inv, C19_fetch_conservation, C19_fetch_fresh, C19_fetch_request_starts_full - by a short script: the
   first six only repackage such lemmas, the last one rewrites with two of them); the statements are pinned again in /verif/pins/C19.v.

   System (Model/MergeChan.v): the merge channel's shared state, the sender's and the
   receiver's programs cut into their atomic actions, and tokio's Notify restricted to one
   waiter.  [reachable step init s] = s is reached by SOME interleaving, of any length, of
   sender steps (modify with any update or a no-op closure, drop) and receiver steps (recv
   loop, re-poll, cancel at the await point, try_recv, drop). *)
From SV Require Import Base.Prelude Model.Sched Model.MergeChan Proofs.MergeChan_proofs Proofs.MergeChan_thms.
From SV Require Import Model.MetaUpdate Proofs.MetaUpdate_proofs Model.ClusterLoop Proofs.ClusterLoop_proofs.
From SV Require Import Model.FetchPlan Proofs.FetchPlan_proofs Proofs.Chain_proofs Proofs.C19_d4.
From Coq Require Import Permutation.
Open Scope N_scope.

(* CLOSURE CLASSES.  `modify` takes any closure; the model has the three classes CMerge x
   (inflationary), CNoop, CClear (sets the slot to None: the producer retracts what is pending).
   EVERY theorem of this file holds for schedules with all three classes, with the ghost
   [merged s] read as "merged in and not retracted by the producer" (C19_clear_retracts says what a
   clearing closure retracts); for schedules without CClear - the only ones the driver produces -
   [merged s] is everything ever merged in (C19_inflationary). *)

(* every update merged in (and not retracted) so far is - in order, exactly once - in a value
   already returned by recv/try_recv, or in the value being returned, or still in the slot *)
Theorem C19_no_loss_dup : forall s, reachable step init s ->
  delivered_values s ++ in_flight s ++ slot_list s = merged s.
Proof. exact c19_no_loss_dup. Qed.

(* with merging and no-op closures only: the values received ++ in flight ++ pending are exactly
   the updates handed to the merging closures along the schedule, in order *)
Theorem C19_inflationary : forall ls s, run step init ls = Some s -> no_clear ls = true ->
  delivered_values s ++ in_flight s ++ slot_list s = merged_labels ls.
Proof. exact c19_inflationary. Qed.

(* a clearing closure retracts exactly the content of the slot: nothing delivered or in flight
   is touched, no notification is issued, modify returns Ok *)
Theorem C19_clear_retracts : forall s s', reachable step init s -> step s (SMerge CClear) = Some s' ->
  slot s' = None /\ merged s' ++ slot_list s = merged s /\ delivered s' = delivered s /\
  in_flight s' = in_flight s /\ wakes s' = wakes s /\ permit s' = permit s /\ wtr s' = wtr s /\
  s_pc s' = SIdle /\ send_results s' = send_results s ++ [true].
Proof. exact c19_clear_retracts. Qed.

(* no lost wake-up: a parked receiver has been notified AND its waker has been called whenever
   a value is pending or the sender is gone (and the sender is not just about to notify) *)
Theorem C19_no_lost_wakeup : forall s, reachable step init s -> r_pc s = RParked ->
  (slot s <> None /\ s_pc s <> SNeedNotify) \/ (sender_dropped s = true /\ s_pc s <> SDropping) ->
  wtr s = Notified /\ woken s = true.
Proof. exact c19_no_lost_wakeup. Qed.

(* recv returns None only when the sender was dropped, the slot is empty and every update ever
   merged has been delivered *)
Theorem C19_last_update : forall s, reachable step init s ->
  (In (RecvRet None) (delivered s) \/ exists f, r_pc s = RReturning f None) ->
  sender_dropped s = true /\ slot s = None /\ delivered_values s = merged s.
Proof. exact c19_last_update. Qed.

(* modify returns Err only after the receiver was dropped ... *)
Theorem C19_send_err_only_if : forall s, reachable step init s ->
  In false (send_results s) -> receiver_dropped s = true /\ r_pc s = RGone.
Proof. exact c19_send_err_only_if. Qed.
(* ... and a modify that starts after the receiver was dropped returns Err and merges nothing *)
Theorem C19_send_err : forall s, s_pc s = SIdle ->
  exists s', step s SCheck = Some s' /\
    (receiver_dropped s = true ->
       send_results s' = send_results s ++ [false] /\ s_pc s' = SIdle /\
       merged s' = merged s /\ slot s' = slot s) /\
    (receiver_dropped s = false -> send_results s' = send_results s /\ s_pc s' = SChecked).
Proof. exact c19_send_check. Qed.

(* cancelling the parked recv future takes nothing, loses nothing, and hands a received
   notification back as the permit, so the next recv does not park on a pending value *)
Theorem C19_cancel_safe : forall s s', reachable step init s -> step s RCancel = Some s' ->
  (CInv s' /\ DInv s') /\ slot s' = slot s /\ merged s' = merged s /\ delivered s' = delivered s /\
  r_pc s' = RIdle /\ wtr s' = NoWaiter /\
  (((slot s <> None /\ s_pc s <> SNeedNotify) \/ (sender_dropped s = true /\ s_pc s <> SDropping)) ->
   permit s' = true).
Proof. exact c19_cancel_safe. Qed.

(* inside a poll the receiver always has an enabled next step (the unreachable branch of the
   Notify model is indeed unreachable) *)
Theorem C19_progress : forall s lb, reachable step init s -> next_label (r_pc s) = Some lb ->
  exists s', step s lb = Some s'.
Proof. exact c19_progress. Qed.

(* one poll with the sender between operations, as a function: it terminates within the fuel,
   returns ALL pending updates if any, else None iff the sender is gone, else parks (registered
   with the task's waker); it issues no wake and changes nothing else *)
Theorem C19_poll_spec : forall s, reachable step init s ->
  (s_pc s = SIdle \/ s_pc s = SGone) -> (r_pc s = RIdle \/ r_pc s = RParked) ->
  exists s',
    (match slot s with
     | Some l => op_poll s = Some (s', Ready (Some l)) /\ r_pc s' = RIdle /\
                 delivered s' = delivered s ++ [RecvRet (Some l)]
     | None =>
         if sender_dropped s
         then op_poll s = Some (s', Ready None) /\ r_pc s' = RIdle /\ delivered s' = delivered s ++ [RecvRet None]
         else op_poll s = Some (s', Pending) /\ r_pc s' = RParked /\ delivered s' = delivered s /\
              wtr s' = Registered true /\ woken s' = false
     end) /\
    slot s' = None /\ merged s' = merged s /\ s_pc s' = s_pc s /\ sender_dropped s' = sender_dropped s /\
    receiver_dropped s' = receiver_dropped s /\ send_results s' = send_results s /\ wakes s' = wakes s.
Proof. exact c19_poll_spec. Qed.

(* the operations the tie drives are runs of atomic steps: they stay inside the reachable states *)
Theorem C19_ops_reachable : forall o s s' ob, reachable step init s -> run_op o s = Some (s', ob) ->
  reachable step init s'.
Proof. exact c19_run_op_reachable. Qed.

(* refinement: for EVERY script of operations, what the model observes (results of modify,
   Ready/Pending and value of every poll, try_recv values, wake counts) satisfies the
   specification written from the property text (abstract queue + wake-up obligation) *)
Theorem C19_refines_spec : forall os tr, run_ops os init = Some tr -> spec_check os a_init tr = true.
Proof. exact c19_refines_spec. Qed.

(* ... and the model executes every script the specification allows (so the refinement is not
   vacuous): an operation is unavailable only where the API itself makes it unavailable *)
Theorem C19_model_total : forall os, spec_avail os a_init = true -> exists tr, run_ops os init = Some tr.
Proof. exact c19_model_total. Qed.

(* the stress acceptor: accepted => the received batches, decoded and concatenated, are exactly
   the tags 0 .. n-1 in order *)
Theorem C19_stress_ok_sound : forall n bs, stress_ok n bs = true ->
  expand_batches bs = nrange 0 (N.to_nat n).
Proof. exact stress_ok_sound. Qed.

(* ---- the value that travels through the channel (Model/MetaUpdate.v: update.rs merge functions,
   and what the cluster worker does with the refresh responses of a received update) ---- *)

(* no production closure clears the slot: after any of the five merge functions it holds a value
   (this, with the census of the call sites, is what "merging = appending" in the channel model
   rests on) *)
Theorem C19_merge_never_clears : forall v o s,
  match o with MTake => True | _ => h_slot (apply_mop v o s) <> None end.
Proof. intros v o s. destruct o; try exact Logic.I; apply merge_never_clears; reflexivity. Qed.

(* the refresh responses attached to the slot are the append monoid under every merge function:
   merge_metadata appends the new response channel to the ones already pending, all other merges
   keep them *)
Theorem C19_responses_hom : forall v o s,
  match o with
  | MTake => True
  | _ => responses_slot (h_slot (apply_mop v o s)) = responses_slot (h_slot s) ++ requested v [o]
  end.
Proof. intros v o s. destruct o; try exact Logic.I; apply responses_hom; reflexivity. Qed.

(* "a requested refresh is eventually answered": for EVERY sequence of merges and takes, the
   responses answered so far ++ the ones attached to the slot are exactly the requests made, in
   order and without duplicates - every response channel survives every merge and is answered
   exactly once, as soon as the consumer takes the value it is attached to *)
Theorem C19_refresh_answered_once : forall os,
  h_answered (run_mops 1 os h_init) ++ responses_slot (h_slot (run_mops 1 os h_init)) = requested 1 os /\
  NoDup (requested 1 os).
Proof. intros os. split; [apply mu_no_loss_dup|apply requested_nodup]. Qed.

Theorem C19_take_answers_all : forall os,
  h_answered (run_mops 1 (os ++ [MTake]) h_init) = requested 1 (os ++ [MTake]) /\
  h_slot (run_mops 1 (os ++ [MTake]) h_init) = None.
Proof. exact mu_take_answers_all. Qed.

(* "the published state reflects the latest fetched topology": the peer list the consumer will
   receive is the newest one fetched (by a full or a partial topology fetch) since it last took *)
Theorem C19_latest_topology : forall os,
  peers_slot (h_slot (run_mops 1 os h_init)) = latest_peers 1 os None.
Proof. exact mu_latest_peers. Qed.

(* the predicate the driver evaluates on the implementation's response-channel statuses means
   what it says, and the model satisfies it *)
Theorem C19_status_ok_sound : forall st k, status_ok st k = true ->
  (forall x, In x st -> x = 0 \/ x = 1) /\ N.of_nat (List.length (filter (N.eqb 0) st)) = k.
Proof. exact status_ok_sound. Qed.

Theorem C19_model_status_ok : forall s,
  status_ok (model_status s) (N.of_nat (List.length (responses_slot (h_slot s)))) = true.
Proof. exact model_status_ok. Qed.

(* ---- the cluster worker's select loop (Model/ClusterLoop.v): use_keyspace requests and refresh
   requests interleaved with the application of metadata updates, for every schedule ---- *)

(* every use_keyspace request is in exactly one place - answered, in a spawned task, or queued -
   and the refresh responses answered ++ being applied ++ attached to the slot are the requests
   made, in order: no request of either kind is lost or answered twice *)
Theorem C19_loop_inv : forall s, reachable wstep w_init s ->
  Permutation (w_use_answered s ++ w_tasks s ++ w_inbox s) (w_use_requested s) /\
  w_refresh_answered s ++ applying_responses s ++ responses_slot (w_slot s) = w_refresh_requested s.
Proof. intros s H. destruct (winv_reachable s H) as [A B]. split; assumption. Qed.

(* The model is NOT extracted and NOT compared with the code (a census in checks/c19.py pins the
   select! arms and the awaits it is written from).  LFinishApply and LTaskDone are always
   enabled: that the awaits inside apply_metadata_update (pool initialisation) and inside a
   use_keyspace task terminate is an ASSUMPTION built into the labels, so C19_loop_enabled holds in
   every state by construction.  What the next four theorems add: every worker/task step
   strictly decreases what is owed; when nothing is owed everything has been answered; and
   (C19_loop_eventually) from every reachable state at most [owed s] worker/task steps - with no
   new request arriving meanwhile - answer every request made so far.  Environment steps
   (LReqUse, LMerge) increase [owed]; there is no fairness theorem. *)
Theorem C19_loop_enabled : forall s, (0 < owed s)%nat ->
  exists lb s', is_worker_label lb = true /\ wstep s lb = Some s'.
Proof. exact worker_enabled. Qed.
Theorem C19_loop_decreases : forall s lb s', is_worker_label lb = true -> wstep s lb = Some s' ->
  (owed s' < owed s)%nat.
Proof. exact worker_step_decreases. Qed.
Theorem C19_loop_all_answered : forall s, reachable wstep w_init s -> owed s = O ->
  Permutation (w_use_answered s) (w_use_requested s) /\ w_refresh_answered s = w_refresh_requested s.
Proof. exact all_answered. Qed.

Theorem C19_loop_eventually : forall s, reachable wstep w_init s ->
  exists ls s', forallb is_worker_label ls = true /\ run wstep s ls = Some s' /\ (List.length ls <= owed s)%nat /\
    Permutation (w_use_answered s') (w_use_requested s) /\ w_refresh_answered s' = w_refresh_requested s.
Proof. exact loop_eventually. Qed.

(* ---- the metadata worker's fetch scheduling (Model/FetchPlan.v): FetchPlan, PendingFetches with
   its starter step and its resolution, and the way a refresh request travels from the request
   channel to the metadata it is published with.  TIED: the plan bookkeeping (note_full, note_routes, note_topology) and the
   resolution (resolve) through hook verif_fetch_plan, exactly.  NOT TIED (proved, pinned by a census
   of start_due_fetches / work_on_cc): the starter step and the worker transitions. ---- *)

(* the starter step (start_due_fetches) - statements with content about the untied model function start_due:
   no owed work is ever dropped except by covering it with a full fetch: afterwards a full fetch runs, or every
   owed client-routes pair / the owed topology re-read is still owed or has just been started in a slot that was
   free, and fetches in flight are only ever replaced by a full fetch; a full fetch owed by the plan runs *)
Theorem C19_start_due_preserves_work : forall d nx fl p fl' p' nx', start_due d nx fl p = (fl', p', nx') ->
  (p = PFull -> is_full fl' = true) /\
  (is_full fl' = true \/
   (p' <> PFull /\
    (forall r, In r (plan_routes p) -> In r (plan_routes p') \/ (routes_slot fl = None /\ routes_slot fl' = Some nx)) /\
    (plan_topology p = true -> plan_topology p' = true \/ (topology_slot fl = None /\ exists g, topology_slot fl' = Some g /\ nx <= g)) /\
    (forall f, routes_slot fl = Some f -> routes_slot fl' = Some f) /\
    (forall f, topology_slot fl = Some f -> topology_slot fl' = Some f))) /\
  nx <= nx'.
Proof. exact start_due_preserves_work. Qed.
(* a full fetch runs after the step iff one ran before, or the plan owed one, or the deadline had passed *)
Theorem C19_start_due_full_iff : forall d nx fl p fl' p' nx', start_due d nx fl p = (fl', p', nx') ->
  (is_full fl' = true <-> is_full fl = true \/ p = PFull \/ d = true).
Proof. exact start_due_full_iff. Qed.
(* the step is idempotent: run again right away it starts nothing more *)
Theorem C19_start_due_idempotent : forall d nx fl p fl' p' nx', start_due d nx fl p = (fl', p', nx') ->
  start_due false nx' fl' p' = (fl', p', nx').
Proof. exact start_due_idempotent. Qed.

(* every refresh request ever sent is, in order, answered / pending in the worker / still queued:
   none is lost, none is answered twice *)
Theorem C19_fetch_conservation : forall s, reachable fstep f_init s ->
  map fst (f_answers s) ++ pending_list s ++ f_queue s = f_arrived s.
Proof. intros s H. apply (fi_cons _ (finv_reachable s H)). Qed.

(* freshness: the metadata a refresh request is answered with was fetched by a fetch that STARTED AFTER
   the request had been received (so the published state is at least as new as the request) *)
Theorem C19_fetch_fresh : forall s r f, reachable fstep f_init s -> In (r, AAttached f) (f_answers s) ->
  exists rs, In (f, rs) (f_started s) /\ In r rs.
Proof. intros s r f H. apply (fi_fresh _ (finv_reachable s H)). Qed.

(* a received request makes the very next starter step begin a full fetch *)
Theorem C19_fetch_request_starts_full : forall s r d, reachable fstep f_init s ->
  f_cc s = OnCC -> f_pending s = Some r -> is_full (f_fl s) = false ->
  exists s', fstep s (FStarter d) = Some s' /\ f_fl s' = IFull (f_next s) /\ f_plan s' = plan_empty.
Proof.
  intros s r d H Hc Hp Hf. pose proof (fi_plan _ (finv_reachable s H) r Hp Hc Hf) as Epl.
  cbn [fstep]. rewrite Hc, (start_due_full d (f_next s) (f_fl s) (f_plan s) Hf (or_introl Epl)).
  eexists. split; [reflexivity|]. split; reflexivity.
Qed.

(* ---- THE CHAIN in ONE system (Proofs/Chain_proofs.v: the metadata worker of FetchPlan.v and the cluster worker of
   ClusterLoop.v over the MetadataUpdate of MetaUpdate.v, every publishing transition of the producer performing its
   merge into the consumer's slot in the same step).  Proved about the composed MODEL; no part of the composition is
   extracted or compared with the code. ---- *)
(* in every reachable state: (1) every refresh request sent is, in order, answered by the producer (attached to a
   published fetch, or with an error) / pending / queued; (2) the requests the producer has published correspond one to
   one, in order, to the response channels merged into the channel, and each of those is answered by the consumer, being
   applied, or still attached to the slot; (3) each published request was attached to a fetch that started after the
   request had been received *)
Theorem C19_chain_inv : forall s, reachable cstep c_init s ->
  map fst (f_answers (fst s)) ++ pending_list (fst s) ++ f_queue (fst s) = f_arrived (fst s) /\
  List.length (attached (f_answers (fst s))) = List.length (w_refresh_requested (snd s)) /\
  w_refresh_answered (snd s) ++ applying_responses (snd s) ++ responses_slot (w_slot (snd s)) = w_refresh_requested (snd s) /\
  (forall r f, In (r, AAttached f) (f_answers (fst s)) -> exists rs, In (f, rs) (f_started (fst s)) /\ In r rs).
Proof. exact chain_inv. Qed.
(* every request merged (published) before is answered after the publish: at most `owed` consumer steps - no new
   request or merge meanwhile, the consumer's awaits assumed to terminate - lead to a state in which the consumer has
   answered exactly as many response channels as the producer has published requests, and the slot is empty *)
Theorem C19_chain_eventually : forall s, reachable cstep c_init s ->
  exists ls s', forallb (fun lb => match lb with CW l => is_worker_label l | CF _ => false end) ls = true /\
    run cstep s ls = Some s' /\ (List.length ls <= owed (snd s))%nat /\ fst s' = fst s /\
    List.length (w_refresh_answered (snd s')) = List.length (attached (f_answers (fst s))) /\
    w_slot (snd s') = None.
Proof. exact chain_eventually. Qed.

(* ---- Deepening round 4 (Proofs/C19_d4.v): characterisations of extracted functions the driver evaluates, and the
   producer half is never stuck with a request ---- *)
(* what the driver compares per step in kind U (trace_mops) is exactly the run of every non-empty prefix of the script,
   and the state it takes the final statuses from (the last one, h_init for the empty script) is run_mops of the
   whole script - the function the MetaUpdate theorems speak about *)
Theorem C19_trace_mops_spec : forall v os s,
  List.length (trace_mops v os s) = List.length os /\
  (forall i, (i < List.length os)%nat -> nth_error (trace_mops v os s) i = Some (run_mops v (firstn (S i) os) s)) /\
  last (trace_mops v os s) s = run_mops v os s.
Proof. exact trace_mops_spec. Qed.
(* resolve (tied exactly, kind F): what it reports was in flight and had completed; a full fetch leaves nothing in
   flight; a partial outcome frees exactly its own slot and leaves the other one untouched; the topology fetch is
   reported only if the client-routes fetch in flight (if any) has not completed *)
Theorem C19_resolve_sound : forall ready fl o fl', resolve ready fl = Some (o, fl') ->
  ready (outcome_id o) = true /\ In (outcome_id o) (inflight_ids fl) /\
  match o with
  | OFull f => fl = IFull f /\ fl' = inflight_empty
  | ORoutes f => is_full fl = false /\ routes_slot fl = Some f /\ fl' = IPartial None (topology_slot fl)
  | OTopology g => is_full fl = false /\ topology_slot fl = Some g /\ fl' = IPartial (routes_slot fl) None /\
                   (forall a, routes_slot fl = Some a -> ready a = false)
  end.
Proof. exact resolve_sound. Qed.
(* ... and it stays pending iff no fetch in flight has completed *)
Theorem C19_resolve_none_iff : forall ready fl,
  resolve ready fl = None <-> (forall f, In f (inflight_ids fl) -> ready f = false).
Proof. exact resolve_none_iff. Qed.
(* the plan bookkeeping (tied exactly, kind F) over EVERY sequence of notes: a full fetch is owed iff one was noted
   (and then nothing else is remembered); otherwise exactly the noted client-routes pairs, in order, and a topology
   re-read iff one was noted *)
Theorem C19_notes_spec : forall ns, fold_left apply_note ns plan_empty =
  if existsb is_nfull ns then PFull else PPartial (noted_routes ns) (existsb is_ntopology ns).
Proof. exact notes_spec. Qed.
(* the producer half is never stuck with a request: from every reachable state at most 2 + 3 * |queue| worker
   transitions (no FSend; the witness uses no periodic deadline and no failing fetch) lead to a state in which every
   refresh request sent so far has been answered, in order.  A possibility statement like C19_loop_eventually: the
   schedule exists, no fairness forces it. *)
Theorem C19_fetch_drain : forall s, reachable fstep f_init s -> exists ls s',
  forallb is_fworker ls = true /\ run fstep s ls = Some s' /\
  (List.length ls <= 2 + 3 * List.length (f_queue s))%nat /\
  map fst (f_answers s') = f_arrived s /\ f_pending s' = None /\ f_queue s' = [].
Proof. exact fetch_drain. Qed.

(* non-vacuity *)
(* round 4: a prefix run inside a trace; the three shapes of a resolve outcome; a note sequence with and without a
   full note; a state with one pending and two queued requests under a running partial fetch, drained by 8 steps *)
Example C19_ex_d4 :
  nth_error (trace_mops 1 [MFull true false; MTopology; MTake] h_init) 1 = Some (run_mops 1 [MFull true false; MTopology] h_init) /\
  h_answered (last (trace_mops 1 [MFull true false; MTopology; MTake] h_init) h_init) = [1] /\
  resolve (fun f => f =? 2) (IPartial (Some 1) (Some 2)) = Some (OTopology 2, IPartial (Some 1) None) /\
  inflight_ids (IPartial (Some 1) (Some 2)) = [1; 2] /\
  resolve (fun f => f =? 3) (IPartial (Some 1) (Some 2)) = None /\
  fold_left apply_note [NRoutes 4; NTopology; NRoutes 6] plan_empty = PPartial [4; 6] true /\
  fold_left apply_note [NRoutes 4; NFull; NTopology; NRoutes 6] plan_empty = PFull /\
  option_map (fun s => (f_pending s, f_queue s, f_fl s, f_answers s))
    (run fstep f_init [FEvent EvTopology; FStarter false; FSend 7; FSend 8; FSend 9; FRecv]) =
    Some (Some 7, [8; 9], IPartial None (Some 0), []) /\
  option_map (fun s => (f_answers s, f_arrived s, f_pending s, f_queue s))
    (run fstep f_init ([FEvent EvTopology; FStarter false; FSend 7; FSend 8; FSend 9; FRecv] ++
                       [FStarter false; FDone all_ready true; FRecv; FStarter false; FDone all_ready true;
                        FRecv; FStarter false; FDone all_ready true])) =
    Some ([(7, AAttached 1); (8, AAttached 2); (9, AAttached 3)], [7; 8; 9], None, []).
Proof. repeat split; vm_compute; reflexivity. Qed.
(* the chain end to end: two requests published while the consumer applies an earlier update are merged in the slot and
   both answered by one later application *)
Example C19_ex_chain :
  option_map (fun s => (f_answers (fst s), w_refresh_answered (snd s), w_refresh_requested (snd s), owed (snd s)))
    (run cstep c_init [CF (FStarter true); CF (FDone (fun _ => true) true); CW LSelectUpdate;
                       CF (FSend 7); CF FRecv; CF (FStarter false); CF (FDone (fun _ => true) true);
                       CF (FSend 8); CF FRecv; CF (FStarter false); CF (FDone (fun _ => true) true);
                       CW LFinishApply; CW LSelectUpdate; CW LFinishApply])
  = Some ([(7, AAttached 1); (8, AAttached 2)], [2; 3], [2; 3], O) /\
  cstep c_init (CW (LMerge MTopology)) = None /\
  start_due false 4 (IPartial (Some 1) None) (PPartial [9] true) = (IPartial (Some 1) (Some 4), PPartial [9] false, 5) /\
  start_due true 4 (IPartial (Some 1) (Some 2)) (PPartial [9] true) = (IFull 4, plan_empty, 5).
Proof. repeat split; vm_compute; reflexivity. Qed.
(* a topology event, then a refresh request while the partial fetch runs: the full fetch preempts it;
   a second request waits in the channel until the first full fetch is done and gets its own, later, fetch *)
Example C19_ex_fetch :
  option_map (fun s => (f_answers s, f_started s, f_queue s, f_fl s, f_plan s))
    (run fstep f_init [FEvent EvTopology; FStarter false; FSend 7; FSend 8; FRecv; FStarter false;
                       FEvent (EvRoutes 5); FStarter false; FDone (fun _ => true) true;
                       FRecv; FStarter false; FDone (fun _ => true) true; FStarter false])
  = Some ([(7, AAttached 1); (8, AAttached 2)], [(1, [7]); (2, [7; 8])], [], IPartial None None, plan_empty) /\
  run fstep f_init [FSend 7; FRecv; FStarter false; FSend 8; FRecv] = None /\
  start_due false 4 (IPartial (Some 1) None) (PPartial [9] true) = (IPartial (Some 1) (Some 4), PPartial [9] false, 5) /\
  resolve (fun f => f =? 2) (IPartial (Some 1) (Some 2)) = Some (OTopology 2, IPartial (Some 1) None) /\
  resolve (fun _ => true) (IPartial (Some 1) (Some 2)) = Some (ORoutes 1, IPartial None (Some 2)) /\
  resolve (fun _ => false) (IFull 3) = None /\
  note_routes 4 (note_topology (note_routes 2 plan_empty)) = PPartial [2; 4] true.
Proof. repeat split; vm_compute; reflexivity. Qed.
(* a failing full fetch: the request survives the loss of the control connection and is answered by
   the establishment fetch, or with an error if that fails too *)
Example C19_ex_fetch_fail :
  option_map f_answers (run fstep f_init [FSend 7; FRecv; FStarter false; FDone (fun _ => true) false; FEstablish true])
  = Some [(7, AAttached 1)] /\
  option_map f_answers (run fstep f_init [FSend 7; FRecv; FStarter false; FBroken; FEstablish false; FSend 8; FRecv; FEstablish true])
  = Some [(7, AErr); (8, AAttached 2)].
Proof. repeat split; vm_compute; reflexivity. Qed.
(* requests of both kinds queue up while an update is applied and are all answered afterwards *)
Example C19_ex_loop :
  option_map (fun s => (w_use_answered s, w_refresh_answered s, w_published s, w_used_ks s, owed s))
    (run wstep w_init [LMerge (MFull true false); LSelectUpdate; LReqUse 7; LMerge (MFull true false); LReqUse 8;
                       LMerge MTopology; LMerge (MFull true true); LFinishApply; LSelectUse; LSelectUse;
                       LSelectUpdate; LTaskDone 8; LFinishApply; LTaskDone 7])
  = Some ([8; 7], [1; 2; 4], Some 4, Some 8, O) /\
  (* environment steps only: nothing is answered and the owed work grows *)
  option_map (fun s => (owed s, w_use_answered s, w_refresh_answered s))
    (run wstep w_init [LReqUse 1; LMerge (MFull true false); LReqUse 2; LMerge (MFull true false); LReqUse 3]) = Some (8%nat, [], []) /\
  run wstep w_init [LSelectUse] = None /\ run wstep w_init [LMerge MTake] = None /\
  run wstep w_init [LReqUse 1; LSelectUse; LTaskDone 2] = None.
Proof. repeat split; vm_compute; reflexivity. Qed.
(* two refreshes fetched back to back while the consumer is busy: both response channels are in
   the slot, a topology fetch overwrites only the peer list, the take answers both *)
Example C19_ex_refresh_merge :
  let s := run_mops 1 [MFull true false; MUp 1; MFull true true; MTopology; MDown 1] h_init in
  view (h_slot s) = (3, 3, 4, true, [], 2, [(1, false)]) /\
  responses_slot (h_slot s) = [1; 3] /\ h_answered s = [] /\
  h_answered (apply_mop 6 MTake s) = [1; 3] /\ h_slot (apply_mop 6 MTake s) = None /\
  requested 1 [MFull true false; MUp 1; MFull true true; MTopology; MDown 1] = [1; 3] /\
  latest_peers 1 [MFull true false; MUp 1; MFull true true; MTopology; MDown 1] None = Some 4.
Proof. repeat split; vm_compute; reflexivity. Qed.
Example C19_ex_partial :
  view (h_slot (run_mops 1 [MRoutes; MTopology; MRoutes; MUp 2; MUp 1] h_init)) = (2, 0, 2, false, [1; 3], 0, [(1, true); (2, true)]) /\
  view (h_slot (run_mops 1 [MTopology; MFull false false] h_init)) = (3, 2, 2, false, [], 0, []) /\
  view (h_slot (run_mops 1 [MUp 1; MTake] h_init)) = (0, 0, 0, false, [], 0, []).
Proof. repeat split; vm_compute; reflexivity. Qed.
Example C19_ex_status_rejects :
  (* a dropped sender (2), an error answer (3), a pending channel that is not in the slot *)
  status_ok [1; 1; 0] 1 = true /\ status_ok [2; 0] 1 = false /\ status_ok [1; 3] 0 = false /\
  status_ok [1; 0] 0 = false /\ status_ok [] 0 = true /\
  model_status (run_mops 1 [MFull true false; MTake; MFull true false] h_init) = [1; 0].
Proof. repeat split; vm_compute; reflexivity. Qed.
(* the race of the code's comment: the receiver has read an empty slot, then the sender merges,
   sets the flag and notifies; the re-check still delivers the last update, then None *)
Example C19_ex_last_update :
  option_map (fun s => (delivered s, slot s, r_pc s))
    (run step init [RStart; RTake; SCheck; SMerge (CMerge 7); SNotify; SDropFlag; SDropNotify;
                    RCheckDropped; RRetake; RDropFut; RStart; RTake; RCheckDropped; RRetake; RDropFut])
  = Some ([RecvRet (Some [7]); RecvRet None], None, RIdle).
Proof. vm_compute. reflexivity. Qed.
(* cancel after the wake-up: the notification is handed back and the next recv gets the value *)
Example C19_ex_cancel :
  run_ops [OPoll; OMerge 1; OMerge 2; OCancel; OPoll; OPoll; ODropSender; OPoll; ODropReceiver] init
  = Some [(ObsPoll Pending, 0%nat); (ObsSend true, 1%nat); (ObsSend true, 1%nat); (ObsUnit, 1%nat);
          (ObsPoll (Ready (Some [1; 2])), 1%nat); (ObsPoll Pending, 1%nat); (ObsUnit, 2%nat);
          (ObsPoll (Ready None), 2%nat); (ObsUnit, 2%nat)].
Proof. vm_compute. reflexivity. Qed.
Example C19_ex_parked_state :
  exists s, run step init [RStart; RTake; RCheckDropped; RPollNotified; SCheck; SMerge (CMerge 3); SNotify] = Some s /\
            r_pc s = RParked /\ slot s = Some [3] /\ s_pc s = SIdle /\ wtr s = Notified /\ wakes s = 1%nat.
Proof. eexists. split; [vm_compute; reflexivity|]. repeat split. Qed.
(* a retraction: the parked receiver was woken for [1;2], the producer clears, the poll finds
   nothing and parks again; a later merge is delivered alone; try_recv takes without waiting *)
Example C19_ex_clear :
  run_ops [OPoll; OMerge 1; OMerge 2; OClear; OPoll; OMerge 3; OPoll; OMerge 4; OTry; OTry] init
  = Some [(ObsPoll Pending, 0%nat); (ObsSend true, 1%nat); (ObsSend true, 1%nat); (ObsSend true, 1%nat);
          (ObsPoll Pending, 1%nat); (ObsSend true, 2%nat); (ObsPoll (Ready (Some [3])), 2%nat);
          (ObsSend true, 2%nat); (ObsTry (Some [4]), 2%nat); (ObsTry None, 2%nat)] /\
  no_clear [SCheck; SMerge (CMerge 1); SNotify; SCheck; SMerge CNoop; SNotify] = true /\
  no_clear [SCheck; SMerge CClear] = false /\
  merged_labels [SCheck; SMerge (CMerge 1); SNotify; SCheck; SMerge CNoop; SNotify; SCheck; SMerge (CMerge 5)] = [1; 5] /\
  option_map merged (run step init [SCheck; SMerge (CMerge 1); SNotify; SCheck; SMerge (CMerge 2); SNotify;
                                    RStart; RTake; SCheck; SMerge (CMerge 3); SNotify; SCheck; SMerge CClear]) = Some [1; 2].
Proof. repeat split; vm_compute; reflexivity. Qed.
Example C19_ex_send_err :
  run_ops [OMerge 1; ODropReceiver; OMerge 2; ONoop] init
  = Some [(ObsSend true, 0%nat); (ObsUnit, 0%nat); (ObsSend false, 0%nat); (ObsSend false, 0%nat)].
Proof. vm_compute. reflexivity. Qed.
Example C19_ex_spec_rejects :
  (* a lost update, a duplicated update, a lost wake-up and a premature None are all rejected *)
  spec_check [OMerge 1; OMerge 2; OPoll] a_init
             [(ObsSend true, 0%nat); (ObsSend true, 0%nat); (ObsPoll (Ready (Some [2])), 0%nat)] = false /\
  spec_check [OMerge 1; OPoll; OPoll] a_init
             [(ObsSend true, 0%nat); (ObsPoll (Ready (Some [1])), 0%nat); (ObsPoll (Ready (Some [1])), 0%nat)] = false /\
  spec_check [OPoll; OMerge 1] a_init [(ObsPoll Pending, 0%nat); (ObsSend true, 0%nat)] = false /\
  spec_check [OMerge 1; ODropSender; OPoll] a_init
             [(ObsSend true, 0%nat); (ObsUnit, 0%nat); (ObsPoll (Ready None), 0%nat)] = false /\
  spec_avail [OPoll; OMerge 1; OCancel; OPoll; ODropSender; OPoll; ODropReceiver; ODropSender] a_init = false /\
  spec_avail [OPoll; OMerge 1; OCancel; OPoll; ODropSender; OPoll; ODropReceiver] a_init = true /\
  stress_ok 5 [[(0, 2)]; [(2, 3)]] = true /\ stress_ok 5 [[(0, 2)]; [(3, 2)]] = false /\
  stress_ok 5 [[(0, 3)]; [(2, 3)]] = false.
Proof. repeat split; vm_compute; reflexivity. Qed.

Print Assumptions C19_no_loss_dup.
Print Assumptions C19_inflationary.
Print Assumptions C19_clear_retracts.
Print Assumptions C19_no_lost_wakeup.
Print Assumptions C19_last_update.
Print Assumptions C19_send_err_only_if.
Print Assumptions C19_send_err.
Print Assumptions C19_cancel_safe.
Print Assumptions C19_progress.
Print Assumptions C19_poll_spec.
Print Assumptions C19_ops_reachable.
Print Assumptions C19_refines_spec.
Print Assumptions C19_model_total.
Print Assumptions C19_stress_ok_sound.
Print Assumptions C19_merge_never_clears.
Print Assumptions C19_responses_hom.
Print Assumptions C19_refresh_answered_once.
Print Assumptions C19_take_answers_all.
Print Assumptions C19_latest_topology.
Print Assumptions C19_status_ok_sound.
Print Assumptions C19_model_status_ok.
Print Assumptions C19_loop_inv.
Print Assumptions C19_loop_enabled.
Print Assumptions C19_loop_decreases.
Print Assumptions C19_loop_all_answered.
Print Assumptions C19_loop_eventually.
Print Assumptions C19_start_due_preserves_work.
Print Assumptions C19_start_due_full_iff.
Print Assumptions C19_start_due_idempotent.
Print Assumptions C19_chain_inv.
Print Assumptions C19_chain_eventually.
Print Assumptions C19_fetch_conservation.
Print Assumptions C19_fetch_fresh.
Print Assumptions C19_fetch_request_starts_full.
Print Assumptions C19_trace_mops_spec.
Print Assumptions C19_resolve_sound.
Print Assumptions C19_resolve_none_iff.
Print Assumptions C19_notes_spec.
Print Assumptions C19_fetch_drain.
