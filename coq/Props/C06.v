(* Property C06 -- statements only.  Every theorem is closed by [exact] of a lemma from
   Proofs/{Retry,Fiber,C06}_proofs.v; the statements are pinned again in /verif/pins/C06.v.

   [fiber p idem cl0 plan outs = (tr, r)]: the execution loop under built-in policy [p], for a
   request with idempotence flag [idem] and initial consistency [cl0], over plan [plan], when
   the environment produces the outcomes [outs] (one per loop iteration), goes through the
   events [tr] (failed connection acquisitions and attempts) and returns [r].
   All theorems quantify over EVERY plan and EVERY outcome stream of any length. *)
From SV Require Import Base.Prelude Model.Retry Model.Fiber.
From SV Require Import Proofs.Retry_proofs Proofs.Fiber_proofs Proofs.C06_proofs Proofs.C06_d4_proofs.
From SV Require Import Model.E2EAttempts Proofs.E2EAttempts_proofs.
Open Scope Z_scope.

(* The error sets of the property text: "a failure that proves the previous attempt was not
   applied (unavailable, bootstrapping, no free stream id on the client, read timeout)" and
   "a broken connection, an overloaded/server/truncate error or a write timeout". *)
Theorem C06_safe_set : forall e,
  safe_errorb e = true <->
  (e = EUnableToAllocStreamId \/ e = EDbError DbIsBootstrapping
   \/ (exists required alive, e = EDbError (DbUnavailable required alive))
   \/ (exists received required dp, e = EDbError (DbReadTimeout received required dp))).
Proof. exact safe_set. Qed.

Theorem C06_named_unsafe_set : forall e,
  named_unsafe_errorb e = true <->
  (e = EBrokenConnectionError \/ e = EDbError DbOverloaded \/ e = EDbError DbServerError
   \/ e = EDbError DbTruncateError
   \/ (exists received required wt, e = EDbError (DbWriteTimeout received required wt))).
Proof. exact named_unsafe_set. Qed.

(* A request not marked idempotent: whenever anything follows a failed attempt (in
   particular: whenever the request is sent again), that attempt failed with one of the
   errors that prove it was not applied: unavailable, bootstrapping, no free stream id,
   read timeout.  For Default, DowngradingConsistency and Fallthrough. *)
Theorem C06_safe_resend : forall p cl0 plan outs tr r,
  fiber p false cl0 plan outs = (tr, r) ->
  forall pre t c e d post, tr = pre ++ EvAttempt t c (AErr e d) :: post -> post <> [] ->
  safe_errorb e = true.
Proof. exact fiber_safe_resend. Qed.

(* ... and after a broken connection, an overloaded / server / truncate error or a write
   timeout it is never sent again: the decision is DontRetry, the attempt is the last event
   and the caller gets exactly this error. *)
Theorem C06_unsafe_error_final : forall p cl0 plan outs tr r,
  fiber p false cl0 plan outs = (tr, r) ->
  forall pre t c e d post, tr = pre ++ EvAttempt t c (AErr e d) :: post ->
  named_unsafe_errorb e = true ->
  d = DontRetry /\ post = [] /\ r = RFailed (LAttempt e).
Proof. exact fiber_unsafe_final. Qed.

(* the same rule per decision, for every session state (what the tie compares) *)
Theorem C06_decide_safe : forall s ri s' d,
  decide s ri = (s', d) -> ri_idempotent ri = false -> is_retry d = true ->
  safe_errorb (ri_error ri) = true.
Proof. exact decide_safe. Qed.

(* The default policy never retries a request at serial consistency (idempotent or not):
   a failed attempt at SERIAL / LOCAL_SERIAL is the last event and its error is returned *)
Theorem C06_serial_default : forall idem cl0 plan outs tr r,
  fiber PDefault idem cl0 plan outs = (tr, r) ->
  forall pre t c e d post, tr = pre ++ EvAttempt t c (AErr e d) :: post ->
  is_serial c = true ->
  d = DontRetry /\ post = [] /\ r = RFailed (LAttempt e).
Proof. exact fiber_serial_default. Qed.

Theorem C06_serial_default_one_attempt : forall idem cl0 plan outs tr r,
  fiber PDefault idem cl0 plan outs = (tr, r) -> is_serial cl0 = true ->
  (List.length (attempts tr) <= 1)%nat.
Proof. exact fiber_serial_default_one. Qed.

(* Attempts are bounded by the plan length plus the policy's fixed number of same-node
   retries (2 / 1 / 0); a target whose connection cannot be acquired is consumed without an
   attempt, so failed acquisitions count against the same bound. *)
Theorem C06_bound : forall p idem cl0 plan outs tr r,
  fiber p idem cl0 plan outs = (tr, r) ->
  (List.length (attempts tr) + List.length (conn_fails tr)
   <= List.length plan + same_target_budget p)%nat.
Proof. exact fiber_bound. Qed.

Theorem C06_bound_fallthrough : forall idem cl0 plan outs tr r,
  fiber PFallthrough idem cl0 plan outs = (tr, r) -> (List.length (attempts tr) <= 1)%nat.
Proof. exact fiber_fallthrough_one. Qed.

(* on one session, over any history, at most that many RetrySameTarget decisions *)
Theorem C06_same_target_budget : forall p h,
  (List.length (filter is_same_target (decide_history (new_session p) h))
   <= same_target_budget p)%nat.
Proof. exact new_session_same_target. Qed.

(* The loop always returns: plan length + that number of outcomes suffice; a pending run has
   consumed its whole stream; a finished run ignores the rest of the stream. *)
Theorem C06_terminates : forall p idem cl0 plan outs tr r,
  fiber p idem cl0 plan outs = (tr, r) ->
  (List.length plan + same_target_budget p <= List.length outs)%nat -> r <> RPending.
Proof. exact fiber_terminates. Qed.

Theorem C06_pending_consumed : forall p idem cl0 plan outs tr r,
  fiber p idem cl0 plan outs = (tr, r) -> r = RPending -> List.length tr = List.length outs.
Proof. exact fiber_pending_consumed. Qed.

Theorem C06_stream_prefix : forall p idem cl0 plan outs tr r more,
  fiber p idem cl0 plan outs = (tr, r) -> r <> RPending ->
  fiber p idem cl0 plan (outs ++ more) = (tr, r).
Proof. exact fiber_extend. Qed.

(* The driver sends exactly the attempts the policy decided: the loop nest computes the
   unique run of the flat specification [Exec] (Model/Fiber.v) -- for the built-in policies
   and for ANY policy (any session type and decision function). *)
Theorem C06_exact : forall p idem cl0 plan outs tr r,
  fiber p idem cl0 plan outs = (tr, r) <->
  Exec decide idem plan (new_session p) cl0 None outs tr r.
Proof. exact fiber_Exec. Qed.

Theorem C06_exact_any_policy :
  forall (St : Type) (dec : St -> request_info -> St * decision) (T : Type) idem
         s0 cl0 (plan : list T) outs tr r,
  fiber_run dec idem s0 cl0 plan outs = (tr, r) <-> Exec dec idem plan s0 cl0 None outs tr r.
Proof. exact fiber_run_iff. Qed.

(* readable consequences: something follows a failed attempt only on a retry decision, and
   after RetrySameTarget it is on the same target; *)
Theorem C06_after_error : forall p idem cl0 plan outs tr r,
  fiber p idem cl0 plan outs = (tr, r) ->
  forall pre t c e d ev post, tr = pre ++ EvAttempt t c (AErr e d) :: ev :: post ->
  (exists nc, d = RetrySameTarget nc /\ ev_target ev = t) \/ (exists nc, d = RetryNextTarget nc).
Proof. exact fiber_after_error. Qed.

(* a success, DontRetry or IgnoreWriteError ends the run with the matching result; *)
Theorem C06_terminal : forall p idem cl0 plan outs tr r,
  fiber p idem cl0 plan outs = (tr, r) ->
  forall pre t c o post, tr = pre ++ EvAttempt t c o :: post ->
  match o with
  | AOk => post = [] /\ r = RCompleted t
  | AErr e DontRetry => post = [] /\ r = RFailed (LAttempt e)
  | AErr e IgnoreWriteError => post = [] /\ r = RIgnoredWriteError t
  | AErr _ _ => True
  end.
Proof. exact fiber_terminal. Qed.

(* every recorded decision was taken by a session of the request's policy, asked with the
   attempt's error, the request's idempotence and the consistency that attempt used; *)
Theorem C06_provenance : forall p idem cl0 plan outs tr r,
  fiber p idem cl0 plan outs = (tr, r) ->
  forall pre t c e d post, tr = pre ++ EvAttempt t c (AErr e d) :: post ->
  exists s1 s2, session_policy s1 = p /\ decide s1 (mk_ri e idem c) = (s2, d).
Proof. exact fiber_provenance. Qed.

(* ... constructively: the decisions recorded along a run are exactly [decide_history] of ONE fresh
   session of the request's policy on the history of failed attempts (each with its error, the
   request's idempotence and the consistency that attempt used), in order -- every decision is a
   function of the history before it *)
Theorem C06_provenance_history : forall p idem cl0 plan outs tr r,
  fiber p idem cl0 plan outs = (tr, r) ->
  attempt_decisions tr = decide_history (new_session p) (attempt_infos idem tr).
Proof. exact fiber_decisions. Qed.


(* the first attempt uses the request's consistency, and a consistency carried by a decision
   is used from the next attempt on (otherwise it stays). *)
Theorem C06_first_cl : forall p idem cl0 plan outs tr r,
  fiber p idem cl0 plan outs = (tr, r) -> forall c l, attempt_cls tr = c :: l -> c = cl0.
Proof. exact fiber_first_cl. Qed.

Theorem C06_cl_carried : forall p idem cl0 plan outs tr r,
  fiber p idem cl0 plan outs = (tr, r) ->
  forall pre t c e d post c' l, tr = pre ++ EvAttempt t c (AErr e d) :: post ->
  attempt_cls post = c' :: l -> c' = unwrap_or (carried d) c.
Proof. exact fiber_cl_carried. Qed.

(* Default and Fallthrough never change the consistency; any policy changes it at most once *)
Theorem C06_cl_const : forall p idem cl0 plan outs tr r,
  fiber p idem cl0 plan outs = (tr, r) -> p <> PDowngrading ->
  Forall (eq cl0) (attempt_cls tr).
Proof. exact fiber_cl_const. Qed.

Theorem C06_downgrade_once : forall p idem cl0 plan outs tr r,
  fiber p idem cl0 plan outs = (tr, r) ->
  exists n c' m, attempt_cls tr = repeat cl0 n ++ repeat c' m.
Proof. exact fiber_one_change. Qed.

(* DowngradingConsistency changes the consistency between two consecutive attempts only
   - by a RetrySameTarget, at a non-serial consistency,
   - after Unavailable, ReadTimeout with received < required, or (idempotent requests only)
     WriteTimeout of an UNLOGGED_BATCH,
   - to ONE / TWO / THREE, asking for no more replicas than the error reported alive /
     responding -- hence, when the error is coherent (known_ok < required, required >= 1),
     for fewer replicas than the failed attempt required; the one exception is the
     EACH_QUORUM rule (known_ok <= 0 at EACH_QUORUM gives ONE; equal only if required = 1).
   (The body is [downgrade_ok] of Proofs/C06_proofs.v, written out.) *)
Theorem C06_downgrade_sound : forall idem cl0 plan outs tr r,
  fiber PDowngrading idem cl0 plan outs = (tr, r) ->
  forall pre t c e d post c' l, tr = pre ++ EvAttempt t c (AErr e d) :: post ->
  attempt_cls post = c' :: l -> c' <> c ->
  is_serial c = false /\ d = RetrySameTarget (Some c') /\
  exists known_ok required,
    (e = EDbError (DbUnavailable required known_ok)
     \/ (exists dp, e = EDbError (DbReadTimeout known_ok required dp) /\ known_ok < required)
     \/ (e = EDbError (DbWriteTimeout known_ok required WUnloggedBatch) /\ idem = true))
    /\ exists n, cl_count c' = Some n
         /\ (n <= known_ok \/ (c = CEachQuorum /\ c' = COne /\ known_ok <= 0))
         /\ (known_ok < required -> 1 <= required -> n <= required
             /\ (n < required \/ (c = CEachQuorum /\ c' = COne /\ required = 1))).
Proof. exact fiber_downgrade_sound. Qed.

Theorem C06_downgrade_decision : forall w ri s' d c',
  decide (SDowngrading w) ri = (s', d) -> carried d = Some c' ->
  w = false /\ s' = SDowngrading true /\
  is_serial (ri_consistency ri) = false /\ d = RetrySameTarget (Some c') /\
  exists known_ok required,
    (ri_error ri = EDbError (DbUnavailable required known_ok)
     \/ (exists dp, ri_error ri = EDbError (DbReadTimeout known_ok required dp) /\ known_ok < required)
     \/ (ri_error ri = EDbError (DbWriteTimeout known_ok required WUnloggedBatch) /\ ri_idempotent ri = true))
    /\ exists n, cl_count c' = Some n
         /\ (n <= known_ok \/ (ri_consistency ri = CEachQuorum /\ c' = COne /\ known_ok <= 0))
         /\ (known_ok < required -> 1 <= required -> n <= required
             /\ (n < required \/ (ri_consistency ri = CEachQuorum /\ c' = COne /\ required = 1))).
Proof. exact decide_downgrade_ok. Qed.
(* The planned wording "never raises the consistency" is NOT a theorem for arbitrary error
   fields: an incoherent error (alive >= required) can carry a consistency that is higher in
   the enum order, see C06_ex_incoherent_raise below; a real coordinator never sends one. *)

(* a timed-out write is reported as done (IgnoreWriteError) only for idempotent requests *)
Theorem C06_ignore_only_idempotent : forall s ri s' d,
  decide s ri = (s', d) -> d = IgnoreWriteError ->
  ri_idempotent ri = true /\ (exists w, s = SDowngrading w) /\
  exists received required wt, ri_error ri = EDbError (DbWriteTimeout received required wt)
     /\ received > 0 /\ (wt = WSimple \/ wt = WBatch).
Proof. exact decide_ignore. Qed.

(* the predicates the driver evaluates on the implementation's decisions hold of the model *)
Theorem C06_decide_prop_ok : forall s ri,
  prop_decision_ok (session_policy s) ri (snd (decide s ri)) = true.
Proof. exact decide_prop_ok. Qed.

Theorem C06_history_prop_ok : forall p h,
  prop_history_ok p (decide_history (new_session p) h) = true.
Proof. exact history_prop_ok. Qed.

Theorem C06_trace_prop_ok : forall p idem cl0 plan outs tr r,
  fiber p idem cl0 plan outs = (tr, r) -> prop_trace_ok p idem (List.length plan) tr = true.
Proof. exact fiber_trace_prop_ok. Qed.

(* ---- non-vacuity ------------------------------------------------------------ *)
Definition ex_unavail := EDbError (DbUnavailable 2 1).
Definition ex_rt_ok := EDbError (DbReadTimeout 2 2 false).
Definition ex_wt_batchlog := EDbError (DbWriteTimeout 1 2 WBatchLog).

(* a non-idempotent request IS sent again after Unavailable and ReadTimeout, and stops at
   the write timeout: the hypotheses of C06_safe_resend / C06_unsafe_error_final are met *)
Example C06_ex_nonidempotent :
  fiber PDefault false CQuorum [1; 2; 3]%N
        [OError ex_unavail; OError ex_rt_ok; OError (EDbError (DbWriteTimeout 1 2 WSimple)); OSuccess]
  = ([EvAttempt 1%N CQuorum (AErr ex_unavail (RetryNextTarget None));
      EvAttempt 2%N CQuorum (AErr ex_rt_ok (RetrySameTarget None));
      EvAttempt 2%N CQuorum (AErr (EDbError (DbWriteTimeout 1 2 WSimple)) DontRetry)],
     RFailed (LAttempt (EDbError (DbWriteTimeout 1 2 WSimple)))).
Proof. vm_compute. reflexivity. Qed.

(* the bound of C06_bound is attained: 3 targets + 2 same-target retries = 5 attempts *)
Example C06_ex_bound_tight :
  let '(tr, r) := fiber PDefault true COne [1; 2; 3]%N
        [OError ex_rt_ok; OError ex_wt_batchlog; OError ex_unavail;
         OError (EDbError DbOverloaded); OError EBrokenConnectionError] in
  List.length (attempts tr) = 5%nat /\ r = RFailed (LAttempt EBrokenConnectionError).
Proof. vm_compute. split; reflexivity. Qed.

(* failed connection acquisitions consume targets without attempts *)
Example C06_ex_conn_fail :
  fiber PDefault false COne [1; 2]%N [OConnFail; OConnFail; OSuccess]
  = ([EvConnFail 1%N; EvConnFail 2%N], RFailed LConn)
  /\ fiber PDefault false COne [] [OSuccess] = ([], REmptyPlan)
  /\ fiber PDefault false COne [1; 2]%N [OConnFail] = ([EvConnFail 1%N], RPending).
Proof. vm_compute. repeat split; reflexivity. Qed.

(* Default at serial consistency: one attempt even for an idempotent request *)
Example C06_ex_serial :
  fiber PDefault true CSerial [1; 2]%N [OError ex_unavail; OSuccess]
  = ([EvAttempt 1%N CSerial (AErr ex_unavail DontRetry)], RFailed (LAttempt ex_unavail)).
Proof. vm_compute. reflexivity. Qed.

(* Downgrading lowers QUORUM to ONE on the same target and keeps it; at serial consistency
   it walks the plan on Unavailable *)
Example C06_ex_downgrade :
  fiber PDowngrading false CQuorum [1; 2]%N [OError ex_unavail; OError ex_unavail; OSuccess]
  = ([EvAttempt 1%N CQuorum (AErr ex_unavail (RetrySameTarget (Some COne)));
      EvAttempt 1%N COne (AErr ex_unavail DontRetry)], RFailed (LAttempt ex_unavail))
  /\ fiber PDowngrading false CSerial [1; 2]%N [OError ex_unavail; OError ex_unavail; OSuccess]
  = ([EvAttempt 1%N CSerial (AErr ex_unavail (RetryNextTarget None));
      EvAttempt 2%N CSerial (AErr ex_unavail (RetryNextTarget None))],
     RFailed (LAttempt ex_unavail)).
Proof. vm_compute. split; reflexivity. Qed.

(* the full-strength "never raises" is false on incoherent error fields *)
Example C06_ex_incoherent_raise :
  snd (decide (SDowngrading false) (mk_ri (EDbError (DbUnavailable 1 3)) false COne))
  = RetrySameTarget (Some CThree).
Proof. vm_compute. reflexivity. Qed.

(* IgnoreWriteError exists (idempotent, Downgrading) *)
Example C06_ex_ignore :
  fiber PDowngrading true CQuorum [1]%N [OError (EDbError (DbWriteTimeout 1 2 WSimple))]
  = ([EvAttempt 1%N CQuorum (AErr (EDbError (DbWriteTimeout 1 2 WSimple)) IgnoreWriteError)],
     RIgnoredWriteError 1%N).
Proof. vm_compute. reflexivity. Qed.

Example C06_ex_provenance_history :
  let '(tr, _) := fiber PDefault false CQuorum [1; 2; 3]%N
        [OError ex_unavail; OConnFail; OError ex_rt_ok; OError ex_unavail; OSuccess] in
  attempt_infos false tr = [mk_ri ex_unavail false CQuorum; mk_ri ex_rt_ok false CQuorum; mk_ri ex_unavail false CQuorum]
  /\ attempt_decisions tr = [RetryNextTarget None; RetrySameTarget None; DontRetry].
Proof. vm_compute. split; reflexivity. Qed.

(* "the driver sends exactly the attempts the policy decided", with the recorded decisions: the
   trace walks the plan -- after RetrySameTarget the same target, after RetryNextTarget or a failed
   connection acquisition the successor in the plan, after a success / DontRetry / IgnoreWriteError
   nothing -- and the result is the one the end of the trace prescribes ([follow], Model/Fiber.v) *)
Theorem C06_followed : forall p idem cl0 plan outs tr r,
  fiber p idem cl0 plan outs = (tr, r) -> follow plan None tr = Some r.
Proof. exact fiber_followed. Qed.

Theorem C06_next_target : forall p idem cl0 plan outs tr r,
  fiber p idem cl0 plan outs = (tr, r) ->
  forall pre t c e nc ev post, tr = pre ++ EvAttempt t c (AErr e (RetryNextTarget nc)) :: ev :: post ->
  exists p1 p2, plan = p1 ++ t :: ev_target ev :: p2.
Proof. exact fiber_next_target. Qed.

(* the predicate the driver evaluates on a differing trace of the real loop (safe resend, serial,
   bound, decisions followed, result) holds of every model run *)
Theorem C06_trace_prop_full : forall p idem cl0 plan outs tr r,
  fiber p idem cl0 plan outs = (tr, r) -> prop_trace_full p idem plan tr r = true.
Proof. exact fiber_trace_prop_full. Qed.

(* the predicate rejects: RetryNextTarget followed by the same target; DontRetry followed by a
   success; a success reported after DontRetry; a result that is not the last decision's *)
Example C06_ex_followed :
  followed_ok [0; 1]%N [EvAttempt 0%N CQuorum (AErr ex_unavail (RetryNextTarget None)); EvAttempt 0%N CQuorum AOk]
              (RCompleted 0%N) = false /\
  followed_ok [0; 1]%N [EvAttempt 0%N CQuorum (AErr ex_unavail (RetryNextTarget None)); EvAttempt 1%N CQuorum AOk]
              (RCompleted 1%N) = true /\
  followed_ok [0; 1]%N [EvAttempt 0%N CQuorum (AErr (EDbError DbOverloaded) DontRetry); EvAttempt 1%N CQuorum AOk]
              (RCompleted 1%N) = false /\
  followed_ok [0; 1]%N [EvAttempt 0%N CQuorum (AErr (EDbError DbOverloaded) DontRetry)] (RCompleted 0%N) = false /\
  followed_ok [0; 1]%N [EvAttempt 0%N CQuorum (AErr (EDbError DbOverloaded) DontRetry)]
              (RFailed (LAttempt (EDbError DbOverloaded))) = true /\
  followed_ok [0; 1]%N [EvAttempt 0%N CQuorum (AErr ex_unavail (RetrySameTarget None)); EvAttempt 1%N CQuorum AOk]
              (RCompleted 1%N) = false /\
  followed_ok [0; 1]%N [EvConnFail 0%N; EvConnFail 1%N] (RFailed LConn) = true /\
  followed_ok [0; 1]%N [EvConnFail 0%N] (RFailed LConn) = false /\
  prop_trace_ok PDefault false 2 [EvAttempt 0%N CQuorum (AErr (EDbError DbOverloaded) DontRetry); EvAttempt 1%N CQuorum AOk] = false.
Proof. vm_compute. repeat split; reflexivity. Qed.

(* ---- end to end: a real Session against a mock cluster (Model/E2EAttempts.v) ------------------
   [frs]: the QUERY / EXECUTE / BATCH frames of ONE logical request (one page) as the mock
   received them, in arrival order, each with node, consistency, arrival instant, the answer the
   mock gave and the instant that answer was logged; [o]: what the caller of the session API got;
   [nodes]: the nodes of the cluster; [down]: nodes whose connection the mock has cut.
   [check_single] / [e2e_check] are the checkers the driver runs (on a certificate it proposes). *)

(* Acceptance exhibits a run of the execution-loop model: a plan of distinct nodes of the cluster
   that contains every node whose connection was not cut, and an outcome stream, such that the
   frames are exactly the attempts of [fiber] (same targets, consistencies and outcomes, in
   order), each frame answered before the next one arrives; targets skipped without an attempt
   are nodes whose connection was cut; the caller got the model's result. *)
Theorem C06_e2e_run : forall p idem cl0 nodes down c frs tret o co,
  check_single p idem cl0 nodes down c frs tret o co = true ->
  exists tr r,
    fiber p idem cl0 (c_plan c) (c_outs c) = (tr, r)
    /\ Forall2 ev_obs (attempts tr) frs
    /\ res_match r o = true /\ r <> RPending
    /\ seq_ok frs = true
    /\ NoDup (c_plan c) /\ incl (c_plan c) nodes
    /\ (forall n, In n nodes -> In n (c_plan c) \/ In n down)
    /\ (forall t, In t (conn_fail_targets tr) -> In t down)
    /\ coord_match co r = true.
Proof. exact single_sound. Qed.

(* THE PROPERTY on the wire.  Whenever a frame of an accepted request is followed by another
   frame, the first one had been answered with an error before the second one arrived; if the
   request is not idempotent that error proves the attempt was not applied (Unavailable /
   IsBootstrapping / ReadTimeout). *)
Theorem C06_e2e_resend : forall p idem cl0 nodes down c frs tret o co,
  check_single p idem cl0 nodes down c frs tret o co = true ->
  forall pre f g post, frs = pre ++ f :: g :: post ->
  (exists e, f_ans f = AnsErr e /\ (idem = false -> safe_errorb e = true))
  /\ (f_arr f <= f_done f)%N /\ (f_done f <= f_arr g)%N.
Proof. exact single_resend. Qed.

(* ... after a broken connection, an overloaded / server / truncate error or a write timeout a
   request that is not idempotent is not sent again, and the caller gets exactly that error *)
Theorem C06_e2e_unsafe_final : forall p cl0 nodes down c frs tret o co,
  check_single p false cl0 nodes down c frs tret o co = true ->
  forall pre f post e, frs = pre ++ f :: post -> f_ans f = AnsErr e -> named_unsafe_errorb e = true ->
  post = [] /\ o = OFailed (LAttempt e).
Proof. exact single_unsafe_final. Qed.

(* the number of frames of one logical request: at most the number of nodes plus 2 / 1 / 0 *)
Theorem C06_e2e_bound : forall p idem cl0 nodes down c frs tret o co,
  check_single p idem cl0 nodes down c frs tret o co = true ->
  (List.length frs <= List.length nodes + same_target_budget p)%nat.
Proof. exact single_bound. Qed.

(* the first frame carries the request's consistency; Default and Fallthrough never change it *)
Theorem C06_e2e_consistency : forall p idem cl0 nodes down c frs tret o co,
  check_single p idem cl0 nodes down c frs tret o co = true ->
  (forall f rest, frs = f :: rest -> f_cl f = cl0)
  /\ (p <> PDowngrading -> Forall (fun f => f_cl f = cl0) frs).
Proof. exact single_cl. Qed.

Theorem C06_e2e_serial_default : forall idem cl0 nodes down c frs tret o co,
  check_single PDefault idem cl0 nodes down c frs tret o co = true -> is_serial cl0 = true ->
  (List.length frs <= 1)%nat.
Proof. exact single_serial_default. Qed.

(* The gate.  An observation of a request that is not idempotent (or of one without a speculative
   policy) is accepted only as ONE fiber run to its end -- so everything above applies to every
   frame of it -- and then at no instant two of its frames are in flight. *)
Theorem C06_e2e_gate : forall p idem spec cl0 nodes down cs assign frs tret o co,
  e2e_check p idem spec cl0 nodes down cs assign frs tret o co = true ->
  (idem = false \/ spec = None) ->
  exists c, cs = [c] /\ check_single p idem cl0 nodes down c frs tret o co = true
            /\ forall t, (List.length (in_flight t frs) <= 1)%nat.
Proof. exact e2e_gate. Qed.

(* Idempotent request with a speculative policy: the frames split into at most 1 + max fibers,
   each of them a run of the model (to its end, or up to the moment it was cancelled: pending
   model run, or last frame still unanswered) on its own part of the plan; the parts are pairwise
   disjoint sets of distinct nodes of the cluster. *)
Theorem C06_e2e_fibers : forall p spec cl0 nodes down cs assign frs tret o co max,
  e2e_check p true spec cl0 nodes down cs assign frs tret o co = true -> spec = Some max ->
  (1 <= List.length cs <= 1 + max)%nat
  /\ NoDup (concat (map c_plan cs)) /\ incl (concat (map c_plan cs)) nodes
  /\ forall i c, nth_error cs i = Some c ->
       exists tr r, fiber p true cl0 (c_plan c) (c_outs c) = (tr, r)
                    /\ match_frames (c_free c) (attempts tr) (sub_frames i assign frs) = true
                    /\ seq_ok (sub_frames i assign frs) = true
                    /\ (forall t, In t (conn_fail_targets tr) -> In t down)
                    /\ shards_ok down (sub_frames i assign frs) = true
                    /\ fiber_check p true cl0 down c (sub_frames i assign frs) = Some r.
Proof. exact e2e_fibers. Qed.

(* what [match_frames] says: attempt by attempt the frame's node, consistency and answer; for a
   cancelled fiber the answer of the last frame is left open *)
Theorem C06_e2e_match : forall evs frs,
  (match_frames false evs frs = true -> Forall2 ev_obs evs frs) /\
  (match_frames true evs frs = true ->
     Forall2 ev_obs_free evs frs /\ Forall2 ev_obs (removelast evs) (removelast frs)).
Proof. exact match_frames_spec. Qed.

(* the predicate the driver evaluates on observations for which no certificate is accepted holds
   of every accepted one (gate closed) *)
Theorem C06_e2e_prop_frames : forall p idem spec cl0 nodes down c frs tret o co,
  check_single p idem cl0 nodes down c frs tret o co = true ->
  gate_open idem spec = None ->
  prop_frames p idem spec (List.length nodes) frs = true.
Proof. exact single_prop_frames. Qed.

(* ... for both positions of the gate *)
Theorem C06_e2e_prop_frames_any : forall p idem spec cl0 nodes down cs assign frs tret o co,
  e2e_check p idem spec cl0 nodes down cs assign frs tret o co = true ->
  prop_frames p idem spec (List.length nodes) frs = true.
Proof. exact e2e_prop_frames. Qed.

(* "For ANY request the number of attempts is bounded", on the wire and for the WHOLE request: one
   fiber: |nodes| + k frames; with a speculative policy every fiber has its own retry session, the
   fibers share the plan: |nodes| + (1 + max) * k; Fallthrough: one frame per fiber. *)
Theorem C06_e2e_request_bound : forall p idem spec cl0 nodes down cs assign frs tret o co,
  e2e_check p idem spec cl0 nodes down cs assign frs tret o co = true ->
  (List.length frs
   <= frame_bound p (match gate_open idem spec with Some max => 1 + max | None => 1 end)
                  (List.length nodes))%nat.
Proof. exact e2e_request_bound. Qed.

(* one fiber: a frame is followed by another only if the retry session, fed the answered errors in
   order, decided a retry there -- "no more attempts than the policy decided" on the wire *)
Theorem C06_e2e_no_more : forall p idem cl0 nodes down c frs tret o co,
  check_single p idem cl0 nodes down c frs tret o co = true ->
  frames_follow idem (new_session p) frs = true.
Proof. exact single_no_more. Qed.

(* Client-side request timeout.  What the code does: `tokio::time::timeout(timeout, runner)` wraps the
   whole execution (all fibers); when it fires the runner future is dropped, the caller gets
   RequestTimeout and nothing is sent any more.  An accepted observation of a timed-out request: at most
   1 + max fibers, each a run of the model or a cancelled prefix of one (gate closed -- not idempotent or
   no speculative policy: ONE fiber, and it had NOT run to its end; gate open: a fiber may have ended,
   e.g. with an ignorable error, waiting for the next timer tick), same-node retries on the same shard,
   within the whole-request frame bound; the call returned
   no earlier than the timeout after it started; no frame arrives more than the margin after it returned;
   a certificate may call a fiber "cancelled with its last frame in flight" although that frame's answer was
   logged only if the answer came no earlier than [smargin] before t0 + tmo, the earliest instant the timeout
   can have fired ([free_answer_ok]; "had not run to its end" is a claim of the certificate, this clause
   is what ties it to the clock). *)
Theorem C06_e2e_timeout : forall p idem spec cl0 nodes down cs assign frs t0 tmo tret margin smargin,
  check_timeout p idem spec cl0 nodes down cs assign frs t0 tmo tret margin smargin = true ->
  let max := match gate_open idem spec with Some m => m | None => 0%nat end in
  (1 <= List.length cs <= 1 + max)%nat
  /\ NoDup (concat (map c_plan cs)) /\ incl (concat (map c_plan cs)) nodes
  /\ (forall i c, nth_error cs i = Some c ->
       exists tr r, fiber p idem cl0 (c_plan c) (c_outs c) = (tr, r)
                    /\ match_frames (c_free c) (attempts tr) (sub_frames i assign frs) = true
                    /\ seq_ok (sub_frames i assign frs) = true
                    /\ (forall t, In t (conn_fail_targets tr) -> In t down)
                    /\ shards_ok down (sub_frames i assign frs) = true
                    /\ free_answer_ok t0 tmo smargin c (sub_frames i assign frs) = true
                    /\ (gate_open idem spec = None -> fiber_finished c r = false))
  /\ (List.length frs <= frame_bound p (1 + max) (List.length nodes))%nat
  /\ (t0 + tmo <= tret)%N
  /\ (forall f, In f frs -> (f_arr f <= tret + margin)%N).
Proof. exact timeout_sound. Qed.

(* DEFINITIONAL (a projection of the last conjunct of C06_e2e_timeout onto the frames after the first,
   as the boolean the driver evaluates): after the call has given up with RequestTimeout nothing is sent
   AGAIN.  One late FIRST frame is not a re-send and is not judged by this predicate. *)
Theorem C06_e2e_timeout_frames : forall p idem spec cl0 nodes down cs assign frs t0 tmo tret margin smargin,
  check_timeout p idem spec cl0 nodes down cs assign frs t0 tmo tret margin smargin = true ->
  prop_timeout_frames tret margin frs = true.
Proof. exact timeout_prop_frames. Qed.

Example C06_ex_timeout_frames :
  prop_timeout_frames 101000 150000 [mkFrame 2 CQuorum 10 AnsNone 0 0; mkFrame 0 CQuorum 640000 AnsNone 0 0] = false /\
  prop_timeout_frames 101000 150000 [mkFrame 2 CQuorum 10 AnsNone 0 0; mkFrame 0 CQuorum 240000 AnsNone 0 0] = true /\
  (* the boundary: 1 us beyond tret + margin; and ONE late frame is not a re-send *)
  prop_timeout_frames 101000 150000 [mkFrame 2 CQuorum 10 AnsNone 0 0; mkFrame 0 CQuorum 251000 AnsNone 0 0] = true /\
  prop_timeout_frames 101000 150000 [mkFrame 2 CQuorum 10 AnsNone 0 0; mkFrame 0 CQuorum 251001 AnsNone 0 0] = false /\
  prop_timeout_frames 101000 150000 [mkFrame 2 CQuorum 640000 AnsNone 0 0] = true.
Proof. vm_compute. repeat split; reflexivity. Qed.

Example C06_ex_timeout :
  (* not idempotent, timeout 100 ms, the only frame unanswered when the call returned at 101 ms *)
  check_timeout PDefault false (Some 2%nat) CQuorum [0; 1; 2]%N [] [mkCert [2]%N [OSuccess] true] [0%nat]
    [mkFrame 2 CQuorum 10 AnsNone 0 0] 0 100000 101000 150000 20000 = true /\
  (* ... a second fiber is not accepted for it *)
  check_timeout PDefault false (Some 2%nat) CQuorum [0; 1; 2]%N []
    [mkCert [2]%N [OSuccess] true; mkCert [0]%N [OSuccess] true] [0; 1]%nat
    [mkFrame 2 CQuorum 10 AnsNone 0 0; mkFrame 0 CQuorum 30010 AnsNone 0 0] 0 100000 101000 150000 20000 = false /\
  (* a frame long after the call returned; a call that returned before the timeout *)
  check_timeout PDefault false None CQuorum [0; 1; 2]%N [] [mkCert [2]%N [OSuccess] true] [0%nat]
    [mkFrame 2 CQuorum 400000 AnsNone 0 0] 0 100000 101000 150000 20000 = false /\
  check_timeout PDefault false None CQuorum [0; 1; 2]%N [] [mkCert [2]%N [OSuccess] true] [0%nat]
    [mkFrame 2 CQuorum 10 AnsNone 0 0] 0 100000 90000 150000 20000 = false /\
  (* gate closed: the fiber ended with Overloaded at 20 us -- the caller cannot have got a timeout *)
  check_timeout PDefault false None CQuorum [0; 1; 2]%N [] [mkCert [2; 0; 1]%N [OError (EDbError DbOverloaded)] false] [0%nat]
    [mkFrame 2 CQuorum 10 (AnsErr (EDbError DbOverloaded)) 20 1] 0 100000 101000 150000 20000 = false /\
  (* ... and a certificate that calls that fiber "cancelled with its frame in flight" is not accepted either:
     the answer was logged 99.98 ms before the timeout could fire *)
  check_timeout PDefault false None CQuorum [0; 1; 2]%N [] [mkCert [2; 0; 1]%N [OError (EDbError DbOverloaded)] true] [0%nat]
    [mkFrame 2 CQuorum 10 (AnsErr (EDbError DbOverloaded)) 20 1] 0 100000 101000 150000 20000 = false /\
  (* but an answer logged 5 ms before the timeout may have been overtaken by it *)
  check_timeout PDefault false None CQuorum [0; 1; 2]%N [] [mkCert [2; 0; 1]%N [OError (EDbError DbOverloaded)] true] [0%nat]
    [mkFrame 2 CQuorum 10 (AnsErr (EDbError DbOverloaded)) 95000 1] 0 100000 101000 150000 20000 = true.
Proof. vm_compute. repeat split; reflexivity. Qed.

(* COMPLETENESS of the one-fiber checker: check_single accepts EXACTLY the observations of runs of the
   model -- a certificate is accepted if and only if it is a run of [fiber] to its end whose attempts are
   the frames one to one, in order, each answered before the next arrives, same-node retries on the same
   shard, on a plan of distinct cluster nodes covering every node that is not cut, skipping only cut nodes,
   with the model's result and coordinator, the last answer logged before the call returned.  So for a
   legitimate observation a rejection (`diff`) can only come from the driver not PROPOSING the run's
   (plan, outcome stream) -- never from the checker. *)
Theorem C06_e2e_run_iff : forall p idem cl0 nodes down c frs tret o co,
  check_single p idem cl0 nodes down c frs tret o co = true <->
  (c_free c = false /\
   exists tr r,
     fiber p idem cl0 (c_plan c) (c_outs c) = (tr, r)
     /\ Forall2 ev_obs (attempts tr) frs
     /\ res_match r o = true /\ coord_match co r = true
     /\ seq_ok frs = true /\ shards_ok down frs = true /\ last_done_by tret frs = true
     /\ NoDup (c_plan c) /\ incl (c_plan c) nodes
     /\ (forall n, In n nodes -> In n (c_plan c) \/ In n down)
     /\ (forall t, In t (conn_fail_targets tr) -> In t down)).
Proof. exact single_iff. Qed.

(* The certificate of a finished run is determined by what happened: its outcome stream can be read off
   the trace, one outcome per event (OConnFail for a skipped target, the answer for an attempt) -- the
   shape of the candidates the driver enumerates (the answers of the frames, with OConnFail inserted for
   cut nodes).  With C06_e2e_run_iff: for the observation of a finished run on [plan], the certificate
   (plan, outs_of_trace tr) is accepted. *)
Theorem C06_canonical_outs : forall p idem cl0 plan outs tr r,
  fiber p idem cl0 plan outs = (tr, r) ->
  fiber p idem cl0 plan (outs_of_trace tr) = (tr, r).
Proof. exact fiber_canonical_outs_any. Qed.

(* Cutting a fiber short -- the client-side timeout dropping the runner, `execute` dropping a
   speculative fiber -- adds no attempt: a pending run is a PREFIX of every run on a longer outcome
   stream.  (The model-level content behind "nothing is sent after the call has given up".) *)
Theorem C06_cancel_prefix : forall p idem cl0 plan outs tr,
  fiber p idem cl0 plan outs = (tr, RPending) ->
  forall more, exists tr' r', fiber p idem cl0 plan (outs ++ more) = (tr ++ tr', r').
Proof. exact fiber_pending_prefix. Qed.

Example C06_ex_cancel_prefix :
  fiber PDefault true CQuorum [1; 2; 3]%N [OError ex_unavail]
  = ([EvAttempt 1%N CQuorum (AErr ex_unavail (RetryNextTarget None))], RPending) /\
  fst (fiber PDefault true CQuorum [1; 2; 3]%N [OError ex_unavail; OSuccess])
  = [EvAttempt 1%N CQuorum (AErr ex_unavail (RetryNextTarget None))] ++ [EvAttempt 2%N CQuorum AOk].
Proof. vm_compute. split; reflexivity. Qed.

(* Shard-aware targets: a plan target is a (node, shard) pair.  Consecutive frames of an accepted
   ONE-FIBER request (premise check_single) on one node (a same-target retry) arrive on the same
   shard -- unless that node lost a connection (the pool then hands out a connection of another
   shard).  For the fibers of the gate-open case and of timed-out requests the same check
   ([shards_ok] of every fiber's frames) is a conjunct of C06_e2e_fibers / C06_e2e_timeout. *)
Theorem C06_e2e_same_shard : forall p idem cl0 nodes down c frs tret o co,
  check_single p idem cl0 nodes down c frs tret o co = true ->
  forall pre f g post, frs = pre ++ f :: g :: post -> f_node g = f_node f -> ~ In (f_node f) down ->
  f_shard g = f_shard f.
Proof. exact single_shards. Qed.

Example C06_ex_same_shard :
  (* ReadTimeout -> RetrySameTarget: node 2 again, on shard 1 again: accepted; on shard 0: not *)
  check_single PDefault false CQuorum [0; 1; 2]%N [] (mkCert [2; 0; 1]%N [OError ex_rt_ok; OSuccess] false)
    [mkFrame 2 CQuorum 10 (AnsErr ex_rt_ok) 20 1; mkFrame 2 CQuorum 30 AnsOk 40 1] 50 OCompleted (Some 2%N) = true /\
  check_single PDefault false CQuorum [0; 1; 2]%N [] (mkCert [2; 0; 1]%N [OError ex_rt_ok; OSuccess] false)
    [mkFrame 2 CQuorum 10 (AnsErr ex_rt_ok) 20 1; mkFrame 2 CQuorum 30 AnsOk 40 0] 50 OCompleted (Some 2%N) = false /\
  shards_ok [2]%N [mkFrame 2 CQuorum 10 (AnsErr ex_rt_ok) 20 1; mkFrame 2 CQuorum 30 AnsOk 40 0] = true.
Proof. vm_compute. repeat split; reflexivity. Qed.

(* non-vacuity.  Not idempotent, Default, 3 nodes: Unavailable on node 2 (answered at 20), then
   success on node 0 -- accepted; the same frames with the second one arriving BEFORE the first
   was answered (a second node contacted without any failure: what a speculative execution of a
   request that is not idempotent looks like) -- no certificate can be accepted: the property
   predicate is false, and so is the checker on the natural certificate. *)
Definition ex_f1 (done_ : N) := mkFrame 2 CQuorum 10 (AnsErr ex_unavail) done_ 0.
Definition ex_f2 := mkFrame 0 CQuorum 40 AnsOk 45 0.
Definition ex_cert := mkCert [2; 0; 1]%N [OError ex_unavail; OSuccess] false.
Example C06_ex_e2e :
  check_single PDefault false CQuorum [0; 1; 2]%N [] ex_cert [ex_f1 20; ex_f2] 50 OCompleted (Some 0%N) = true /\
  e2e_check PDefault false (Some 2%nat) CQuorum [0; 1; 2]%N [] [ex_cert] [0; 0]%nat [ex_f1 20; ex_f2] 50 OCompleted (Some 0%N) = true /\
  check_single PDefault false CQuorum [0; 1; 2]%N [] ex_cert [ex_f1 300; ex_f2] 50 OCompleted None = false /\
  prop_frames PDefault false (Some 2%nat) 3 [ex_f1 300; ex_f2] = false /\
  prop_frames PDefault false (Some 2%nat) 3 [mkFrame 2 CQuorum 10 AnsOk 300 0; ex_f2] = false /\
  (* idempotent with a policy: two fibers, the first one cancelled while its frame was in flight *)
  e2e_check PDefault true (Some 2%nat) CQuorum [0; 1; 2]%N []
            [mkCert [2]%N [OSuccess] true; mkCert [0]%N [OSuccess] false] [0; 1]%nat
            [mkFrame 2 CQuorum 10 AnsNone 0 0; ex_f2] 50 OCompleted (Some 0%N) = true /\
  (* the result names the node whose answer was returned *)
  check_single PDefault false CQuorum [0; 1; 2]%N [] ex_cert [ex_f1 20; ex_f2] 50 OCompleted (Some 2%N) = false /\
  (* ... but not more fibers than 1 + max *)
  e2e_check PDefault true (Some 0%nat) CQuorum [0; 1; 2]%N []
            [mkCert [2]%N [OSuccess] true; mkCert [0]%N [OSuccess] false] [0; 1]%nat
            [mkFrame 2 CQuorum 10 AnsNone 0 0; ex_f2] 50 OCompleted None = false.
Proof. vm_compute. repeat split; reflexivity. Qed.

Print Assumptions C06_safe_set.
Print Assumptions C06_named_unsafe_set.
Print Assumptions C06_safe_resend.
Print Assumptions C06_unsafe_error_final.
Print Assumptions C06_decide_safe.
Print Assumptions C06_serial_default.
Print Assumptions C06_serial_default_one_attempt.
Print Assumptions C06_bound.
Print Assumptions C06_bound_fallthrough.
Print Assumptions C06_same_target_budget.
Print Assumptions C06_terminates.
Print Assumptions C06_pending_consumed.
Print Assumptions C06_stream_prefix.
Print Assumptions C06_exact.
Print Assumptions C06_exact_any_policy.
Print Assumptions C06_after_error.
Print Assumptions C06_terminal.
Print Assumptions C06_provenance.
Print Assumptions C06_first_cl.
Print Assumptions C06_cl_carried.
Print Assumptions C06_cl_const.
Print Assumptions C06_downgrade_once.
Print Assumptions C06_downgrade_sound.
Print Assumptions C06_downgrade_decision.
Print Assumptions C06_ignore_only_idempotent.
Print Assumptions C06_decide_prop_ok.
Print Assumptions C06_history_prop_ok.
Print Assumptions C06_trace_prop_ok.
(* the e2e property predicate on rejecting inputs: Fallthrough followed by a second frame (no
   overlap, safe error); a non-idempotent request re-sent after Overloaded; too many frames; and the
   UNPREPARED + re-execute pair on one node, which is ONE attempt and is not judged *)
Example C06_ex_prop_frames :
  prop_frames PFallthrough false None 3 [ex_f1 20; ex_f2] = false /\
  prop_frames PDefault false None 3 [ex_f1 20; ex_f2] = true /\
  prop_frames PDefault false None 3 [mkFrame 2 CQuorum 10 (AnsErr (EDbError DbOverloaded)) 20 0; ex_f2] = false /\
  prop_frames PDefault true None 3 [mkFrame 2 CQuorum 10 (AnsErr (EDbError DbOverloaded)) 20 0; ex_f2] = true /\
  prop_frames PDefault true None 3 [mkFrame 2 CSerial 10 (AnsErr ex_unavail) 20 0; mkFrame 0 CSerial 40 AnsOk 45 0] = false /\
  prop_frames PFallthrough true (Some 1%nat) 3 [ex_f1 20; ex_f2; mkFrame 1 CQuorum 60 AnsOk 70 0] = false /\
  prop_frames PFallthrough true (Some 2%nat) 3 [ex_f1 20; ex_f2; mkFrame 1 CQuorum 60 AnsOk 70 0] = true /\
  frame_bound PDefault 3 4 = 10%nat /\ frame_bound PDowngrading 1 3 = 4%nat /\ frame_bound PFallthrough 3 4 = 3%nat /\
  prop_frames PDefault false None 3
    [mkFrame 2 CQuorum 10 (AnsErr (EDbError DbUnprepared)) 20 0; mkFrame 2 CQuorum 30 AnsOk 40 0] = true /\
  prop_frames PDefault false None 3
    [mkFrame 2 CQuorum 10 (AnsErr (EDbError DbUnprepared)) 20 0; mkFrame 0 CQuorum 30 AnsOk 40 0] = false.
Proof. vm_compute. repeat split; reflexivity. Qed.

(* the per-decision predicate of the driver on rejecting inputs *)
Example C06_ex_prop_decision :
  prop_decision_ok PDowngrading (mk_ri (EDbError (DbWriteTimeout 1 2 WSimple)) false CQuorum) IgnoreWriteError = false /\
  prop_decision_ok PDowngrading (mk_ri (EDbError (DbWriteTimeout 1 2 WSimple)) true CQuorum) IgnoreWriteError = true /\
  prop_decision_ok PDefault (mk_ri (EDbError DbOverloaded) false CQuorum) (RetryNextTarget None) = false /\
  prop_decision_ok PDefault (mk_ri ex_unavail true CSerial) (RetryNextTarget None) = false /\
  prop_decision_ok PFallthrough (mk_ri ex_unavail true CQuorum) (RetryNextTarget None) = false /\
  prop_decision_ok PDefault (mk_ri ex_unavail false CQuorum) (RetryNextTarget None) = true.
Proof. vm_compute. repeat split; reflexivity. Qed.

Print Assumptions C06_provenance_history.
Print Assumptions C06_followed.
Print Assumptions C06_next_target.
Print Assumptions C06_trace_prop_full.
Print Assumptions C06_e2e_prop_frames_any.
Print Assumptions C06_e2e_request_bound.
Print Assumptions C06_e2e_no_more.
Print Assumptions C06_e2e_same_shard.
Print Assumptions C06_e2e_run_iff.
Print Assumptions C06_cancel_prefix.
Print Assumptions C06_canonical_outs.
Print Assumptions C06_e2e_timeout_frames.
Print Assumptions C06_e2e_timeout.
Print Assumptions C06_e2e_run.
Print Assumptions C06_e2e_resend.
Print Assumptions C06_e2e_unsafe_final.
Print Assumptions C06_e2e_bound.
Print Assumptions C06_e2e_consistency.
Print Assumptions C06_e2e_serial_default.
Print Assumptions C06_e2e_gate.
Print Assumptions C06_e2e_fibers.
Print Assumptions C06_e2e_match.
Print Assumptions C06_e2e_prop_frames.

(* ---- Deepening round 4 (proof only; Proofs/C06_d4_proofs.v) -------------------------------------- *)

(* What the `viol` predicate of the hook tie says, as a proposition (soundness AND completeness of the
   boolean the driver evaluates): [resend_ok p idem tr] holds iff EVERY event of the trace that is
   followed by another one is a failed connection acquisition or a FAILED attempt -- never a
   successful one -- whose error is in the safe set unless the request is idempotent and, under
   Default, whose consistency is not serial.  ([resend_step], Proofs/C06_d4_proofs.v, written out.) *)
Theorem C06_resend_ok_iff : forall p idem tr,
  resend_ok p idem tr = true <->
  (forall pre ev nxt post, tr = pre ++ ev :: nxt :: post ->
     match ev with
     | EvConnFail _ => True
     | EvAttempt _ _ AOk => False
     | EvAttempt _ c (AErr e _) =>
         (idem = true \/ safe_errorb e = true) /\ (p = PDefault -> is_serial c = false)
     end).
Proof. exact resend_ok_iff. Qed.

(* ... and [prop_trace_ok] is that plus the bound on the number of events *)
Theorem C06_trace_prop_ok_iff : forall p idem nplan tr,
  prop_trace_ok p idem nplan tr = true <->
  (forall pre ev nxt post, tr = pre ++ ev :: nxt :: post ->
     match ev with
     | EvConnFail _ => True
     | EvAttempt _ _ AOk => False
     | EvAttempt _ c (AErr e _) =>
         (idem = true \/ safe_errorb e = true) /\ (p = PDefault -> is_serial c = false)
     end) /\
  (List.length tr <= nplan + same_target_budget p)%nat.
Proof. exact prop_trace_ok_iff. Qed.

Example C06_ex_resend_ok :
  resend_ok PDefault false [EvConnFail 0%N; EvAttempt 1%N CQuorum (AErr ex_unavail (RetryNextTarget None));
                            EvAttempt 2%N CQuorum AOk] = true /\
  resend_ok PDefault false [EvAttempt 1%N CQuorum (AErr (EDbError DbOverloaded) (RetryNextTarget None));
                            EvAttempt 2%N CQuorum AOk] = false /\
  resend_ok PDefault true [EvAttempt 1%N CQuorum (AErr (EDbError DbOverloaded) (RetryNextTarget None));
                           EvAttempt 2%N CQuorum AOk] = true /\
  resend_ok PDefault true [EvAttempt 1%N CSerial (AErr ex_unavail (RetryNextTarget None));
                           EvAttempt 2%N CSerial AOk] = false /\
  resend_ok PDowngrading true [EvAttempt 1%N CSerial (AErr ex_unavail (RetryNextTarget None));
                               EvAttempt 2%N CSerial AOk] = true /\
  resend_ok PDefault true [EvAttempt 1%N CQuorum AOk; EvAttempt 2%N CQuorum AOk] = false.
Proof. vm_compute. repeat split; reflexivity. Qed.

(* Frame statement for the loop: the part of the plan a run never reached is irrelevant.  A run that
   did NOT end because the plan ran out -- it is still looping, or it ended with a success, an ignored
   write error, or a DontRetry decision (its last event) -- is, event for event and with the same
   result, the run on every EXTENSION of the plan.  (The fact the third deepening round named as missing
   for a search-completeness argument: "the unvisited tail of the plan is irrelevant for a run that
   ended by a terminal decision".)  The premise is needed: C06_ex_plan_tail, last conjunct. *)
Theorem C06_plan_tail : forall p idem cl0 plan outs tr r,
  fiber p idem cl0 plan outs = (tr, r) ->
  (r = RPending \/ (exists t, r = RCompleted t) \/ (exists t, r = RIgnoredWriteError t)
   \/ (exists pre t c e, tr = pre ++ [EvAttempt t c (AErr e DontRetry)])) ->
  forall extra, fiber p idem cl0 (plan ++ extra) outs = (tr, r).
Proof. exact fiber_plan_tail. Qed.

Example C06_ex_plan_tail :
  fiber PDefault false CQuorum [1; 2]%N [OError ex_unavail; OError (EDbError DbOverloaded); OSuccess]
  = ([EvAttempt 1%N CQuorum (AErr ex_unavail (RetryNextTarget None));
      EvAttempt 2%N CQuorum (AErr (EDbError DbOverloaded) DontRetry)],
     RFailed (LAttempt (EDbError DbOverloaded))) /\
  fiber PDefault false CQuorum ([1; 2] ++ [3; 4])%N [OError ex_unavail; OError (EDbError DbOverloaded); OSuccess]
  = fiber PDefault false CQuorum [1; 2]%N [OError ex_unavail; OError (EDbError DbOverloaded); OSuccess] /\
  fiber PDefault false CQuorum [1]%N [OError ex_unavail; OSuccess]
  = ([EvAttempt 1%N CQuorum (AErr ex_unavail (RetryNextTarget None))], RFailed (LAttempt ex_unavail)) /\
  fiber PDefault false CQuorum ([1] ++ [2])%N [OError ex_unavail; OSuccess]
  = ([EvAttempt 1%N CQuorum (AErr ex_unavail (RetryNextTarget None)); EvAttempt 2%N CQuorum AOk], RCompleted 2%N).
Proof. vm_compute. repeat split; reflexivity. Qed.

(* WHICH traces are runs of the model: [tr], [r] is the output of the loop on [plan] for SOME outcome
   stream if and only if
     - the trace walks the plan as the recorded decisions say and [r] is the result its end prescribes
       ([follow], the predicate of C06_followed), and
     - [decided] (Proofs/C06_d4_proofs.v): every attempt used the consistency current at that point
       (the request's, replaced by whatever a decision carried) and every recorded decision is the one
       ONE session of the policy -- created fresh, fed with the failed attempts in order (error, the
       request's idempotence, that attempt's consistency) -- takes.
   So C06_followed + C06_provenance_history + C06_first_cl / C06_cl_carried together are not only
   consequences of being a run: they characterise the runs.  The stream is the one read off the trace
   (C06_canonical_outs, which therefore holds for pending runs too -- its premise is gone). *)
Theorem C06_run_iff : forall p idem cl0 plan tr r,
  (exists outs, fiber p idem cl0 plan outs = (tr, r)) <->
  (follow plan None tr = Some r /\ decided idem (new_session p) cl0 tr).
Proof. exact fiber_run_characterised. Qed.

Example C06_ex_run_iff :
  (let tr := [EvConnFail 0%N; EvAttempt 1%N CQuorum (AErr ex_unavail (RetryNextTarget None));
              EvAttempt 2%N CQuorum AOk] in
   follow [0; 1; 2; 3]%N None tr = Some (RCompleted 2%N) /\ decided false (new_session PDefault) CQuorum tr) /\
  (* walks the plan, but the recorded decision is not the session's: not a run *)
  (let tr := [EvAttempt 1%N CQuorum (AErr (EDbError DbOverloaded) (RetryNextTarget None));
              EvAttempt 2%N CQuorum AOk] in
   follow [1; 2]%N None tr = Some (RCompleted 2%N) /\
   ~ exists outs, fiber PDefault false CQuorum [1; 2]%N outs = (tr, RCompleted 2%N)) /\
  (* the session's decisions, but the second attempt goes to the wrong target: not a run *)
  (let tr := [EvAttempt 1%N CQuorum (AErr ex_unavail (RetryNextTarget None)); EvAttempt 1%N CQuorum AOk] in
   decided false (new_session PDefault) CQuorum tr /\
   ~ exists outs, fiber PDefault false CQuorum [1; 2]%N outs = (tr, RCompleted 1%N)).
Proof.
  split; [|split].
  - vm_compute. repeat split; reflexivity.
  - cbv zeta. split; [reflexivity|]. intros H. apply C06_run_iff in H. destruct H as [_ H].
    vm_compute in H. destruct H as [_ [H _]]. discriminate H.
  - cbv zeta. split; [vm_compute; repeat split; reflexivity|]. intros H. apply C06_run_iff in H.
    destruct H as [H _]. vm_compute in H. discriminate H.
Qed.

Print Assumptions C06_resend_ok_iff.
Print Assumptions C06_trace_prop_ok_iff.
Print Assumptions C06_plan_tail.
Print Assumptions C06_run_iff.
