(* Property C12 — statements only.  Every theorem is closed by [exact] of a lemma from
   Proofs/Route_proofs.v or Proofs/C12_d4_proofs.v; the statements are pinned again in /verif/pins/C12.v.

   C12 is the COMPOSITION property.  Model/Route.v composes the models of the other slices
   (imported, not copied): the token of the bound key (C03: PartKey.ps_calculate_token), the
   replica sets of the ring (C04: replicas_for / rs_iter / rs_ordered), the node groups, the
   de-duplication and the Plan of the default policy (C05: Plan.v), ScyllaDB's shard of a token
   (C11: shard_of) and the tablet lookup (C15: Tablets.lookup / lookup_dc), with the glue that is
   new here: Session::execute's routing info, the choice between tablets and ring, pick() /
   fallback() over either kind of replica set, the target loop of the request fiber, and the
   connection pool (connection_for_shard and the refiller that fills its slots).

   [route cl cho shufp cfg st values] = where the first frame of one execution goes:
   Ok (Some (node, connection)) | Ok None (nothing could be sent) | Err (the key is refused).
   [cho], [shufp] are the random choices (indices, shuffles); the theorems hold for all of them.

   Hypotheses, named:
   [cho_ok]        every drawn index is below its bound;  [shuf_ok]  shuffles are permutations;
   [cluster_ok]    every pool is well formed (C12_shard proves that the refiller only produces
                   such pools) and a node without a pool has no connections;
   [sorted_weak]   the ring is sorted (C04_ring: every ring TokenRing::new builds);
   [keys_ok]       NTS maps have one entry per datacenter;
   [tablets_coherent]  per-datacenter replica lists of a tablet are the restriction of the full
                   list, by the nodes' datacenters (C12_tablets_reachable: true of every state the
                   tablets code can reach, by C15_dc and C15_no_stale_nodes). *)
From SV Require Import Base.Prelude Base.Bytes Model.Ring Model.Replicas Model.Plan Model.Shard Model.Route.
From SV Require Model.Murmur Model.PartKey Model.Tablets.
From SV Require Import Proofs.Ring_proofs Proofs.Replicas_proofs Proofs.Plan_proofs Proofs.Shard_proofs Proofs.Route_proofs Proofs.C12_d4_proofs.
From SV Require Proofs.Tablets_proofs Proofs.PartKey_proofs.
Open Scope Z_scope.

(* ---- same token (C03) -------------------------------------------------------------------
   the RoutingInfo of an execution carries the server-side partitioner's token of the bound key
   (key components in partition-key order, whatever the marker order) and the keyspace of the
   statement's table *)
Theorem C12_token : forall st cfg values,
  st_wire st <> [] -> PartKey_proofs.key_ok (st_ncols st) (st_wire st) values ->
  (List.length (st_wire st) = 1%nat \/
   Forall PartKey_proofs.fits (PartKey.spec_components (st_wire st) values)) ->
  (Z.of_nat (List.length (PartKey.spec_serialized_key (PartKey.spec_components (st_wire st) values))) < 2 ^ 63)%Z ->
  exists rq, routing_request st cfg values = Ok rq /\
             rq_token rq = Some (PartKey.spec_token (st_part st) (st_wire st) values) /\
             rq_ks rq = option_map fst (st_table st).
Proof. exact routing_request_token. Qed.

(* ---- C12_first_target (ring tables) --------------------------------------------------------
   token bound, keyspace known, token-aware policy, a replica of the token (as the SPECIFICATION
   of replica placement defines it: spec_replicas, C04) reachable among the permitted nodes =>
   for every oracle the first frame goes to such a replica, to one in the preferred datacenter
   when that datacenter holds a reachable replica, and on a sharded node over a connection bound
   to ScyllaDB's shard of the token (spec_shard_of, C11) whenever the pool has one *)
Theorem C12_first_target : forall cl cfg st values cho shufp k t s rq,
  cho_ok cho -> shuf_ok shufp -> cluster_ok cl -> sorted_weak (c_ring cl) -> keys_ok cl ->
  st_table st = Some k -> Tablets.find_table (c_tablets cl) k = None ->
  PartKey.ps_calculate_token true (st_part st) (st_ncols st) (st_wire st) values = Ok (Some t) ->
  pol_token_aware (ex_pol cfg) = true ->
  ks_lookup (c_keyspaces cl) (fst k) = Some s ->
  routing_request st cfg values = Ok rq ->
  let reps := spec_replicas (c_dcf cl) (c_rackf cl) (c_ring cl) t s None in
  (exists n, In n reps /\ usable cl (ex_pol cfg) rq n = true) ->
  exists n c,
    route cl cho shufp cfg st values = Ok (Some (n, c)) /\
    In n reps /\ usable cl (ex_pol cfg) rq n = true /\
    (forall d, pref_dc (eff_pref (ex_pol cfg) rq) = Some d ->
       (exists m, In m reps /\ c_alive cl m = true /\ in_dc (c_dcf cl) d m = true) ->
       in_dc (c_dcf cl) d n = true) /\
    (forall nr msb, pool_sharder (c_pool cl n) = Some (nr, msb) ->
       pool_has_shard (c_pool cl n) (shard_u16 (spec_shard_of nr msb t)) = true ->
       conn_shard c = shard_u16 (spec_shard_of nr msb t)).
Proof. exact first_target_ring. Qed.

(* the u16 conversion of connection_for_shard is the identity on a real shard number *)
Theorem C12_shard_u16 : forall nr msb t, (0 < nr <= 65536)%N ->
  shard_u16 (spec_shard_of nr msb t) = spec_shard_of nr msb t.
Proof. exact shard_u16_small. Qed.

(* ---- C12_shard (the pool) --------------------------------------------------------------------
   after EVERY history of connections becoming ready / breaking, the pool the requests see is
   well formed (each connection sits in the slot of the shard the server reported for it), and
   connection_for_shard always returns a connection of the pool — one bound to the requested
   shard whenever the pool has such a connection *)
Theorem C12_shard : forall size evs cho shard,
  Forall event_ok evs -> cho_ok cho ->
  let p := rf_view (pool_run size evs) in
  pool_wf p /\
  (p <> PoolDown ->
   exists c, connection_for_shard cho p shard = Some c /\ In c (pool_conns p) /\
     (pool_sharder p <> None -> pool_has_shard p (shard_u16 shard) = true ->
      conn_shard c = shard_u16 shard)).
Proof. exact pool_shard_bound. Qed.

(* ---- C12_tablets -------------------------------------------------------------------------------
   the table has a tablet covering the token => replica and shard are the tablet's: the first
   frame goes to a reachable permitted replica of THAT tablet's list (the preferred datacenter's
   when it holds a reachable one), over a connection bound to the shard the tablet names for that
   node whenever the pool has one *)
Theorem C12_tablets : forall cl cfg st values cho shufp k t s rq tb,
  cho_ok cho -> shuf_ok shufp -> cluster_ok cl -> sorted_weak (c_ring cl) -> keys_ok cl ->
  tablets_coherent cl ->
  st_table st = Some k -> Tablets.lookup_tablet (c_tablets cl) k t = Some tb ->
  PartKey.ps_calculate_token true (st_part st) (st_ncols st) (st_wire st) values = Ok (Some t) ->
  pol_token_aware (ex_pol cfg) = true ->
  ks_lookup (c_keyspaces cl) (fst k) = Some s ->
  routing_request st cfg values = Ok rq ->
  let reps := Tablets.r_all (Tablets.t_reps tb) in
  (exists r, In r reps /\ usable cl (ex_pol cfg) rq (Tablets.host (fst r)) = true) ->
  exists n c r,
    route cl cho shufp cfg st values = Ok (Some (n, c)) /\
    In r reps /\ Tablets.host (fst r) = n /\ usable cl (ex_pol cfg) rq n = true /\
    (forall d, pref_dc (eff_pref (ex_pol cfg) rq) = Some d ->
       (exists r', In r' reps /\ c_alive cl (Tablets.host (fst r')) = true /\
                   in_dc (c_dcf cl) d (Tablets.host (fst r')) = true) ->
       in_dc (c_dcf cl) d n = true) /\
    (pool_sharder (c_pool cl n) <> None ->
     exists r', In r' reps /\ Tablets.host (fst r') = n /\
       (pool_has_shard (c_pool cl n) (shard_u16 (snd r')) = true -> conn_shard c = shard_u16 (snd r'))).
Proof. exact first_target_tablet. Qed.

(* tablets take precedence over the ring: with a tablets entry for the table the replica source
   is the tablets', whatever the keyspace's strategy and the ring say *)
Theorem C12_tablets_precedence : forall cl pol rq k tt,
  Tablets.find_table (c_tablets cl) k = Some tt ->
  route_source cl pol rq (Some k) =
  match token_strategy (c_keyspaces cl) pol rq with
  | Some (t, _) => Some (tablet_source (c_tablets cl) k t)
  | None => None
  end.
Proof. exact tablets_precedence. Qed.

(* every tablets state the code can reach meets [tablets_coherent] (C15_dc, C15_no_stale_nodes),
   and the answering tablet covers the token (C15_lookup_covers) *)
Theorem C12_tablets_reachable : forall cl known0 h,
  Forall Tablets.op_i64 (Tablets.cluster_ops known0 h) ->
  Tablets.run (Tablets.cluster_ops known0 h) = Some (c_tablets cl) ->
  (forall nd, In nd (Tablets.cluster_known known0 h) -> Tablets.ndc nd = c_dcf cl (Tablets.host nd)) ->
  tablets_coherent cl /\
  (forall k tok tb, Tablets.lookup_tablet (c_tablets cl) k tok = Some tb ->
                    Tablets.t_first tb <= tok <= Tablets.t_last tb).
Proof.
  exact (fun cl known0 h Hi Hr Hn =>
           conj (tablets_reachable_coherent cl known0 h Hi Hr Hn)
                (fun k tok tb => Tablets_proofs.lookup_covers _ _ k tok tb Hi Hr)).
Qed.

(* ---- the acceptor of the correspondence check -------------------------------------------------
   route_ok cluster key observed_first_target.
   SOUND: an accepted observation satisfies the property's statement for that request
   ([route_prop], Model/Route.v: phrased with spec_replicas / spec_shard_of / the tablet's list) *)
Theorem C12_accept_sound : forall cl cfg st values obs,
  sorted_weak (c_ring cl) -> keys_ok cl ->
  ((exists k tt, st_table st = Some k /\ Tablets.find_table (c_tablets cl) k = Some tt) -> tablets_coherent cl) ->
  route_ok cl cfg st values obs = true -> route_prop cl cfg st values obs.
Proof. exact route_ok_sound. Qed.

(* COMPLETE for the model: whatever the oracles draw, the model's first attempt is accepted *)
Theorem C12_model_accepted : forall cl cfg st values cho shufp,
  cho_ok cho -> shuf_ok shufp -> cluster_ok cl -> sorted_weak (c_ring cl) -> keys_ok cl ->
  match route_obs cl cho shufp cfg st values with
  | Ok obs => route_ok cl cfg st values obs = true
  | Err _ => route_ok cl cfg st values None = true
  end.
Proof. exact route_accepted. Qed.

(* hence the property holds of the model's route for every oracle (ring and tablet tables alike) *)
Theorem C12_route_prop : forall cl cfg st values cho shufp obs,
  cho_ok cho -> shuf_ok shufp -> cluster_ok cl -> sorted_weak (c_ring cl) -> keys_ok cl ->
  ((exists k tt, st_table st = Some k /\ Tablets.find_table (c_tablets cl) k = Some tt) -> tablets_coherent cl) ->
  route_obs cl cho shufp cfg st values = Ok obs -> route_prop cl cfg st values obs.
Proof. exact route_model_prop. Qed.

(* ---- the same plan as C05 (ring tables) -------------------------------------------------------
   pick() / fallback() / Plan over an arbitrary replica set, instantiated with the ring's replica
   sets, IS the plan of Model/Plan.v (with the token's computed shard per node and the node-level
   shuffle induced by the (node, shard)-level one) ... *)
Theorem C12_plan_ring : forall cl cfg st rq cho shufp k t s,
  sorted_weak (c_ring cl) -> keys_ok cl -> shuf_ok shufp ->
  st_table st = Some k -> Tablets.find_table (c_tablets cl) k = None ->
  token_strategy (c_keyspaces cl) (ex_pol cfg) rq = Some (t, s) ->
  route_plan cl cho shufp cfg st rq =
  plan (c_dcf cl) (c_rackf cl) (c_ring cl) (c_keyspaces cl) (c_enabled cl) (c_connected cl)
       (ring_shf cl t) (ex_pol cfg) rq cho (node_shuf cl t shufp) /\
  (forall site l, Permutation.Permutation (node_shuf cl t shufp site l) l).
Proof. exact route_plan_ring. Qed.

(* ... so every theorem of C05 holds of the plan a request is executed over *)
Theorem C12_plan_properties : forall cl cfg st rq cho shufp k t s,
  sorted_weak (c_ring cl) -> keys_ok cl -> shuf_ok shufp -> cho_ok cho ->
  st_table st = Some k -> Tablets.find_table (c_tablets cl) k = None ->
  token_strategy (c_keyspaces cl) (ex_pol cfg) rq = Some (t, s) ->
  let p := map fst (route_plan cl cho shufp cfg st rq) in
  P_nodup p /\ P_filter (c_enabled cl) p /\ P_locality (c_dcf cl) (ex_pol cfg) rq p /\
  P_complete (c_dcf cl) (c_ring cl) (c_enabled cl) (ex_pol cfg) rq p /\
  P_order (c_dcf cl) (c_rackf cl) (c_ring cl) (c_keyspaces cl) (c_enabled cl) (c_connected cl) (ex_pol cfg) rq p /\
  P_lwt (c_dcf cl) (c_rackf cl) (c_ring cl) (c_keyspaces cl) (c_enabled cl) (c_connected cl) (ex_pol cfg) rq p.
Proof. exact route_plan_c05. Qed.

(* the acceptor of the pool tie (a request aimed at one shard of one node through a pinning
   policy): accepted => the serving connection is one of the pool and is bound to the requested
   shard whenever the pool has such a connection; and connection_for_shard's result is accepted
   for every oracle *)
Theorem C12_conn_accept_sound : forall p want sh, accept_conn_shard p want sh = true ->
  pool_has_shard p sh = true /\
  (pool_sharder p <> None -> pool_has_shard p (shard_u16 want) = true -> sh = shard_u16 want).
Proof. exact accept_conn_shard_sound. Qed.

Theorem C12_conn_accept_complete : forall cho p want c, pool_wf p ->
  connection_for_shard cho p want = Some c -> cho_ok cho ->
  accept_conn_shard p want (conn_shard c) = true.
Proof. exact accept_conn_shard_complete. Qed.

(* ---- LWT: the first attempt is deterministic ------------------------------------------------------
   for a request routed as LWT (confirmed LWT or Serial consistency) the first frame goes, for
   EVERY oracle, to THE first live replica -- in ring order from the token for ring tables, in the
   tablet's own order for tablet tables -- of the first location criterion (preferred rack,
   preferred datacenter, anywhere) that has one; on the owning shard's connection when present *)
Theorem C12_lwt_first_target : forall cl cfg st values cho shufp rq x rest,
  cho_ok cho -> shuf_ok shufp -> cluster_ok cl -> sorted_weak (c_ring cl) -> keys_ok cl ->
  routing_request st cfg values = Ok rq -> rq_lwt rq = true ->
  replica_cands cl cfg rq (route_source cl (ex_pol cfg) rq (st_table st)) = x :: rest ->
  exists c, route cl cho shufp cfg st values = Ok (Some (fst x, c)) /\
    In c (pool_conns (c_pool cl (fst x))) /\
    (pool_sharder (c_pool cl (fst x)) <> None ->
     pool_has_shard (c_pool cl (fst x)) (shard_u16 (snd x)) = true -> conn_shard c = shard_u16 (snd x)).
Proof. exact lwt_first_target. Qed.

(* (a definitional unfolding, stated for the record: the LWT candidates of a tablet table are the
   tablet's own list filtered, in its order) *)
Theorem C12_lwt_cands_tablet : forall cl (rq : request) k t c, rq_lwt rq = true ->
  g_filtered (c_rackf cl) (c_enabled cl) (c_connected cl) (tablet_source (c_tablets cl) k t) c (rq_lwt rq) =
  filter (fun x => c_alive cl (fst x) && crit_ok (c_rackf cl) c (fst x))
         (tablet_reps (c_tablets cl) k t (crit_dc c)).
Proof. exact lwt_cands_tablet. Qed.

Theorem C12_lwt_cands_ring : forall cl (rq : request) t s c,
  rq_lwt rq = true -> sorted_weak (c_ring cl) -> nts_keys_ok s ->
  g_filtered (c_rackf cl) (c_enabled cl) (c_connected cl) (ring_source cl t s) c (rq_lwt rq) =
  filter (fun x => c_alive cl (fst x) && crit_ok (c_rackf cl) c (fst x))
    (map (fun n => (n, computed_shard (c_pool cl n) t))
       (filter (fun n => mem n (spec_replicas (c_dcf cl) (c_rackf cl) (c_ring cl) t s (crit_dc c)))
               (uniq (ring_range (c_ring cl) t)))).
Proof. exact lwt_cands_ring. Qed.

(* ---- tablets without a usable replica: no fallback to the ring -------------------------------
   no live permitted replica in the replica source (for a tablets table: no tablet covers the token,
   or the covering tablet names only unknown / dead / foreign-datacenter hosts) => the first attempt
   goes to a live node of the first node group that has one (any of its connections), or nowhere *)
Theorem C12_no_replica_nodes : forall cl cfg st values cho shufp rq,
  cho_ok cho -> shuf_ok shufp -> cluster_ok cl -> sorted_weak (c_ring cl) -> keys_ok cl ->
  routing_request st cfg values = Ok rq ->
  replica_cands cl cfg rq (route_source cl (ex_pol cfg) rq (st_table st)) = [] ->
  match route_obs cl cho shufp cfg st values with
  | Ok (Some (n, sh)) => In n (node_cands cl cfg rq) /\ pool_has_shard (c_pool cl n) sh = true
  | Ok None => node_cands cl cfg rq = []
  | Err _ => False
  end.
Proof. exact tablet_no_replica_nodes. Qed.

Theorem C12_tablets_uncovered : forall cl cfg rq k t,
  tablets_coherent cl -> Tablets.lookup (c_tablets cl) k t = None ->
  replica_cands cl cfg rq (Some (tablet_source (c_tablets cl) k t)) = [].
Proof. exact tablet_uncovered_no_cands. Qed.

(* composed with C15_latest_wins: right after a payload that names hosts the driver does not know,
   the owners of a token of its range are exactly the payload's KNOWN hosts, in payload order *)
Theorem C12_tablets_unknown_hosts : forall cl pre k a b raw known tok s,
  Forall Tablets.op_i64 (pre ++ [Tablets.Learn k a b raw known]) ->
  Tablets.run (pre ++ [Tablets.Learn k a b raw known]) = Some (c_tablets cl) ->
  Tablets.spec_payload_ok a b raw = true -> a < tok <= b ->
  owners cl k tok s =
  map (fun r => (Tablets.host (fst r), snd r))
      (Tablets.spec_resolved known (map (fun hs => (fst hs, Z.to_N (snd hs))) raw)).
Proof. exact owners_after_learn. Qed.

(* ---- the refiller: excess connections are trimmed, and the acceptor of the refiller tie --------- *)
Theorem C12_excess_trimmed : forall size evs,
  rf_is_full size (pool_run size evs) = true -> rf_excess (pool_run size evs) = [].
Proof. exact pool_run_trimmed. Qed.

(* accepted by refill_ok (valid ShardInfo in the history): the pool the REQUESTS see after the history
   (rf_view, well formed) consists of connections with exactly the observed server-side shards *)
Theorem C12_refill_ok_sound : forall size evs final,
  Forall event_ok evs -> refill_ok size evs final = true ->
  pool_wf (rf_view (pool_run size evs)) /\
  map conn_shard (pool_conns (rf_view (pool_run size evs))) = final.
Proof. exact refill_ok_view. Qed.

(* accepted by refill_closed_ok <-> the pool connections the client closed are, as (shard, shard count)
   pairs, a permutation of the connections the model lets go along the history *)
Theorem C12_refill_closed_ok_perm : forall size evs closed,
  refill_closed_ok size evs closed = true <->
  Permutation.Permutation (map conn_key (refill_released size rf_init evs)) closed.
Proof. exact refill_closed_ok_perm. Qed.

(* what the refiller model lets go, step by step (every released connection of a history is released
   by one of its steps: C12_released_step) -- without a resharding (the new connection reports the
   pool's sharder):
   a connection that sits in a slot is never let go; *)
Theorem C12_slot_conn_kept : forall size r c rq x,
  sharder_eqb (rf_sharder r) (conn_sharder c) = true ->
  In x (concat (rf_conns r)) -> ~ In x (released_step size r (EvReady c rq)).
Proof. exact slot_conn_released_only_by_reshard. Qed.

(* the new connection is let go only if its shard (PerShard) / the node (PerHost) is at its target,
   never when it is under-filled: then it is filed under the shard the server reported; *)
Theorem C12_new_conn_released_only_at_target : forall size r c rq,
  rf_wf r -> conn_ok c -> sharder_eqb (rf_sharder r) (conn_sharder c) = true ->
  In c (released_step size r (EvReady c rq)) -> at_target size r c = true.
Proof. exact new_conn_released_only_at_target. Qed.

Theorem C12_under_target_accepted : forall size r c rq,
  rf_wf r -> conn_ok c -> sharder_eqb (rf_sharder r) (conn_sharder c) = true -> at_target size r c = false ->
  In c (nth (N.to_nat (conn_shard c)) (rf_conns (pool_step size r (EvReady c rq))) []).
Proof. exact under_target_accepted. Qed.

(* a connection waiting in the excess list is let go only when the pool has become full or the list
   would outgrow its limit *)
Theorem C12_excess_released_only_when_full : forall size r c rq x,
  sharder_eqb (rf_sharder r) (conn_sharder c) = true ->
  In x (rf_excess r) -> In x (released_step size r (EvReady c rq)) ->
  rf_is_full size (handle_ready size r c rq) = true \/
  (excess_limit size r < S (List.length (rf_excess r)))%nat.
Proof. exact excess_released_only_when_full. Qed.

Theorem C12_released_step : forall size r evs x, In x (refill_released size r evs) ->
  exists pre e post, evs = pre ++ e :: post /\
    In x (released_step size (fold_left (pool_step size) pre r) e).
Proof. exact refill_released_step. Qed.

(* the excess list never outgrows its limit after any history; the limit is 10 x the shard count
   (at most 655 350 for a u16 shard count: nothing overflows) and 0 under PerHost *)
Theorem C12_excess_bounded : forall size evs,
  (List.length (rf_excess (pool_run size evs)) <= excess_limit size (pool_run size evs))%nat.
Proof. exact pool_run_excess_bounded. Qed.

Theorem C12_excess_limit_bound : forall size r,
  match rf_sharder r with Some (nr, _) => (nr <= 65535)%N | None => True end ->
  (N.of_nat (excess_limit size r) <= 655350)%N /\ (forall n, size = PerHost n -> excess_limit size r = 0%nat).
Proof. exact excess_limit_bound. Qed.

(* no usable owner in the specification's sense (owners: spec_replicas / the tablet's list) => the
   model has no replica candidate, so C12_no_replica_nodes applies: e.g. a tablet naming only
   unknown hosts (C12_tablets_unknown_hosts: its owners are the known hosts, i.e. none) *)
Theorem C12_no_usable_owner_no_cands : forall cl cfg st values k t s rq,
  sorted_weak (c_ring cl) -> keys_ok cl ->
  ((exists tt, Tablets.find_table (c_tablets cl) k = Some tt) -> tablets_coherent cl) ->
  st_table st = Some k ->
  PartKey.ps_calculate_token true (st_part st) (st_ncols st) (st_wire st) values = Ok (Some t) ->
  pol_token_aware (ex_pol cfg) = true ->
  ks_lookup (c_keyspaces cl) (fst k) = Some s ->
  routing_request st cfg values = Ok rq ->
  (forall r, In r (owners cl k t s) -> usable cl (ex_pol cfg) rq (fst r) = false) ->
  replica_cands cl cfg rq (route_source cl (ex_pol cfg) rq (st_table st)) = [].
Proof. exact no_usable_owner_no_cands. Qed.

(* ---- the executable property predicate IS the property ----------------------------------------------
   prop_obs_ok (evaluated by the driver after the acceptor refused; false = `viol`) with the token the
   request carries is route_prop for that observation, in both directions *)
Theorem C12_prop_obs_complete : forall cl cfg st values spec_tok obs,
  (forall t, spec_tok = Some t ->
     PartKey.ps_calculate_token true (st_part st) (st_ncols st) (st_wire st) values = Ok (Some t)) ->
  route_prop cl cfg st values obs -> prop_obs_ok cl cfg st values spec_tok obs = true.
Proof. exact prop_obs_complete. Qed.

Theorem C12_prop_obs_sound : forall cl cfg st values t obs,
  PartKey.ps_calculate_token true (st_part st) (st_ncols st) (st_wire st) values = Ok (Some t) ->
  prop_obs_ok cl cfg st values (Some t) obs = true -> route_prop cl cfg st values obs.
Proof. exact prop_obs_sound. Qed.

(* the well-formedness test the driver runs on its input is sound *)
Theorem C12_pool_wfb_sound : forall p, pool_wfb p = true -> pool_wf p.
Proof. exact pool_wfb_sound. Qed.

(* ---- deepening round 4: the driver's input checks and constructors, the pool acceptor as an
   equivalence ------------------------------------------------------------------------------------ *)
(* the pool acceptor IS the conclusion of C12_conn_accept_sound *)
Theorem C12_conn_accept_iff : forall p want sh, accept_conn_shard p want sh = true <->
  (pool_has_shard p sh = true /\
   (pool_sharder p <> None -> pool_has_shard p (shard_u16 want) = true -> sh = shard_u16 want)).
Proof. exact accept_conn_shard_iff. Qed.

(* pool_wfb decides pool_wf *)
Theorem C12_pool_wfb_iff : forall p, pool_wfb p = true <-> pool_wf p.
Proof. exact pool_wfb_iff. Qed.

(* cluster_wfb, the test the driver runs on every cluster description before judging a K line:
   passed on a node list outside of which every pool is down => the hypothesis [cluster_ok] of the
   routing theorems; and every cluster_ok cluster passes it, on any node list *)
Theorem C12_cluster_wfb_sound : forall cl nodes, cluster_wfb cl nodes = true ->
  (forall n, ~ In n nodes -> c_pool cl n = PoolDown) -> cluster_ok cl.
Proof. exact cluster_wfb_sound. Qed.

Theorem C12_cluster_wfb_complete : forall cl nodes, cluster_ok cl -> cluster_wfb cl nodes = true.
Proof. exact cluster_wfb_complete. Qed.

(* as the driver builds the description (c_pool = assoc_pool over the association list whose keys
   are the node list given to cluster_wfb) the premise about the other nodes is discharged *)
Theorem C12_cluster_wfb_assoc_ok : forall cl l, (forall n, c_pool cl n = assoc_pool l n) ->
  cluster_wfb cl (map fst l) = true -> cluster_ok cl.
Proof. exact cluster_wfb_assoc_ok. Qed.

(* pool_of, with which the driver turns the observed (shard of each live connection) list of a node
   into a pool_view: the pool has a connection of shard s exactly when s was observed and is a shard
   of the node (sharded) / exactly for s = 0 (not sharded); it reports the given sharder; it is well
   formed as soon as one observed shard is in range *)
Theorem C12_pool_of_sharded_has : forall nr msb shards s,
  pool_has_shard (pool_of (Some (nr, msb)) shards) s = true <-> In s shards /\ (s < nr)%N.
Proof. exact pool_of_sharded_has. Qed.

Theorem C12_pool_of_unsharded_has : forall shards s,
  pool_has_shard (pool_of None shards) s = true <-> shards <> [] /\ s = 0%N.
Proof. exact pool_of_unsharded_has. Qed.

Theorem C12_pool_of_sharder : forall sharder shards, shards <> [] ->
  pool_sharder (pool_of sharder shards) = sharder.
Proof. exact pool_of_sharder. Qed.

Theorem C12_pool_of_wf : forall sharder shards,
  (forall nr msb, sharder = Some (nr, msb) -> shards <> [] -> exists s, In s shards /\ (s < nr)%N) ->
  pool_wf (pool_of sharder shards).
Proof. exact pool_of_wf. Qed.

(* ---- non-vacuity ---------------------------------------------------------------------------------
   nodes 1, 2 in datacenter 1 (4 shards msb 12 / 2 shards msb 0), node 3 in datacenter 2 (no
   shards); keyspace 0 = NTS {1:1, 2:1}; table (0,0) on the ring, table (0,1) with tablets *)
Definition ex_dcf (n : N) : option N := match n with 3%N => Some 2%N | _ => Some 1%N end.
Definition ex_rackf (n : N) : option N := Some 1%N.
Definition ex_ring : ring N := sort_ring [(-100, 1%N); (0, 2%N); (100, 3%N); (4000000000000000000, 1%N)].
Definition ex_known : list Tablets.node :=
  [Tablets.mkNode 1 0 (Some 1%N); Tablets.mkNode 2 0 (Some 1%N); Tablets.mkNode 3 0 (Some 2%N)].
Definition ex_schema : list Tablets.ksdesc := [Tablets.mkKs 0 true [1%N] []].
Definition ex_hist : list Tablets.cop :=
  [Tablets.CRefresh ex_schema ex_known;
   Tablets.CLearn (0%N, 1%N) (-9223372036854775808) 9223372036854775807 [(2%N, 1); (3%N, 0)]].
Definition ex_tablets : Tablets.info :=
  match Tablets.run (Tablets.cluster_ops [] ex_hist) with Some s => s | None => Tablets.info_empty end.
Definition ex_pool (n : N) : pool_view :=
  match n with
  | 1%N => pool_of (Some (4%N, 12%N)) [0; 1; 2; 3]%N
  | 2%N => pool_of (Some (2%N, 0%N)) [0; 0]%N          (* no connection to shard 1 *)
  | 3%N => pool_of None [0]%N
  | _ => PoolDown
  end.
Definition ex_cl : cluster :=
  mkCluster ex_dcf ex_rackf ex_ring [(0%N, NTS [(1%N, 1%nat); (2%N, 1%nat)])] [] (fun _ => true) ex_pool ex_tablets.
Definition ex_cfg (p : pref) : exec_cfg :=
  mkCfg {| pol_pref := Some p; pol_token_aware := true; pol_failover := true |} PAny false.
Definition ex_stmt (tb : N) : statement := mkStmt (Some (0%N, tb)) 1 [0%N] Murmur.PMurmur3 false.
Definition ex_values : list PartKey.raw_value := [PartKey.RValue [0; 0; 0; 7]%N].
Definition ex_cho (site len : nat) : nat := 0%nat.
Definition ex_shuf (site : nat) (l : list sreplica) : list sreplica := l.

Example C12_ex_hyps :
  cho_ok ex_cho /\ shuf_ok ex_shuf /\ cluster_ok ex_cl /\ sorted_weak (c_ring ex_cl) /\ keys_ok ex_cl /\
  tablets_coherent ex_cl.
Proof.
  split; [intros site len H; exact H|]. split; [intros site l; apply Permutation.Permutation_refl|].
  split.
  { split.
    - intros n. apply pool_wfb_sound. cbn [ex_cl c_pool].
      destruct n as [|[[|[]|]|[|[]|]|]]; vm_compute; reflexivity.
    - intros n. discriminate. }
  split; [apply sort_ring_sorted|]. split.
  { intros k s. cbn. destruct (N.eqb 0 k); [|discriminate]. intros [= <-]. cbn.
    repeat constructor; cbn; intuition congruence. }
  apply (tablets_reachable_coherent ex_cl [] ex_hist).
  - repeat constructor; vm_compute; intuition discriminate.
  - vm_compute. reflexivity.
  - intros nd Hn. vm_compute in Hn. destruct Hn as [<-|[<-|[<-|[]]]]; reflexivity.
Qed.

(* on the ring the token of key 7 is owned by node 1 (datacenter 1) and node 3 (datacenter 2) *)
Example C12_ex_ring :
  PartKey.ps_calculate_token true Murmur.PMurmur3 1 [0%N] ex_values = Ok (Some 1634052884888577606) /\
  spec_replicas ex_dcf ex_rackf ex_ring 1634052884888577606 (NTS [(1%N, 1%nat); (2%N, 1%nat)]) None = [1; 3]%N /\
  spec_shard_of 4 12 1634052884888577606 = 3%N /\
  (* preferring datacenter 1: node 1, on the connection bound to shard 3 *)
  route ex_cl ex_cho ex_shuf (ex_cfg (PDc 1)) (ex_stmt 0) ex_values =
    Ok (Some (1%N, mkConn 3 (Some (3%N, 4%N, 12%N)))) /\
  (* preferring datacenter 2: node 3 (not sharded) *)
  route ex_cl ex_cho ex_shuf (ex_cfg (PDc 2)) (ex_stmt 0) ex_values = Ok (Some (3%N, mkConn 0 None)) /\
  route_ok ex_cl (ex_cfg (PDc 1)) (ex_stmt 0) ex_values (Some (1%N, 3%N)) = true /\
  route_ok ex_cl (ex_cfg (PDc 1)) (ex_stmt 0) ex_values (Some (1%N, 2%N)) = false /\
  route_ok ex_cl (ex_cfg (PDc 1)) (ex_stmt 0) ex_values (Some (3%N, 0%N)) = false /\
  route_ok ex_cl (ex_cfg (PDc 1)) (ex_stmt 0) ex_values (Some (2%N, 0%N)) = false.
Proof. repeat split; vm_compute; reflexivity. Qed.

(* the same key on the tablet table: the tablet's replicas are (node 2, shard 1) and (node 3,
   shard 0); node 2's pool has no connection to shard 1, so any of its connections is used *)
Example C12_ex_tablets :
  option_map (fun tb => Tablets.r_all (Tablets.t_reps tb))
             (Tablets.lookup_tablet ex_tablets (0%N, 1%N) 1634052884888577606) =
    Some [(Tablets.mkNode 2 0 (Some 1%N), 1%N); (Tablets.mkNode 3 0 (Some 2%N), 0%N)] /\
  route ex_cl ex_cho ex_shuf (ex_cfg (PDc 1)) (ex_stmt 1) ex_values =
    Ok (Some (2%N, mkConn 0 (Some (0%N, 2%N, 0%N)))) /\
  route_ok ex_cl (ex_cfg (PDc 1)) (ex_stmt 1) ex_values (Some (2%N, 0%N)) = true /\
  route_ok ex_cl (ex_cfg (PDc 1)) (ex_stmt 1) ex_values (Some (1%N, 2%N)) = false /\
  route_ok ex_cl (ex_cfg PAny) (ex_stmt 1) ex_values (Some (3%N, 0%N)) = true.
Proof. repeat split; vm_compute; reflexivity. Qed.

(* the pool: connections end up in the slot of the shard the server reported, wherever they were
   aimed; a request for shard 1 gets the connection the server bound to shard 1 *)
Example C12_ex_pool :
  let c0 := mkConn 10 (Some (0, 2, 0)%N) in let c1 := mkConn 11 (Some (1, 2, 0)%N) in
  let c1' := mkConn 12 (Some (1, 2, 0)%N) in
  let r := pool_run (PerShard 1) [EvReady c0 false; EvReady c1' true; EvBroken c1'; EvReady c1 true] in
  rf_view r = PoolSharded 2 0 [[c0]; [c1]] /\
  connection_for_shard ex_cho (rf_view r) 1 = Some c1 /\
  connection_for_shard ex_cho (rf_view (pool_run (PerShard 1) [EvReady c0 false])) 1 = Some c0 /\
  connection_for_shard ex_cho (rf_view r) 70000 = Some c0.
Proof. repeat split; vm_compute; reflexivity. Qed.

(* anchors of the definitions the driver evaluates: the owners of the token, the property
   predicate on good and on bad observations, the pool acceptor *)
Example C12_ex_defs :
  let cfg := ex_cfg (PDc 1) in let t := 1634052884888577606 in
  let nts := NTS [(1%N, 1%nat); (2%N, 1%nat)] in
  owners ex_cl (0%N, 0%N) t nts = [(1%N, 3%N); (3%N, 0%N)] /\
  owners ex_cl (0%N, 1%N) t nts = [(2%N, 1%N); (3%N, 0%N)] /\
  owners ex_cl (0%N, 1%N) t (Simple 3) = [(2%N, 1%N); (3%N, 0%N)] /\
  prop_obs_ok ex_cl cfg (ex_stmt 0) ex_values (Some t) (Some (1%N, 3%N)) = true /\
  (* wrong shard although the pool has the owning one; a node that is no replica; the remote
     replica although the preferred datacenter has a live one; nothing sent at all *)
  prop_obs_ok ex_cl cfg (ex_stmt 0) ex_values (Some t) (Some (1%N, 2%N)) = false /\
  prop_obs_ok ex_cl cfg (ex_stmt 0) ex_values (Some t) (Some (2%N, 0%N)) = false /\
  prop_obs_ok ex_cl cfg (ex_stmt 0) ex_values (Some t) (Some (3%N, 0%N)) = false /\
  prop_obs_ok ex_cl cfg (ex_stmt 0) ex_values (Some t) None = false /\
  (* tablet table: node 2 is the tablet's replica in datacenter 1; its pool lacks shard 1 *)
  prop_obs_ok ex_cl cfg (ex_stmt 1) ex_values (Some t) (Some (2%N, 0%N)) = true /\
  prop_obs_ok ex_cl cfg (ex_stmt 1) ex_values (Some t) (Some (1%N, 3%N)) = false /\
  route_ok ex_cl cfg (ex_stmt 1) ex_values (Some (3%N, 0%N)) = false /\
  route_ok ex_cl cfg (ex_stmt 0) ex_values None = false /\
  usable ex_cl (ex_pol cfg) {| rq_token := Some t; rq_ks := Some 0%N; rq_lwt := false; rq_pref := PAny |} 4%N = false /\
  pool_has_shard (ex_pool 2) 1 = false /\ pool_has_shard (ex_pool 2) 0 = true /\
  accept_conn_shard (ex_pool 1) 2 2 = true /\ accept_conn_shard (ex_pool 1) 2 3 = false /\
  accept_conn_shard (ex_pool 2) 1 0 = true /\ accept_conn_shard (ex_pool 2) 0 1 = false /\
  accept_conn_shard (ex_pool 1) 70000 0 = true /\ accept_conn_shard (ex_pool 1) 70000 1 = false /\
  accept_conn_shard (ex_pool 3) 5 0 = true /\ accept_conn_shard PoolDown 0 0 = false /\
  shard_u16 65535 = 65535%N /\ shard_u16 65536 = 0%N /\
  pool_wfb (PoolSharded 2 0 [[mkConn 1 (Some (1, 2, 0)%N)]; []]) = false /\
  pool_wfb (PoolSharded 2 0 [[]; []]) = false /\ pool_wfb (PoolNotSharded []) = false.
Proof. repeat split; vm_compute; reflexivity. Qed.

(* LWT on the example cluster: deterministic first targets; unknown hosts; the refiller acceptor *)
Definition ex_lwt (tb : N) : statement := mkStmt (Some (0%N, tb)) 1 [0%N] Murmur.PMurmur3 true.
Definition ex_cho2 (site len : nat) : nat := pred len.
Example C12_ex_lwt :
  (* ring table, no preference: ring order from the token is node 1 then node 3 *)
  route ex_cl ex_cho ex_shuf (ex_cfg PAny) (ex_lwt 0) ex_values = Ok (Some (1%N, mkConn 3 (Some (3%N, 4%N, 12%N)))) /\
  route ex_cl ex_cho2 (fun _ l => rev l) (ex_cfg PAny) (ex_lwt 0) ex_values = Ok (Some (1%N, mkConn 3 (Some (3%N, 4%N, 12%N)))) /\
  (* without LWT the other oracle picks the other replica *)
  route ex_cl ex_cho2 (fun _ l => rev l) (ex_cfg PAny) (ex_stmt 0) ex_values = Ok (Some (3%N, mkConn 0 None)) /\
  (* tablet table: tablet order is node 2 then node 3; preferring datacenter 2 gives node 3 *)
  route ex_cl ex_cho2 (fun _ l => rev l) (ex_cfg PAny) (ex_lwt 1) ex_values = Ok (Some (2%N, mkConn 1 (Some (0%N, 2%N, 0%N)))) /\
  route ex_cl ex_cho ex_shuf (ex_cfg (PDc 2)) (ex_lwt 1) ex_values = Ok (Some (3%N, mkConn 0 None)) /\
  route_ok ex_cl (ex_cfg PAny) (ex_lwt 0) ex_values (Some (3%N, 0%N)) = false /\
  route_ok ex_cl (ex_cfg PAny) (ex_stmt 0) ex_values (Some (3%N, 0%N)) = true /\
  route_ok ex_cl (ex_cfg PAny) (ex_lwt 1) ex_values (Some (3%N, 0%N)) = false.
Proof. repeat split; vm_compute; reflexivity. Qed.

Example C12_ex_unknown_host :
  let h := Tablets.cluster_ops [] [Tablets.CRefresh ex_schema ex_known;
             Tablets.CLearn (0%N, 1%N) 0 100 [(9%N, 1); (3%N, 0); (3%N, 5)]] in
  match Tablets.run h with
  | Some s =>
      (* host 9 is unknown: skipped; host 3 listed twice stays twice; outside the range nothing *)
      tab_reps (Tablets.lookup s (0%N, 1%N) 50) = [(3%N, 0%N); (3%N, 5%N)] /\
      tab_reps (Tablets.lookup s (0%N, 1%N) 101) = []
  | None => False
  end.
Proof. vm_compute. split; reflexivity. Qed.

Example C12_ex_refill :
  let c (i s : N) := mkConn i (Some (s, 2, 0)%N) in
  (* plain-port connections: a second one to shard 0 waits in the excess list and is trimmed when
     the pool becomes full; PerHost keeps the first two whatever their shards *)
  refill_ok (PerShard 1) [EvReady (c 1%N 0%N) false; EvReady (c 2%N 0%N) false; EvReady (c 3%N 1%N) false] [0; 1]%N = true /\
  refill_dropped (PerShard 1) [EvReady (c 1%N 0%N) false; EvReady (c 2%N 0%N) false; EvReady (c 3%N 1%N) false] = 1%nat /\
  rf_excess (pool_run (PerShard 1) [EvReady (c 1%N 0%N) false; EvReady (c 2%N 0%N) false]) = [c 2%N 0%N] /\
  refill_ok (PerShard 1) [EvReady (c 1%N 0%N) false; EvReady (c 2%N 0%N) false; EvReady (c 3%N 1%N) false] [0; 0; 1]%N = false /\
  refill_ok (PerHost 2) [EvReady (c 1%N 0%N) false; EvReady (c 2%N 0%N) false; EvReady (c 3%N 1%N) false] [0; 0]%N = true /\
  refill_ok (PerHost 2) [EvReady (c 1%N 0%N) false; EvReady (c 2%N 0%N) false; EvBroken (c 1%N 0%N); EvReady (c 3%N 1%N) false] [0; 1]%N = true /\
  refill_ok (PerHost 2) [EvReady (c 1%N 0%N) false; EvReady (c 2%N 0%N) false; EvBroken (c 1%N 0%N); EvReady (c 3%N 1%N) false] [0; 0]%N = false /\
  refill_ok (PerShard 1) [EvReady (c 1%N 0%N) false; EvBroken (c 1%N 0%N)] [] = true /\
  (* the connections the model lets go = the ones the client must be seen closing: the surplus
     plain-port connection to shard 0 (trimmed when the pool became full); nothing under PerHost 3 *)
  map conn_key (refill_released (PerShard 1) rf_init
                  [EvReady (c 1%N 0%N) false; EvReady (c 2%N 0%N) false; EvReady (c 3%N 1%N) false]) = [(0, 2)]%N /\
  refill_closed_ok (PerShard 1) [EvReady (c 1%N 0%N) false; EvReady (c 2%N 0%N) false; EvReady (c 3%N 1%N) false] [(0, 2)]%N = true /\
  refill_closed_ok (PerShard 1) [EvReady (c 1%N 0%N) false; EvReady (c 2%N 0%N) false; EvReady (c 3%N 1%N) false] [] = false /\
  refill_closed_ok (PerShard 1) [EvReady (c 1%N 0%N) false; EvReady (c 2%N 0%N) false; EvReady (c 3%N 1%N) false] [(1, 2)]%N = false /\
  refill_closed_ok (PerHost 3) [EvReady (c 1%N 0%N) false; EvReady (c 2%N 0%N) false; EvReady (c 3%N 1%N) false] [] = true /\
  refill_closed_ok (PerHost 3) [EvReady (c 1%N 0%N) false; EvReady (c 2%N 0%N) false; EvReady (c 3%N 1%N) false] [(0, 2)]%N = false.
Proof. repeat split; vm_compute; reflexivity. Qed.

(* a tablet naming only a host the driver does not know: no owner, no replica candidate; the request
   goes to a live node of the preferred datacenter, not to the ring's replicas (1 and 3) *)
Definition ex_tablets2 : Tablets.info :=
  match Tablets.run (Tablets.cluster_ops [] [Tablets.CRefresh ex_schema ex_known;
          Tablets.CLearn (0%N, 1%N) (-9223372036854775808) 9223372036854775807 [(9%N, 1)]]) with
  | Some s => s | None => Tablets.info_empty end.
Definition ex_cl2 : cluster :=
  mkCluster ex_dcf ex_rackf ex_ring [(0%N, NTS [(1%N, 1%nat); (2%N, 1%nat)])] [] (fun _ => true) ex_pool ex_tablets2.
Example C12_ex_no_replica :
  let cfg := mkCfg {| pol_pref := Some (PDc 2); pol_token_aware := true; pol_failover := false |} PAny false in
  let rq := {| rq_token := Some 1634052884888577606; rq_ks := Some 0%N; rq_lwt := false; rq_pref := PAny |} in
  owners ex_cl2 (0%N, 1%N) 1634052884888577606 (NTS [(1%N, 1%nat); (2%N, 1%nat)]) = [] /\
  replica_cands ex_cl2 cfg rq (route_source ex_cl2 (ex_pol cfg) rq (Some (0%N, 1%N))) = [] /\
  node_cands ex_cl2 cfg rq = [3%N] /\
  route_obs ex_cl2 ex_cho ex_shuf cfg (ex_stmt 1) ex_values = Ok (Some (3%N, 0%N)) /\
  route_ok ex_cl2 cfg (ex_stmt 1) ex_values (Some (1%N, 3%N)) = false /\
  (* non-trivially: on ex_cl the tablet of table (0,1) has owners, none of them usable when a datacenter
     without nodes is preferred and failover is off: no candidates, no node group, nothing is sent *)
  (let cfg7 := mkCfg {| pol_pref := Some (PDc 7); pol_token_aware := true; pol_failover := false |} PAny false in
   owners ex_cl (0%N, 1%N) 1634052884888577606 (NTS [(1%N, 1%nat); (2%N, 1%nat)]) = [(2%N, 1%N); (3%N, 0%N)] /\
   map (fun r => usable ex_cl (ex_pol cfg7) rq (fst r))
       (owners ex_cl (0%N, 1%N) 1634052884888577606 (NTS [(1%N, 1%nat); (2%N, 1%nat)])) = [false; false] /\
   replica_cands ex_cl cfg7 rq (route_source ex_cl (ex_pol cfg7) rq (Some (0%N, 1%N))) = [] /\
   node_cands ex_cl cfg7 rq = [] /\
   route_ok ex_cl cfg7 (ex_stmt 1) ex_values None = true /\
   route_ok ex_cl cfg7 (ex_stmt 1) ex_values (Some (2%N, 0%N)) = false).
Proof. repeat split; vm_compute; reflexivity. Qed.

(* resharding and the surplus of a connection that was asked for a shard: the node goes from 4 shards to
   2 while two replacement connections are under way; the first one rebuilds the pool, the second one
   lands on the same (new) shard and is dropped at once *)
Example C12_ex_reshard :
  let o (i s : N) := mkConn i (Some (s, 4, 0)%N) in let n (i s : N) := mkConn i (Some (s, 2, 0)%N) in
  let evs := [EvReady (o 1%N 0%N) false; EvReady (o 2%N 1%N) true; EvReady (o 3%N 2%N) true; EvReady (o 4%N 3%N) true;
              EvBroken (o 2%N 1%N); EvBroken (o 3%N 2%N); EvReady (n 5%N 1%N) true; EvReady (n 6%N 1%N) true] in
  rf_view (pool_run (PerShard 1) evs) = PoolSharded 2 0 [[]; [n 5%N 1%N]] /\
  refill_ok (PerShard 1) evs [1]%N = true /\ refill_ok (PerShard 1) evs [0; 1; 1]%N = false /\
  refill_dropped (PerShard 1) evs = 3%nat /\
  refill_ok (PerShard 1) (evs ++ [EvReady (n 7%N 0%N) true]) [0; 1]%N = true /\
  (* let go: the two old connections still held at the resharding (shards 0 and 3 of 4) and the
     colliding requested connection (shard 1 of 2); the two cut ones are not among them *)
  refill_closed_ok (PerShard 1) evs [(0, 4); (3, 4); (1, 2)]%N = true /\
  refill_closed_ok (PerShard 1) evs [(3, 4); (1, 2); (0, 4)]%N = true /\
  refill_closed_ok (PerShard 1) evs [(0, 4); (3, 4)]%N = false /\
  refill_closed_ok (PerShard 1) evs [(0, 4); (3, 4); (0, 2)]%N = false.
Proof. repeat split; vm_compute; reflexivity. Qed.

(* duplicate tokens: the only hypothesis on the ring is sorted_weak, so every theorem above covers rings
   on which nodes share a token (here 1, 2 and 3 all own token 10; stable order = insertion order) *)
Definition ex_dup_ring : ring N := sort_ring [(10, 1%N); (10, 2%N); (10, 3%N); (20, 3%N)].
Definition ex_cl_dup : cluster :=
  mkCluster ex_dcf ex_rackf ex_dup_ring [(0%N, Simple 2)] [] (fun _ => true) ex_pool Tablets.info_empty.
Example C12_ex_dup_tokens :
  sorted_weak (c_ring ex_cl_dup) /\ cluster_ok ex_cl_dup /\ keys_ok ex_cl_dup /\
  spec_replicas ex_dcf ex_rackf ex_dup_ring 1634052884888577606 (Simple 2) None = [1; 2]%N /\
  spec_replicas ex_dcf ex_rackf ex_dup_ring 10 (Simple 2) None = [1; 2]%N /\
  route ex_cl_dup ex_cho ex_shuf (ex_cfg PAny) (ex_stmt 0) ex_values = Ok (Some (1%N, mkConn 3 (Some (3%N, 4%N, 12%N)))) /\
  route_ok ex_cl_dup (ex_cfg PAny) (ex_stmt 0) ex_values (Some (2%N, 0%N)) = true /\
  route_ok ex_cl_dup (ex_cfg PAny) (ex_stmt 0) ex_values (Some (3%N, 0%N)) = false.
Proof.
  split; [apply sort_ring_sorted|]. split.
  { split.
    - intros n. apply pool_wfb_sound. cbn [ex_cl_dup c_pool]. destruct n as [|[[|[]|]|[|[]|]|]]; vm_compute; reflexivity.
    - intros n. discriminate. }
  split; [intros k s; cbn; destruct (N.eqb 0 k); [intros [= <-]; exact I|discriminate]|].
  repeat split; vm_compute; reflexivity.
Qed.

(* the step theorems on a concrete refiller: shard 0 at target, shard 1 under-filled *)
Example C12_ex_release :
  let c (i s : N) := mkConn i (Some (s, 2, 0)%N) in
  let r := pool_run (PerShard 1) [EvReady (c 1%N 0%N) false] in
  at_target (PerShard 1) r (c 2%N 0%N) = true /\ at_target (PerShard 1) r (c 3%N 1%N) = false /\
  released_step (PerShard 1) r (EvReady (c 2%N 0%N) true) = [c 2%N 0%N] /\
  released_step (PerShard 1) r (EvReady (c 2%N 0%N) false) = [] /\
  released_step (PerShard 1) r (EvReady (c 3%N 1%N) true) = [] /\
  released_step (PerShard 1) (pool_step (PerShard 1) r (EvReady (c 2%N 0%N) false)) (EvReady (c 3%N 1%N) true) = [c 2%N 0%N] /\
  excess_limit (PerShard 1) r = 20%nat /\ excess_limit (PerHost 3) r = 0%nat.
Proof. repeat split; vm_compute; reflexivity. Qed.

(* round 4: the driver's input test on the example cluster (its hypothesis instantiated, the theorem
   applied), a cluster it refuses (a connection filed under the wrong slot; a pool on a node without
   one), the pool_of views, the acceptor equivalence on an accepting and a refusing observation *)
Example C12_ex_inputs :
  let l := [(1%N, ex_pool 1%N); (2%N, ex_pool 2%N); (3%N, ex_pool 3%N)] in
  (forall n, c_pool ex_cl n = assoc_pool l n) /\ cluster_wfb ex_cl (map fst l) = true /\ cluster_ok ex_cl /\
  (let bad := PoolSharded 2 0 [[mkConn 0 (Some (1, 2, 0)%N)]; []] in
   pool_wfb bad = false /\
   cluster_wfb (mkCluster ex_dcf ex_rackf ex_ring [] [] (fun _ => true) (fun _ => bad) ex_tablets) [1%N] = false) /\
  cluster_wfb (mkCluster ex_dcf ex_rackf ex_ring [] [] (fun _ => false) ex_pool ex_tablets) [1%N] = false /\
  pool_has_shard (pool_of (Some (2, 0)%N) [0; 0; 5]%N) 0%N = true /\
  pool_has_shard (pool_of (Some (2, 0)%N) [0; 0; 5]%N) 1%N = false /\
  pool_has_shard (pool_of (Some (2, 0)%N) [0; 0; 5]%N) 5%N = false /\
  pool_wfb (pool_of (Some (2, 0)%N) [5]%N) = false /\
  accept_conn_shard (ex_pool 2%N) 0%N 0%N = true /\ accept_conn_shard (ex_pool 2%N) 1%N 0%N = true /\
  accept_conn_shard (ex_pool 1%N) 2%N 3%N = false.
Proof.
  cbv zeta.
  assert (Ha : forall n, c_pool ex_cl n = assoc_pool [(1%N, ex_pool 1%N); (2%N, ex_pool 2%N); (3%N, ex_pool 3%N)] n).
  { intros n. cbn [ex_cl c_pool]. destruct n as [|[[|[]|]|[|[]|]|]]; reflexivity. }
  assert (Hw : cluster_wfb ex_cl (map fst [(1%N, ex_pool 1%N); (2%N, ex_pool 2%N); (3%N, ex_pool 3%N)]) = true)
    by (vm_compute; reflexivity).
  split; [exact Ha|]. split; [exact Hw|]. split; [exact (C12_cluster_wfb_assoc_ok _ _ Ha Hw)|].
  repeat split; vm_compute; reflexivity.
Qed.

Print Assumptions C12_token.
Print Assumptions C12_first_target.
Print Assumptions C12_shard_u16.
Print Assumptions C12_shard.
Print Assumptions C12_tablets.
Print Assumptions C12_tablets_precedence.
Print Assumptions C12_tablets_reachable.
Print Assumptions C12_accept_sound.
Print Assumptions C12_model_accepted.
Print Assumptions C12_route_prop.
Print Assumptions C12_plan_ring.
Print Assumptions C12_plan_properties.
Print Assumptions C12_lwt_first_target.
Print Assumptions C12_lwt_cands_tablet.
Print Assumptions C12_lwt_cands_ring.
Print Assumptions C12_no_replica_nodes.
Print Assumptions C12_tablets_uncovered.
Print Assumptions C12_tablets_unknown_hosts.
Print Assumptions C12_excess_trimmed.
Print Assumptions C12_refill_ok_sound.
Print Assumptions C12_refill_closed_ok_perm.
Print Assumptions C12_slot_conn_kept.
Print Assumptions C12_new_conn_released_only_at_target.
Print Assumptions C12_under_target_accepted.
Print Assumptions C12_excess_released_only_when_full.
Print Assumptions C12_released_step.
Print Assumptions C12_excess_bounded.
Print Assumptions C12_excess_limit_bound.
Print Assumptions C12_no_usable_owner_no_cands.
Print Assumptions C12_conn_accept_sound.
Print Assumptions C12_conn_accept_complete.
Print Assumptions C12_prop_obs_complete.
Print Assumptions C12_prop_obs_sound.
Print Assumptions C12_pool_wfb_sound.
Print Assumptions C12_conn_accept_iff.
Print Assumptions C12_pool_wfb_iff.
Print Assumptions C12_cluster_wfb_sound.
Print Assumptions C12_cluster_wfb_complete.
Print Assumptions C12_cluster_wfb_assoc_ok.
Print Assumptions C12_pool_of_sharded_has.
Print Assumptions C12_pool_of_unsharded_has.
Print Assumptions C12_pool_of_sharder.
Print Assumptions C12_pool_of_wf.
