(* Property C09 — "Request frames on the wire say exactly what the caller asked for".
   Statements only.  Every theorem is closed by [exact] of a lemma from Proofs/Request_proofs.v
   (deepening round 4: Proofs/C09_round4.v);
   the statements are pinned again in /verif/pins/C09.v.

   encode_request cd c tr r  = the model of SerializedValues::from_closure + SerializedRequest::make
                               (Model/Request.v PART 1, written from the code);
   parse_frame cd alg mid f  = the independent parser written from the CQL v4 protocol document
                               (Model/Request.v PART 2);
   cd : codec                = the LZ4 / Snappy functions, an explicit parameter; [codec_ok cd]
                               (decompress (compress b) = b) is an explicit premise where used.
   Since /repo a9f519c ("fix: refuse a request whose body does not fit in the frame's 32-bit
   length field") the model has the two `u32::try_from` checks, so no size premise is needed. *)
From SV Require Import Base.Prelude Base.Bytes Model.Request Proofs.Request_proofs Proofs.C09_round4.
Open Scope N_scope.

(* Whatever the code emits without error is a valid v4 frame that the protocol parser reads back
   to exactly the request asked for: version 4, the request's opcode, length field = body size,
   flags = tracing only, stream 0, and the same statement text / id / metadata id, consistency,
   serial consistency, page size, paging state, timestamp, skip-metadata flag and values in order
   (request equality) — for every request, hence for all 2^6 subsets of optional parts. *)
Theorem C09_parse_encode : forall cd alg tr r f mid,
  req_wf r -> mid_matches mid r ->
  encode_request cd None tr r = Ok f ->
  parse_frame cd alg mid f
  = Ok (mkHeader 4 (if tr then 2 else 0) 0 (opcode r) (blen f - 9), r).
Proof. exact parse_encode. Qed.

(* the body of an uncompressed frame is the serialised request *)
Theorem C09_plain_body : forall cd tr r f,
  encode_request cd None tr r = Ok f -> serialize_request r = Ok (skipn 9 f).
Proof. exact plain_body. Qed.

(* With compression negotiated: the frame body decompresses (with the code's own decompress) to
   the uncompressed body, the header carries the compression flag and the compressed length, and
   the protocol parser (with the document's description of the two codecs) reads the request back. *)
Theorem C09_compressed : forall cd alg tr r f mid body,
  codec_ok cd -> req_wf r -> mid_matches mid r ->
  encode_request cd (Some alg) tr r = Ok f -> serialize_request r = Ok body ->
  decompress cd alg (skipn 9 f) = Some body /\
  parse_frame cd (Some alg) mid f
  = Ok (mkHeader 4 (if tr then 3 else 1) 0 (opcode r) (blen f - 9), r).
Proof. exact compressed. Qed.

(* Oversize inputs are refused, never truncated: a [string]/[short bytes] of >= 2^16 bytes, a
   [long string]/[bytes]/value of >= 2^31 bytes, more than 65535 values, statements, map entries
   or event types ([oversize]); and a serialised body of 2^32 bytes or more ([body_too_long]; with
   Snappy the check is on the compressed payload: C09_payload_too_long). *)
Theorem C09_oversize : forall cd c tr r,
  oversize r = true \/ (body_too_long r = true /\ c <> Some Snappy) ->
  exists e, encode_request cd c tr r = Err e.
Proof. exact oversize_refused_frame. Qed.
Theorem C09_body_too_long : forall cd c tr r body,
  serialize_request r = Ok body -> 4294967296 <= blen body -> c <> Some Snappy ->
  encode_request cd c tr r = Err (ErrBodyTooLong (blen body)).
Proof. exact body_too_long_class. Qed.
Theorem C09_payload_too_long : forall cd alg tr r body payload,
  serialize_request r = Ok body -> compress_append cd alg body = Ok payload ->
  4294967296 <= blen payload ->
  encode_request cd (Some alg) tr r = Err (ErrBodyTooLong (blen payload)).
Proof. exact payload_too_long. Qed.

(* ... and nothing else is refused (uncompressed; LZ4 when the compressed payload fits too;
   Snappy may fail inside the codec) *)
Theorem C09_encode_total : forall cd tr r,
  oversize r = false -> batch_counts_match r = true -> body_too_long r = false ->
  (exists f, encode_request cd None tr r = Ok f) /\
  (forall body, serialize_request r = Ok body -> 4 + blen (lz4_compress cd body) < 4294967296 ->
     exists f, encode_request cd (Some Lz4) tr r = Ok f).
Proof. exact encode_total_frame. Qed.

(* a batch whose number of value lists differs from its number of statements is refused, with
   the counts in the error when nothing is oversize *)
Theorem C09_batch_mismatch : forall cd cmp tr bt stmts vals c sc ts,
  List.length stmts <> List.length vals ->
  exists e, encode_request cd cmp tr (Batch bt stmts vals c sc ts) = Err e.
Proof. exact batch_mismatch_refused_frame. Qed.
Theorem C09_batch_mismatch_class : forall cd cmp tr bt stmts vals c sc ts,
  oversize (Batch bt stmts vals c sc ts) = false -> List.length stmts <> List.length vals ->
  encode_request cd cmp tr (Batch bt stmts vals c sc ts)
  = Err (ErrBatchMismatch (N.of_nat (List.length vals)) (N.of_nat (List.length stmts))).
Proof. exact batch_mismatch_frame. Qed.

(* do_serialize's BadBatchConstructed branch can never be taken *)
Theorem C09_bad_batch_unreachable : forall cd cmp tr r a b,
  encode_request cd cmp tr r <> Err (ErrBadBatch a b).
Proof. exact bad_batch_unreachable_frame. Qed.

(* two different requests never produce the same frame (same negotiated extension) *)
Theorem C09_encode_injective : forall cd tr r1 r2 f,
  req_wf r1 -> req_wf r2 -> uses_mid r1 = uses_mid r2 ->
  encode_request cd None tr r1 = Ok f -> encode_request cd None tr r2 = Ok f -> r1 = r2.
Proof. exact encode_injective. Qed.

(* set_stream changes the stream id of the header and nothing else *)
Theorem C09_set_stream : forall cd alg mid f h r s,
  (- 2 ^ 15 <= s < 2 ^ 15)%Z ->
  parse_frame cd alg mid f = Ok (h, r) ->
  parse_frame cd alg mid (set_stream s f) = Ok (with_stream s h, r).
Proof. exact set_stream_parse. Qed.

(* the boolean predicate the correspondence driver evaluates on the implementation's bytes is
   the property (sound), and the model's output satisfies it (complete) *)
Theorem C09_frame_says_sound : forall cd c tr st r f, frame_says cd c tr st r f = true ->
  exists h, parse_frame cd c (uses_mid r) f = Ok (h, r) /\ h_version h = 4 /\ h_opcode h = opcode r /\
            h_length h + 9 = blen f /\ h_flags h = frame_flags (is_some c) tr /\ h_stream h = st.
Proof. exact frame_says_sound. Qed.
Theorem C09_frame_says_complete : forall cd tr r f,
  req_wf r -> encode_request cd None tr r = Ok f ->
  frame_says cd None tr 0 r f = true /\
  forall st, (- 2 ^ 15 <= st < 2 ^ 15)%Z -> frame_says cd None tr st r (set_stream st f) = true.
Proof. exact frame_says_complete. Qed.

(* Bodies around 4 GiB, on the request shape of the tie's `L` cases (an uncompressed BATCH of n
   identical unprepared statements with empty value lists): as far as sizes go the code returns
   exactly [uniform_batch_outcome]: a frame of 9 + size bytes whose length field is the size, or
   BodyTooLong(size) from 2^32 on.  (Before a9f519c the second case was Ok with size mod 2^32.) *)
Theorem C09_uniform_batch : forall cd text n,
  blen text < 2147483648 -> N.of_nat n < 65536 ->
  match uniform_batch_outcome (N.of_nat n) (blen text) with
  | Ok b => exists f, encode_request cd None false
                        (Batch Logged (repeat (SQuery text) n) (repeat [] n) One None None) = Ok f /\
                      blen f = 9 + b /\ be_dec (firstn 4 (skipn 5 f)) = b
  | Err b => encode_request cd None false
               (Batch Logged (repeat (SQuery text) n) (repeat [] n) One None None)
             = Err (ErrBodyTooLong b) /\ 4294967296 <= b
  end.
Proof. exact uniform_batch. Qed.

(* What make / compress_append(LZ4) do with ANY payload as far as sizes go (the tie's `M` cases use
   payloads of 2^32-1, 2^32, 2^32+5 untouched zero bytes): [size_outcome]. *)
Theorem C09_make_sizes : forall fl op payload,
  match size_outcome (blen payload) with
  | Ok b => exists f, make_frame fl op payload = Ok f /\ blen f = 9 + b /\ be_dec (firstn 4 (skipn 5 f)) = b
  | Err b => make_frame fl op payload = Err (ErrBodyTooLong b) /\ 4294967296 <= b
  end.
Proof. exact make_sizes. Qed.
Theorem C09_lz4_sizes : forall cd body,
  match size_outcome (blen body) with
  | Ok b => compress_append cd Lz4 body = Ok (be 4 b ++ lz4_compress cd body)
  | Err b => compress_append cd Lz4 body = Err (ErrBodyTooLong b)
  end.
Proof. exact lz4_sizes. Qed.

(* The 2^31 boundaries ([long string] statement texts, the [bytes] token, value cells): with one
   component x of |x| = n bytes and everything else minimal ([big_request]) the code returns exactly
   [big_outcome]: a frame of 9 + body-size bytes below 2^31, the specific refusal from 2^31 on (the
   tie's `G` cases run the real code at 2^31 and 2^31+1 on untouched zero pages). *)
Theorem C09_int_boundary : forall cd k x,
  match big_outcome k (blen x) with
  | Ok b => exists f, encode_request cd None false (big_request k x) = Ok f /\ blen f = 9 + b
  | Err e => encode_request cd None false (big_request k x) = Err e
  end.
Proof. exact int_boundary. Qed.

(* "Bound values in order": binding a typed row (unit, tuple / slice / Vec, map by column name;
   &T and Box<T> are transparent) to a statement's bind markers either fails or yields exactly one
   cell per marker, in marker order, each being the serialisation (by the value codec [vser], for
   that marker's type) of the value the caller supplied for it -- positionally, or by the marker's
   name for maps -- and nothing the caller supplied is left over; at most 65535 values. *)
Theorem C09_values_in_order : forall V T vser cols r cells,
  bind_row V T vser cols r = Ok cells ->
  row_binds V T vser cols r cells /\ row_complete V T cols r /\ N.of_nat (List.length cells) < 65536.
Proof. exact bind_row_ok. Qed.
(* ... and conversely nothing else is refused *)
Theorem C09_bind_row_total : forall V T vser cols r,
  row_good V T vser cols r -> exists cells, bind_row V T vser cols r = Ok cells.
Proof. exact bind_row_total. Qed.
Theorem C09_row_count_mismatch : forall V T vser cols vs, List.length vs <> List.length cols ->
  bind_row V T vser cols (RSeq vs)
  = Err (WrongColumnCount (N.of_nat (List.length vs)) (N.of_nat (List.length cols))).
Proof. exact bind_row_count_mismatch. Qed.
(* the value list the protocol parser reads out of the EXECUTE frame is that binding *)
Theorem C09_values_in_frame : forall V T vser cols r cells cd alg tr id m p f,
  bind_row V T vser cols r = Ok cells -> qp_values p = cells -> qparams_wf p ->
  encode_request cd None tr (Execute id m p) = Ok f ->
  exists h p', parse_frame cd alg (is_some m) f = Ok (h, Execute id m p') /\
               row_binds V T vser cols r (qp_values p') /\ row_complete V T cols r.
Proof. exact values_in_frame. Qed.

(* The abstract value codec instantiated with C01's (Model/Cql.v): for rows of CqlValues bound
   through Cql.ser_value, every [value] the frame carries is C01's encoding (Cql.ser_cell -- the
   subject of C01_conforms / C01_roundtrip), for the marker's column type, of the value the caller
   supplied for that marker; and the five carriers of the tie's typed rows (mini_ser) ARE that codec. *)
Theorem C09_values_are_C01 : forall cols r cells blob,
  bind_row Cql.cell Cql.ctype c01_vser cols r = Ok cells -> ser_cells cells = Some blob ->
  List.length cells = List.length cols /\
  forall i name t, nth_error cols i = Some (name, t) ->
    exists c rc wire, supplied Cql.cell r i name = Some c /\ nth_error cells i = Some rc /\
                      ser_cell rc = Some wire /\ Cql.ser_cell t c = Ok wire.
Proof. exact values_are_C01. Qed.
Theorem C09_mini_ser_is_C01 : forall v t, mini_ser v t = c01_vser (mval_cell v) (mty_ctype t).
Proof. exact mini_ser_is_C01. Qed.

(* ---- UTF-8 with an independent specification (deepening round 3) -------------------------------
   [Cql.utf8_valid] (used by the specification parser and by [req_wf]) accepts exactly the byte
   sequences of Unicode table 3-7 / RFC 3629 section 4 ([utf8_wf], one constructor per row), and
   those are exactly the encodings of sequences of Unicode scalar values by the four UTF-8 forms of
   RFC 3629 section 3 ([scalar], [utf8_enc], [utf8_of]). *)
Theorem C09_utf8_valid_iff_wf : forall b, Cql.utf8_valid b = true <-> utf8_wf b.
Proof. exact utf8_valid_iff_wf. Qed.
Theorem C09_utf8_wf_iff_scalars : forall b,
  utf8_wf b <-> exists cs, Forall scalar cs /\ b = utf8_of cs.
Proof. exact utf8_wf_iff_scalars. Qed.
(* the premise of the round-trip theorems is the premise stated with that specification *)
Theorem C09_req_wf_iff_rfc : forall r, req_wf r <-> req_wf_rfc r.
Proof. exact req_wf_iff_rfc. Qed.
(* C09_parse_encode restated: a request whose texts are UTF-8 encodings of scalar-value sequences
   (and whose numeric fields are in their Rust ranges) is read back from its frame *)
Theorem C09_parse_encode_rfc : forall cd alg tr r f mid,
  req_wf_rfc r -> mid_matches mid r -> encode_request cd None tr r = Ok f ->
  parse_frame cd alg mid f = Ok (mkHeader 4 (if tr then 2 else 0) 0 (opcode r) (blen f - 9), r).
Proof. exact parse_encode_rfc. Qed.
(* soundness of the specification parser for ANY bytes: every statement text / STARTUP string of a
   request it returns is the UTF-8 encoding of a sequence of Unicode scalar values -- so a frame
   that [frame_says] accepts carries well-formed UTF-8 in that sense *)
Theorem C09_parser_texts_rfc : forall cd alg mid f h r,
  parse_frame cd alg mid f = Ok (h, r) -> req_texts_rfc r.
Proof. exact parser_texts_rfc. Qed.

(* ---- Deepening round 4 (proof only; lemmas in Proofs/C09_round4.v) -------------------------------- *)
(* The acceptance set, exactly.  Whatever the compression, an accepted request has nothing oversize
   and as many value lists as statements (and, Snappy apart, a body below 2^32); without compression
   the converse holds too: [oversize], [batch_counts_match], [body_too_long] -- the three predicates
   the driver uses to judge a refusal -- decide acceptance. *)
Theorem C09_accepted_only : forall cd c tr r f,
  encode_request cd c tr r = Ok f ->
  oversize r = false /\ batch_counts_match r = true /\ (c <> Some Snappy -> body_too_long r = false).
Proof. exact accepted_only. Qed.
Theorem C09_accepted_iff : forall cd tr r,
  (exists f, encode_request cd None tr r = Ok f) <->
  oversize r = false /\ batch_counts_match r = true /\ body_too_long r = false.
Proof. exact accepted_iff. Qed.
Theorem C09_batch_counts_match_false : forall r,
  batch_counts_match r = false <->
  exists bt stmts vals c sc ts, r = Batch bt stmts vals c sc ts /\ List.length stmts <> List.length vals.
Proof. exact batch_counts_match_false. Qed.

(* C09_frame_says_sound is an equivalence: the driver's predicate holds exactly when the protocol
   parser reads the asked request with the expected header out of the bytes *)
Theorem C09_frame_says_iff : forall cd c tr st r f,
  frame_says cd c tr st r f = true <->
  exists h, parse_frame cd c (uses_mid r) f = Ok (h, r) /\ h_version h = 4 /\ h_opcode h = opcode r /\
            h_length h + 9 = blen f /\ h_flags h = frame_flags (is_some c) tr /\ h_stream h = st.
Proof. exact frame_says_iff. Qed.

(* set_stream on the bytes: version / flags, opcode, length field, body and the size are untouched,
   bytes 2..3 are the big-endian i16; and after ANY sequence of set_stream calls (the serialised
   request is re-used across attempts) the frame is the one the last call alone would give, which
   the protocol parser reads as the same request with that stream id *)
Theorem C09_set_stream_bytes : forall s f, 4 <= blen f ->
  firstn 2 (set_stream s f) = firstn 2 f /\
  firstn 2 (skipn 2 (set_stream s f)) = sbe 2 s /\
  skipn 4 (set_stream s f) = skipn 4 f /\
  blen (set_stream s f) = blen f.
Proof. exact set_stream_bytes. Qed.
Theorem C09_set_stream_last : forall ss s f, 4 <= blen f ->
  fold_left (fun g x => set_stream x g) (ss ++ [s]) f = set_stream s f.
Proof. exact set_stream_last. Qed.
Theorem C09_set_stream_seq : forall cd alg mid f h r ss s,
  (- 2 ^ 15 <= s < 2 ^ 15)%Z -> 4 <= blen f ->
  parse_frame cd alg mid f = Ok (h, r) ->
  parse_frame cd alg mid (fold_left (fun g x => set_stream x g) (ss ++ [s]) f) = Ok (with_stream s h, r).
Proof. exact set_stream_seq_parse. Qed.

(* The flag bytes (extracted; the census compares them with the crate's FLAG_* constants): one bit
   per option used, independent of each other ([N.lor] = sum), no other bit. *)
Theorem C09_qp_flags_bits : forall v sk pg ps sc ts,
  qp_flags v sk pg ps sc ts = b2n v + 2 * b2n sk + 4 * b2n pg + 8 * b2n ps + 16 * b2n sc + 32 * b2n ts /\
  N.testbit (qp_flags v sk pg ps sc ts) 0 = v /\ N.testbit (qp_flags v sk pg ps sc ts) 1 = sk /\
  N.testbit (qp_flags v sk pg ps sc ts) 2 = pg /\ N.testbit (qp_flags v sk pg ps sc ts) 3 = ps /\
  N.testbit (qp_flags v sk pg ps sc ts) 4 = sc /\ N.testbit (qp_flags v sk pg ps sc ts) 5 = ts.
Proof. exact qp_flags_bits. Qed.
Theorem C09_batch_flags_bits : forall sc ts,
  batch_flags sc ts = 16 * b2n sc + 32 * b2n ts /\
  N.testbit (batch_flags sc ts) 4 = sc /\ N.testbit (batch_flags sc ts) 5 = ts.
Proof. exact batch_flags_bits. Qed.
Theorem C09_frame_flags_bits : forall c tr,
  frame_flags c tr = b2n c + 2 * b2n tr /\
  N.testbit (frame_flags c tr) 0 = c /\ N.testbit (frame_flags c tr) 1 = tr.
Proof. exact frame_flags_bits. Qed.
(* The code tables (extracted; census): injective, in range, and the specification parser's tables
   are their inverses. *)
Theorem C09_code_tables :
  (forall a b, cons_code a = cons_code b -> a = b) /\ (forall a, cons_code a <= 10) /\
  (forall a b, serial_code a = serial_code b -> a = b) /\
  (forall a, serial_code a = 8 \/ serial_code a = 9) /\
  (forall a b, batch_type_code a = batch_type_code b -> a = b) /\ (forall a, batch_type_code a <= 2) /\
  (forall a b, event_name a = event_name b -> a = b) /\
  (forall a, p_event (event_name a) = Some a) /\
  (forall a rest, p_consistency (be 2 (cons_code a) ++ rest) = Ok (a, rest)) /\
  (forall a rest, p_serial (be 2 (serial_code a) ++ rest) = Ok (a, rest)).
Proof. exact code_tables. Qed.

(* ---- non-vacuity: concrete requests meeting the hypotheses, with non-trivial outputs ---- *)
Definition ex_codec : codec :=
  mkCodec (fun b => b) (fun b _ => Some b) (fun b => Some b) (fun b => Some b).
Example C09_ex_codec : codec_ok ex_codec.
Proof. split; [reflexivity|]. intros b c H. injection H as <-. reflexivity. Qed.

Definition ex_params : qparams :=
  mkQP Quorum (Some SLocalSerial) (Some (-5)%Z) (Some 5000%Z) (Some [1; 2; 3]) true
       [CVal [7; 7]; CNull; CUnset; CVal []].
Definition ex_query : request := Query [83; 69; 76] ex_params.
Definition ex_execute : request := Execute [1; 2; 3; 4] (Some [9; 9]) ex_params.
Definition ex_batch : request :=
  Batch Unlogged [SQuery [73]; SPrepared [5; 6]] [[CNull]; [CVal [1]; CUnset]] LocalOne (Some SSerial)
        (Some 1234567890123456789%Z).

Example C09_ex_query :
  req_wf ex_query /\
  encode_request ex_codec None true ex_query
  = Ok [4; 2; 0; 0; 7;  0; 0; 0; 51;
        0; 0; 0; 3; 83; 69; 76;  0; 4;  63;
        0; 4;  0; 0; 0; 2; 7; 7;  255; 255; 255; 255;  255; 255; 255; 254;  0; 0; 0; 0;
        0; 0; 19; 136;  0; 0; 0; 3; 1; 2; 3;  0; 9;  255; 255; 255; 255; 255; 255; 255; 251] /\
  (forall f, encode_request ex_codec None true ex_query = Ok f ->
     parse_frame ex_codec None false f = Ok (mkHeader 4 2 0 7 51, ex_query)).
Proof.
  split; [|split].
  - cbv. repeat split; discriminate.
  - vm_compute. reflexivity.
  - intros f H. vm_compute in H. injection H as <-. vm_compute. reflexivity.
Qed.
Example C09_ex_execute_batch :
  (exists f, encode_request ex_codec None false ex_execute = Ok f /\
             parse_frame ex_codec None true f = Ok (mkHeader 4 0 0 10 (blen f - 9), ex_execute) /\
             (* without the extension context the same bytes do not read back *)
             parse_frame ex_codec None false f <> Ok (mkHeader 4 0 0 10 (blen f - 9), ex_execute)) /\
  (exists f, encode_request ex_codec (Some Lz4) true ex_batch = Ok f /\
             parse_frame ex_codec (Some Lz4) false f = Ok (mkHeader 4 3 0 13 (blen f - 9), ex_batch)).
Proof.
  split; eexists; (split; [vm_compute; reflexivity|]); [split|]; vm_compute; try reflexivity.
  discriminate.
Qed.
Definition is_ok {E A} (x : result E A) : bool := match x with Ok _ => true | Err _ => false end.
Example C09_ex_refusals :
  oversize (Execute (repeat 0 (N.to_nat 65536)) None ex_params) = true /\
  encode_request ex_codec None false (Execute (repeat 0 (N.to_nat 65536)) None ex_params) = Err ErrExecId /\
  is_ok (encode_request ex_codec None false (Execute (repeat 0 (N.to_nat 65535)) None ex_params)) = true /\
  encode_request ex_codec None false
    (Batch Logged [SPrepared [1]; SPrepared [2]] [[CNull]] One None None) = Err (ErrBatchMismatch 1 2) /\
  encode_request ex_codec None false
    (Batch Logged [SPrepared [1]] [[CNull]; []; []] One None None) = Err (ErrBatchMismatch 3 1) /\
  encode_request ex_codec None false
    (Query [] (mkQP One None None None None false (repeat CNull (N.to_nat 65536)))) = Err ErrValuesTooMany /\
  is_ok (encode_request ex_codec None false
    (Query [] (mkQP One None None None None false (repeat CNull (N.to_nat 65535))))) = true.
Proof. repeat split; vm_compute; reflexivity. Qed.
Example C09_ex_set_stream :
  forall f, encode_request ex_codec None false Options = Ok f ->
            set_stream (-2) f = [4; 0; 255; 254; 5; 0; 0; 0; 0].
Proof. intros f H. vm_compute in H. injection H as <-. vm_compute. reflexivity. Qed.
Example C09_ex_sizes :
  uniform_batch_outcome 4 1073741824 = Err 4294967330 /\
  uniform_batch_outcome 3 1073741824 = Ok 3221225499 /\ uniform_batch_outcome 3 1024 = Ok 3099.
Proof. repeat split; vm_compute; reflexivity. Qed.
(* a 1 GiB text exists, so the Err case of C09_uniform_batch / the premises of C09_body_too_long
   are met by a real request (4 statements of 1 GiB) *)
Example C09_ex_big : blen (repeat 115 (N.to_nat 1073741824)) = 1073741824.
Proof. unfold blen. rewrite repeat_length. apply N2Nat.id. Qed.

(* ---- anchors: the specification parser, the driver's predicates and the size functions evaluated
   on concrete inputs, INCLUDING rejecting ones (a later weakening of a definition breaks a pin) ---- *)
Definition ex_plain_frame : bytes :=      (* QUERY "S", LOCAL_QUORUM, no options *)
  [4; 0; 0; 0; 7;  0; 0; 0; 8;  0; 0; 0; 1; 83;  0; 6;  0].
Definition ex_plain_query : request := Query [83] (mkQP LocalQuorum None None None None false []).
Example C09_anchor_parser :
  parse_frame ex_codec None false ex_plain_frame = Ok (mkHeader 4 0 0 7 8, ex_plain_query) /\
  (* response direction / other version *)
  parse_frame ex_codec None false (132 :: tl ex_plain_frame) = Err PBadVersion /\
  parse_frame ex_codec None false (5 :: tl ex_plain_frame) = Err PBadVersion /\
  (* length field <> body size, trailing byte inside the announced length, short frame *)
  parse_frame ex_codec None false (ex_plain_frame ++ [0]) = Err PBadLength /\
  parse_frame ex_codec None false [4; 0; 0; 0; 7; 0; 0; 0; 9; 0; 0; 0; 1; 83; 0; 6; 0; 0] = Err PTrailing /\
  parse_frame ex_codec None false [4; 0; 0; 0; 7; 0; 0; 0] = Err PTooShort /\
  (* custom-payload flag, compression flag without negotiated compression, unknown opcode *)
  parse_frame ex_codec None false [4; 4; 0; 0; 7; 0; 0; 0; 8; 0; 0; 0; 1; 83; 0; 6; 0] = Err PBadFlags /\
  parse_frame ex_codec None false [4; 1; 0; 0; 7; 0; 0; 0; 8; 0; 0; 0; 1; 83; 0; 6; 0] = Err PNoCompression /\
  parse_frame ex_codec None false [4; 0; 0; 0; 8; 0; 0; 0; 0] = Err PBadOpcode /\
  (* query flags: paging-state flag + null [bytes], values flag + n = 0 (non-canonical), names flag,
     unknown flag bit; consistency 11; serial consistency QUORUM; value length -3 *)
  parse_frame ex_codec None false
    [4; 0; 0; 0; 7; 0; 0; 0; 12; 0; 0; 0; 1; 83; 0; 6; 8; 255; 255; 255; 255] = Err PNonCanonicalFlags /\
  parse_frame ex_codec None false
    [4; 0; 0; 0; 7; 0; 0; 0; 10; 0; 0; 0; 1; 83; 0; 6; 1; 0; 0] = Err PNonCanonicalFlags /\
  parse_frame ex_codec None false [4; 0; 0; 0; 7; 0; 0; 0; 8; 0; 0; 0; 1; 83; 0; 6; 64] = Err PNamedValues /\
  parse_frame ex_codec None false [4; 0; 0; 0; 7; 0; 0; 0; 8; 0; 0; 0; 1; 83; 0; 6; 128] = Err PBadQueryFlags /\
  parse_frame ex_codec None false [4; 0; 0; 0; 7; 0; 0; 0; 8; 0; 0; 0; 1; 83; 0; 11; 0] = Err PBadConsistency /\
  parse_frame ex_codec None false
    [4; 0; 0; 0; 7; 0; 0; 0; 10; 0; 0; 0; 1; 83; 0; 6; 16; 0; 4] = Err PBadSerialConsistency /\
  parse_frame ex_codec None false
    [4; 0; 0; 0; 7; 0; 0; 0; 14; 0; 0; 0; 1; 83; 0; 6; 1; 0; 1; 255; 255; 255; 253] = Err PBadValueLength /\
  (* batch: type 3, statement kind 2, flag 0x40; register: unknown event *)
  parse_frame ex_codec None false [4; 0; 0; 0; 13; 0; 0; 0; 6; 3; 0; 0; 0; 1; 0] = Err PBadBatchType /\
  parse_frame ex_codec None false [4; 0; 0; 0; 13; 0; 0; 0; 4; 0; 0; 1; 2] = Err PBadStatementKind /\
  parse_frame ex_codec None false [4; 0; 0; 0; 13; 0; 0; 0; 6; 0; 0; 0; 0; 1; 64] = Err PBadBatchFlags /\
  parse_frame ex_codec None false [4; 0; 0; 0; 11; 0; 0; 0; 5; 0; 1; 0; 1; 88] = Err PBadEvent /\
  (* [long string] / [string] must be UTF-8 (a truncated 2-byte sequence; 0xff); [short bytes] need not *)
  parse_frame ex_codec None false [4; 0; 0; 0; 7; 0; 0; 0; 8; 0; 0; 0; 1; 195; 0; 6; 0] = Err PBadUtf8 /\
  parse_frame ex_codec None false [4; 0; 0; 0; 1; 0; 0; 0; 7; 0; 1; 0; 1; 255; 0; 0] = Err PBadUtf8 /\
  parse_frame ex_codec None false [4; 0; 0; 0; 10; 0; 0; 0; 6; 0; 1; 255; 0; 6; 0]
  = Ok (mkHeader 4 0 0 10 6, Execute [255] None (mkQP LocalQuorum None None None None false [])).
Proof. repeat split; vm_compute; reflexivity. Qed.
Example C09_anchor_frame_says :
  frame_says ex_codec None false 0 ex_plain_query ex_plain_frame = true /\
  (* wrong stream, tracing asked but not flagged, another consistency asked, skip_metadata asked *)
  frame_says ex_codec None false 5 ex_plain_query ex_plain_frame = false /\
  frame_says ex_codec None true 0 ex_plain_query ex_plain_frame = false /\
  frame_says ex_codec None false 0 (Query [83] (mkQP Quorum None None None None false [])) ex_plain_frame = false /\
  frame_says ex_codec None false 0 (Query [83] (mkQP LocalQuorum None None None None true [])) ex_plain_frame = false /\
  (* a value asked for that is not on the wire; a truncated frame *)
  frame_says ex_codec None false 0 (Query [83] (mkQP LocalQuorum None None None None false [CNull])) ex_plain_frame = false /\
  frame_says ex_codec None false 0 ex_plain_query (removelast ex_plain_frame) = false /\
  frame_says ex_codec None false (-2) ex_plain_query (set_stream (-2) ex_plain_frame) = true.
Proof. repeat split; vm_compute; reflexivity. Qed.
Example C09_anchor_predicates :
  oversize ex_query = false /\ oversize ex_batch = false /\ body_too_long ex_query = false /\
  batch_counts_match ex_batch = true /\
  batch_counts_match (Batch Logged [SPrepared [1]] [] One None None) = false /\
  oversize (Startup [(repeat 107 (N.to_nat 65536), [])]) = true /\
  oversize (Startup [(repeat 107 (N.to_nat 65535), [])]) = false /\
  oversize (Register (repeat EvStatus (N.to_nat 65536))) = true /\
  size_outcome 4294967295 = Ok 4294967295 /\ size_outcome 4294967296 = Err 4294967296 /\
  big_outcome BigPrepare 2147483647 = Ok 2147483651 /\ big_outcome BigPrepare 2147483648 = Err ErrPrepareString /\
  big_outcome BigCell 2147483647 = Ok 2147483660 /\ big_outcome BigCell 2147483648 = Err ErrCellOverflow /\
  big_outcome BigBatch 2147483648 = Err (ErrBatchStatement 0 StmtString) /\ big_outcome BigBatch 3 = Ok 16 /\
  big_outcome BigQuery 2147483648 = Err ErrQueryString /\ big_outcome BigAuth 2147483648 = Err ErrAuthResponse /\
  uses_mid ex_execute = true /\ uses_mid ex_query = false.
Proof. repeat split; vm_compute; reflexivity. Qed.

Definition ex_cols : list (bytes * mty) := [([97], TInt); ([98], TText); ([97], TInt)].   (* a, b, a *)
Example C09_anchor_utf8 :
  (* U+0024, U+00A2, U+20AC, U+10348, U+D7FF, U+E000, U+10FFFF in the four forms *)
  utf8_of [36; 162; 8364; 66376] = [36; 194; 162; 226; 130; 172; 240; 144; 141; 136] /\
  utf8_enc 55295 = [237; 159; 191] /\ utf8_enc 57344 = [238; 128; 128] /\ utf8_enc 1114111 = [244; 143; 191; 191] /\
  scalar 55295 /\ ~ scalar 55296 /\ ~ scalar 57343 /\ scalar 57344 /\ scalar 1114111 /\ ~ scalar 1114112 /\
  utf8_wf [36; 194; 162; 226; 130; 172; 240; 144; 141; 136] /\
  (* rejected: overlong C0 80 and E0 80 80, surrogate ED A0 80, above U+10FFFF F4 90 80 80, lone tail, truncated *)
  ~ utf8_wf [192; 128] /\ ~ utf8_wf [224; 128; 128] /\ ~ utf8_wf [237; 160; 128] /\
  ~ utf8_wf [244; 144; 128; 128] /\ ~ utf8_wf [128] /\ ~ utf8_wf [226; 130] /\
  req_wf_rfc ex_query /\ req_texts_rfc ex_batch.
Proof.
  assert (R : forall b, Cql.utf8_valid b = false -> ~ utf8_wf b).
  { intros b E H. apply (proj2 (C09_utf8_valid_iff_wf b)) in H. congruence. }
  assert (A : forall b, Cql.utf8_valid b = true -> utf8_wf b) by (intros b; apply (proj1 (C09_utf8_valid_iff_wf b))).
  assert (W : forall r, req_wf r -> req_wf_rfc r) by (intros r; apply (proj1 (C09_req_wf_iff_rfc r))).
  repeat match goal with |- _ /\ _ => split end.
  all: try (vm_compute; reflexivity).
  all: try (unfold scalar; lia).
  all: try (apply R; vm_compute; reflexivity).
  all: try (apply A; vm_compute; reflexivity).
  - apply W. cbv. repeat split; discriminate.
  - assert (Q : req_wf ex_batch) by (cbv; repeat split; try discriminate; repeat constructor).
    exact (proj1 (W _ Q)).
Qed.
Example C09_anchor_C01 :
  c01_vser (Cql.CVal (Cql.CInt 7)) (Cql.TNative Cql.NInt) = Some (CVal [0; 0; 0; 7]) /\
  c01_vser (Cql.CVal (Cql.CInt 7)) (Cql.TNative Cql.NText) = None /\
  c01_vser (Cql.CVal (Cql.CList [Cql.CInt 1; Cql.CInt 2])) (Cql.TList (Cql.TNative Cql.NInt))
  = Some (CVal [0; 0; 0; 2; 0; 0; 0; 4; 0; 0; 0; 1; 0; 0; 0; 4; 0; 0; 0; 2]) /\
  bind_row Cql.cell Cql.ctype c01_vser [([97], Cql.TNative Cql.NInt); ([98], Cql.TNative Cql.NText)]
    (RMap [([98], Cql.CVal (Cql.CText [120])); ([97], Cql.CNull)]) = Ok [CNull; CVal [120]].
Proof. repeat split; vm_compute; reflexivity. Qed.
Example C09_anchor_rows :
  (* by name, map order irrelevant, a repeated marker name gets the same value twice *)
  bind_row mval mty mini_ser ex_cols (RMap [([98], MText [120]); ([97], MInt 7)])
  = Ok [CVal [0; 0; 0; 7]; CVal [120]; CVal [0; 0; 0; 7]] /\
  bind_row mval mty mini_ser ex_cols (RSeq [MInt (-1); MNull; MUnset])
  = Ok [CVal [255; 255; 255; 255]; CNull; CUnset] /\
  (* refusals: count, missing name, surplus names (lexicographically first reported), wrong type, unit *)
  bind_row mval mty mini_ser ex_cols (RSeq [MInt 1; MText []]) = Err (WrongColumnCount 2 3) /\
  bind_row mval mty mini_ser ex_cols (RMap [([97], MInt 7)]) = Err (ValueMissingForColumn [98]) /\
  bind_row mval mty mini_ser ex_cols (RMap [([122], MNull); ([98], MNull); ([97], MNull); ([99; 100], MNull); ([99], MNull)])
  = Err (NoColumnWithName [99]) /\
  bind_row mval mty mini_ser ex_cols (RSeq [MInt 1; MInt 2; MInt 3]) = Err (ColumnSerializationFailed [98]) /\
  bind_row mval mty mini_ser ex_cols RUnit = Err (WrongColumnCount 0 3) /\
  bind_row mval mty mini_ser [] RUnit = Ok [] /\
  bytes_ltb [99] [99; 100] = true /\ bytes_ltb [99; 100] [99] = false /\ bytes_ltb [98; 255] [99] = true.
Proof. repeat split; vm_compute; reflexivity. Qed.

(* non-vacuity / anchors of deepening round 4 *)
Example C09_ex_round4 :
  (* C09_accepted_iff: a request meeting the right-hand side, and three outside it *)
  (oversize ex_batch = false /\ batch_counts_match ex_batch = true /\ body_too_long ex_batch = false /\
   is_ok (encode_request ex_codec None true ex_batch) = true) /\
  batch_counts_match (Batch Logged [SPrepared [1]] [[CNull]; []; []] One None None) = false /\
  batch_counts_match ex_query = true /\
  (* C09_frame_says_iff on the golden frame: accepted with the stream id it carries, not with another,
     not for another request *)
  (forall f, encode_request ex_codec None true ex_query = Ok f ->
     frame_says ex_codec None true 0 ex_query f = true /\ frame_says ex_codec None true 1 ex_query f = false /\
     frame_says ex_codec None true 0 ex_execute f = false /\
     frame_says ex_codec None true 770 ex_query (set_stream 770 f) = true) /\
  (* C09_set_stream_bytes / _last: three calls on the OPTIONS frame *)
  (forall f, encode_request ex_codec None false Options = Ok f -> 4 <= blen f /\
     fold_left (fun g x => set_stream x g) ([5; -1] ++ [300])%Z f = [4; 0; 1; 44; 5; 0; 0; 0; 0] /\
     sbe 2 (-2) = [255; 254]) /\
  (* flag bytes *)
  qp_flags true true false true false true = 43 /\ qp_flags false false false false false false = 0 /\
  qp_flags true true true true true true = 63 /\ batch_flags true false = 16 /\ batch_flags true true = 48 /\
  frame_flags true true = 3 /\
  (* code tables: the parser refuses the codes next to the tables *)
  p_consistency [0; 11] = Err PBadConsistency /\ p_serial [0; 7] = Err PBadSerialConsistency /\
  p_serial [0; 10] = Err PBadSerialConsistency /\ p_event (event_name EvStatus ++ [68]) = None /\
  p_consistency [0; 6; 99] = Ok (LocalQuorum, [99]).
Proof.
  split; [repeat split; vm_compute; reflexivity|].
  split; [vm_compute; reflexivity|]. split; [vm_compute; reflexivity|].
  split. { intros f H. vm_compute in H. injection H as <-. repeat split; vm_compute; reflexivity. }
  split. { intros f H. vm_compute in H. injection H as <-.
           repeat split; vm_compute; first [reflexivity | discriminate]. }
  repeat split; vm_compute; reflexivity.
Qed.

Print Assumptions C09_parse_encode.
Print Assumptions C09_plain_body.
Print Assumptions C09_compressed.
Print Assumptions C09_oversize.
Print Assumptions C09_encode_total.
Print Assumptions C09_batch_mismatch.
Print Assumptions C09_batch_mismatch_class.
Print Assumptions C09_bad_batch_unreachable.
Print Assumptions C09_encode_injective.
Print Assumptions C09_set_stream.
Print Assumptions C09_frame_says_sound.
Print Assumptions C09_frame_says_complete.
Print Assumptions C09_body_too_long.
Print Assumptions C09_payload_too_long.
Print Assumptions C09_uniform_batch.
Print Assumptions C09_make_sizes.
Print Assumptions C09_lz4_sizes.
Print Assumptions C09_int_boundary.
Print Assumptions C09_values_in_order.
Print Assumptions C09_bind_row_total.
Print Assumptions C09_row_count_mismatch.
Print Assumptions C09_values_in_frame.
Print Assumptions C09_utf8_valid_iff_wf.
Print Assumptions C09_utf8_wf_iff_scalars.
Print Assumptions C09_req_wf_iff_rfc.
Print Assumptions C09_parse_encode_rfc.
Print Assumptions C09_parser_texts_rfc.
Print Assumptions C09_values_are_C01.
Print Assumptions C09_mini_ser_is_C01.
Print Assumptions C09_accepted_only.
Print Assumptions C09_accepted_iff.
Print Assumptions C09_batch_counts_match_false.
Print Assumptions C09_frame_says_iff.
Print Assumptions C09_set_stream_bytes.
Print Assumptions C09_set_stream_last.
Print Assumptions C09_set_stream_seq.
Print Assumptions C09_qp_flags_bits.
Print Assumptions C09_batch_flags_bits.
Print Assumptions C09_frame_flags_bits.
Print Assumptions C09_code_tables.
