(* Property C20 - statements only.  Every theorem is closed by [exact] of a lemma from
   Proofs/Keyspace_proofs.v or Proofs/C20_d4_proofs.v; the statements are pinned again in /verif/pins/C20.v. *)
From SV Require Import Base.Prelude Model.Keyspace Proofs.Keyspace_proofs Proofs.C20_d4_proofs.
Open Scope nat_scope.

(* ---- names ------------------------------------------------------------------------------- *)

(* a name is accepted iff it is 1..48 characters of [A-Za-z0-9_] *)
Theorem C20_name : forall s, verify_name s = Ok tt <-> valid_name s.
Proof. exact verify_name_ok_iff. Qed.

(* which error a rejected name gets: empty, then too long (with the character count), then the
   first character outside the class *)
Theorem C20_name_err : forall s e,
  verify_name s = Err e <->
  match e with
  | NEmpty => s = []
  | NTooLong n => n = N.of_nat (List.length s) /\ (48 < List.length s)%nat
  | NIllegal c => (1 <= List.length s <= 48)%nat /\
                  exists a b, s = a ++ c :: b /\ Forall (fun x => In x alphabet) a /\ ~ In c alphabet
  end.
Proof. exact verify_name_err. Qed.

(* the text sent for a verified name reads back as USE + exactly that one identifier (quoted iff
   case sensitive), and consists of alphabet characters, the blank of "USE " and the two quotes *)
Theorem C20_statement : forall k, valid_name (fst k) ->
  parse_use (use_statement k) = Some k /\
  forall c, In c (use_statement k) -> In c alphabet \/ c = 32%N \/ c = dquote.
Proof. exact statement_ok. Qed.

(* ---- USE statement texts seen by the server (second sentence, end to end) ------------------------------- *)

(* [idents] (the identifiers of a text = its maximal runs of alphabet characters) is determined by three
   equations: the empty text, a single run, and two texts joined by a non-alphabet character *)
Theorem C20_idents_equations :
  idents [] = [] /\
  (forall i, i <> [] -> forallb is_alpha i = true -> idents i = [i]) /\
  (forall a x b, is_alpha x = false -> idents (a ++ x :: b) = idents a ++ idents b).
Proof. exact (conj idents_nil (conj idents_run idents_sep)). Qed.

(* the text the model sends for a valid name consists of benign characters and its identifiers are the
   keyword and the name, nothing else - in both quoting modes *)
Theorem C20_statement_idents : forall k, valid_name (fst k) ->
  idents (use_statement k) = [kw_use; fst k] /\ forallb benign (use_statement k) = true.
Proof. exact statement_idents. Qed.

(* so the model's text of a requested valid name is judged TOk, and it would pass the harmlessness test
   even if it were compared with another requested name's text: the model never produces a `viol` *)
Theorem C20_statement_never_viol : forall callk k, valid_name (fst k) -> In k callk ->
  text_verdict callk (use_statement k) = TOk /\ harmless (map fst callk) (use_statement k) = true.
Proof.
  exact (fun callk k Hv Hin => conj (text_verdict_model callk k Hin)
                                    (statement_harmless k (map fst callk) Hv (in_map fst callk k Hin))).
Qed.

(* what [harmless] means *)
Theorem C20_text_harmless_iff : forall req t,
  harmless req t = true <->
  (forall c, In c t -> In c alphabet \/ c = 32%N \/ c = 34%N \/ c = 59%N) /\
  exists kw rest, idents t = kw :: rest /\ eq_ci kw kw_use = true /\ rest <> [] /\ forall i, In i rest -> In i req.
Proof. exact harmless_iff. Qed.

(* the driver's `viol statement-text`, declaratively: the text is not the model's text of any requested
   valid name, and it carries a character other than alphabet / blank / quote / semicolon, or its
   identifiers are not "USE followed by at least one name, all of them requested valid names" *)
Theorem C20_text_viol_iff : forall callk t,
  text_verdict callk t = TViol <->
  (forall k, In k callk -> t <> use_statement k) /\
  ((exists c, In c t /\ ~ (In c alphabet \/ c = 32%N \/ c = 34%N \/ c = 59%N)) \/
   ~ (exists kw rest, idents t = kw :: rest /\ eq_ci kw kw_use = true /\ rest <> [] /\
                      forall i, In i rest -> exists k, In k callk /\ fst k = i)).
Proof. exact text_viol_iff. Qed.

(* ---- the check of the server's answer ------------------------------------------------------ *)

(* a USE counts as successful on a connection exactly when the server answered SetKeyspace with
   the requested name up to ASCII case *)
Theorem C20_verify_result : forall k r,
  verify_result k r = VOk <-> exists n, r = RSetKeyspace n /\ map to_lower n = map to_lower (fst k).
Proof. exact verify_result_ok_iff. Qed.

(* a server that stores unquoted identifiers lower-cased and quoted ones verbatim is accepted *)
Theorem C20_verify_honest : forall k, verify_result k (RSetKeyspace (canon k)) = VOk.
Proof. exact verify_result_honest. Qed.

(* ---- aggregation of per-connection / per-node results ----------------------------------------- *)

(* Ok iff at least one Ok and nothing but broken-connection errors besides *)
Theorem C20_aggregate_ok : forall l,
  use_keyspace_result l = AOk <->
  (existsb is_ok l = true /\ forallb (fun x => negb (is_err x)) l = true).
Proof. exact use_keyspace_result_ok. Qed.

(* the first error that is not a broken connection is the one reported *)
Theorem C20_aggregate_err : forall l t,
  use_keyspace_result l = AErr t <->
  exists l1 l2, l = l1 ++ CErr t :: l2 /\ forallb (fun x => negb (is_err x)) l1 = true.
Proof. exact use_keyspace_result_err. Qed.

(* hence a successful call means: every node / connection answered Ok or "broken connection" *)
Theorem C20_aggregate_ok_each : forall l,
  use_keyspace_result l = AOk -> forall x, In x l -> x = COk \/ exists t, x = CBroken t.
Proof. exact aggregate_ok_each. Qed.

(* and a pool whose use task has finished answers with another error exactly when one of the
   connections it covered answered with one *)
Theorem C20_pool_answer_err : forall r,
  forallb (fun c => is_done (stat r c)) (cov r) = true ->
  (answer_of r = PAErr <-> exists c t, In c (cov r) /\ stat r c = Done (CErr t)).
Proof. exact answer_of_err_done. Qed.

(* the function's contract: it must not be called on an empty list *)
Theorem C20_aggregate_panic : forall l, use_keyspace_result l = APanic <-> l = [].
Proof. exact use_keyspace_result_panic. Qed.

(* ---- one node's connection pool: all schedules ------------------------------------------------ *)

(* C20_inv.  In every reachable state of the pool (any interleaving of opening, keyspace setup,
   use requests - overlapping ones included -, USE submissions and answers, timeouts, connection
   loss, removal, resharding), every live connection visible to requests has been sent a USE for
   the pool's current keyspace, or the latest use request is still pending and has that USE left to
   submit on it, or the latest use request answered its caller with an error. *)
Theorem C20_inv : forall k0 s k c,
  reachable k0 s -> cur s = Some k -> ph s c = InPool -> alive s c = true ->
  In k (told s c) \/
  (exists r u, cur_uid s = Some u /\ In r (pending s) /\ uid r = u /\ uks r = k /\
               In c (cov r) /\ stat r c = NotSent) \/
  (exists u, cur_uid s = Some u /\ In (u, PAErr) (log s)).
Proof. exact pool_inv. Qed.

(* a new connection is routed through keyspace setup (and is not visible meanwhile): while it is in
   that phase the USE for the keyspace current at that time has been sent on it *)
Theorem C20_setup_first : forall k0 s k c,
  reachable k0 s -> ph s c = Setting k -> In k (told s c).
Proof. exact setting_told. Qed.

(* C20_after_success.  If a use request arrives at a pool on which no other use request is pending
   ("call only one use_keyspace at a time"), no further use request follows, and the pool answers it
   with Ok or with a broken-connection error (the two answers that let Session::use_keyspace return
   Ok, see C20_aggregate_ok), then in every later state every live connection a request can pick -
   opened before, during or after the call - has the keyspace acknowledged by the server and no USE
   frame in flight that could change it. *)
Theorem C20_after_success : forall k0 ls1 s1 raw cs s2 ls2 s3 a c,
  run (init k0) ls1 = Some s1 -> pending s1 = [] ->
  valid_name raw -> step s1 (UseKeyspace raw cs) = Some s2 ->
  no_use ls2 = true -> run s2 ls2 = Some s3 ->
  In (unext s1, a) (log s3) -> a <> PAErr ->
  ph s3 c = InPool -> alive s3 c = true ->
  wire s3 c = [] /\ matchesb s3 c (raw, cs) = true.
Proof. exact after_success. Qed.

(* the same with an honest server, exactly: the acknowledged keyspace is the canonical name of the
   requested one (unquoted: lower-cased; quoted: verbatim), provided no other keyspace whose name equals
   the requested one up to ASCII case but whose canonical name differs was ever used on that connection.
   (The premise comes from the proof route - C20_after_success up to case + C20_overlap_membership -;
   no schedule violating the conclusion without it is known.) *)
Theorem C20_after_success_exact : forall k0 ls1 s1 raw cs s2 ls2 s3 a c,
  hrun (init k0) ls1 = Some s1 -> pending s1 = [] ->
  valid_name raw -> step s1 (UseKeyspace raw cs) = Some s2 ->
  no_use ls2 = true -> hrun s2 ls2 = Some s3 ->
  In (unext s1, a) (log s3) -> a <> PAErr ->
  ph s3 c = InPool -> alive s3 c = true ->
  (forall k', In k' (told s3 c) -> eq_ci (fst k') raw = true -> canon k' = canon (raw, cs)) ->
  wire s3 c = [] /\ acked s3 c = Some (canon (raw, cs)).
Proof. exact after_success_exact. Qed.

(* an answered USE: when the server's answer passes the driver's check, the server-side keyspace of that
   connection matches the requested one at that moment, and the frame leaves the wire *)
Theorem C20_ack_ok_matches : forall s c rep s' u k rest,
  step s (UseAck c rep) = Some s' -> wire s c = (u, k) :: rest -> verify_result k rep = VOk ->
  matchesb s' c k = true /\ wire s' c = rest.
Proof. exact ack_ok_matches. Qed.

(* progress (safety-style liveness): in every reachable state a pending pool-level use never waits on
   nothing - it has a USE left to submit, or a submitted USE sits on the wire of a live connection (so an
   answer or the connection's death can still come), or all its connections are done and the answer to
   the caller is enabled *)
Theorem C20_pool_progress : forall k0 s r,
  reachable k0 s -> In r (pending s) ->
  (exists c s', In c (cov r) /\ step s (UseSend (uid r) c) = Some s') \/
  (exists c s', In c (cov r) /\ stat r c = Sent /\ step s (UseAck c RError) = Some s') \/
  (exists s', step s (UseDone (uid r) (answer_of r)) = Some s').
Proof. exact pool_progress. Qed.

(* the pool of a node discovered later is constructed with the keyspace; without any use request it
   never shows a live connection that is not in that keyspace *)
Theorem C20_fresh_pool : forall k ls s c,
  no_use ls = true -> run (init (Some k)) ls = Some s ->
  ph s c = InPool -> alive s c = true ->
  wire s c = [] /\ matchesb s c k = true.
Proof. exact fresh_pool. Qed.

(* an invalid name is rejected locally: the state does not change, nothing is sent.  (This restates the
   UseKeyspace branch of [step] - the model does validation first by construction; that the CODE
   validates before anything is sent is observed by the e2e check of the USE texts.) *)
Theorem C20_name_rejected : forall s raw cs, ~ valid_name raw -> step s (UseKeyspace raw cs) = Some s.
Proof. exact use_rejected. Qed.

(* every USE ever submitted on any connection carries a valid name, and its text reads back as that
   single identifier *)
Theorem C20_only_valid_names_sent : forall k0 s k c,
  (forall k, k0 = Some k -> valid_name (fst k)) -> reachable k0 s ->
  In k (told s c) -> valid_name (fst k) /\ parse_use (use_statement k) = Some k.
Proof. exact told_valid. Qed.

(* ---- the cluster worker -------------------------------------------------------------------------- *)

(* C20_new_nodes.  Use requests and metadata application are handled by the same task one at a time.
   Whatever their order: every node of the current cluster state either belongs to the snapshot the
   latest use request was fanned out to, or its pool was constructed with that keyspace. *)
Theorem C20_new_nodes : forall n0 ls k,
  used (wrun (winit n0) ls) = Some k ->
  exists pre u t, fans (wrun (winit n0) ls) = pre ++ [(u, k, t)] /\
    forall n, In n (nodes (wrun (winit n0) ls)) -> In n t \/ born (wrun (winit n0) ls) n = Some k.
Proof. exact new_nodes. Qed.

(* ---- overlapping calls ------------------------------------------------------------------------------ *)

(* different names: the acknowledged form of the guarantee FAILS (documented: "call only one
   use_keyspace at a time"): both calls answered Ok by an honest server, the live pool connection ends
   in the keyspace of the first call, the pool's current keyspace is the second *)
Theorem C20_overlap_refuted :
  exists ls s c ka kb na,
    hrun (init None) ls = Some s /\ ka <> kb /\ cur s = Some kb /\
    In (0, PAOk) (log s) /\ In (1, PAOk) (log s) /\ pending s = [] /\
    ph s c = InPool /\ alive s c = true /\ wire s c = [] /\
    acked s c = Some na /\ na = canon ka /\ matchesb s c kb = false.
Proof. exact overlap_refuted. Qed.

(* what IS guaranteed for every interleaving of calls (overlapping or not, same or different names)
   with an honest server: a connection is only ever acknowledged in the canonical keyspace of a USE
   that was sent on it - i.e. of one of the calls (or of the keyspace it was set up with) *)
Theorem C20_overlap_membership : forall k0 ls s c n,
  hrun (init k0) ls = Some s -> acked s c = Some n -> exists k, In k (told s c) /\ n = canon k.
Proof. exact overlap_membership. Qed.

(* so overlapping calls with the SAME name can only leave a connection in that keyspace *)
Theorem C20_overlap_same_name : forall k0 ls s c n k,
  hrun (init k0) ls = Some s -> (forall k', In k' (told s c) -> k' = k) -> acked s c = Some n -> n = canon k.
Proof. exact overlap_same_name. Qed.

(* an honest run is a run: C20_inv, C20_after_success ... apply to it *)
Theorem C20_honest_is_run : forall ls s s', hrun s ls = Some s' -> run s ls = Some s'.
Proof. exact hrun_run. Qed.

(* ---- the whole session: cluster worker x one pool per node -------------------------------------- *)

(* C20_session.  The product system of section 6 of the model (Session::use_keyspace -> worker arm:
   used_keyspace + snapshot + fan-out task -> per node the pool-level use of section 2 -> per
   connection USE; metadata application creating the pools of new nodes with used_keyspace; the
   answers aggregated by use_keyspace_result on the way back).  For every schedule: if a call is made
   while no other call's fan-out is in flight, no call follows, and it RETURNED Ok, then in every later
   state, for every node of the current cluster state - present before the call, added while it was in
   progress, or added afterwards - every live connection a request can pick from that node's pool has
   the keyspace acknowledged by the server and no USE frame in flight. *)
Theorem C20_session : forall n0 ls1 s1 raw cs s2 ls2 s3 n c,
  yrun (yinit n0) ls1 = Some s1 -> sfans s1 = [] ->
  valid_name raw -> ystep s1 (YUse raw cs) = Some s2 ->
  no_yuse ls2 = true -> yrun s2 ls2 = Some s3 ->
  In (sfnext s1, true) (slog s3) ->
  In n (snodes s3) -> ph (spool s3 n) c = InPool -> alive (spool s3 n) c = true ->
  wire (spool s3 n) c = [] /\ matchesb (spool s3 n) c (raw, cs) = true.
Proof. exact session_after_success. Qed.

(* ---- the acceptor run on end-to-end traces ---------------------------------------------------------- *)

(* an accepted trace satisfies the property: a request started after a use_keyspace call that
   began with no other call in flight, was not overlapped, and returned Ok - with no call since -
   arrives on a connection whose acknowledged keyspace is the canonical name of that keyspace *)
Theorem C20_accept_sound : forall k0 t1 u k t2 t3 q t4 x t5,
  accept_trace k0 (t1 ++ ECall u k :: t2 ++ ERet u true :: t3 ++ EStart q :: t4 ++ EFrame q x :: t5) = true ->
  pending_calls t1 [] = [] ->
  no_call t2 = true -> no_call t3 = true -> no_call t4 = true ->
  forallb (fun e => negb (starts q e)) t4 = true ->
  x = Some (canon k).
Proof. exact accept_sound. Qed.

(* the driver says `viol request-after-successful-use-in-other-keyspace` only when [prop_violb] holds on the
   trace (its other scenario violations: `viol statement-text` = [text_verdict] = TViol, see C20_text_viol_iff;
   `viol invalid-name-accepted` = [valid_nameb] = false, see C20_valid_nameb).  [prop_violb] is the
   declarative property: sound (every `viol` rests on the decomposition of C20_accept_sound with a wrong
   keyspace), complete for traces in which the call does not return twice, and never accepted *)
Theorem C20_viol_sound : forall tr, prop_violb tr = true -> decl_viol tr.
Proof. exact prop_violb_sound. Qed.

Theorem C20_viol_complete : forall t1 u k t2 t3 q t4 x t5,
  pending_calls t1 [] = [] -> no_call t2 = true -> no_ret u t2 = true -> no_call t3 = true -> no_call t4 = true ->
  forallb (fun e => negb (starts q e)) t4 = true -> x <> Some (canon k) ->
  prop_violb (t1 ++ ECall u k :: t2 ++ ERet u true :: t3 ++ EStart q :: t4 ++ EFrame q x :: t5) = true.
Proof. exact prop_violb_complete. Qed.

Theorem C20_viol_rejected : forall k0 tr, prop_violb tr = true -> accept_trace k0 tr = false.
Proof. exact prop_viol_not_accepted. Qed.

(* [valid_nameb] is the boolean the driver evaluates for `viol` on names *)
Theorem C20_valid_nameb : forall s, valid_nameb s = true <-> valid_name s.
Proof. exact valid_nameb_spec. Qed.

(* ---- deepening round 4: the extracted functions no theorem mentioned, and full-strength forms ---- *)

(* [make_verified] (VerifiedKeyspaceName::new; the driver's N / V cases and its filter of the requested
   names): Ok exactly for valid names, with the name and the flag stored unchanged; otherwise the error of
   [verify_name] (C20_name_err); it fails iff the name is not valid *)
Theorem C20_make_verified : forall s cs,
  (forall k, make_verified s cs = Ok k <-> valid_name s /\ k = (s, cs)) /\
  (forall e, make_verified s cs = Err e <-> verify_name s = Err e) /\
  ((exists e, make_verified s cs = Err e) <-> ~ valid_name s).
Proof. exact make_verified_spec. Qed.

(* the boolean the driver evaluates before it says `viol` in a V case ([valid_nameb s && eq_ci n s] for a
   SetKeyspace answer, false otherwise) is the model's success on that connection, for every name that
   passes validation; for every other name it is false *)
Theorem C20_driver_v_spec : forall s cs k r,
  make_verified s cs = Ok k ->
  (verify_result k r = VOk <-> exists n, r = RSetKeyspace n /\ valid_nameb s && eq_ci n s = true).
Proof. exact driver_v_spec. Qed.

Theorem C20_driver_v_spec_invalid : forall s n, ~ valid_name s -> valid_nameb s && eq_ci n s = false.
Proof. exact driver_v_spec_invalid. Qed.

(* [eq_ci] (str::eq_ignore_ascii_case) is an equivalence relation *)
Theorem C20_eq_ci_equiv :
  (forall a, eq_ci a a = true) /\
  (forall a b, eq_ci a b = true -> eq_ci b a = true) /\
  (forall a b c, eq_ci a b = true -> eq_ci b c = true -> eq_ci a c = true).
Proof. exact eq_ci_equiv. Qed.

(* the acceptor is prefix-closed: every prefix of an accepted trace is accepted *)
Theorem C20_accept_prefix : forall k0 t1 t2, accept_trace k0 (t1 ++ t2) = true -> accept_trace k0 t1 = true.
Proof. exact accept_prefix. Qed.

(* [first_reject] (the `event=<i>` of the driver's report): None iff the trace is accepted; Some j iff j is
   the position of the first rejected event - the prefix before it is accepted, the prefix with it is not *)
Theorem C20_first_reject : forall k0 tr,
  (first_reject (acc_init k0) tr 0 = None <-> accept_trace k0 tr = true) /\
  (forall j, first_reject (acc_init k0) tr 0 = Some j <->
     exists pre e post, tr = pre ++ e :: post /\ j = List.length pre /\
                        accept_trace k0 pre = true /\ accept_trace k0 (pre ++ [e]) = false).
Proof. exact first_reject_spec. Qed.

(* [text_verdict]: TOk iff the text is the model's text of a requested valid name; TDiff iff it is not but
   is harmless (C20_text_harmless_iff); TViol: C20_text_viol_iff *)
Theorem C20_text_ok_iff : forall callk t,
  text_verdict callk t = TOk <-> exists k, In k callk /\ t = use_statement k.
Proof. exact text_verdict_ok_iff. Qed.

Theorem C20_text_diff_iff : forall callk t,
  text_verdict callk t = TDiff <->
  (forall k, In k callk -> t <> use_statement k) /\ harmless (map fst callk) t = true.
Proof. exact text_verdict_diff_iff. Qed.

(* [texts_verdict] (what the driver calls on all texts of a scenario): TOk iff every text is the model's text
   of a requested valid name; otherwise verdict and text of the FIRST text that is not *)
Theorem C20_texts_verdict : forall callk ts,
  (fst (texts_verdict callk ts) = TOk <->
   forall t, In t ts -> exists k, In k callk /\ t = use_statement k) /\
  (forall v t, v <> TOk ->
     (texts_verdict callk ts = (v, t) <->
      exists pre post, ts = pre ++ t :: post /\
        (forall t', In t' pre -> exists k, In k callk /\ t' = use_statement k) /\
        text_verdict callk t = v)).
Proof. exact texts_verdict_spec. Qed.

(* a violation stays a violation however the trace continues *)
Theorem C20_viol_ext : forall t1 t2, prop_violb t1 = true -> prop_violb (t1 ++ t2) = true.
Proof. exact prop_violb_ext. Qed.

(* [prop_violb] is silent on every trace without a call that returned Ok *)
Theorem C20_viol_needs_ok : forall tr, prop_violb tr = true -> exists u, In (ERet u true) tr.
Proof. exact prop_violb_needs_ok. Qed.

(* non-vacuity *)
Example C20_ex_names :
  verify_name [97; 95; 90; 48]%N = Ok tt /\ verify_name [] = Err NEmpty /\
  verify_name [97; 34; 59]%N = Err (NIllegal 34%N) /\
  verify_name (repeat 233%N 49) = Err (NTooLong 49%N) /\ verify_name (repeat 233%N 48) = Err (NIllegal 233%N) /\
  use_statement ([75; 115]%N, true) = [85; 83; 69; 32; 34; 75; 115; 34]%N /\
  use_statement ([75; 115]%N, false) = [85; 83; 69; 32; 75; 115]%N /\
  parse_use [85; 83; 69; 32; 107; 59; 100]%N = None.
Proof. repeat split; vm_compute; reflexivity. Qed.
Example C20_ex_result :
  verify_result ([75; 115]%N, false) (RSetKeyspace [107; 115]%N) = VOk /\
  verify_result ([75; 115]%N, true) (RSetKeyspace [107; 116]%N) = VMismatch /\
  use_keyspace_result [CBroken 1%N; COk; CBroken 2%N] = AOk /\
  use_keyspace_result [CBroken 1%N; CBroken 2%N] = ABroken 2%N /\
  use_keyspace_result [COk; CErr 7%N; CErr 8%N] = AErr 7%N.
Proof. repeat split; vm_compute; reflexivity. Qed.

(* a schedule meeting the hypotheses of C20_after_success: connection 0 is in the pool before the
   call, 1 is being opened when the call arrives and becomes ready during it, 2 is opened after it *)
Definition ex_ks : name := [107%N; 115%N].
Definition ex_ls1 : list label := [OpenStart; OpenReady 0 true false Accept; OpenStart].
Definition ex_ls2 : list label :=
  [OpenReady 1 true false Accept; OpenStart; UseSend 0 0;
   SetKsDone 1 (Some (RSetKeyspace ex_ks)) false Accept; UseAck 0 (RSetKeyspace ex_ks);
   UseDone 0 PAOk; OpenReady 2 true false Accept;
   SetKsDone 2 (Some (RSetKeyspace ex_ks)) false Accept; Request 0; Request 1; Request 2].
Example C20_ex_after_success :
  match run (init None) ex_ls1 with
  | Some s1 =>
      match pending s1, step s1 (UseKeyspace ex_ks false) with
      | [], Some s2 =>
          match run s2 ex_ls2 with
          | Some s3 =>
              (no_use ex_ls2, existsb (fun e => Nat.eqb (fst e) (unext s1)) (log s3),
               map (fun c => (match ph s3 c with InPool => true | _ => false end, alive s3 c,
                              wire s3 c, matchesb s3 c (ex_ks, false))) [0; 1; 2])
          | None => (false, false, [])
          end
      | _, _ => (false, false, [])
      end
  | None => (false, false, [])
  end = (true, true, [(true, true, [], true); (true, true, [], true); (true, true, [], true)]).
Proof. vm_compute. reflexivity. Qed.

(* the schedule of C20_ex_after_success is an honest-server run and meets the case premise of
   C20_after_success_exact: every connection is acknowledged exactly in canon (ks, false) = ks *)
Example C20_ex_exact :
  match hrun (init None) ex_ls1 with
  | Some s1 =>
      match step s1 (UseKeyspace ex_ks false) with
      | Some s2 =>
          match hrun s2 ex_ls2 with
          | Some s3 => map (fun c => (acked s3 c, told s3 c)) [0; 1; 2]
          | None => []
          end
      | None => []
      end
  | None => []
  end = [(Some ex_ks, [(ex_ks, false)]); (Some ex_ks, [(ex_ks, false)]); (Some ex_ks, [(ex_ks, false)])] /\
  canon (ex_ks, false) = ex_ks.
Proof. split; vm_compute; reflexivity. Qed.

(* a failed use (one connection refuses) leaves a connection outside the keyspace: C20_inv's third case *)
Example C20_ex_failed :
  match run (init None)
          [OpenStart; OpenReady 0 true false Accept; UseKeyspace [97%N] false; UseSend 0 0;
           UseAck 0 RError; UseDone 0 PAErr] with
  | Some s => (cur s, acked s 0, log s)
  | None => (None, None, [])
  end = (Some ([97%N], false), None, [(0, PAErr)]).
Proof. vm_compute. reflexivity. Qed.

Example C20_ex_worker :
  let w := wrun (winit 2) [WApply [0; 1] 1; WUse (ex_ks, false); WApply [0; 2] 2] in
  (nodes w, map (born w) (nodes w), fans w) =
  ([0; 2; 3; 4], [None; None; Some (ex_ks, false); Some (ex_ks, false)], [(0, (ex_ks, false), [0; 1; 2])]).
Proof. vm_compute. reflexivity. Qed.

(* same-name overlap under an honest server: both calls Ok, the connection is in that keyspace *)
Example C20_ex_same_name_overlap :
  match hrun (init None)
          [OpenStart; OpenReady 0 true false Accept; UseKeyspace ex_ks false; UseKeyspace ex_ks false;
           UseSend 1 0; UseSend 0 0; UseAck 0 (RSetKeyspace ex_ks); UseAck 0 (RSetKeyspace ex_ks);
           UseDone 1 PAOk; UseDone 0 PAOk] with
  | Some s => (acked s 0, told s 0, log s)
  | None => (None, [], [])
  end = (Some ex_ks, [(ex_ks, false); (ex_ks, false)], [(1, PAOk); (0, PAOk)]) /\
  hrun (init None) [OpenStart; OpenReady 0 true false Accept; UseKeyspace ex_ks false; UseSend 0 0;
                    UseAck 0 (RSetKeyspace [120%N])] = None.
Proof. split; vm_compute; reflexivity. Qed.

Example C20_ex_accept :
  accept_trace None [EStart 0; EFrame 0 None; ECall 0 (ex_ks, false); EStart 1; EFrame 1 None; ERet 0 true;
                     EStart 2; EFrame 2 (Some ex_ks)] = true /\
  accept_trace None [ECall 0 (ex_ks, false); ERet 0 true; EStart 2; EFrame 2 None] = false.
Proof. split; vm_compute; reflexivity. Qed.

(* a session schedule meeting the hypotheses of C20_session: node 0 from the start, node 1 added before
   the call, node 2 while it is in progress, node 3 after it returned *)
Definition ex_y1 : list ylabel :=
  [YPool 0 OpenStart; YPool 0 (OpenReady 0 true false Accept); YApply [0] 1;
   YPool 1 OpenStart; YPool 1 (OpenReady 0 true false Accept)].
Definition ex_setup (n : nat) : list ylabel :=
  [YPool n OpenStart; YPool n (OpenReady 0 true false Accept);
   YPool n (SetKsDone 0 (Some (RSetKeyspace ex_ks)) false Accept)].
Definition ex_use (n : nat) : list ylabel :=
  [YDeliver 0 n; YPool n (UseSend 0 0); YPool n (UseAck 0 (RSetKeyspace ex_ks)); YPool n (UseDone 0 PAOk)].
Definition ex_y2 : list ylabel :=
  YApply [0; 1] 1 :: ex_use 0 ++ ex_setup 2 ++ ex_use 1 ++ [YReturn 0 true; YApply [0; 1; 2] 1] ++ ex_setup 3 ++
  [YPick 0 0; YPick 1 0; YPick 2 0; YPick 3 0].
Example C20_ex_session :
  match yrun (yinit 1) ex_y1 with
  | Some s1 =>
      match sfans s1, ystep s1 (YUse ex_ks false) with
      | [], Some s2 =>
          match yrun s2 ex_y2 with
          | Some s3 =>
              (no_yuse ex_y2, sfnext s1, slog s3, snodes s3,
               map (fun n => (match ph (spool s3 n) 0 with InPool => true | _ => false end, alive (spool s3 n) 0,
                              wire (spool s3 n) 0, matchesb (spool s3 n) 0 (ex_ks, false))) (snodes s3))
          | None => (false, 0, [], [], [])
          end
      | _, _ => (false, 0, [], [], [])
      end
  | None => (false, 0, [], [], [])
  end = (true, 0, [(0, true)], [0; 1; 2; 3],
         [(true, true, [], true); (true, true, [], true); (true, true, [], true); (true, true, [], true)]).
Proof. vm_compute. reflexivity. Qed.

(* a node answering with a non-broken error makes the call return an error *)
Example C20_ex_session_err :
  match yrun (yinit 1) [YPool 0 OpenStart; YPool 0 (OpenReady 0 true false Accept); YUse ex_ks false; YDeliver 0 0;
                        YPool 0 (UseSend 0 0); YPool 0 (UseAck 0 RError); YPool 0 (UseDone 0 PAErr); YReturn 0 false] with
  | Some s => (slog s, yrun s [YReturn 0 true])
  | None => ([], None)
  end = ([(0, false)], None).
Proof. vm_compute. reflexivity. Qed.

(* anchors of the statement-text verdict: the model's texts, a reformatted text, texts that smuggle something in *)
Example C20_ex_anchor_texts :
  let callk := [(ex_ks, false); ([75; 115]%N, true)] in
  text_verdict callk [85; 83; 69; 32; 107; 115]%N = TOk /\
  text_verdict callk [85; 83; 69; 32; 34; 75; 115; 34]%N = TOk /\
  text_verdict callk [117; 115; 101; 32; 107; 115]%N = TDiff /\
  text_verdict callk [85; 83; 69; 32; 107; 115; 59]%N = TDiff /\
  text_verdict callk [85; 83; 69; 32; 107; 115; 59; 100; 114; 111; 112]%N = TViol /\
  text_verdict callk [85; 83; 69; 32; 107; 115; 45; 45]%N = TViol /\
  text_verdict callk [85; 83; 69; 32; 110; 111; 112; 101]%N = TViol /\
  text_verdict callk [85; 83; 69; 32]%N = TViol /\
  text_verdict callk [107; 115]%N = TViol /\
  text_verdict [] [85; 83; 69; 32; 107; 115]%N = TViol /\
  idents [85; 83; 69; 32; 34; 75; 115; 34; 59; 120]%N = [[85; 83; 69]; [75; 115]; [120]]%N /\
  texts_verdict callk [[85; 83; 69; 32; 107; 115]; [117; 115; 101; 32; 107; 115]; [107; 115]]%N = (TDiff, [117; 115; 101; 32; 107; 115]%N).
Proof. repeat split; vm_compute; reflexivity. Qed.

(* anchors of the definitions the driver evaluates (accepting AND rejecting inputs) *)
Example C20_ex_anchor_names :
  valid_nameb [107; 95; 57]%N = true /\ valid_nameb [] = false /\ valid_nameb [107; 59]%N = false /\
  valid_nameb (repeat 107%N 48) = true /\ valid_nameb (repeat 107%N 49) = false /\
  valid_nameb [233]%N = false /\ valid_nameb [34; 107; 34]%N = false /\
  List.length alphabet = 63 /\
  parse_use [85; 83; 69; 32; 107]%N = Some ([107]%N, false) /\
  parse_use [85; 83; 69; 32; 34; 107; 34]%N = Some ([107]%N, true) /\
  parse_use [85; 83; 69; 32; 107; 32; 107]%N = None /\ parse_use [85; 83; 69; 32; 34; 107]%N = None /\
  parse_use [117; 115; 101; 32; 107]%N = None /\ parse_use [85; 83; 69; 32]%N = None /\
  canon ([75; 115]%N, false) = [107; 115]%N /\ canon ([75; 115]%N, true) = [75; 115]%N /\
  eq_ci [75; 115]%N [107; 83]%N = true /\ eq_ci [75; 115]%N [107; 116]%N = false /\ eq_ci [107]%N [107; 107]%N = false.
Proof. repeat split; vm_compute; reflexivity. Qed.
Example C20_ex_anchor_trace :
  (* the property predicate: violated / not violated *)
  prop_violb [ECall 0 (ex_ks, false); ERet 0 true; EStart 1; EFrame 1 None] = true /\
  prop_violb [ECall 0 (ex_ks, false); ERet 0 true; EStart 1; EFrame 1 (Some [107; 116]%N)] = true /\
  prop_violb [ECall 0 (ex_ks, false); ERet 0 true; EStart 1; EFrame 1 (Some ex_ks)] = false /\
  prop_violb [ECall 0 (ex_ks, false); EStart 1; ERet 0 true; EFrame 1 None] = false /\
  prop_violb [ECall 0 (ex_ks, false); ERet 0 false; EStart 1; EFrame 1 None] = false /\
  prop_violb [ECall 0 (ex_ks, false); ECall 1 ([97]%N, false); ERet 0 true; ERet 1 true; EStart 2; EFrame 2 None] = false /\
  prop_violb [ECall 0 (ex_ks, false); ERet 0 true; ECall 1 ([97]%N, false); EStart 2; EFrame 2 None] = false /\
  (* the acceptor is stricter than the property (rejections that are NOT violations) *)
  accept_trace None [EStart 0; EFrame 0 (Some ex_ks)] = false /\
  accept_trace None [ECall 0 (ex_ks, false); ERet 0 false; EStart 1; EFrame 1 (Some [97]%N)] = false /\
  accept_trace None [ERet 0 true] = false /\ accept_trace None [EFrame 0 None] = false /\
  (* and lenient where calls overlap *)
  accept_trace None [ECall 0 (ex_ks, false); ECall 1 ([97]%N, false); ERet 0 true; ERet 1 true; EStart 2; EFrame 2 (Some [97]%N)] = true /\
  accept_trace None [ECall 0 (ex_ks, false); ECall 1 ([97]%N, false); ERet 0 true; ERet 1 true; EStart 2; EFrame 2 (Some [98]%N)] = false /\
  (* after a group of overlapping calls that all returned Ok only the group's keyspaces remain allowed:
     not "none", not an older keyspace; if one of them failed nothing is narrowed *)
  accept_trace None [ECall 0 (ex_ks, false); ECall 1 (ex_ks, false); ERet 0 true; ERet 1 true; EStart 2; EFrame 2 None] = false /\
  accept_trace None [ECall 0 (ex_ks, false); ECall 1 (ex_ks, false); ERet 0 true; ERet 1 true; EStart 2; EFrame 2 (Some ex_ks)] = true /\
  accept_trace None [ECall 0 ([98]%N, false); ERet 0 true; ECall 1 (ex_ks, false); ECall 2 (ex_ks, false); ERet 1 true; ERet 2 true;
                     EStart 3; EFrame 3 (Some [98]%N)] = false /\
  accept_trace None [ECall 0 (ex_ks, false); ECall 1 (ex_ks, false); ERet 0 false; ERet 1 true; EStart 2; EFrame 2 None] = true.
Proof. repeat split; vm_compute; reflexivity. Qed.

(* non-vacuity of the round-4 theorems: concrete inputs meeting their hypotheses / both sides *)
Example C20_ex_d4 :
  make_verified ex_ks true = Ok (ex_ks, true) /\
  make_verified [107; 59]%N false = Err (NIllegal 59%N) /\
  verify_result (ex_ks, true) (RSetKeyspace [75; 83]%N) = VOk /\
  valid_nameb ex_ks && eq_ci [75; 83]%N ex_ks = true /\
  accept_trace None ([ECall 0 (ex_ks, false); ERet 0 true] ++ [EStart 2; EFrame 2 (Some ex_ks)]) = true /\
  first_reject (acc_init None) [ECall 0 (ex_ks, false); ERet 0 true; EStart 2; EFrame 2 None; EStart 3] 0 = Some 3 /\
  accept_trace None [ECall 0 (ex_ks, false); ERet 0 true; EStart 2] = true /\
  accept_trace None ([ECall 0 (ex_ks, false); ERet 0 true; EStart 2] ++ [EFrame 2 None]) = false /\
  first_reject (acc_init None) [ECall 0 (ex_ks, false); ERet 0 true; EStart 2; EFrame 2 (Some ex_ks)] 0 = None /\
  texts_verdict [(ex_ks, false)] [[85; 83; 69; 32; 107; 115]; [85; 83; 69; 32; 107; 115]]%N = (TOk, []) /\
  texts_verdict [(ex_ks, false)] [[85; 83; 69; 32; 107; 115]; [85; 83; 69; 32; 107; 115; 45; 45]; [107; 115]]%N
    = (TViol, [85; 83; 69; 32; 107; 115; 45; 45]%N) /\
  prop_violb [ECall 0 (ex_ks, false); ERet 0 true; EStart 1; EFrame 1 None] = true /\
  prop_violb ([ECall 0 (ex_ks, false); ERet 0 true; EStart 1; EFrame 1 None] ++ [ECall 1 (ex_ks, false); EFrame 1 (Some ex_ks)]) = true /\
  prop_violb [ECall 0 (ex_ks, false); ERet 0 false; EStart 1; EFrame 1 None; ERet 7 false] = false.
Proof. repeat split; vm_compute; reflexivity. Qed.

Print Assumptions C20_name.
Print Assumptions C20_name_err.
Print Assumptions C20_statement.
Print Assumptions C20_idents_equations.
Print Assumptions C20_statement_idents.
Print Assumptions C20_statement_never_viol.
Print Assumptions C20_text_harmless_iff.
Print Assumptions C20_text_viol_iff.
Print Assumptions C20_ack_ok_matches.
Print Assumptions C20_pool_progress.
Print Assumptions C20_verify_result.
Print Assumptions C20_verify_honest.
Print Assumptions C20_aggregate_ok.
Print Assumptions C20_aggregate_err.
Print Assumptions C20_aggregate_ok_each.
Print Assumptions C20_pool_answer_err.
Print Assumptions C20_aggregate_panic.
Print Assumptions C20_inv.
Print Assumptions C20_setup_first.
Print Assumptions C20_after_success.
Print Assumptions C20_fresh_pool.
Print Assumptions C20_name_rejected.
Print Assumptions C20_only_valid_names_sent.
Print Assumptions C20_new_nodes.
Print Assumptions C20_overlap_refuted.
Print Assumptions C20_overlap_membership.
Print Assumptions C20_overlap_same_name.
Print Assumptions C20_honest_is_run.
Print Assumptions C20_session.
Print Assumptions C20_accept_sound.
Print Assumptions C20_viol_sound.
Print Assumptions C20_viol_complete.
Print Assumptions C20_viol_rejected.
Print Assumptions C20_after_success_exact.
Print Assumptions C20_valid_nameb.
Print Assumptions C20_make_verified.
Print Assumptions C20_driver_v_spec.
Print Assumptions C20_driver_v_spec_invalid.
Print Assumptions C20_eq_ci_equiv.
Print Assumptions C20_accept_prefix.
Print Assumptions C20_first_reject.
Print Assumptions C20_text_ok_iff.
Print Assumptions C20_text_diff_iff.
Print Assumptions C20_texts_verdict.
Print Assumptions C20_viol_ext.
Print Assumptions C20_viol_needs_ok.
