(* Property C20 - statements only.  Every theorem is closed by [exact] of a lemma from
   Proofs/Keyspace_proofs.v; the statements are pinned again in /verif/pins/C20.v. *)
From SV Require Import Base.Prelude Model.Keyspace Proofs.Keyspace_proofs.
Open Scope N_scope.

(* ---- names ------------------------------------------------------------------------------- *)

(* a name is accepted iff it is 1..48 characters of [A-Za-z0-9_] *)
Theorem C20_name : forall s, verify_name s = Ok tt <-> valid_name s.
Proof. exact verify_name_ok_iff. Qed.

(* which error a rejected name gets: empty, then too long (with the character count), then the
   first character outside the class *)
Theorem C20_name_err : forall s e,
  verify_name s = Err e <->
  match e with
  | NEmpty => s = []
  | NTooLong n => n = N.of_nat (List.length s) /\ (48 < List.length s)%nat
  | NIllegal c => (1 <= List.length s <= 48)%nat /\
                  exists a b, s = a ++ c :: b /\ Forall (fun x => In x alphabet) a /\ ~ In c alphabet
  end.
Proof. exact verify_name_err. Qed.

(* the text sent for a verified name reads back as USE + exactly that one identifier (quoted iff
   case sensitive), and consists of alphabet characters, the blank of "USE " and the two quotes *)
Theorem C20_statement : forall k, valid_name (fst k) ->
  parse_use (use_statement k) = Some k /\
  forall c, In c (use_statement k) -> In c alphabet \/ c = 32 \/ c = dquote.
Proof. intros k H. split; [exact (parse_use_statement k H)|intros c; exact (use_statement_chars k c H)]. Qed.

(* ---- the check of the server's answer ------------------------------------------------------ *)

(* a USE counts as successful on a connection exactly when the server answered SetKeyspace with
   the requested name up to ASCII case *)
Theorem C20_verify_result : forall k r,
  verify_result k r = VOk <-> exists n, r = RSetKeyspace n /\ map to_lower n = map to_lower (fst k).
Proof. exact verify_result_ok_iff. Qed.

(* a server that stores unquoted identifiers lower-cased and quoted ones verbatim is accepted *)
Theorem C20_verify_honest : forall k, verify_result k (RSetKeyspace (canon k)) = VOk.
Proof. exact verify_result_honest. Qed.

(* ---- aggregation of per-connection / per-node results ----------------------------------------- *)

(* Ok iff at least one Ok and nothing but broken-connection errors besides *)
Theorem C20_aggregate_ok : forall l,
  use_keyspace_result l = AOk <->
  (existsb is_ok l = true /\ forallb (fun x => negb (is_err x)) l = true).
Proof. exact use_keyspace_result_ok. Qed.

(* the first error that is not a broken connection is the one reported *)
Theorem C20_aggregate_err : forall l t,
  use_keyspace_result l = AErr t <->
  exists l1 l2, l = l1 ++ CErr t :: l2 /\ forallb (fun x => negb (is_err x)) l1 = true.
Proof. exact use_keyspace_result_err. Qed.

(* the function's contract: it must not be called on an empty list *)
Theorem C20_aggregate_panic : forall l, use_keyspace_result l = APanic <-> l = [].
Proof. exact use_keyspace_result_panic. Qed.

(* non-vacuity *)
Example C20_ex_names :
  verify_name [97; 95; 90; 48] = Ok tt /\ verify_name [] = Err NEmpty /\
  verify_name [97; 34; 59] = Err (NIllegal 34) /\
  verify_name (repeat 233 49) = Err (NTooLong 49) /\ verify_name (repeat 233 48) = Err (NIllegal 233) /\
  use_statement ([75; 115], true) = [85; 83; 69; 32; 34; 75; 115; 34] /\
  use_statement ([75; 115], false) = [85; 83; 69; 32; 75; 115] /\
  parse_use [85; 83; 69; 32; 107; 59; 100] = None.
Proof. repeat split; vm_compute; reflexivity. Qed.
Example C20_ex_result :
  verify_result ([75; 115], false) (RSetKeyspace [107; 115]) = VOk /\
  verify_result ([75; 115], true) (RSetKeyspace [107; 116]) = VMismatch /\
  use_keyspace_result [CBroken 1; COk; CBroken 2] = AOk /\
  use_keyspace_result [CBroken 1; CBroken 2] = ABroken 2 /\
  use_keyspace_result [COk; CErr 7; CErr 8] = AErr 7.
Proof. repeat split; vm_compute; reflexivity. Qed.

Print Assumptions C20_name.
Print Assumptions C20_name_err.
Print Assumptions C20_statement.
Print Assumptions C20_verify_result.
Print Assumptions C20_verify_honest.
Print Assumptions C20_aggregate_ok.
Print Assumptions C20_aggregate_err.
Print Assumptions C20_aggregate_panic.
