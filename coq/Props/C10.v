(* Property C10 — statements only.  Every theorem is closed by [exact] of a lemma from
   Proofs/ConnFail_proofs.v; the statements are pinned again in /verif/pins/C10.v.

   Model: Model/ConnFail.v — one CQL connection (byte-stream reader, handler map, submit queue,
   keepaliver, orphaner, two-phase submit into the task channel, teardown of router() as of
   /repo bbe7c96) as a labelled transition system [step]; a
   schedule is an arbitrary list of labels, [run] folds [step] over it; [reachable ctl st] = some
   schedule leads from the initial state to [st].  [pending_rids st] = the requests whose callers
   can still be waiting: request ids in the handler map, in the task channel, and of senders that
   hold a channel slot ([c_reserved]). *)
From SV Require Import Base.Prelude Base.Bytes Model.ConnFail Proofs.ConnFail_proofs.
From SV Require Import Model.Retry Proofs.ConnFail_retry Proofs.ConnFail_accept Proofs.ConnFail_phase Proofs.C10_d4_proofs.
Open Scope N_scope.

(* For EVERY schedule: once a fault label (end of stream at any byte offset, bad header, frame
   for a stream nobody waits on, keepalive timeout, io error) has put the connection into
   teardown, every request that was pending right after the fault step ends up completed with
   an error of the BrokenConnection class when the teardown has finished -- whatever else is
   interleaved (new submits, pushes of senders that held a slot, dropped callers, late bytes) --
   and whatever is completed after the fault is completed with such an error. *)
Theorem C10_all_fail : forall ctl ls1 l ls2 st1 st2 st3 e e',
  run (conn_init ctl) ls1 = Some st1 ->
  step st1 l = Some st2 -> c_status st2 = TearingDown e ->
  run st2 ls2 = Some st3 -> c_status st3 = Broken e' ->
  e' = e /\
  (forall r, In r (pending_rids st2) ->
     exists o, outcome_of r (c_done st3) = Some o /\ broken_class o = true) /\
  (forall r o, outcome_of r (c_done st3) = Some o -> In (r, o) (c_done st2) \/ broken_class o = true).
Proof. exact all_fail. Qed.

(* Invariant "nobody is forgotten": in every reachable state every request ever submitted is
   completed, or sits in the handler map / submit queue, or its caller dropped it; pending and
   completed are disjoint, nothing is completed twice.  (The [Acct] conjunction.) *)
Theorem C10_accounting : forall ctl st, reachable ctl st ->
  Acct (pending_rids st) (c_done st) (c_submitted st) (c_cancelled st).
Proof. exact accounting. Qed.

(* When the router has finished, nothing is left in any map or queue: every request ever
   submitted has an outcome (or its caller had dropped it). *)
Theorem C10_none_left : forall ctl st e r,
  reachable ctl st -> c_status st = Broken e -> In r (c_submitted st) ->
  (exists o, outcome_of r (c_done st) = Some o) \/ In r (c_cancelled st).
Proof. exact none_left. Qed.

(* A request submitted after receiver.close() fails at once with ChannelError; one submitted
   while the handlers are still being failed is accepted -- and is then pending, i.e. covered by
   C10_all_fail / C10_none_left (the drain fails it). *)
Theorem C10_later_submit_fails : forall ctl st r st',
  reachable ctl st -> chan_closed st = true -> step st (Reserve r) = Some st' ->
  outcome_of r (c_done st') = Some FailChannel /\ pending_rids st' = pending_rids st.
Proof. exact later_submit_fails. Qed.

Theorem C10_submit_during_teardown : forall ctl st e r st',
  reachable ctl st -> c_status st = TearingDown e -> step st (Reserve r) = Some st' ->
  c_status st' = TearingDown e /\ In r (pending_rids st').
Proof. exact submit_during_teardown. Qed.

(* The error a request fails with names the phase it was caught in: in EVERY reachable state a request
   failed with the router's error e only if e is THE error this connection went into teardown with (one
   root cause per connection, for handlers and for tasks drained from the channel alike), and a request
   was refused with ChannelError only after receiver.close().  (The tie compares the recorded error classes
   of requests the mock never saw against exactly this: the connection's root cause, ChannelError, or the
   pool's error.) *)
Theorem C10_root_cause : forall ctl st, reachable ctl st ->
  (forall r e, In (r, FailBroken e) (c_done st) -> closing e st) /\
  (forall r, In (r, FailChannel) (c_done st) -> chan_closed st = true).
Proof. exact root_cause. Qed.

(* The same per RUN: after ANY history, once a step has put the connection into teardown with error e, in
   EVERY continuation (1) the connection keeps e, (2) every request it fails with the router's error fails
   with e, (3) whatever is completed afterwards is completed with FailBroken e or is a submit made after
   the fault that was refused with ChannelError after receiver.close(), (4) a request pending at the fault
   can get nothing but FailBroken e, and (5) has got exactly that when the router has finished.  (The
   driver's class check of requests the mock never saw rests on (2)-(4): per broken connection the only
   classes are its root cause and ChannelError.) *)
Theorem C10_root_cause_run : forall ctl ls1 l ls2 st1 st2 st3 e,
  run (conn_init ctl) ls1 = Some st1 -> step st1 l = Some st2 -> c_status st2 = TearingDown e ->
  run st2 ls2 = Some st3 ->
  closing e st3 /\
  (forall r e', In (r, FailBroken e') (c_done st3) -> e' = e) /\
  (forall r o, In (r, o) (c_done st3) ->
     In (r, o) (c_done st2) \/ o = FailBroken e \/
     (o = FailChannel /\ chan_closed st3 = true /\ ~ In r (c_submitted st2))) /\
  (forall r o, In r (pending_rids st2) -> outcome_of r (c_done st3) = Some o -> o = FailBroken e) /\
  (c_status st3 = Broken e -> forall r, In r (pending_rids st2) -> outcome_of r (c_done st3) = Some (FailBroken e)).
Proof. exact root_cause_run. Qed.

(* Progress: while tearing down / draining, a step of the router ([TdStep]) is enabled, or -- when
   the router waits in recv() for a sender that holds a slot -- the [Push] of that sender is; the
   step strictly decreases [td_measure] (handlers + queue + 2*reserved + phase) ... *)
Theorem C10_teardown_progress : forall ctl st e, reachable ctl st ->
  c_status st = TearingDown e \/ c_status st = Draining e ->
  exists st', td_next st = Some st' /\ (td_measure st' < td_measure st)%nat /\
    (c_status st' = TearingDown e \/ c_status st' = Draining e \/
     (c_status st' = Broken e /\ pending_rids st' = [] /\ c_err_sent st' = true)).
Proof. exact td_progress_reachable. Qed.

(* ... after receiver.close() no step of anybody makes the remaining work grow ... *)
Theorem C10_draining_monotone : forall st l st' e,
  c_status st = Draining e -> step st l = Some st' -> (td_measure st' <= td_measure st)%nat.
Proof. exact draining_monotone. Qed.

(* ... so the teardown finishes within [td_measure] such steps with no pending request and the
   error handed to the pool. *)
Theorem C10_teardown_terminates : forall ctl n st e, reachable ctl st ->
  c_status st = TearingDown e \/ c_status st = Draining e -> (td_measure st <= n)%nat ->
  c_status (teardown n st) = Broken e /\ pending_rids (teardown n st) = [] /\
  c_err_sent (teardown n st) = true.
Proof. exact td_terminates_reachable. Qed.

Theorem C10_teardown_is_a_run : forall fuel st, exists ls, run st ls = Some (teardown fuel st) /\
  Forall (fun l => l = TdStep \/ exists r, l = Push r) ls /\ (List.length ls <= fuel)%nat.
Proof. exact teardown_run. Qed.

(* Liveness under fairness, the finite core.  [cnt is_prog ls] = number of steps of the teardown agents
   (router: TdStep, senders holding a slot: Push) in a schedule, [cnt is_subm ls] = number of new submits.
   For EVERY schedule run from a state in teardown, whatever else is interleaved (submits, drops, late
   bytes): (1) the agents can take at most  td_measure st + 2 * (new submits)  steps in total, and (2) a
   schedule that contains that many of their steps HAS finished the teardown: Broken, nothing pending, every
   request ever submitted has an outcome or was dropped by its caller.  Together with
   C10_teardown_progress (while not finished one of their steps is enabled) this is the liveness argument:
   a weakly fair scheduler -- one that does not ignore an enabled router / slot holder for ever -- produces
   a prefix with that many of their steps; each slot holder contributes ONE own step (its Push). *)
Theorem C10_fair_liveness : forall ctl st e ls st', reachable ctl st ->
  c_status st = TearingDown e \/ c_status st = Draining e -> run st ls = Some st' ->
  (td_measure st' + cnt is_prog ls <= td_measure st + 2 * cnt is_subm ls)%nat /\
  ((td_measure st + 2 * cnt is_subm ls <= cnt is_prog ls)%nat ->
     c_status st' = Broken e /\ pending_rids st' = [] /\
     forall r, In r (c_submitted st') -> (exists o, outcome_of r (c_done st') = Some o) \/ In r (c_cancelled st')).
Proof. exact fair_liveness. Qed.

(* receiver.close() is reached after at most handlers + 1 steps of the router, whatever is interleaved
   (new submits included) ... *)
Theorem C10_fair_close : forall ctl ls st st' e, reachable ctl st -> c_status st = TearingDown e ->
  run st ls = Some st' -> (List.length (c_handlers st) < cnt is_td ls)%nat -> chan_closed st' = true.
Proof. exact fair_close. Qed.

(* ... and from then on new submits add nothing: the bound is td_measure alone. *)
Theorem C10_fair_drain : forall ctl st e ls st', reachable ctl st -> c_status st = Draining e ->
  run st ls = Some st' ->
  (td_measure st' + cnt is_prog ls <= td_measure st)%nat /\
  ((td_measure st <= cnt is_prog ls)%nat -> c_status st' = Broken e /\ pending_rids st' = []).
Proof. exact fair_drain. Qed.

(* The peer can cut after any chunk: in an open state a chunk is always accepted, and if the
   connection survives it, end of stream puts it into teardown (inside a header or inside a body). *)
Theorem C10_cut_anywhere : forall st bs, c_status st = Open ->
  exists st1, step st (Recv bs) = Some st1 /\
    (c_status st1 <> Open \/
     exists st2 e, step st1 Eof = Some st2 /\ c_status st2 = TearingDown e /\ (e = EHeaderIo \/ e = EClosedInBody)).
Proof. exact cut_anywhere. Qed.

(* Top-level corollary: after ANY history, once any step has put the connection into teardown,
   at most [td_measure] steps of the router and of the senders that hold a slot complete every
   request ever submitted (or its caller had dropped it), and the error reaches the pool. *)
Theorem C10_fault_completes_all : forall ctl ls l st st2 e,
  run (conn_init ctl) ls = Some st -> step st l = Some st2 -> c_status st2 = TearingDown e ->
  exists fin st3, run st2 fin = Some st3 /\ Forall (fun l => l = TdStep \/ exists r, l = Push r) fin /\
    (List.length fin <= td_measure st2)%nat /\
    c_status st3 = Broken e /\ c_err_sent st3 = true /\
    forall r, In r (c_submitted st2) ->
      (exists o, outcome_of r (c_done st3) = Some o) \/ In r (c_cancelled st3).
Proof. exact fault_completes_all. Qed.

(* What /repo bbe7c96 repaired (finding F15, fixed): with the end of router() as it was before --
   receiver dropped with the writer, no wait for senders holding a slot ([old_finish]) -- there is a
   reachable state from which the old teardown plus the push of such a sender leaves the request
   in the task channel of a finished router: NO schedule ever completes it.  With the present
   [step] this cannot happen (C10_post_fix_router_completes, for EVERY history and fault: a request pending
   at the fault -- a sender holding a slot included -- has failed with the connection's error whenever the
   router finishes, and a finishing schedule exists); the same history as a computed example:
   C10_ex_post_fix_schedule. *)
Theorem C10_pre_fix_router_strands :
  exists st r, reachable false st /\ c_status st = Open /\ c_reserved st = [r] /\
    let st1 := old_finish EHeaderIo st in
    c_status st1 = Broken EHeaderIo /\ c_err_sent st1 = true /\
    exists st2, step st1 (Push r) = Some st2 /\
      forall ls st3, run st2 ls = Some st3 -> In r (c_queue st3) /\ outcome_of r (c_done st3) = None.
Proof. exact pre_fix_router_strands. Qed.

Theorem C10_post_fix_router_completes : forall ctl ls l st st2 e r,
  run (conn_init ctl) ls = Some st -> step st l = Some st2 -> c_status st2 = TearingDown e ->
  In r (pending_rids st2) ->
  (exists fin st3, run st2 fin = Some st3 /\ Forall (fun l => l = TdStep \/ exists r, l = Push r) fin /\
     (List.length fin <= td_measure st2)%nat /\ c_status st3 = Broken e /\
     outcome_of r (c_done st3) = Some (FailBroken e)) /\
  (forall ls2 st3 e', run st2 ls2 = Some st3 -> c_status st3 = Broken e' ->
     e' = e /\ outcome_of r (c_done st3) = Some (FailBroken e)).
Proof. exact post_fix_general. Qed.

(* the history of C10_pre_fix_router_strands under the present [step]: the router waits for the slot holder *)
Example C10_ex_post_fix_schedule :
  match run (conn_init false) [Reserve 1; Push 1; WriterTake (Some 0); Reserve 2; Eof; TdStep; TdStep] with
  | Some st => c_status st = Draining EHeaderIo /\ step st TdStep = None /\
      match run st [Push 2; TdStep; TdStep] with
      | Some st' => c_status st' = Broken EHeaderIo /\ outcome_of 2 (c_done st') = Some (FailBroken EHeaderIo) /\
                    outcome_of 1 (c_done st') = Some (FailBroken EHeaderIo)
      | None => False
      end
  | None => False
  end.
Proof. exact post_fix_router_completes. Qed.

(* No caller is handed a partial frame: a delivered frame has a 9 byte header that passed the
   checks of read_response_frame, exactly the announced number of body bytes, and all of it is a
   contiguous part of the bytes received on the connection. *)
Theorem C10_no_partial : forall ctl st r f,
  reachable ctl st -> In (r, Resp f) (c_done st) ->
  frame_ok f /\ exists pre post, c_received st = pre ++ f_raw f ++ post.
Proof. exact no_partial. Qed.

(* Framing: the bytes received are exactly the frames consumed so far, one after the other, followed
   by the unconsumed rest; every consumed frame passed the checks; a delivered frame is one of them.
   (Stronger than "a contiguous part": delivered frames are frame-aligned.) *)
Theorem C10_framing : forall ctl st, reachable ctl st ->
  c_received st = concat (map f_raw (c_consumed st)) ++ c_rbuf st /\
  Forall frame_ok (c_consumed st) /\
  (forall r f, In (r, Resp f) (c_done st) -> In f (c_consumed st)).
Proof. exact framing. Qed.

(* "(and is retried elsewhere only as the retry policy allows)": what a torn-down connection gives a
   request is a BrokenConnectionError; for EVERY policy of C06's model (default, downgrading,
   fall-through), every policy state and consistency, a NON-idempotent request that got it is not sent
   again.  (That an idempotent one may be is C10_ex_retry_idempotent; how often and where is C06.) *)
Theorem C10_retry_clause : forall o e s cl s' d,
  broken_class o = true -> attempt_error_of o = Some e ->
  decide s (mk_ri e false cl) = (s', d) -> is_retry d = false.
Proof. exact retry_clause. Qed.

(* No caller is handed a frame of another request: a frame delivered to r carries the stream id
   that r was written with ... *)
Theorem C10_no_cross : forall ctl st r f,
  reachable ctl st -> In (r, Resp f) (c_done st) -> In (f_stream f, r) (c_written st).
Proof. exact no_cross. Qed.

(* ... and at no time two outstanding requests share a stream id, a request id is pending twice,
   or a request is completed twice. *)
Theorem C10_unique : forall ctl st, reachable ctl st ->
  NoDup (map fst (c_handlers st)) /\ NoDup (pending_rids st) /\ NoDup (map fst (c_done st)) /\
  (forall s r, In (s, r) (c_handlers st) -> In (s, r) (c_written st)).
Proof. exact streams_unique. Qed.

(* The reader never sits on a complete frame: after a chunk was handled either the connection is
   no longer open or the buffered bytes do not yet form a frame. *)
Theorem C10_reader_complete : forall fuel st, (List.length (c_rbuf st) < fuel)%nat ->
  is_open (drain fuel st) = true -> parse_frame (c_rbuf (drain fuel st)) = NeedMore.
Proof. exact drain_complete. Qed.

(* The parser hands over a frame only when header and `length` body bytes are there. *)
Theorem C10_parse_got : forall buf f rest, parse_frame buf = Got f rest ->
  buf = f_raw f ++ rest /\ List.length (f_hdr f) = 9%nat /\ N.of_nat (List.length (f_body f)) = f_len f /\
  N.land (f_version f) 128 = 128 /\ N.land (f_version f) 127 = 4 /\ valid_opcode (f_opcode f) = true.
Proof. exact parse_frame_got. Qed.

(* Pool: a connection that broke can be handed out only while its error event is unprocessed,
   and never again afterwards. *)
Theorem C10_pool : forall ls p c,
  prun pool_init ls = Some p -> In c (p_shared p) -> In c (p_broken p) -> In c (p_events p).
Proof. exact pool_safe. Qed.

Theorem C10_pool_never_again : forall ls1 ls2 p1 p2 c,
  prun pool_init ls1 = Some p1 -> In c (p_broken p1) -> ~ In c (p_events p1) ->
  prun p1 ls2 = Some p2 -> ~ In c (p_shared p2).
Proof. exact pool_never_again. Qed.

(* What the pool-level part of the tie checks ([pool_accept], extracted: the events recorded at the mock,
   turned into a schedule of the pool machine by [pool_labels], must be a run): in a run, no request is
   taken from a connection after its error event was processed -- and [pool_labels] processes every broken
   connection before the next replacement connection appears. *)
Theorem C10_pool_no_get_after_process : forall l1 c l2 p,
  prun pool_init (l1 ++ PProcess c :: l2) = Some p -> ~ In (PGet c) l2.
Proof. exact pool_no_get_after_process. Qed.

(* The tie's acceptor [simulate] folds [step] over the schedule a recorded trace stands for, SKIPPING labels
   that are not enabled ([run_lenient]); so only its result is a reachable state (every invariant above
   applies to it) -- that the trace itself is a run is checked by the driver ([skipped_labels] = 0), not
   proved.  After the teardown the result is either still open or completely torn down. *)
Theorem C10_simulate_reachable : forall keep t, reachable false (simulate keep t).
Proof. exact simulate_reachable. Qed.

Theorem C10_simulate_settled : forall keep t,
  c_status (simulate keep t) = Open \/
  exists e, c_status (simulate keep t) = Broken e /\ pending_rids (simulate keep t) = [].
Proof. exact simulate_settled. Qed.

(* SOUNDNESS of what the tie's driver evaluates before every `ok` ([accept_obs], extracted): if the
   conjunction holds for the recorded connection traces [conns] and the client results [rs] (request i+1 at
   index i), then for every request: it completed (no hang, no panic); if a row was handed to the caller it
   carries the request's OWN marker, the bytes are intact, and some recorded connection shows -- after the
   request frame with that request id on stream s, and before any other request frame on s -- a written chunk
   that starts with complete frames (header checks passed, announced length = body length) one of which is
   on stream s and has exactly the echo body of that marker and padding length (nothing foreign, nothing
   partial); and a non-idempotent request was written on at most one connection (not re-sent). *)
Theorem C10_accept_sound : forall prefix idem conns rs,
  accept_obs prefix idem conns rs = true ->
  forall i r, nth_error rs i = Some r -> result_ok prefix idem conns (1 + N.of_nat i) r.
Proof. exact accept_sound. Qed.

(* the two trace facts it rests on *)
Theorem C10_sent_table_sound : forall t r body, In (r, body) (sent_table [] t) -> delivered_for r body t.
Proof. exact sent_table_sound. Qed.

Theorem C10_echo_of_sound : forall prefix body m p, echo_of prefix body = Some (m, p) -> echo_shape prefix body m p.
Proof. exact echo_of_sound. Qed.

(* ---- deepening round 4 ---- *)
(* The error has been handed to the pool EXACTLY when the router has finished: in every reachable state
   c_err_sent <-> Broken (before: only shown at the end of the finishing schedule). *)
Theorem C10_err_sent_iff_broken : forall ctl st, reachable ctl st ->
  (c_err_sent st = true <-> exists e, c_status st = Broken e).
Proof. exact err_sent_iff_broken. Qed.

(* Frame: no step of anybody touches c_err_sent or enters Broken -- except the router's last step, taken
   in Draining with an empty channel and no sender holding a slot, which does both at once. *)
Theorem C10_err_sent_frame : forall st l st', step st l = Some st' ->
  (c_err_sent st' = c_err_sent st /\ forall e, c_status st' = Broken e -> c_status st = Broken e) \/
  (l = TdStep /\ exists e, c_status st = Draining e /\ c_queue st = [] /\ c_reserved st = [] /\
     c_status st' = Broken e /\ c_err_sent st' = true).
Proof. exact err_sent_frame. Qed.

(* [skipped_labels] / [run_lenient] (extracted; the driver demands skipped = 0 before `ok`).  Completeness:
   a schedule that IS a run of the model has no skipped label and the lenient replay yields its final state. *)
Theorem C10_run_has_no_skipped : forall ls st st', run st ls = Some st' ->
  skipped_labels st ls = O /\ run_lenient st ls = st'.
Proof. exact run_skipped_zero. Qed.

(* Soundness where nothing is tolerated: if the replay ends in an open connection, zero skipped labels and no
   KaTimeout label (no client-side close in the trace) mean the schedule is a run, label for label.  (In a
   state that is not open the tolerated skips -- writer / keepaliver steps of requests read after the
   breaking bytes -- are real omissions; see C10_ex_skipped.) *)
Theorem C10_skipped_zero_open_is_run : forall ls st, skipped_labels st ls = O ->
  is_open (run_lenient st ls) = true -> ~ In KaTimeout ls -> run st ls = Some (run_lenient st ls).
Proof. exact skipped_zero_open. Qed.

(* In general the replay's result is reached by exactly the enabled labels, in order ([taken]). *)
Theorem C10_lenient_taken : forall ls st, run st (taken st ls) = Some (run_lenient st ls).
Proof. exact lenient_taken. Qed.

(* [pool_accept] (extracted; the driver's pool-level verdict), declaratively on the recorded events: in an
   accepted event list, once a replacement connection has appeared (EvAdd) after connection c broke, no request
   arrives on c any more.  (Accepting and rejecting instances: C10_ex_pool_accept.) *)
Theorem C10_pool_accept_sound : forall es, pool_accept es = true ->
  forall l1 c l2 c' l3, es = l1 ++ EvBreak c :: l2 ++ EvAdd c' :: l3 -> ~ In (EvGet c) l3.
Proof. exact pool_accept_sound. Qed.

(* ---- non-vacuity: concrete schedules ---------------------------------------------------- *)
Definition ex_hdr (stream len : N) : list N := [132; 0; 0; stream; 8; 0; 0; 0; len].

(* three requests written on streams 0,1,2; the answer to stream 1 arrives in two chunks, then the
   peer cuts 4 bytes into the next header: request 11 got its frame, 10 and 12 fail, a submit after
   receiver.close() fails at once, nothing is pending, the error reached the pool. *)
Example C10_ex_cut :
  let ls := [Reserve 10; Push 10; Reserve 11; Push 11; WriterTake (Some 0); WriterTake (Some 1);
             Reserve 12; Push 12; WriterTake (Some 2);
             Recv (ex_hdr 1 2 ++ [7]); Recv [9; 132; 0; 0; 0]; Eof; TdStep; TdStep; TdStep; Reserve 13; TdStep] in
  match run (conn_init false) ls with
  | Some st =>
      c_status st = Broken EHeaderIo /\ pending_rids st = [] /\ c_err_sent st = true /\
      outcome_of 11 (c_done st) = Some (Resp (mk_frame (ex_hdr 1 2) [7; 9])) /\
      outcome_of 10 (c_done st) = Some (FailBroken EHeaderIo) /\
      outcome_of 12 (c_done st) = Some (FailBroken EHeaderIo) /\
      outcome_of 13 (c_done st) = Some FailChannel
  | None => False
  end.
Proof. vm_compute. repeat split; reflexivity. Qed.

(* the hypotheses of C10_all_fail are met, with a request in the handler map, one in the channel and
   one whose sender holds a slot at the fault *)
Example C10_ex_all_fail_hyps :
  exists st1 st2 st3,
    run (conn_init false) [Reserve 10; Push 10; Reserve 11; Push 11; WriterTake (Some 0); Reserve 12; Recv [132; 0; 0]] = Some st1 /\
    step st1 Eof = Some st2 /\ c_status st2 = TearingDown EHeaderIo /\ pending_rids st2 = [10; 11; 12] /\
    run st2 [TdStep; TdStep; TdStep; Push 12; TdStep; TdStep] = Some st3 /\ c_status st3 = Broken EHeaderIo.
Proof. eexists. eexists. eexists. vm_compute. repeat split; reflexivity. Qed.

(* fault kinds: frame for a stream nobody waits on; bad version; client direction bit; unknown
   opcode; keepalive timeout; end of stream inside a body *)
Example C10_ex_faults :
  (exists st, run (conn_init false) [Reserve 1; Push 1; WriterTake (Some 0); Recv (ex_hdr 5 0)] = Some st /\
              c_status st = TearingDown (EUnexpectedStream 5)) /\
  parse_frame [133; 0; 0; 0; 8; 0; 0; 0; 0] = Bad (VersionNotSupported 5) /\
  parse_frame [4; 0; 0; 0; 8; 0; 0; 0; 0] = Bad FrameFromClient /\
  parse_frame [132; 0; 0; 0; 119; 0; 0; 0; 0] = Bad (UnknownOpcode 119) /\
  parse_frame [132; 0; 0; 0; 8; 255; 255; 255; 255; 1; 2] = NeedMore /\
  parse_frame [132; 0; 0; 0; 8; 0; 0; 0] = NeedMore /\
  (exists st, run (conn_init false) [Reserve 1; Push 1; WriterTake (Some 0); KaTick 2; WriterTake (Some 1); KaTimeout] = Some st /\
              c_status st = TearingDown EKeepaliveTimeout /\ pending_rids st = [1; 2]) /\
  (exists st, run (conn_init false) [Reserve 1; Push 1; WriterTake (Some 0); Recv (ex_hdr 0 4 ++ [1; 2]); Eof] = Some st /\
              c_status st = TearingDown EClosedInBody).
Proof. repeat split; try (eexists; vm_compute; repeat split; reflexivity); vm_compute; reflexivity. Qed.

(* an orphaned stream id: the late answer is swallowed, the connection stays open *)
Example C10_ex_orphan :
  match run (conn_init false) [Reserve 1; Push 1; WriterTake (Some 0); Drop 1; OrphanProc; Recv (ex_hdr 0 0)] with
  | Some st => c_status st = Open /\ c_orphans st = [] /\ c_handlers st = [] /\ c_done st = [] /\ c_cancelled st = [1]
  | None => False
  end.
Proof. vm_compute. repeat split; reflexivity. Qed.

Example C10_ex_pool :
  match prun pool_init [PAdd 1; PAdd 2; PAdd 3; PBreak 1; PBreak 3; PGet 1; PProcess 3] with
  | Some p => p_shared p = [1; 2] /\ p_broken p = [1; 3] /\ p_events p = [1] /\ pstep p (PGet 3) = None /\
              pstep p (PProcess 3) = None /\ pstep p (PGet 1) = Some p
  | None => False
  end.
Proof. vm_compute. repeat split; reflexivity. Qed.

(* ---- anchors of the definitions the tie's driver uses (accepting AND rejecting inputs) ---- *)
Definition ex_frame (stream : N) (body : list N) : list N := ex_hdr stream (N.of_nat (List.length body)) ++ body.

Example C10_ex_retry_idempotent :
  default_decide default_new (mk_ri EBrokenConnectionError true COne) = (default_new, RetryNextTarget None) /\
  default_decide default_new (mk_ri EBrokenConnectionError false COne) = (default_new, DontRetry) /\
  attempt_error_of (FailBroken EKeepaliveTimeout) = Some EBrokenConnectionError /\
  attempt_error_of FailChannel = Some EBrokenConnectionError /\
  attempt_error_of FailAlloc = Some EUnableToAllocStreamId /\
  attempt_error_of (Resp (mk_frame (ex_hdr 0 0) [])) = None.
Proof. repeat split; reflexivity. Qed.

(* accept_obs on concrete observations: accepting, and rejecting for each clause *)
Definition ex_echo (m : N) (pad : list N) : list N :=
  [0; 0; 0; 2; 9; 9] ++ be_enc 4 (8 + N.of_nat (List.length pad)) ++ be_enc 8 m ++ pad.
Definition ex_conn : list tev :=
  [TIn 0 2 false; TOut (ex_frame 0 (ex_echo 1 [5; 6])); TIn 1 4 false; TOut (firstn 20 (ex_frame 1 (ex_echo 2 [7]))); TFin].

Example C10_ex_accept :
  let px := [0; 0; 0; 2; 9; 9] in
  echo_of px (ex_echo 1 [5; 6]) = Some (1, 2) /\ echo_of px (ex_echo 1 []) = Some (1, 0) /\
  echo_of px (firstn 19 (ex_echo 1 [5; 6])) = None /\ echo_of [0; 0; 0; 2; 9; 8] (ex_echo 1 [5; 6]) = None /\
  accept_obs px false [ex_conn] [ROk 1 2 true; RErr] = true /\
  accept_obs px false [ex_conn] [ROk 1 2 true; RCancelled] = true /\
  accept_obs px false [ex_conn] [ROk 1 2 true; RHang] = false /\            (* hang *)
  accept_obs px false [ex_conn] [ROk 1 2 true; RPanic] = false /\
  accept_obs px false [ex_conn] [ROk 1 2 true; ROk 2 1 true] = false /\     (* reply was cut: never completely sent *)
  accept_obs px false [ex_conn] [ROk 2 2 true; RErr] = false /\             (* foreign marker *)
  accept_obs px false [ex_conn] [ROk 1 2 false; RErr] = false /\            (* damaged bytes *)
  accept_obs px false [ex_conn] [ROk 1 3 true; RErr] = false /\             (* a padding length that was not sent *)
  accept_obs px false [ex_conn; [TIn 0 4 false]] [ROk 1 2 true; RErr] = false /\   (* non-idempotent request 2 re-sent *)
  accept_obs px true [ex_conn; [TIn 0 4 false]] [ROk 1 2 true; RErr] = true.
Proof. vm_compute. repeat split; reflexivity. Qed.

(* pool_labels / pool_accept: a request on the broken connection is fine until the replacement appears,
   and rejected afterwards; a connection cannot be added twice *)
Example C10_ex_pool_accept :
  pool_labels [] [EvAdd 1; EvGet 1; EvBreak 1; EvGet 1; EvAdd 2; EvGet 2] =
    [PAdd 1; PGet 1; PBreak 1; PGet 1; PProcess 1; PAdd 2; PGet 2] /\
  pool_accept [EvAdd 1; EvGet 1; EvBreak 1; EvGet 1; EvAdd 2; EvGet 2] = true /\
  pool_accept [EvAdd 1; EvGet 1; EvBreak 1; EvAdd 2; EvGet 1] = false /\
  pool_accept [EvAdd 1; EvBreak 1; EvAdd 2; EvBreak 2; EvAdd 3; EvGet 3] = true /\
  pool_accept [EvAdd 1; EvBreak 1; EvAdd 2; EvBreak 2; EvAdd 3; EvGet 2] = false /\
  pool_accept [EvAdd 1; EvAdd 1] = false /\ pool_accept [EvGet 1] = false /\ pool_accept [] = true.
Proof. vm_compute. repeat split; reflexivity. Qed.

(* the three ways a request fails around a fault: handler (root cause), drained from the channel (root
   cause), refused after close (ChannelError); before close a submit is still accepted *)
Example C10_ex_root_cause :
  match run (conn_init false) [Reserve 1; Push 1; WriterTake (Some 0); Reserve 2; Push 2; Recv (ex_hdr 7 0);
                               Reserve 3; TdStep; TdStep; Reserve 4; Push 3; TdStep; TdStep; TdStep] with
  | Some st => c_status st = Broken (EUnexpectedStream 7) /\
      outcome_of 1 (c_done st) = Some (FailBroken (EUnexpectedStream 7)) /\
      outcome_of 2 (c_done st) = Some (FailBroken (EUnexpectedStream 7)) /\
      outcome_of 3 (c_done st) = Some (FailBroken (EUnexpectedStream 7)) /\
      outcome_of 4 (c_done st) = Some FailChannel
  | None => False
  end.
Proof. vm_compute. repeat split; reflexivity. Qed.

Example C10_ex_resend_ok :
  resend_ok false 1 = true /\ resend_ok false 2 = false /\ resend_ok true 3 = true /\ resend_ok false 0 = true.
Proof. repeat split; reflexivity. Qed.

Example C10_ex_broken_class :
  broken_class (FailBroken EHeaderIo) = true /\ broken_class FailChannel = true /\
  broken_class FailAlloc = false /\ broken_class (Resp (mk_frame (ex_hdr 0 0) [])) = false.
Proof. repeat split; reflexivity. Qed.

(* sent_for / justified: only a COMPLETE frame on the request's own stream, written while the request
   holds the stream, justifies a body *)
Example C10_ex_justified :
  let t := [TIn 0 2 false; TOut (ex_frame 0 [7; 8]); TIn 1 4 false; TOut (firstn 10 (ex_frame 1 [9; 9]));
            TIn 0 6 false; TOut (ex_frame 65535 [1] ++ ex_frame 0 [5] ++ [132; 0])] in
  sent_for 0 2 false t = [[7; 8]] /\ sent_for 0 6 false t = [[5]] /\ sent_for 1 4 false t = [] /\
  frames_of 40 (ex_frame 3 [1] ++ ex_frame 4 [] ++ [132]) = [mk_frame (ex_hdr 3 1) [1]; mk_frame (ex_hdr 4 0) []] /\
  frames_of 40 (firstn 9 (ex_frame 3 [1])) = [] /\
  sent_table [] t = [(2, [7; 8]); (6, [5])] /\
  sent_table [] [TOut (ex_frame 0 [1]); TIn 0 2 false; TIn 0 4 false; TOut (ex_frame 0 [9])] = [(4, [9])] /\
  justified 2 [7; 8] [t] = true /\
  justified 6 [7; 8] [t] = false /\      (* body of another request on the same stream id *)
  justified 4 [9; 9] [t] = false /\      (* frame cut after 10 of 11 bytes *)
  justified 2 [7] [t] = false /\         (* prefix of what was sent *)
  justified 2 [7; 8] [] = false /\
  streams_of 2 t = [0] /\ streams_of 8 t = [].
Proof. vm_compute. repeat split; reflexivity. Qed.

(* simulate: outcomes of a cut trace, of a reset trace with a delivered prefix, of a healthy one *)
Example C10_ex_simulate :
  let cut := [TIn 0 2 false; TIn 1 4 false; TOut (ex_frame 1 [3]); TOut [132; 0; 0]; TFin] in
  let st := simulate None cut in
  c_status st = Broken EHeaderIo /\
  outcome_of 4 (c_done st) = Some (Resp (mk_frame (ex_hdr 1 1) [3])) /\
  outcome_of 2 (c_done st) = Some (FailBroken EHeaderIo) /\ outcome_of 6 (c_done st) = None /\
  let rst := [TIn 0 2 false; TOut (ex_frame 0 [3]); TRst] in
  outcome_of 2 (c_done (simulate None rst)) = Some (Resp (mk_frame (ex_hdr 0 1) [3])) /\
  outcome_of 2 (c_done (simulate (Some O) rst)) = Some (FailBroken (EEnv 1)) /\
  let healthy := [TIn 0 2 false; TOut (ex_frame 0 [3]); TClose] in
  c_status (simulate None healthy) = Open /\
  let stalled := [TIn 0 2 false; TIn 1 3 true; TClose] in
  outcome_of 2 (c_done (simulate None stalled)) = Some (FailBroken EKeepaliveTimeout).
Proof. vm_compute. repeat split; reflexivity. Qed.

(* skipped_labels: a trace that is not a run of the model is noticed (stream id in use written twice;
   an answer nobody can have asked for is NOT a skipped label -- it is a fault of the run) *)
Example C10_ex_skipped :
  skipped_labels (conn_init false) (labels_of None [TIn 0 2 false; TOut (ex_frame 0 [1]); TClose]) = 0%nat /\
  skipped_labels (conn_init false) (labels_of None [TIn 0 2 false; TIn 0 4 false]) = 1%nat /\
  skipped_labels (conn_init false) (labels_of None [TIn 0 2 false; TIn 1 2 false]) = 3%nat /\
  skipped_labels (conn_init false) [Recv [1]; Eof; Eof] = 1%nat /\
  (* a request the mock read after the bytes that broke the connection: tolerated, and failed by the drain *)
  skipped_labels (conn_init false) (labels_of None [TIn 0 2 false; TOut [4; 0; 0; 0; 0; 0; 0; 0; 0]; TIn 1 4 false; TClose]) = 0%nat /\
  outcome_of 4 (c_done (simulate None [TIn 0 2 false; TOut [4; 0; 0; 0; 0; 0; 0; 0; 0]; TIn 1 4 false; TClose]))
    = Some (FailBroken (EHeader FrameFromClient)).
Proof. vm_compute. repeat split; reflexivity. Qed.

(* td_measure / chan_closed / pending_rids on the phases of a teardown *)
Example C10_ex_phases :
  match run (conn_init false) [Reserve 1; Push 1; WriterTake (Some 0); Reserve 2; Push 2; Reserve 3; Eof] with
  | Some st => td_measure st = 6%nat /\ chan_closed st = false /\ pending_rids st = [1; 2; 3] /\
      match run st [TdStep; TdStep] with
      | Some st' => c_status st' = Draining EHeaderIo /\ td_measure st' = 4%nat /\ chan_closed st' = true /\
                    pending_rids st' = [2; 3] /\ td_measure (conn_init false) = 0%nat
      | None => False
      end
  | None => False
  end.
Proof. vm_compute. repeat split; reflexivity. Qed.

(* round 4: c_err_sent flips with the router's last step and only there (both disjuncts of the frame) *)
Example C10_ex_err_sent :
  match run (conn_init false) [Reserve 1; Push 1; WriterTake (Some 0); Reserve 2; Eof; TdStep; TdStep] with
  | Some st => c_status st = Draining EHeaderIo /\ c_err_sent st = false /\
      match run st [Push 2; TdStep] with
      | Some st1 => c_status st1 = Draining EHeaderIo /\ c_err_sent st1 = false /\ c_queue st1 = [] /\ c_reserved st1 = [] /\
          match step st1 TdStep with
          | Some st2 => c_status st2 = Broken EHeaderIo /\ c_err_sent st2 = true /\
              match step st2 (Reserve 3) with Some st3 => c_err_sent st3 = true /\ c_status st3 = Broken EHeaderIo | None => False end
          | None => False
          end
      | None => False
      end
  | None => False
  end.
Proof. vm_compute. repeat split; reflexivity. Qed.

(* round 4: hypotheses of C10_skipped_zero_open_is_run met by a healthy trace; with a client-side close the
   KaTimeout label is a tolerated skip (skipped = 0, connection open) and the schedule is NOT a run: the
   premise ~ In KaTimeout is needed; [taken] drops exactly that label *)
Example C10_ex_skipped_run :
  let ls := labels_of None [TIn 0 2 false; TOut (ex_frame 0 [1]); TIn 1 3 true; TOut (ex_frame 1 [])] in
  skipped_labels (conn_init false) ls = 0%nat /\ is_open (run_lenient (conn_init false) ls) = true /\
  ~ In KaTimeout ls /\ run (conn_init false) ls = Some (run_lenient (conn_init false) ls) /\
  let lc := labels_of None [TIn 0 2 false; TOut (ex_frame 0 [1]); TClose] in
  skipped_labels (conn_init false) lc = 0%nat /\ is_open (run_lenient (conn_init false) lc) = true /\
  run (conn_init false) lc = None /\
  taken (conn_init false) lc = [Reserve 2; Push 2; WriterTake (Some 0); Recv (ex_frame 0 [1])].
Proof.
  vm_compute. repeat split; try reflexivity.
  intros H. repeat (destruct H as [H|H]; [discriminate|]). exact H.
Qed.

Print Assumptions C10_all_fail.
Print Assumptions C10_framing.
Print Assumptions C10_root_cause.
Print Assumptions C10_accept_sound.
Print Assumptions C10_sent_table_sound.
Print Assumptions C10_echo_of_sound.
Print Assumptions C10_retry_clause.
Print Assumptions C10_accounting.
Print Assumptions C10_none_left.
Print Assumptions C10_later_submit_fails.
Print Assumptions C10_teardown_progress.
Print Assumptions C10_teardown_terminates.
Print Assumptions C10_submit_during_teardown.
Print Assumptions C10_draining_monotone.
Print Assumptions C10_teardown_is_a_run.
Print Assumptions C10_pre_fix_router_strands.
Print Assumptions C10_post_fix_router_completes.
Print Assumptions C10_root_cause_run.
Print Assumptions C10_fair_liveness.
Print Assumptions C10_fair_close.
Print Assumptions C10_fair_drain.
Print Assumptions C10_cut_anywhere.
Print Assumptions C10_fault_completes_all.
Print Assumptions C10_no_partial.
Print Assumptions C10_no_cross.
Print Assumptions C10_unique.
Print Assumptions C10_reader_complete.
Print Assumptions C10_parse_got.
Print Assumptions C10_pool.
Print Assumptions C10_pool_never_again.
Print Assumptions C10_pool_no_get_after_process.
Print Assumptions C10_simulate_reachable.
Print Assumptions C10_simulate_settled.
Print Assumptions C10_err_sent_iff_broken.
Print Assumptions C10_err_sent_frame.
Print Assumptions C10_run_has_no_skipped.
Print Assumptions C10_skipped_zero_open_is_run.
Print Assumptions C10_lenient_taken.
Print Assumptions C10_pool_accept_sound.
