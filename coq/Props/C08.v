(* Property C08 — statements only.  Every theorem is closed by [exact] of a lemma from Proofs/;
   the statements are pinned again in /verif/pins/C08.v.

   [decode decompress ft v2 cmp stream] is the model of
     read_response_frame -> parse_response_body_extensions -> Response(V2)::deserialize ->
     deserialize_metadata -> rows_iter
   (first frame of [stream]); [encode_frame compress ft f] is the wire format written from the
   protocol document.  [ft] = negotiated features (rate-limit error code, result-metadata-id
   extension), [v2] = ResponseV2/EventV2 decoders, [cmp] = a compression codec was negotiated,
   [compress]/[decompress] = that codec (LZ4 / Snappy are library code: explicit premises).
   The model is total by construction (structural recursion, fuel = input length / nesting limit);
   C08_fuel_enough says the fuel is never the reason for an answer. *)
From SV Require Import Base.Prelude Base.Bytes Model.FrameBase Model.FrameTypes Model.FrameResp
  Model.FrameCustom Model.FrameEnc Model.FrameChunk Model.FrameValues Proofs.FrameBase_proofs Proofs.FrameTop_proofs
  Proofs.FrameCustom_proofs Proofs.FrameC08_proofs Proofs.FrameChunk_proofs Proofs.FrameValues_proofs
  Proofs.FrameLocal_proofs Proofs.C08_d4_proofs Model.FrameGuard Proofs.FrameGuard_proofs.
Open Scope N_scope.

(* well-formed response decoded exactly, under every feature combination, whatever follows *)
Theorem C08_roundtrip : forall compress decompress,
  (forall b, decompress (compress b) = Some b) ->
  forall ft v2 cmp f rest,
  wf_frame compress ft v2 cmp f ->
  fst (decode decompress ft v2 cmp (encode_frame compress ft f ++ rest)) = ODone f.
Proof. exact (fun c d => decode_encode parse_custom c d). Qed.

(* no silent acceptance of a cut frame: every strict prefix of an encoded frame is rejected *)
Theorem C08_truncation : forall compress decompress ft v2 cmp f q,
  wf_frame compress ft v2 cmp f ->
  sprefix q (encode_frame compress ft f) ->
  is_rejected (fst (decode decompress ft v2 cmp q)) = true.
Proof. exact (fun c d => decode_truncated parse_custom c d). Qed.

(* ... also when the cut body comes with a header announcing exactly the cut length *)
Theorem C08_truncation_body : forall compress decompress ft v2 cmp f q rest,
  wf_frame compress ft v2 cmp f ->
  bit (h_flags (d_header f)) 1 = false ->
  sprefix q (enc_body ft f) ->
  let h := d_header f in
  let h' := mkHeader (h_version h) (h_flags h) (h_stream h) (h_opcode h) (lenN q) in
  is_rejected (fst (decode decompress ft v2 cmp (enc_header h' ++ q ++ rest))) = true.
Proof. exact (fun c d => decode_truncated_body parse_custom c d). Qed.

(* preallocation is proportional to the input: the sum of the capacities requested at the pinned
   `with_capacity` sites, in bytes, is at most 2288 per byte of the (decompressed) input, plus the
   1 MiB body buffer of the frame reader - no other constant (alloc_bound len = 2288 * len + 2^20);
   [R] = by how much the negotiated codec may expand a body (frame::decompress enforces 255 for LZ4,
   32 for Snappy) *)
Theorem C08_alloc : forall decompress R,
  1 <= R -> (forall b d, decompress b = Some d -> lenN d <= R * lenN b) ->
  forall ft v2 cmp stream,
  c_alloc (snd (decode decompress ft v2 cmp stream)) <= alloc_bound (R * lenN stream).
Proof. exact decode_alloc_bound. Qed.

Theorem C08_alloc_plain : forall decompress ft v2 stream,
  c_alloc (snd (decode decompress ft v2 false stream)) <= alloc_bound (lenN stream).
Proof. exact decode_alloc_bound_plain. Qed.

(* recursion depth of the type parsers: 129 levels of the binary grammar + 128 of a custom-type
   string, whatever the input *)
Theorem C08_depth : forall decompress ft v2 cmp stream,
  c_depth (snd (decode decompress ft v2 cmp stream)) <= DEPTH_LIMIT.
Proof. exact decode_depth. Qed.

(* an arithmetical COROLLARY of C08_depth (not counted as a theorem of its own in the manifest):
   "does not overflow the stack": the stack predicted from the recursion depth (measured constants, see
   Model/FrameCustom.v) is at most STACK_LIMIT = 16 KiB + 257 * 1.5 KiB < 512 KiB for every input; the tie
   compares every input's measured high-water mark with the prediction for that input *)
Theorem C08_stack : forall decompress ft v2 cmp stream,
  stack_bound (snd (decode decompress ft v2 cmp stream)) <= STACK_LIMIT /\ STACK_LIMIT < 2 ^ 19.
Proof. exact decode_stack. Qed.

(* the fuel of the counted loops, of the type parsers and of the custom-type string parser is never
   exhausted: [decode] is total without the help of fuel (it still declines, EUnmodelled, on non-ASCII
   custom-type strings; the small loops of the tablet / chunk / tuple models are not covered) *)
Theorem C08_fuel_enough : forall decompress ft v2 cmp stream st,
  fst (decode decompress ft v2 cmp stream) <> OErr st EOutOfFuel.
Proof. exact (fun d => decode_no_oof parse_custom d parse_custom_noof). Qed.

(* the frame reader gives the same answer however the reader cuts the stream into chunks and however
   large the buffers it is offered are: header, body and the position of the next frame are those of
   the all-at-once reader on the concatenation *)
Theorem C08_chunking : forall offers cs,
  no_eof cs ->
  match read_frame_chunked offers cs with
  | Ok ((h, body), cs') => fst (read_frame (concat cs)) = Ok ((h, body), concat cs')
  | Err e => fst (read_frame (concat cs)) = Err e
  end.
Proof. exact read_frame_chunked_spec. Qed.

(* the tablet routing payload (RawTablet::from_custom_payload): the CQL encoding of
   (first_token, last_token, [(host uuid, shard)]) decodes to (first + 1, last, replicas) *)
Theorem C08_tablet_roundtrip : forall first last reps,
  wf_tablet first last reps ->
  tablet_payload (enc_tablet first last reps) = Ok ((first + 1)%Z, last, reps).
Proof. exact tablet_payload_enc. Qed.

(* rows behind cached result metadata (the skip-metadata path): a NO_METADATA Rows body whose rows
   have one cell per cached column decodes to those rows under the cached column specs *)
Theorem C08_cached_rows_roundtrip : forall custom ft cid ccount ccols r rest,
  wf_rows_cached ccols r ->
  run (deser_rows_full_cached custom ft (cid, ccount, ccols)) (enc_rows r ++ rest) =
  Ok ((mkRows (rr_hdr r) cid ccols (rr_rows_count r) (rr_rows r), ccount), rest).
Proof. exact run_deser_rows_full_cached_enc. Qed.

(* typed column values: a cell holding C01's serialisation of a value of the column's type decodes
   (Option<CqlValue>) to that value, padded as C01_roundtrip says; a null cell to null *)
Theorem C08_typed_cell_roundtrip : forall t v b,
  Cql.wf_type (to_ctype t) = true -> Cql.wf_val (to_ctype t) v = true -> Cql.known_class (to_ctype t) v = false ->
  Cql.ser_value true (to_ctype t) v = Ok b ->
  typed_cell t (Some b) = Ok (Cql.CVal (Cql.pad (to_ctype t) v)) /\ typed_cell t None = Ok Cql.CNull.
Proof. exact typed_cell_roundtrip. Qed.

(* ---- deepening round 3 (proof only) ---------------------------------------------------------- *)
(* a frame is decoded independently of what follows it: when the reader accepts a frame it has consumed
   exactly 9 + length bytes, and the whole answer of [decode] (outcome AND cost) is the same whatever
   stands behind those bytes *)
Theorem C08_frame_local : forall decompress ft v2 cmp s h body rest,
  fst (read_frame s) = Ok ((h, body), rest) ->
  let n := (9 + N.to_nat (h_length h))%nat in
  s = firstn n s ++ rest /\ lenN body = h_length h /\
  forall tail, decode decompress ft v2 cmp (firstn n s ++ tail) = decode decompress ft v2 cmp s.
Proof. exact decode_local. Qed.

(* a connection's stream ([decode_stream k]: decode the first frame, go on behind it, k times): any
   sequence of well-formed frames followed by anything decodes to exactly those frames, in order *)
Theorem C08_stream : forall compress decompress,
  (forall b, decompress (compress b) = Some b) ->
  forall ft v2 cmp fs rest,
  Forall (wf_frame compress ft v2 cmp) fs ->
  decode_stream decompress ft v2 cmp (length fs) (flat_map (encode_frame compress ft) fs ++ rest) = map ODone fs.
Proof. exact decode_stream_encoded. Qed.

(* the two body decoders on EVERY byte list: never "out of fuel"; on success the consumed prefix is
   determined exactly, the answer does not depend on what follows it, every strict prefix of it is refused *)
Theorem C08_body_local : forall ft v2 flags op,
  (forall b x rest, run (deser_extensions flags) b = Ok (x, rest) ->
     exists c, b = c ++ rest /\ (forall rest', run (deser_extensions flags) (c ++ rest') = Ok (x, rest')) /\
               (forall q, sprefix q c -> exists e, run (deser_extensions flags) q = Err e)) /\
  (forall b r rest, run (deser_response parse_custom ft v2 op) b = Ok (r, rest) ->
     exists c, b = c ++ rest /\ (forall rest', run (deser_response parse_custom ft v2 op) (c ++ rest') = Ok (r, rest')) /\
               (forall q, sprefix q c -> exists e, run (deser_response parse_custom ft v2 op) q = Err e)) /\
  (forall b, run (deser_extensions flags) b <> Err EOutOfFuel) /\
  (forall b, run (deser_response parse_custom ft v2 op) b <> Err EOutOfFuel).
Proof. exact body_decoders_local. Qed.

(* C08_chunking composed with the decoders (was an argument in the docs): whatever the chunking and the
   offered buffers, the reader stands behind exactly the 9 + length bytes of an accepted frame, the
   pipeline's answer on the concatenated stream depends on those bytes only, is not a header-stage error
   and, when it accepts, carries that header; a refusal by the chunked reader is the pipeline's refusal *)
Theorem C08_chunked_decode : forall decompress ft v2 cmp offers cs,
  no_eof cs ->
  match read_frame_chunked offers cs with
  | Ok ((h, body), cs') =>
    let n := (9 + N.to_nat (h_length h))%nat in
    concat cs = firstn n (concat cs) ++ concat cs' /\
    (forall tail, decode decompress ft v2 cmp (firstn n (concat cs) ++ tail) = decode decompress ft v2 cmp (concat cs)) /\
    (forall st e, fst (decode decompress ft v2 cmp (concat cs)) = OErr st e -> st <> StHeader) /\
    (forall f, fst (decode decompress ft v2 cmp (concat cs)) = ODone f -> d_header f = h)
  | Err e => fst (decode decompress ft v2 cmp (concat cs)) = OErr StHeader e
  end.
Proof. exact chunked_decode. Qed.

(* the Boolean predicates the driver evaluates on the implementation's measurements ARE the bounds
   (definitional reflections, listed so that the driver's verdict rests on a statement, not on Examples),
   and the allocation bound is monotone in the input length *)
Theorem C08_predicates_spec :
  (forall len m, largest_in_proportion len m = true <-> m <= alloc_bound len) /\
  (forall len m, total_in_proportion len m = true <-> m <= 2 * alloc_bound len) /\
  (forall c h, stack_in_bound c h = true <-> h <= stack_bound c) /\
  (forall o, is_rejected o = true <-> exists st e, o = OErr st e) /\
  (forall a b, a <= b -> alloc_bound a <= alloc_bound b).
Proof. exact predicates_spec. Qed.

(* corollary of C08_alloc: the model's own cost always passes the predicates, so a `viol alloc` can only
   come from what the implementation measured *)
Theorem C08_model_passes_predicates : forall decompress R,
  1 <= R -> (forall b d, decompress b = Some d -> lenN d <= R * lenN b) ->
  forall ft v2 cmp stream,
  let c := snd (decode decompress ft v2 cmp stream) in
  largest_in_proportion (R * lenN stream) (c_alloc c) = true /\
  total_in_proportion (R * lenN stream) (c_alloc c) = true /\
  stack_in_bound c (stack_bound c) = true.
Proof. exact model_passes_predicates. Qed.

(* ---- deepening round 4 (proof only) ---------------------------------------------------------- *)
(* termination of the small fuelled loops (was "by argument"): every iteration of tablet_replicas /
   int_items consumes at least the four length bytes of a [bytes] element, so the answer is the same for
   any two fuels above the input length - the fuel the models pass (length + 1) is never the reason for
   an answer *)
Theorem C08_small_loops_fuel :
  (forall f1 f2 count b, (List.length b < f1)%nat -> (List.length b < f2)%nat ->
     tablet_replicas f1 count b = tablet_replicas f2 count b) /\
  (forall f1 f2 n b, (List.length b < f1)%nat -> (List.length b < f2)%nat -> int_items f1 n b = int_items f2 n b).
Proof. exact small_loops_fuel. Qed.

(* the tie's reader: with fuel at least the length (the driver passes length + 1) the schedule cuts the
   stream into non-empty chunks that concatenate to the stream, whatever the sizes - so the premise
   [no_eof] of C08_chunking / C08_chunked_decode / C08_reader_after holds for every Q case *)
Theorem C08_cut_chunks : forall fuel sizes all b,
  (List.length b <= fuel)%nat ->
  concat (cut_chunks fuel sizes all b) = b /\ no_eof (cut_chunks fuel sizes all b).
Proof. exact cut_chunks_spec. Qed.

(* where the reader stands after the call, in every case: behind the frame when it was accepted; at the
   end (nothing left) when the stream ran out in the header or in the body; behind exactly the nine header
   bytes, nothing else consumed, when the header was refused *)
Theorem C08_reader_after : forall offers cs,
  no_eof cs ->
  match read_frame_chunked offers cs with
  | Ok (_, cs') => reader_after offers cs = cs'
  | Err e =>
    (lenN (concat cs) < 9 /\ e = EHeaderIo /\ reader_after offers cs = []) \/
    (9 <= lenN (concat cs) /\ run parse_header (firstn 9 (concat cs)) = Err e /\
     concat (reader_after offers cs) = skipn 9 (concat cs) /\ no_eof (reader_after offers cs)) \/
    (exists h r, 9 <= lenN (concat cs) /\ run parse_header (firstn 9 (concat cs)) = Ok (h, r) /\
                 lenN (skipn 9 (concat cs)) < h_length h /\ e = EConnectionClosed /\ reader_after offers cs = [])
  end.
Proof. exact reader_after_spec. Qed.

(* the extracted "index of the first failing row" functions (were tie-only / Examples only): the typed one
   answers None iff [typed_row] (the function C08_typed_cell_roundtrip is about) succeeds on every row, and
   Some (i + j) exactly for the first row j on which it fails; the same for the tuple targets; target 3
   (Option<Vec<u8>>,) has no failing path *)
Theorem C08_first_error_spec :
  (forall cols row, typed_row_ok cols row = true <-> exists l, typed_row cols row = Ok l) /\
  (forall cols rows i,
     match typed_rows_first_error cols rows i with
     | None => forall r, In r rows -> exists l, typed_row cols r = Ok l
     | Some k => exists j r, k = i + N.of_nat j /\ nth_error rows j = Some r /\
                             (forall l, typed_row cols r <> Ok l) /\
                             forall r', In r' (firstn j rows) -> exists l, typed_row cols r' = Ok l
     end) /\
  (forall target cols rows i,
     match tuple_rows_first_error target cols rows i with
     | None => forallb (tuple_row_ok target O cols) rows = true
     | Some k => exists j r, k = i + N.of_nat j /\ nth_error rows j = Some r /\ tuple_row_ok target O cols r = false /\
                             forallb (tuple_row_ok target O cols) (firstn j rows) = true
     end) /\
  (forall cols rows i, tuple_rows_first_error 3 cols rows i = None).
Proof. exact first_error_spec. Qed.

(* kind P (a PREPARED frame, then a Rows frame decoded behind its cached metadata) had no cost theorem:
   the ghost allocation of the pair is within twice the single-frame bound (what total_in_proportion
   allows) and its recursion depth within DEPTH_LIMIT, for every stream *)
Theorem C08_pair_costs : forall ft stream,
  c_alloc (snd (decode_pair parse_custom ft stream)) <= 2 * alloc_bound (lenN stream) /\
  c_depth (snd (decode_pair parse_custom ft stream)) <= DEPTH_LIMIT.
Proof. exact decode_pair_costs. Qed.

(* ---- non-vacuity ------------------------------------------------------------------------------ *)
(* a RESULT/Rows frame with tracing and a warning: global table spec, columns
   (list<int>, tuple<text, udt{f: uuid}>), paging state, new metadata id, two rows *)
Definition ex_ft : features := mkFeatures (Some 17185%Z) true.
Definition ex_rows : rows_result :=
  mkRows (mkRowsHdr 2 true false true (Some [1; 2; 3]))
         (Some [9; 9])
         [mkColSpec ([107; 115], [116]) [97] (TList false (TNative Int));
          mkColSpec ([107; 115], [116]) [98]
                    (TTuple [TNative Text; TUdt false [107] [117] [([102], TNative Uuid)]])]
         2
         [[Some [0; 0; 0; 1; 0; 0; 0; 4; 0; 0; 0; 7]; None]; [Some []; Some [255]]].
Definition ex_frame0 : dframe :=
  mkFrame (mkHeader 132 10 (-3)%Z 8 0)
          (mkExt (Some [1; 2; 3; 4; 5; 6; 7; 8; 9; 10; 11; 12; 13; 14; 15; 16]) [[119; 33]] None)
          (RResult (ResRows ex_rows)).
Definition ex_frame : dframe :=
  mkFrame (mkHeader 132 10 (-3)%Z 8 (lenN (enc_body ex_ft ex_frame0))) (d_ext ex_frame0) (d_resp ex_frame0).

Example C08_ex_wf : wf_frame (fun b => b) ex_ft true false ex_frame.
Proof.
  unfold wf_frame, ex_frame, ex_frame0. cbn [d_header d_ext d_resp h_version h_flags h_stream h_opcode h_length].
  assert (WB : forall l, bytes_okb l = true -> bytes_ok l) by (intros; apply bytes_okb_ok; assumption).
  split; [reflexivity|]. split; [reflexivity|]. split; [lia|]. split; [reflexivity|].
  split; [vm_compute; reflexivity|]. split; [vm_compute; reflexivity|]. split; [discriminate|].
  split.
  { unfold wf_extensions. cbn [x_trace x_warnings x_payload].
    change (bit 10 2) with true. change (bit 10 8) with true. change (bit 10 4) with false. cbv iota.
    split; [eexists; split; [reflexivity|split; [apply WB; reflexivity|reflexivity]]|].
    split; [|reflexivity]. split; [reflexivity|]. repeat constructor; try (apply WB; reflexivity). }
  unfold wf_response, wf_result, wf_rows, ex_rows.
  cbn [rr_hdr rr_meta_id rr_cols rr_rows_count rr_rows rh_col_count rh_global rh_no_metadata rh_metadata_changed rh_paging].
  split; [reflexivity|]. split; [reflexivity|]. split; [split; [apply WB|]; reflexivity|].
  split; [intros _; split; reflexivity|]. split; [split; [reflexivity|split; [apply WB|]; reflexivity]|].
  split.
  { split; [reflexivity|]. split.
    - repeat constructor; try (apply WB; reflexivity); try reflexivity; try (vm_compute; discriminate).
    - intros _. split; [discriminate|]. repeat constructor. }
  split; [reflexivity|].
  repeat constructor; try (apply WB; reflexivity); try reflexivity.
Qed.

Example C08_ex_roundtrip :
  fst (decode (fun b => Some b) ex_ft true false (encode_frame (fun b => b) ex_ft ex_frame ++ [132; 0])) = ODone ex_frame
  /\ lenN (encode_frame (fun b => b) ex_ft ex_frame) = 125.
Proof. split; vm_compute; reflexivity. Qed.

(* every one of the 125 strict prefixes is rejected, with the expected classes at the two ends *)
Example C08_ex_truncation :
  forallb (fun k => is_rejected (fst (decode (fun b => Some b) ex_ft true false
                                             (firstn k (encode_frame (fun b => b) ex_ft ex_frame)))))
          (seq 0 125) = true
  /\ fst (decode (fun b => Some b) ex_ft true false (firstn 8 (encode_frame (fun b => b) ex_ft ex_frame)))
     = OErr StHeader EHeaderIo
  /\ fst (decode (fun b => Some b) ex_ft true false (firstn 124 (encode_frame (fun b => b) ex_ft ex_frame)))
     = OErr StHeader EConnectionClosed.
Proof. repeat split; vm_compute; reflexivity. Qed.

(* the inputs that reserved 473 MB / 6.4 MB before commit dba8b0a now stay within a small multiple of
   their length: 129 nested user-defined types each announcing 65535 fields (1.3 KB), an 11-byte
   SUPPORTED frame announcing 65535 options; the nesting limit is reached exactly by 129 nested lists *)
Fixpoint ex_nest (k : nat) (pre : bytes) (inner : bytes) : bytes :=
  match k with O => inner | S k' => pre ++ ex_nest k' pre inner end.
Definition ex_rows_with_type (ty : bytes) : bytes :=
  let body := enc_int 2 ++ enc_int 1 ++ enc_int 1 ++ enc_string [107] ++ enc_string [116] ++ enc_string [99]
              ++ ty ++ enc_int 0 in
  enc_header (mkHeader 132 0 1 8 (lenN body)) ++ body.
Definition ex_udt_bomb : bytes :=
  ex_rows_with_type (ex_nest 129 (enc_short 48 ++ enc_short 0 ++ enc_short 0 ++ enc_short 65535 ++ enc_short 0) []).
Definition ex_supported_ffff : bytes := [132; 0; 0; 1; 6; 0; 0; 0; 2; 255; 255].
Example C08_ex_alloc_capped :
  lenN ex_udt_bomb = 1324 /\
  c_alloc (snd (decode (fun _ => None) ex_ft true false ex_udt_bomb)) = 1166275 /\
  is_rejected (fst (decode (fun _ => None) ex_ft true false ex_udt_bomb)) = true /\
  c_alloc (snd (decode (fun _ => None) ex_ft true false ex_supported_ffff)) = 2 /\
  c_alloc (snd (decode (fun _ => None) ex_ft true false [132; 0; 0; 1; 8; 255; 255; 255; 255])) = 1048576 /\
  alloc_bound 1324 = 4077888 /\ alloc_bound 0 = 1048576.
Proof. repeat split; vm_compute; reflexivity. Qed.
(* the implementation-side predicates reject what the repaired sites used to request *)
Example C08_ex_in_proportion :
  largest_in_proportion 1324 3669960 = true /\ largest_in_proportion 11 6422544 = false /\
  largest_in_proportion (32 * 16) 4294967295 = false /\ largest_in_proportion 9 4294967295 = false /\
  total_in_proportion 1324 473426950 = false /\ total_in_proportion 1324 8000000 = true /\
  total_in_proportion 32 999999999999 = false /\ largest_in_proportion 100 1048576 = true.
Proof. repeat split; vm_compute; reflexivity. Qed.
Example C08_ex_depth :
  c_depth (snd (decode (fun _ => None) ex_ft true false (ex_rows_with_type (ex_nest 128 (enc_short 32) (enc_short 9))))) = 129
  /\ is_rejected (fst (decode (fun _ => None) ex_ft true false (ex_rows_with_type (ex_nest 128 (enc_short 32) (enc_short 9))))) = false
  /\ fst (decode (fun _ => None) ex_ft true false (ex_rows_with_type (ex_nest 129 (enc_short 32) (enc_short 9))))
     = OErr StBody ETypeNestingTooDeep.
Proof. repeat split; vm_compute; reflexivity. Qed.

(* the prediction for the deepest accepted type (129 levels) and what the tie's predicate does with
   measurements: 118 879 bytes were measured for such an input, 269 399 for 250 levels *)
Example C08_ex_stack :
  stack_bound (snd (decode (fun _ => None) ex_ft true false (ex_rows_with_type (ex_nest 128 (enc_short 32) (enc_short 9))))) = 214528 /\
  stack_in_bound (snd (decode (fun _ => None) ex_ft true false (ex_rows_with_type (ex_nest 128 (enc_short 32) (enc_short 9))))) 118879 = true /\
  stack_in_bound (snd (decode (fun _ => None) ex_ft true false (ex_rows_with_type (ex_nest 128 (enc_short 32) (enc_short 9))))) 300000 = false /\
  stack_in_bound (snd (decode (fun _ => None) ex_ft true false [132; 0; 0; 1; 2; 0; 0; 0; 0])) 16384 = true /\
  stack_in_bound (snd (decode (fun _ => None) ex_ft true false [132; 0; 0; 1; 2; 0; 0; 0; 0])) 16385 = false /\
  STACK_LIMIT = 411136.
Proof. repeat split; vm_compute; reflexivity. Qed.

Example C08_ex_is_rejected :
  is_rejected (ODone ex_frame) = false /\ is_rejected (OErr StBody EIo) = true /\
  is_rejected (fst (decode (fun b => Some b) ex_ft true false (encode_frame (fun b => b) ex_ft ex_frame))) = false.
Proof. repeat split; vm_compute; reflexivity. Qed.

(* C08_truncation_body is not vacuous: every strict prefix of the example's 116-byte body, behind a
   header announcing the cut length and followed by another frame's bytes, is rejected - and by the
   body decoders, not by the frame reader *)
Definition ex_cut_frame (k : nat) : bytes :=
  let q := firstn k (enc_body ex_ft ex_frame) in
  enc_header (mkHeader 132 10 (-3)%Z 8 (lenN q)) ++ q ++ [132; 0; 0; 1; 2; 0; 0; 0; 0].
Example C08_ex_truncation_body :
  lenN (enc_body ex_ft ex_frame) = 116 /\
  forallb (fun k => is_rejected (fst (decode (fun b => Some b) ex_ft true false (ex_cut_frame k)))) (seq 0 116) = true /\
  fst (decode (fun b => Some b) ex_ft true false (ex_cut_frame 115)) = OErr StBody ETooFew /\
  fst (decode (fun b => Some b) ex_ft true false (ex_cut_frame 10)) = OErr StExt ETooFew /\
  is_rejected (fst (decode (fun b => Some b) ex_ft true false (ex_cut_frame 116))) = false.
Proof. repeat split; vm_compute; reflexivity. Qed.

(* wf_prepared's canonical-order condition on the partition-key indexes accepts the decoder-independent
   reading "sorted by index, sequence numbers = wire positions" and refuses anything else *)
Example C08_ex_pk_canonical :
  pk_sort (pk_enumerate 0 (pk_wire [(0, 1); (2, 0); (2, 2)])) = [(0, 1); (2, 0); (2, 2)] /\
  pk_wire [(0, 1); (2, 0); (2, 2)] = [2; 0; 2] /\
  pk_sort (pk_enumerate 0 (pk_wire [(2, 0); (0, 1)])) <> [(2, 0); (0, 1)] /\
  pk_sort (pk_enumerate 0 (pk_wire [(0, 5)])) <> [(0, 5)].
Proof. repeat split; vm_compute; congruence. Qed.

(* chunking: the example frame followed by a READY frame, delivered byte by byte / header split after
   8 bytes / in one chunk spanning both frames, with stingy and generous buffers *)
Definition ex_stream : bytes := encode_frame (fun b => b) ex_ft ex_frame ++ [132; 0; 0; 1; 2; 0; 0; 0; 0].
Example C08_ex_chunking :
  (forall x, In x [List.map (fun b => [b]) ex_stream; [firstn 8 ex_stream; skipn 8 ex_stream]; [ex_stream]] ->
     no_eof x) /\
  read_frame_chunked [] (List.map (fun b => [b]) ex_stream)
    = Ok ((d_header ex_frame, enc_body ex_ft ex_frame), List.map (fun b => [b]) [132; 0; 0; 1; 2; 0; 0; 0; 0]) /\
  read_frame_chunked [3; 1; 100] [firstn 8 ex_stream; skipn 8 ex_stream]
    = Ok ((d_header ex_frame, enc_body ex_ft ex_frame), [[132; 0; 0; 1; 2; 0; 0; 0; 0]]) /\
  read_frame_chunked [1000] [ex_stream] = Ok ((d_header ex_frame, enc_body ex_ft ex_frame), [[132; 0; 0; 1; 2; 0; 0; 0; 0]]) /\
  read_frame_chunked [] [firstn 50 ex_stream] = Err EConnectionClosed /\
  read_frame_chunked [] [firstn 4 ex_stream; []; skipn 4 ex_stream] = Err EHeaderIo.
Proof.
  split; [intros x [<-|[<-|[<-|[]]]]; vm_compute; repeat constructor; discriminate|].
  repeat split; vm_compute; reflexivity.
Qed.
(* what the tie runs: the stream cut by a cyclic size schedule; the reader's position after an accepted
   frame, after a refused header (behind its nine bytes) and after an early end *)
Example C08_ex_reader_after :
  cut_chunks 200 [8; 1; 1; 3] [8; 1; 1; 3] (firstn 15 ex_stream)
    = [firstn 8 ex_stream; [nth 8 ex_stream 0]; [nth 9 ex_stream 0]; firstn 3 (skipn 10 ex_stream); skipn 13 (firstn 15 ex_stream)] /\
  concat (cut_chunks 200 [8; 1; 1; 3] [8; 1; 1; 3] ex_stream) = ex_stream /\
  no_eof (cut_chunks 200 [8; 1; 1; 3] [8; 1; 1; 3] ex_stream) /\
  concat (reader_after [] (cut_chunks 200 [5] [5] ex_stream)) = [132; 0; 0; 1; 2; 0; 0; 0; 0] /\
  read_frame_chunked [] (reader_after [] (cut_chunks 200 [5] [5] ex_stream))
    = Ok ((mkHeader 132 0 1 2 0, []), []) /\
  concat (reader_after [] (cut_chunks 200 [4] [4] ([4; 0; 0; 1; 2; 0; 0; 0; 0] ++ ex_stream))) = ex_stream /\
  reader_after [] (cut_chunks 200 [7] [7] (firstn 50 ex_stream)) = [].
Proof.
  split; [vm_compute; reflexivity|]. split; [vm_compute; reflexivity|].
  split; [vm_compute; repeat constructor; discriminate|].
  repeat split; vm_compute; reflexivity.
Qed.
(* the example stream as a connection: both frames in order, then the end of the stream; the reader's
   position and the independence of the tail for the example frame (125 bytes) *)
Example C08_ex_stream :
  decode_stream (fun b => Some b) ex_ft true false 2 ex_stream
    = [ODone ex_frame; ODone (mkFrame (mkHeader 132 0 1 2 0) (mkExt None [] None) RReady)] /\
  decode_stream (fun b => Some b) ex_ft true false 5 ex_stream
    = [ODone ex_frame; ODone (mkFrame (mkHeader 132 0 1 2 0) (mkExt None [] None) RReady); OErr StHeader EHeaderIo] /\
  decode_stream (fun b => Some b) ex_ft true false 3 [4; 0; 0; 1; 2; 0; 0; 0; 0; 7] = [OErr StHeader EFrameFromClient] /\
  fst (read_frame ex_stream) = Ok ((d_header ex_frame, enc_body ex_ft ex_frame), [132; 0; 0; 1; 2; 0; 0; 0; 0]) /\
  (9 + N.to_nat (h_length (d_header ex_frame)) = 125)%nat /\
  fst (decode (fun b => Some b) ex_ft true false (firstn 125 ex_stream ++ [1; 2; 3])) = ODone ex_frame.
Proof. repeat split; vm_compute; reflexivity. Qed.
Example C08_ex_tablet :
  wf_tablet (-5) 1000 [([1; 2; 3; 4; 5; 6; 7; 8; 9; 10; 11; 12; 13; 14; 15; 16], 3)] /\
  tablet_payload (enc_tablet (-5) 1000 [([1; 2; 3; 4; 5; 6; 7; 8; 9; 10; 11; 12; 13; 14; 15; 16], 3)])
    = Ok ((-4)%Z, 1000%Z, [([1; 2; 3; 4; 5; 6; 7; 8; 9; 10; 11; 12; 13; 14; 15; 16], 3)]) /\
  tablet_payload (enc_tablet 7 7 []) = Err TbWrongTokenRange /\
  tablet_payload (enc_bytes (enc_signed 8 1) ++ enc_bytes (enc_signed 8 2) ++
                  enc_bytes (enc_int 1 ++ enc_bytes (enc_bytes [1; 2; 3; 4; 5; 6; 7; 8; 9; 10; 11; 12; 13; 14; 15; 16]
                                                     ++ enc_bytes (enc_signed 4 (-1))))) = Err TbShardNum /\
  tablet_payload [1; 2; 3] = Err TbDeserialization.
Proof.
  split.
  { unfold wf_tablet. split; [lia|]. split; [lia|]. split; [reflexivity|]. repeat constructor; try reflexivity;
      try (apply bytes_okb_ok; reflexivity). }
  repeat split; vm_compute; reflexivity.
Qed.
(* cached metadata: two rows of one int cell under one cached column; the same body under TWO cached
   columns is an error (the second row's cells are missing), never an out-of-bounds read *)
Definition ex_cached_rows : rows_result :=
  mkRows (mkRowsHdr 7 false true false None) None [] 2 [[Some [0; 0; 0; 1]]; [None]].
Definition ex_ccol (n : N) : colspec := mkColSpec ([107], [116]) [n] (TNative Int).
Example C08_ex_cached :
  wf_rows_cached [ex_ccol 97] ex_cached_rows /\
  run (deser_rows_full_cached parse_custom ex_ft (Some [9], 1, [ex_ccol 97])) (enc_rows ex_cached_rows)
    = Ok ((mkRows (rr_hdr ex_cached_rows) (Some [9]) [ex_ccol 97] 2 [[Some [0; 0; 0; 1]]; [None]], 1), []) /\
  run (deser_rows_full_cached parse_custom ex_ft (None, 2, [ex_ccol 97; ex_ccol 98])) (enc_rows ex_cached_rows)
    = Err EIo /\
  run (deser_rows_full_cached parse_custom ex_ft (None, 0, [])) (enc_rows ex_cached_rows)
    = Ok ((mkRows (rr_hdr ex_cached_rows) None [] 2 [], 0), [0; 0; 0; 4; 0; 0; 0; 1; 255; 255; 255; 255]).
Proof.
  split.
  { unfold wf_rows_cached, ex_cached_rows. cbn. repeat split; try reflexivity; try discriminate.
    repeat constructor; try reflexivity; try (apply bytes_okb_ok; reflexivity). }
  repeat split; vm_compute; reflexivity.
Qed.
Example C08_ex_typed_cell :
  typed_cell (TNative Int) (Some [0; 0; 0; 7]) = Ok (Cql.CVal (Cql.CInt 7)) /\
  typed_cell (TList false (TNative Int)) (Some [0; 0; 0; 1; 0; 0; 0; 4; 0; 0; 0; 9]) = Ok (Cql.CVal (Cql.CList [Cql.CInt 9])) /\
  typed_cell (TNative Int) (Some [0; 0; 7]) = Err Cql.DE_ByteLengthMismatch /\
  typed_row [ex_ccol 97; ex_ccol 98] [Some [0; 0; 0; 1]; None] = Ok [Cql.CVal (Cql.CInt 1); Cql.CNull].
Proof. repeat split; vm_compute; reflexivity. Qed.
(* the hypotheses of C08_typed_cell_roundtrip are satisfiable: list<int> holding [9] *)
Example C08_ex_typed_cell_hyp :
  let t := TList false (TNative Int) in let v := Cql.CList [Cql.CInt 9] in
  Cql.wf_type (to_ctype t) = true /\ Cql.wf_val (to_ctype t) v = true /\ Cql.known_class (to_ctype t) v = false /\
  Cql.ser_value true (to_ctype t) v = Ok [0; 0; 0; 1; 0; 0; 0; 4; 0; 0; 0; 9] /\
  typed_cell t (Some [0; 0; 0; 1; 0; 0; 0; 4; 0; 0; 0; 9]) = Ok (Cql.CVal (Cql.pad (to_ctype t) v)).
Proof. repeat split; vm_compute; reflexivity. Qed.
(* the typed tuple targets of the tie: which target type-checks, where it first fails *)
Example C08_ex_tuple_target :
  tuple_target [ex_ccol 97] = 1 /\ tuple_target [ex_ccol 97; ex_ccol 98] = 0 /\
  tuple_target [mkColSpec ([107], [116]) [97] (TNative BigInt); mkColSpec ([107], [116]) [98] (TNative Ascii)] = 2 /\
  tuple_target [mkColSpec ([107], [116]) [97] (TSet false (TNative Int))] = 5 /\
  tuple_rows_first_error 1 [ex_ccol 97] [[Some [0; 0; 0; 1]]; [None]; [Some [0; 0; 7]]] 0 = Some 2 /\
  tuple_rows_first_error 1 [ex_ccol 97] [[Some [0; 0; 0; 1]]; [None]] 0 = None /\
  tuple_cell_ok 2 1 (TNative Ascii) (Some [195; 169]) = false /\ tuple_cell_ok 2 1 (TNative Text) (Some [195; 169]) = true /\
  tuple_cell_ok 4 0 (TNative Boolean) (Some [0; 1]) = false /\
  tuple_cell_ok 5 0 (TList false (TNative Int)) (Some [0; 0; 0; 2; 0; 0; 0; 4; 0; 0; 0; 9; 255; 255; 255; 255]) = true /\
  tuple_cell_ok 5 0 (TList false (TNative Int)) (Some [0; 0; 0; 1; 0; 0; 0; 3; 0; 0; 9]) = false /\
  (* a vector column is accepted by Vec<T>::type_check too; elements have no length prefix *)
  tuple_target [mkColSpec ([107], [116]) [97] (TVector (TNative Int) 3)] = 5 /\
  tuple_target [mkColSpec ([107], [116]) [97] (TVector (TNative Float) 3)] = 0 /\
  tuple_cell_ok 5 0 (TVector (TNative Int) 3) (Some [0; 0; 0; 1; 0; 0; 0; 2; 0; 0; 0; 3]) = true /\
  tuple_cell_ok 5 0 (TVector (TNative Int) 3) (Some [0; 0; 0; 1; 0; 0; 0; 2]) = true /\
  tuple_cell_ok 5 0 (TVector (TNative Int) 3) (Some [0; 0; 0; 1; 0; 0]) = false.
Proof. repeat split; vm_compute; reflexivity. Qed.

(* round 4: the premises of C08_small_loops_fuel / C08_cut_chunks are met on concrete inputs (and matter:
   with too little fuel the answers differ); the first-error functions on a page whose second row fails *)
Example C08_ex_round4 :
  let b := [0; 0; 0; 4; 0; 0; 0; 9; 255; 255; 255; 255] in
  int_items 13 2 b = true /\ int_items 100 2 b = true /\ int_items 1 2 b = false /\
  (let reps := enc_replica ([1; 2; 3; 4; 5; 6; 7; 8; 9; 10; 11; 12; 13; 14; 15; 16], 3) in
   tablet_replicas (S (List.length reps)) 1 reps = Ok [([1; 2; 3; 4; 5; 6; 7; 8; 9; 10; 11; 12; 13; 14; 15; 16], 3)] /\
   tablet_replicas 1000 1 reps = tablet_replicas (S (List.length reps)) 1 reps /\
   tablet_replicas 0 1 reps = Err TbDeserialization) /\
  (List.length ex_stream <= 135)%nat /\ concat (cut_chunks 135 [8; 1; 1; 3] [8; 1; 1; 3] ex_stream) = ex_stream /\
  concat (cut_chunks 10 [8; 1; 1; 3] [8; 1; 1; 3] ex_stream) <> ex_stream /\
  typed_rows_first_error [ex_ccol 97] [[Some [0; 0; 0; 1]]; [Some [0; 0; 7]]; [None]] 5 = Some 6 /\
  typed_row [ex_ccol 97] [Some [0; 0; 7]] = Err Cql.DE_ByteLengthMismatch /\
  typed_rows_first_error [ex_ccol 97] [[Some [0; 0; 0; 1]]; [None]] 5 = None /\
  tuple_rows_first_error 3 [ex_ccol 97] [[Some [0; 0; 7]]; [Some []]] 0 = None /\
  tuple_rows_first_error 1 [ex_ccol 97] [[Some [0; 0; 7]]; [Some []]] 0 = Some 0.
Proof. repeat split; vm_compute; try reflexivity; try lia; discriminate. Qed.


(* ---- wave-4 follow-up: the claimed-size guards of frame::decompress (Model/FrameGuard.v) ---- *)
(* A body produced by the codec's own encoder passes the guard and is decompressed to what was encoded,
   under the NAMED hypotheses on the codec (preamble = plain length; maximum expansion: plain <= 32 x
   compressed for Snappy, <= 255 x block for LZ4; the raw decoder inverts the encoder).  The tie (kind Z)
   evaluates the expansion hypothesis (within_expansion) on the REAL encoders' output.  With
   decompress := guarded_decompress this is the codec premise of C08_roundtrip for bodies below 4 GiB. *)
Theorem C08_guard_passes_snappy : forall (snappy_compress : bytes -> bytes) (raw : bytes -> option bytes),
  (forall b, lenN b < 2 ^ 32 -> FrameGuard.snappy_claimed (snappy_compress b) = Some (lenN b)) ->
  (forall b, lenN b < 2 ^ 32 -> lenN b <= FrameGuard.SNAPPY_MAX_EXPANSION * lenN (snappy_compress b)) ->
  (forall b, lenN b < 2 ^ 32 -> raw (snappy_compress b) = Some b) ->
  forall b, lenN b < 2 ^ 32 ->
  FrameGuard.guard FrameGuard.CSnappy (snappy_compress b) = FrameGuard.GPass /\
  FrameGuard.guarded_decompress FrameGuard.CSnappy raw (snappy_compress b) = Some b.
Proof.
  intros sc raw H1 H2 H3 b Hb. split.
  - exact (snappy_guard_passes sc H1 H2 b Hb).
  - exact (snappy_guarded_roundtrip sc raw H1 H2 H3 b Hb).
Qed.

Theorem C08_guard_passes_lz4 : forall (lz4_block : bytes -> bytes) (raw : bytes -> option bytes),
  (forall b, lenN b < 2 ^ 32 -> lenN b <= FrameGuard.LZ4_MAX_EXPANSION * lenN (lz4_block b)) ->
  (forall b, lenN b < 2 ^ 32 -> raw (lz4_compress lz4_block b) = Some b) ->
  forall b, lenN b < 2 ^ 32 ->
  FrameGuard.guard FrameGuard.CLz4 (lz4_compress lz4_block b) = FrameGuard.GPass /\
  FrameGuard.guarded_decompress FrameGuard.CLz4 raw (lz4_compress lz4_block b) = Some b.
Proof.
  intros lb raw H2 H3 b Hb. split.
  - exact (lz4_guard_passes lb H2 b Hb).
  - exact (lz4_guarded_roundtrip lb raw H2 H3 b Hb).
Qed.

(* a refusal by the guard means, without any hypothesis, a claim above R x the available bytes *)
Theorem C08_guard_refused_sound : forall c comp, FrameGuard.guard c comp = FrameGuard.GRefused ->
  match c with
  | FrameGuard.CLz4 => exists a b c' d rest, comp = a :: b :: c' :: d :: rest /\
            FrameGuard.LZ4_MAX_EXPANSION * lenN rest < be_dec [a; b; c'; d]
  | FrameGuard.CSnappy => exists n, FrameGuard.snappy_claimed comp = Some n /\ FrameGuard.SNAPPY_MAX_EXPANSION * lenN comp < n
  end.
Proof. exact guard_refused_sound. Qed.

Example C08_ex_guard :
  FrameGuard.guard FrameGuard.CSnappy [100; 0; 0; 254; 1; 0; 138; 1; 0] = FrameGuard.GPass /\
  FrameGuard.guard FrameGuard.CSnappy [255; 255; 255; 255; 15; 0; 0; 0; 0; 0; 0; 0; 0; 0; 0; 0] = FrameGuard.GRefused /\
  FrameGuard.guard FrameGuard.CSnappy [191; 2; 0; 0; 0; 0; 0; 0; 0] = FrameGuard.GPass /\
  FrameGuard.guard FrameGuard.CSnappy [192; 2; 0; 0; 0; 0; 0; 0; 0] = FrameGuard.GRefused /\
  FrameGuard.guard FrameGuard.CLz4 [0; 0; 0] = FrameGuard.GShort /\
  FrameGuard.guard FrameGuard.CLz4 [0; 0; 1; 254; 7] = FrameGuard.GRefused /\
  FrameGuard.guard FrameGuard.CLz4 [0; 0; 0; 254; 7] = FrameGuard.GPass /\
  FrameGuard.within_expansion FrameGuard.CSnappy 65536 3100 = true /\
  FrameGuard.within_expansion FrameGuard.CSnappy 65536 2000 = false.
Proof. vm_compute. repeat split; reflexivity. Qed.

Print Assumptions C08_guard_passes_snappy.
Print Assumptions C08_guard_passes_lz4.
Print Assumptions C08_guard_refused_sound.
Print Assumptions C08_roundtrip.
Print Assumptions C08_truncation.
Print Assumptions C08_truncation_body.
Print Assumptions C08_alloc.
Print Assumptions C08_alloc_plain.
Print Assumptions C08_depth.
Print Assumptions C08_stack.
Print Assumptions C08_fuel_enough.
Print Assumptions C08_chunking.
Print Assumptions C08_tablet_roundtrip.
Print Assumptions C08_cached_rows_roundtrip.
Print Assumptions C08_typed_cell_roundtrip.
Print Assumptions C08_frame_local.
Print Assumptions C08_stream.
Print Assumptions C08_body_local.
Print Assumptions C08_chunked_decode.
Print Assumptions C08_predicates_spec.
Print Assumptions C08_model_passes_predicates.
Print Assumptions C08_small_loops_fuel.
Print Assumptions C08_cut_chunks.
Print Assumptions C08_reader_after.
Print Assumptions C08_first_error_spec.
Print Assumptions C08_pair_costs.
