(* Property C08 — statements only.  Every theorem is closed by [exact] of a lemma from Proofs/;
   the statements are pinned again in /verif/pins/C08.v.

   [decode decompress ft v2 cmp stream] is the model of
     read_response_frame -> parse_response_body_extensions -> Response(V2)::deserialize ->
     deserialize_metadata -> rows_iter
   (first frame of [stream]); [encode_frame compress ft f] is the wire format written from the
   protocol document.  [ft] = negotiated features (rate-limit error code, result-metadata-id
   extension), [v2] = ResponseV2/EventV2 decoders, [cmp] = a compression codec was negotiated,
   [compress]/[decompress] = that codec (LZ4 / Snappy are library code: explicit premises).
   The model is total by construction (structural recursion, fuel = input length / nesting limit);
   C08_fuel_enough says the fuel is never the reason for an answer. *)
From SV Require Import Base.Prelude Base.Bytes Model.FrameBase Model.FrameTypes Model.FrameResp
  Model.FrameCustom Model.FrameEnc Proofs.FrameBase_proofs Proofs.FrameTop_proofs Proofs.FrameCustom_proofs Proofs.FrameC08_proofs.
Open Scope N_scope.

(* well-formed response decoded exactly, under every feature combination, whatever follows *)
Theorem C08_roundtrip : forall compress decompress,
  (forall b, decompress (compress b) = Some b) ->
  forall ft v2 cmp f rest,
  wf_frame compress ft v2 cmp f ->
  fst (decode decompress ft v2 cmp (encode_frame compress ft f ++ rest)) = ODone f.
Proof. exact (fun c d => decode_encode parse_custom c d). Qed.

(* no silent acceptance of a cut frame: every strict prefix of an encoded frame is rejected *)
Theorem C08_truncation : forall compress decompress ft v2 cmp f q,
  wf_frame compress ft v2 cmp f ->
  sprefix q (encode_frame compress ft f) ->
  is_rejected (fst (decode decompress ft v2 cmp q)) = true.
Proof. exact (fun c d => decode_truncated parse_custom c d). Qed.

(* ... also when the cut body comes with a header announcing exactly the cut length *)
Theorem C08_truncation_body : forall compress decompress ft v2 cmp f q rest,
  wf_frame compress ft v2 cmp f ->
  bit (h_flags (d_header f)) 1 = false ->
  sprefix q (enc_body ft f) ->
  let h := d_header f in
  let h' := mkHeader (h_version h) (h_flags h) (h_stream h) (h_opcode h) (lenN q) in
  is_rejected (fst (decode decompress ft v2 cmp (enc_header h' ++ q ++ rest))) = true.
Proof. exact (fun c d => decode_truncated_body parse_custom c d). Qed.

(* preallocation is proportional to the input: the sum of the capacities requested at the pinned
   `with_capacity` sites, in bytes, is at most 208 per byte of the (decompressed) input + 2^29;
   [R] = by how much the negotiated codec may expand a body *)
Theorem C08_alloc : forall decompress R,
  1 <= R -> (forall b d, decompress b = Some d -> lenN d <= R * lenN b) ->
  forall ft v2 cmp stream,
  c_alloc (snd (decode decompress ft v2 cmp stream)) <= alloc_bound (R * lenN stream).
Proof. exact decode_alloc_bound. Qed.

Theorem C08_alloc_plain : forall decompress ft v2 stream,
  c_alloc (snd (decode decompress ft v2 false stream)) <= alloc_bound (lenN stream).
Proof. exact decode_alloc_bound_plain. Qed.

(* recursion depth of the type parsers: 129 levels of the binary grammar + 128 of a custom-type
   string, whatever the input *)
Theorem C08_depth : forall decompress ft v2 cmp stream,
  c_depth (snd (decode decompress ft v2 cmp stream)) <= DEPTH_LIMIT.
Proof. exact decode_depth. Qed.

(* the fuel of the counted loops, of the type parsers and of the custom-type string parser is never
   exhausted: the model is the decoder on ALL inputs, not on those for which some fuel suffices *)
Theorem C08_fuel_enough : forall decompress ft v2 cmp stream st,
  fst (decode decompress ft v2 cmp stream) <> OErr st EOutOfFuel.
Proof. exact (fun d => decode_no_oof parse_custom d parse_custom_noof). Qed.

(* ---- non-vacuity ------------------------------------------------------------------------------ *)
(* a RESULT/Rows frame with tracing and a warning: global table spec, columns
   (list<int>, tuple<text, udt{f: uuid}>), paging state, new metadata id, two rows *)
Definition ex_ft : features := mkFeatures (Some 17185%Z) true.
Definition ex_rows : rows_result :=
  mkRows (mkRowsHdr 2 true false true (Some [1; 2; 3]))
         (Some [9; 9])
         [mkColSpec ([107; 115], [116]) [97] (TList false (TNative Int));
          mkColSpec ([107; 115], [116]) [98]
                    (TTuple [TNative Text; TUdt false [107] [117] [([102], TNative Uuid)]])]
         2
         [[Some [0; 0; 0; 1; 0; 0; 0; 4; 0; 0; 0; 7]; None]; [Some []; Some [255]]].
Definition ex_frame0 : dframe :=
  mkFrame (mkHeader 132 10 (-3)%Z 8 0)
          (mkExt (Some [1; 2; 3; 4; 5; 6; 7; 8; 9; 10; 11; 12; 13; 14; 15; 16]) [[119; 33]] None)
          (RResult (ResRows ex_rows)).
Definition ex_frame : dframe :=
  mkFrame (mkHeader 132 10 (-3)%Z 8 (lenN (enc_body ex_ft ex_frame0))) (d_ext ex_frame0) (d_resp ex_frame0).

Example C08_ex_wf : wf_frame (fun b => b) ex_ft true false ex_frame.
Proof.
  unfold wf_frame, ex_frame, ex_frame0. cbn [d_header d_ext d_resp h_version h_flags h_stream h_opcode h_length].
  assert (WB : forall l, bytes_okb l = true -> bytes_ok l) by (intros; apply bytes_okb_ok; assumption).
  split; [reflexivity|]. split; [reflexivity|]. split; [lia|]. split; [reflexivity|].
  split; [vm_compute; reflexivity|]. split; [vm_compute; reflexivity|]. split; [discriminate|].
  split.
  { unfold wf_extensions. cbn [x_trace x_warnings x_payload].
    change (bit 10 2) with true. change (bit 10 8) with true. change (bit 10 4) with false. cbv iota.
    split; [eexists; split; [reflexivity|split; [apply WB; reflexivity|reflexivity]]|].
    split; [|reflexivity]. split; [reflexivity|]. repeat constructor; try (apply WB; reflexivity). }
  unfold wf_response, wf_result, wf_rows, ex_rows.
  cbn [rr_hdr rr_meta_id rr_cols rr_rows_count rr_rows rh_col_count rh_global rh_no_metadata rh_metadata_changed rh_paging].
  split; [reflexivity|]. split; [reflexivity|]. split; [split; [apply WB|]; reflexivity|].
  split; [intros _; split; reflexivity|]. split; [split; [reflexivity|split; [apply WB|]; reflexivity]|].
  split.
  { split; [reflexivity|]. split.
    - repeat constructor; try (apply WB; reflexivity); try reflexivity; try (vm_compute; discriminate).
    - intros _. split; [discriminate|]. repeat constructor. }
  split; [reflexivity|].
  repeat constructor; try (apply WB; reflexivity); try reflexivity.
Qed.

Example C08_ex_roundtrip :
  fst (decode (fun b => Some b) ex_ft true false (encode_frame (fun b => b) ex_ft ex_frame ++ [132; 0])) = ODone ex_frame
  /\ lenN (encode_frame (fun b => b) ex_ft ex_frame) = 125.
Proof. split; vm_compute; reflexivity. Qed.

(* every one of the 125 strict prefixes is rejected, with the expected classes at the two ends *)
Example C08_ex_truncation :
  forallb (fun k => is_rejected (fst (decode (fun b => Some b) ex_ft true false
                                             (firstn k (encode_frame (fun b => b) ex_ft ex_frame)))))
          (seq 0 125) = true
  /\ fst (decode (fun b => Some b) ex_ft true false (firstn 8 (encode_frame (fun b => b) ex_ft ex_frame)))
     = OErr StHeader EHeaderIo
  /\ fst (decode (fun b => Some b) ex_ft true false (firstn 124 (encode_frame (fun b => b) ex_ft ex_frame)))
     = OErr StHeader EConnectionClosed.
Proof. repeat split; vm_compute; reflexivity. Qed.

(* the constant of C08_alloc is not slack: 129 nested user-defined types, each announcing 65535
   fields (a 1.3 KB frame), make the decoder reserve 473 MB before it fails; the nesting limit is
   reached exactly by 129 nested lists, and 130 are refused *)
Fixpoint ex_nest (k : nat) (pre : bytes) (inner : bytes) : bytes :=
  match k with O => inner | S k' => pre ++ ex_nest k' pre inner end.
Definition ex_rows_with_type (ty : bytes) : bytes :=
  let body := enc_int 2 ++ enc_int 1 ++ enc_int 1 ++ enc_string [107] ++ enc_string [116] ++ enc_string [99]
              ++ ty ++ enc_int 0 in
  enc_header (mkHeader 132 0 1 8 (lenN body)) ++ body.
Definition ex_udt_bomb : bytes :=
  ex_rows_with_type (ex_nest 129 (enc_short 48 ++ enc_short 0 ++ enc_short 0 ++ enc_short 65535 ++ enc_short 0) []).
Example C08_ex_alloc_constant :
  lenN ex_udt_bomb = 1324 /\
  c_alloc (snd (decode (fun _ => None) ex_ft true false ex_udt_bomb)) = 473426259 /\
  is_rejected (fst (decode (fun _ => None) ex_ft true false ex_udt_bomb)) = true.
Proof. repeat split; vm_compute; reflexivity. Qed.
Example C08_ex_depth :
  c_depth (snd (decode (fun _ => None) ex_ft true false (ex_rows_with_type (ex_nest 128 (enc_short 32) (enc_short 9))))) = 129
  /\ is_rejected (fst (decode (fun _ => None) ex_ft true false (ex_rows_with_type (ex_nest 128 (enc_short 32) (enc_short 9))))) = false
  /\ fst (decode (fun _ => None) ex_ft true false (ex_rows_with_type (ex_nest 129 (enc_short 32) (enc_short 9))))
     = OErr StBody ETypeNestingTooDeep.
Proof. repeat split; vm_compute; reflexivity. Qed.

Print Assumptions C08_roundtrip.
Print Assumptions C08_truncation.
Print Assumptions C08_truncation_body.
Print Assumptions C08_alloc.
Print Assumptions C08_alloc_plain.
Print Assumptions C08_depth.
Print Assumptions C08_fuel_enough.
