(* Property C08 — statements only.  Every theorem is closed by [exact] of a lemma from Proofs/;
   the statements are pinned again in /verif/pins/C08.v.

   [decode decompress ft v2 cmp stream] is the model of
     read_response_frame -> parse_response_body_extensions -> Response(V2)::deserialize ->
     deserialize_metadata -> rows_iter
   (first frame of [stream]); [encode_frame compress ft f] is the wire format written from the
   protocol document.  [ft] = negotiated features (rate-limit error code, result-metadata-id
   extension), [v2] = ResponseV2/EventV2 decoders, [cmp] = a compression codec was negotiated,
   [compress]/[decompress] = that codec (LZ4 / Snappy are library code: explicit premises).
   The model is total by construction (structural recursion, fuel = input length / nesting limit);
   C08_fuel_enough says the fuel is never the reason for an answer. *)
From SV Require Import Base.Prelude Base.Bytes Model.FrameBase Model.FrameTypes Model.FrameResp
  Model.FrameCustom Model.FrameEnc Proofs.FrameBase_proofs Proofs.FrameTop_proofs Proofs.FrameC08_proofs.
Open Scope N_scope.

(* well-formed response decoded exactly, under every feature combination, whatever follows *)
Theorem C08_roundtrip : forall compress decompress,
  (forall b, decompress (compress b) = Some b) ->
  forall ft v2 cmp f rest,
  wf_frame compress ft v2 cmp f ->
  fst (decode decompress ft v2 cmp (encode_frame compress ft f ++ rest)) = ODone f.
Proof. exact (fun c d => decode_encode parse_custom c d). Qed.

(* no silent acceptance of a cut frame: every strict prefix of an encoded frame is rejected *)
Theorem C08_truncation : forall compress decompress ft v2 cmp f q,
  wf_frame compress ft v2 cmp f ->
  sprefix q (encode_frame compress ft f) ->
  is_rejected (fst (decode decompress ft v2 cmp q)) = true.
Proof. exact (fun c d => decode_truncated parse_custom c d). Qed.

(* ... also when the cut body comes with a header announcing exactly the cut length *)
Theorem C08_truncation_body : forall compress decompress ft v2 cmp f q rest,
  wf_frame compress ft v2 cmp f ->
  bit (h_flags (d_header f)) 1 = false ->
  sprefix q (enc_body ft f) ->
  let h := d_header f in
  let h' := mkHeader (h_version h) (h_flags h) (h_stream h) (h_opcode h) (lenN q) in
  is_rejected (fst (decode decompress ft v2 cmp (enc_header h' ++ q ++ rest))) = true.
Proof. exact (fun c d => decode_truncated_body parse_custom c d). Qed.

(* preallocation is proportional to the input: the sum of the capacities requested at the pinned
   `with_capacity` sites, in bytes, is at most 208 per byte of the (decompressed) input + 2^29;
   [R] = by how much the negotiated codec may expand a body *)
Theorem C08_alloc : forall decompress R,
  1 <= R -> (forall b d, decompress b = Some d -> lenN d <= R * lenN b) ->
  forall ft v2 cmp stream,
  c_alloc (snd (decode decompress ft v2 cmp stream)) <= alloc_bound (R * lenN stream).
Proof. exact decode_alloc_bound. Qed.

Theorem C08_alloc_plain : forall decompress ft v2 stream,
  c_alloc (snd (decode decompress ft v2 false stream)) <= alloc_bound (lenN stream).
Proof. exact decode_alloc_bound_plain. Qed.

(* recursion depth of the type parsers: 129 levels of the binary grammar + 128 of a custom-type
   string, whatever the input *)
Theorem C08_depth : forall decompress ft v2 cmp stream,
  c_depth (snd (decode decompress ft v2 cmp stream)) <= DEPTH_LIMIT.
Proof. exact decode_depth. Qed.

(* C08_fuel_enough (full statement):
     forall decompress ft v2 cmp stream st,
       fst (decode decompress ft v2 cmp stream) <> OErr st EOutOfFuel.
   Proved below for the frame reader, the extensions and every response body, for EVERY
   custom-type string parser that itself never answers EOutOfFuel; the same fact for the model
   [parse_custom] of that parser (its parameter loops have fuel = remaining string length + 2) is
   not proved: it is only observed by the tie (the driver prints MODEL-OUT-OF-FUEL, a diff). *)
Theorem C08_fuel_enough_partial : forall custom decompress,
  (forall s, fst (custom s) <> Err EOutOfFuel) ->
  forall ft v2 cmp stream st,
  fst (decode_frame custom decompress ft v2 cmp stream) <> OErr st EOutOfFuel.
Proof. exact decode_no_oof. Qed.

(* ---- non-vacuity ------------------------------------------------------------------------------ *)
(* a RESULT/Rows frame with tracing and a warning: global table spec, columns
   (list<int>, tuple<text, udt{f: uuid}>), paging state, new metadata id, two rows *)
Definition ex_ft : features := mkFeatures (Some 17185%Z) true.
Definition ex_rows : rows_result :=
  mkRows (mkRowsHdr 2 true false true (Some [1; 2; 3]))
         (Some [9; 9])
         [mkColSpec ([107; 115], [116]) [97] (TList false (TNative Int));
          mkColSpec ([107; 115], [116]) [98]
                    (TTuple [TNative Text; TUdt false [107] [117] [([102], TNative Uuid)]])]
         2
         [[Some [0; 0; 0; 1; 0; 0; 0; 4; 0; 0; 0; 7]; None]; [Some []; Some [255]]].
Definition ex_frame0 : dframe :=
  mkFrame (mkHeader 132 10 (-3)%Z 8 0)
          (mkExt (Some [1; 2; 3; 4; 5; 6; 7; 8; 9; 10; 11; 12; 13; 14; 15; 16]) [[119; 33]] None)
          (RResult (ResRows ex_rows)).
Definition ex_frame : dframe :=
  mkFrame (mkHeader 132 10 (-3)%Z 8 (lenN (enc_body ex_ft ex_frame0))) (d_ext ex_frame0) (d_resp ex_frame0).
