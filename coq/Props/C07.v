(* Property C07 -- statements only.  Every theorem is closed by [exact] of a lemma from
   Proofs/Pager_proofs.v; the statements are pinned again in /verif/pins/C07.v.

   Reading guide.  A [script] is what the environment does: per page request the base plan,
   the faults hitting its attempts (each with the retry session's decision) and the response.
   [pager_init m script] is the pager right after query_iter/execute_iter returned (first page
   fetched on the caller's task, worker spawned); [run s0 ls] executes an arbitrary schedule
   [ls] of worker steps, consumer polls and a consumer drop.  [good_script]: every page is a
   Rows response whose faults are all retried with the plan lasting, exactly the last page
   says "no more pages".  [fail_point = Some (k, e)]: pages < k are like that, the fetch of
   page k ends in a non-retried failure e.  All statements hold for every script (any number
   of pages, rows, faults) and every schedule. *)
From SV Require Import Base.Prelude Model.Pager Proofs.Pager_proofs.
Open Scope N_scope.

(* the rows of the pages in server order, each once, then the end -- whatever the schedule,
   however many retried faults, with empty pages anywhere and a last page of any size; and the
   server sees exactly 1 + (retried sent attempts) requests per page, all of page i carrying
   the state returned with page i-1, those of page 0 carrying none *)
Theorem C07_rows : forall m script, good_script m script = true ->
  exists s0, pager_init m script = Some s0 /\
  forall ls s, run s0 ls = Some s -> s_cons s = CEnded ->
    s_out s = spec_stream (script_pages script) /\
    map req_key (s_reqs s) = spec_requests m script.
Proof. exact rows_thm. Qed.

(* safety at every moment of every schedule (consumer drop included): what the caller has
   been given so far is a prefix of that stream -- nothing lost, duplicated or reordered *)
Theorem C07_rows_safety : forall m script s0 ls s, good_script m script = true ->
  pager_init m script = Some s0 -> run s0 ls = Some s ->
  exists r, s_out s ++ r = spec_stream (script_pages script).
Proof. exact rows_safety_thm. Qed.

(* "then ends": every schedule is finite (bounded by a measure of the initial state); while
   the caller is reading, some step is enabled (no deadlock between the worker blocked on the
   full channel and the consumer blocked on the empty one) and the end can be reached *)
Theorem C07_ends : forall m script s0, pager_init m script = Some s0 ->
  (forall ls s, run s0 ls = Some s -> (List.length ls + mu s <= mu s0)%nat) /\
  (pdone m (s_prod s0) = true ->
   forall ls s, run s0 ls = Some s -> s_cons s = CActive ->
     ((exists s', step s LProd = Some s') \/ (exists s', step s LCons = Some s')) /\
     exists ls' s', run s ls' = Some s' /\ s_cons s' = CEnded).
Proof. exact ends_thm. Qed.

Theorem C07_good_script_answers : forall m script s0, good_script m script = true ->
  pager_init m script = Some s0 -> pdone m (s_prod s0) = true.
Proof. exact good_pdone. Qed.

(* a non-retried failure on page k: exactly the rows of pages < k, then the error, then the
   end; for k = 0 the constructor itself returns the error *)
Theorem C07_error_after_prefix : forall m script k e, fail_point m script = Some (k, e) ->
  match k with
  | O => exists rq0, start m script = (rq0, SFail e)
  | S _ => exists s0, pager_init m script = Some s0 /\
           forall ls s, run s0 ls = Some s -> s_cons s = CEnded ->
             s_out s = spec_error_stream (script_pages script) k e
  end.
Proof. exact error_thm. Qed.

(* for EVERY script (any faults, any responses) and every schedule: each request ever sent
   carries the paging state returned with the previous page, the first page's requests carry
   none; in particular all retries of one page carry the same state *)
Theorem C07_states : forall m script,
  (forall r, In r (fst (start m script)) -> rq_page r = 0%nat /\ rq_state r = None) /\
  (forall s0 ls s r, pager_init m script = Some s0 -> run s0 ls = Some s -> In r (s_reqs s) ->
     rq_state r = spec_state (script_pages script) (rq_page r) /\
     (rq_page r < List.length script)%nat).
Proof. exact states_thm. Qed.

(* retries re-send requests but never re-deliver rows: with pairwise distinct rows the
   delivered stream has no duplicate at any moment of any schedule *)
Theorem C07_no_dup_under_retry : forall m script s0 ls s, good_script m script = true ->
  NoDup (concat (served_pages (script_pages script))) ->
  pager_init m script = Some s0 -> run s0 ls = Some s -> NoDup (s_out s).
Proof. exact no_dup_thm. Qed.

(* consumer drop: from ANY state, after the drop the worker fetches at most one more page,
   takes at most two more steps (then it has returned), delivers nothing, and the requests it
   still sends all belong to one page *)
Theorem C07_early_drop : forall s0 ls1 ls2 s1 s2,
  run s0 ls1 = Some s1 -> run s1 (LDrop :: ls2) = Some s2 ->
  (s_fetched s2 <= S (s_fetched s1))%nat /\
  (List.length ls2 <= 2)%nat /\
  (List.length ls2 = prank (s_prod s1) -> s_prod s2 = PDone) /\
  s_out s2 = s_out s1 /\
  exists i st ts, s_reqs s2 = s_reqs s1 ++ map (mk_req i st) ts.
Proof. exact early_drop. Qed.

(* slow consumer: the worker is never more than two pages ahead of what the consumer has
   taken out of the channel (one buffered, one fetched and waiting for a permit) *)
Theorem C07_read_ahead : forall m script s0 ls s,
  pager_init m script = Some s0 -> run s0 ls = Some s ->
  (S (s_recv s) <= s_fetched s <= s_recv s + 3)%nat.
Proof. exact read_ahead_thm. Qed.

(* the sequential reference the driver evaluates equals what every complete schedule yields *)
Theorem C07_schedule_independent : forall m script rq0 rows p ls s,
  start m script = (rq0, SPager rows p) ->
  run (init_sys m rq0 rows p) ls = Some s -> s_cons s = CEnded ->
  OStream (s_out s) = snd (seq_run m script) /\ s_reqs s = fst (seq_run m script).
Proof. exact sched_full. Qed.

(* acceptors of the correspondence check: accepted => the property holds for that trace;
   every complete schedule of the model is accepted *)
Theorem C07_accept_full_sound : forall m script oi ok, accept_full m script oi ok = true ->
  (good_script m script = true ->
     oi = spec_stream (script_pages script) /\ ok = spec_requests m script) /\
  (forall k e, fail_point m script = Some (k, e) ->
     oi = spec_error_stream (script_pages script) k e) /\
  (forall i st, In (i, st) ok -> st = spec_state (script_pages script) i).
Proof. exact accept_full_property. Qed.

Theorem C07_accept_full_complete : forall m script,
  (forall s0 ls s, pager_init m script = Some s0 -> run s0 ls = Some s -> s_cons s = CEnded ->
     accept_full m script (s_out s) (map req_key (s_reqs s)) = true) /\
  (forall rq0 e, start m script = (rq0, SFail e) ->
     accept_full m script [IErr e; IEnd] (map req_key rq0) = true).
Proof. exact accept_full_complete_thm. Qed.

Theorem C07_accept_drop_sound : forall m script n oi ok,
  accept_drop m script n oi ok = true ->
  (forall i st, In (i, st) ok -> st = spec_state (script_pages script) i) /\
  (good_script m script = true ->
     (exists r, oi ++ r = spec_stream (script_pages script)) /\
     (exists r, ok ++ r = spec_requests m script)).
Proof. exact accept_drop_thm. Qed.

(* ... and complete for every "lazy consumer" schedule: the caller has just been handed an
   item (or has not polled at all), the worker runs for any while, the caller drops the
   stream, anything may follow -- whatever the worker still does is accepted *)
Theorem C07_accept_drop_complete : forall m script s0 lsa sa sb lp s1 ls2 s2,
  pager_init m script = Some s0 ->
  run s0 lsa = Some sa ->
  (sb = sa /\ lsa = [] \/
   step sa LCons = Some sb /\ List.length (s_out sb) = S (List.length (s_out sa))) ->
  s_cons sb = CActive ->
  Forall (eq LProd) lp -> run sb lp = Some s1 ->
  run s1 (LDrop :: ls2) = Some s2 ->
  accept_drop m script (List.length (s_out s2)) (s_out s2) (map req_key (s_reqs s2)) = true.
Proof. exact accept_drop_complete. Qed.

(* what the code does when the retry policy answers IgnoreWriteError to a failed page fetch
   (pages < k read, page k ignored): it stops fetching and the stream ends WITHOUT an error.
   Recorded as observation O1 in docs/C07.md: this is the one kind of non-retried failure that
   does not surface. *)
Theorem C07_ignored_write_error_ends_silently : forall m script k,
  ignore_point m script = Some k ->
  exists s0, pager_init m script = Some s0 /\
  forall ls s, run s0 ls = Some s -> s_cons s = CEnded ->
    s_out s = spec_truncated_stream (script_pages script) k.
Proof. exact ignored_thm. Qed.

(* ---- non-vacuity: concrete scripts and schedules ---------------------------------------- *)
Definition ex_script : list pscript :=
  [ mk_ps [0; 1; 2] [FErr 4097 DSame] (RRows [1; 2] (Some [170]));
    mk_ps [2; 0; 1] [FErr 4098 DNext; FConnFail] (RRows [] (Some []));
    mk_ps [1; 2; 0] [] (RRows [3] None) ].

Example C07_ex_good :
  good_script MSession ex_script = true /\
  seq_run MSession ex_script =
    ([mk_req 0 None 0; mk_req 0 None 0;
      mk_req 1 (Some [170]) 0; mk_req 1 (Some [170]) 1;
      mk_req 2 (Some []) 1],
     OStream [IRow 1; IRow 2; IRow 3; IEnd]) /\
  spec_requests MSession ex_script =
    [(0%nat, None); (0%nat, None); (1%nat, Some [170]); (1%nat, Some [170]); (2%nat, Some [])].
Proof. repeat split; vm_compute; reflexivity. Qed.

(* one concrete interleaving (worker runs ahead, consumer catches up) and one where the
   consumer is polled as early as possible; both end with the same stream *)
Example C07_ex_schedules :
  (exists s0 s, pager_init MSession ex_script = Some s0 /\
     run s0 [LProd; LProd; LProd; LCons; LCons; LCons; LProd; LCons; LCons] = Some s /\
     s_cons s = CEnded /\ s_out s = [IRow 1; IRow 2; IRow 3; IEnd]) /\
  (exists s0 s, pager_init MSession ex_script = Some s0 /\
     run s0 [LCons; LCons; LProd; LProd; LCons; LProd; LProd; LCons; LCons] = Some s /\
     s_cons s = CEnded /\ s_out s = [IRow 1; IRow 2; IRow 3; IEnd]).
Proof. split; eexists; eexists; (split; [reflexivity|]); vm_compute; repeat split. Qed.

Definition ex_fail_script : list pscript :=
  [ mk_ps [0; 1] [] (RRows [1; 2] (Some [7]));
    mk_ps [0; 1] [FErr 4097 DNext; FErr 8704 DDont] (RRows [3] None) ].

Example C07_ex_fail :
  fail_point MSession ex_fail_script = Some (1%nat, 8704) /\
  snd (seq_run MSession ex_fail_script) = OStream [IRow 1; IRow 2; IErr 8704; IEnd] /\
  fail_point MConn ex_fail_script = Some (1%nat, 4097) /\
  fail_point MSession [mk_ps [0] [FTimeout] RVoid] = Some (0%nat, e_timeout).
Proof. repeat split; vm_compute; reflexivity. Qed.

Example C07_ex_drop :
  exists s0 s1 s2, pager_init MSession ex_script = Some s0 /\
    run s0 [LCons; LProd; LProd] = Some s1 /\ run s1 [LDrop; LProd; LProd] = Some s2 /\
    s_fetched s1 = 2%nat /\ s_fetched s2 = 3%nat /\ s_prod s2 = PDone /\
    s_out s2 = [IRow 1] /\ List.length (s_reqs s2) = 5%nat.
Proof. eexists; eexists; eexists. vm_compute. repeat split. Qed.

Example C07_ex_accept :
  accept_full MSession ex_script [IRow 1; IRow 2; IRow 3; IEnd]
    [(0%nat, None); (0%nat, None); (1%nat, Some [170]); (1%nat, Some [170]); (2%nat, Some [])] = true /\
  accept_full MSession ex_script [IRow 1; IRow 2; IRow 2; IRow 3; IEnd]
    [(0%nat, None); (0%nat, None); (1%nat, Some [170]); (1%nat, Some [170]); (2%nat, Some [])] = false /\
  accept_drop MSession ex_script 1 [IRow 1]
    [(0%nat, None); (0%nat, None); (1%nat, Some [170]); (1%nat, Some [170])] = true /\
  accept_drop MSession ex_script 1 [IRow 1]
    [(0%nat, None); (0%nat, None); (1%nat, None)] = false.
Proof. repeat split; vm_compute; reflexivity. Qed.

Example C07_ex_ignore :
  ignore_point MSession
    [ mk_ps [0; 1] [] (RRows [1; 2] (Some [7]));
      mk_ps [0; 1] [FErr 4097 DSame; FErr 4352 DIgnore] (RRows [3] None) ] = Some 1%nat /\
  snd (seq_run MSession
    [ mk_ps [0; 1] [] (RRows [1; 2] (Some [7]));
      mk_ps [0; 1] [FErr 4097 DSame; FErr 4352 DIgnore] (RRows [3] None) ])
  = OStream [IRow 1; IRow 2; IEnd].
Proof. split; vm_compute; reflexivity. Qed.

Print Assumptions C07_rows.
Print Assumptions C07_rows_safety.
Print Assumptions C07_ends.
Print Assumptions C07_good_script_answers.
Print Assumptions C07_error_after_prefix.
Print Assumptions C07_states.
Print Assumptions C07_no_dup_under_retry.
Print Assumptions C07_early_drop.
Print Assumptions C07_read_ahead.
Print Assumptions C07_schedule_independent.
Print Assumptions C07_accept_full_sound.
Print Assumptions C07_accept_full_complete.
Print Assumptions C07_accept_drop_sound.
Print Assumptions C07_accept_drop_complete.
Print Assumptions C07_ignored_write_error_ends_silently.
