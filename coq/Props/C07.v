(* Property C07 -- statements only.  Every theorem is closed by [exact] of a lemma from
   Proofs/Pager_proofs.v; the statements are pinned again in /verif/pins/C07.v.

   Reading guide.  A [script] is what the environment does: per page request the base plan,
   the faults hitting its attempts (each with the retry session's decision) and the response.
   [pager_init m script] is the pager right after query_iter/execute_iter returned (first page
   fetched on the caller's task, worker spawned); [run s0 ls] executes an arbitrary schedule
   [ls] of worker steps, consumer polls and a consumer drop.  [good_script]: every page is a
   Rows response whose faults are all retried with the plan lasting, exactly the last page
   says "no more pages".  [expected true m n true script] is THE PROPERTY as the stream a
   full read must deliver, for every way a page request can end (plans_ok: every plan enumerates
   the same n nodes); [fail_point .. = Some (k, e)]: pages < k return rows and announce more,
   the request of page k ends without rows with error e (DontRetry, client timeout, plan
   exhausted, empty plan, no connection, non-Rows response, IgnoreWriteError).  All statements hold for every script (any number
   of pages, rows, faults) and every schedule. *)
From SV Require Import Base.Prelude Model.Pager Proofs.Pager_proofs Proofs.C07_round4.
Open Scope N_scope.

(* the rows of the pages in server order, each once, then the end -- whatever the schedule,
   however many retried faults, with empty pages anywhere and a last page of any size; and the
   server sees exactly 1 + (retried sent attempts) requests per page, all of page i carrying
   the state returned with page i-1, those of page 0 carrying none *)
Theorem C07_rows : forall m script, good_script m script = true ->
  exists s0, pager_init m script = Some s0 /\
  forall ls s, run s0 ls = Some s -> s_cons s = CEnded ->
    s_out s = spec_stream (script_pages script) /\
    map req_key (s_reqs s) = spec_requests m script.
Proof. exact rows_thm. Qed.

(* safety at every moment of every schedule (consumer drop included): what the caller has
   been given so far is a prefix of that stream -- nothing lost, duplicated or reordered *)
Theorem C07_rows_safety : forall m script s0 ls s, good_script m script = true ->
  pager_init m script = Some s0 -> run s0 ls = Some s ->
  exists r, s_out s ++ r = spec_stream (script_pages script).
Proof. exact rows_safety_thm. Qed.

(* "then ends": every schedule is finite (bounded by a measure of the initial state); while
   the caller is reading, some step is enabled (no deadlock between the worker blocked on the
   full channel and the consumer blocked on the empty one) and the end can be reached *)
Theorem C07_ends : forall m script s0, pager_init m script = Some s0 ->
  (forall ls s, run s0 ls = Some s -> (List.length ls + mu s <= mu s0)%nat) /\
  (pdone m (s_prod s0) = true ->
   forall ls s, run s0 ls = Some s -> s_cons s = CActive ->
     ((exists s', step s LProd = Some s') \/ (exists s', step s LCons = Some s')) /\
     exists ls' s', run s ls' = Some s' /\ s_cons s' = CEnded).
Proof. exact ends_thm. Qed.

Theorem C07_good_script_answers : forall m script s0, good_script m script = true ->
  pager_init m script = Some s0 -> pdone m (s_prod s0) = true.
Proof. exact good_pdone. Qed.

(* THE PROPERTY for every script whose plans enumerate the same nodes, outside the known-finding
   class O1: a complete read delivers exactly the expected stream -- rows of the pages up to the
   first one without a next state, each once, in order, then the end; or, when a page request
   ends without rows in ANY way, the rows of the earlier pages, the error, the end (for the first
   page: the constructor returns the error) -- and at every moment of every schedule (consumer
   drop included) what has been delivered is a prefix of it *)
Theorem C07_stream : forall m nodes script its, plans_ok nodes script = true ->
  known_ignored m (List.length nodes) script = false ->
  expected true m (List.length nodes) true script = Some its ->
  (forall rq0 e, start m script = (rq0, SFail e) -> its = [IErr e; IEnd]) /\
  (forall s0 ls s, pager_init m script = Some s0 -> run s0 ls = Some s ->
     (s_cons s = CEnded -> s_out s = its) /\ exists r, s_out s ++ r = its).
Proof. exact stream_thm. Qed.

(* "a non-retried failure surfaces as an error after all rows of earlier pages": every way the
   request of page k can end without rows; k = 0 is the only case in which the constructor fails *)
Theorem C07_error_after_prefix : forall m nodes script k e, plans_ok nodes script = true ->
  known_ignored m (List.length nodes) script = false ->
  fail_point m (List.length nodes) true script = Some (k, e) ->
  (forall rq0 e', start m script = (rq0, SFail e') -> k = 0%nat /\ e' = e) /\
  (forall s0 ls s, pager_init m script = Some s0 -> run s0 ls = Some s ->
     (s_cons s = CEnded -> s_out s = spec_error_stream (script_pages script) k e) /\
     exists r, s_out s ++ r = spec_error_stream (script_pages script) k e).
Proof. exact error_thm. Qed.

Theorem C07_fail_point_is_expected : forall m n script first k e,
  fail_point m n first script = Some (k, e) ->
  expected true m n first script = Some (spec_error_stream (script_pages script) k e).
Proof. exact fail_point_expected. Qed.

(* the two classifications agree: a good script is one whose expected stream is all rows *)
Theorem C07_good_is_expected : forall m nodes script, plans_ok nodes script = true ->
  good_script m script = true ->
  expected false m (List.length nodes) true script = Some (spec_stream (script_pages script)) /\
  known_ignored m (List.length nodes) script = false.
Proof. exact good_is_expected. Qed.

(* REFUTED for the class O1 (finding "ignore-write-error-silent-end"): when the retry session
   answers IgnoreWriteError to a failed page request, the code stops fetching and the stream ends
   WITHOUT the error the property demands *)
Theorem C07_ignore_refuted : exists m nodes script its s0 ls s,
  plans_ok nodes script = true /\
  expected true m (List.length nodes) true script = Some its /\
  pager_init m script = Some s0 /\ run s0 ls = Some s /\ s_cons s = CEnded /\ s_out s <> its.
Proof. exact ignore_refuted. Qed.

(* what the code does on that class, for every script and schedule: the non-strict stream *)
Theorem C07_ignored_write_error_ends_silently : forall m nodes script its,
  plans_ok nodes script = true -> known_ignored m (List.length nodes) script = true ->
  expected false m (List.length nodes) true script = Some its ->
  (forall s0 ls s, pager_init m script = Some s0 -> run s0 ls = Some s -> s_cons s = CEnded ->
     s_out s = its) /\
  expected true m (List.length nodes) true script <> Some its.
Proof. exact ignored_thm. Qed.

(* for EVERY script (any faults, any responses) and every schedule: each request ever sent
   carries the paging state returned with the previous page, the first page's requests carry
   none; in particular all retries of one page carry the same state *)
Theorem C07_states : forall m script,
  (forall r, In r (fst (start m script)) -> rq_page r = 0%nat /\ rq_state r = None) /\
  (forall s0 ls s r, pager_init m script = Some s0 -> run s0 ls = Some s -> In r (s_reqs s) ->
     rq_state r = spec_state (script_pages script) (rq_page r) /\
     (rq_page r < List.length script)%nat).
Proof. exact states_thm. Qed.

(* retries re-send requests but never re-deliver rows: with pairwise distinct rows the
   delivered stream has no duplicate at any moment of any schedule *)
Theorem C07_no_dup_under_retry : forall m script s0 ls s, good_script m script = true ->
  NoDup (concat (served_pages (script_pages script))) ->
  pager_init m script = Some s0 -> run s0 ls = Some s -> NoDup (s_out s).
Proof. exact no_dup_thm. Qed.

(* consumer drop: from ANY state, after the drop the worker fetches at most one more page,
   takes at most two more steps (then it has returned), delivers nothing, and the requests it
   still sends all belong to one page *)
Theorem C07_early_drop : forall s0 ls1 ls2 s1 s2,
  run s0 ls1 = Some s1 -> run s1 (LDrop :: ls2) = Some s2 ->
  (s_fetched s2 <= S (s_fetched s1))%nat /\
  (List.length ls2 <= 2)%nat /\
  (List.length ls2 = prank (s_prod s1) -> s_prod s2 = PDone) /\
  s_out s2 = s_out s1 /\
  exists i st ts, s_reqs s2 = s_reqs s1 ++ map (mk_req i st) ts.
Proof. exact early_drop. Qed.

(* slow consumer: the worker is never more than two pages ahead of what the consumer has
   taken out of the channel (one buffered, one fetched and waiting for a permit) *)
Theorem C07_read_ahead : forall m script s0 ls s,
  pager_init m script = Some s0 -> run s0 ls = Some s ->
  (S (s_recv s) <= s_fetched s <= s_recv s + 3)%nat.
Proof. exact read_ahead_thm. Qed.

(* the sequential reference the driver evaluates equals what every complete schedule yields *)
Theorem C07_schedule_independent : forall m script rq0 rows p ls s,
  start m script = (rq0, SPager rows p) ->
  run (init_sys m rq0 rows p) ls = Some s -> s_cons s = CEnded ->
  OStream (s_out s) = snd (seq_run m script) /\ s_reqs s = fst (seq_run m script).
Proof. exact sched_full. Qed.

(* acceptors of the correspondence check: accepted => the property holds for that trace;
   every complete schedule of the model is accepted *)
Theorem C07_accept_full_sound : forall m nodes script oi ok, accept_full m script oi ok = true ->
  (plans_ok nodes script = true -> known_ignored m (List.length nodes) script = false ->
     prop_full_ok m (List.length nodes) script oi ok = true) /\
  (good_script m script = true ->
     oi = spec_stream (script_pages script) /\ ok = spec_requests m script) /\
  (forall i st, In (i, st) ok -> st = spec_state (script_pages script) i).
Proof. exact accept_full_thm. Qed.

Theorem C07_accept_full_complete : forall m script,
  (forall s0 ls s, pager_init m script = Some s0 -> run s0 ls = Some s -> s_cons s = CEnded ->
     accept_full m script (s_out s) (map req_key (s_reqs s)) = true) /\
  (forall rq0 e, start m script = (rq0, SFail e) ->
     accept_full m script [IErr e; IEnd] (map req_key rq0) = true).
Proof. exact accept_full_complete_thm. Qed.

Theorem C07_accept_drop_sound : forall m nodes script cnt oi ok,
  accept_drop m script cnt oi ok = true ->
  plans_ok nodes script = true -> known_ignored m (List.length nodes) script = false ->
  (exists rq0 rows p, start m script = (rq0, SPager rows p)) ->
  prop_drop_ok m (List.length nodes) script cnt oi ok = true.
Proof. exact accept_drop_prop. Qed.

(* ... and complete for every "lazy consumer" schedule: the caller has just been handed an
   item (or has not polled at all), the worker runs for any while, the caller drops the
   stream, anything may follow -- whatever the worker still does is accepted *)
Theorem C07_accept_drop_complete : forall m script s0 lsa sa sb lp s1 ls2 s2,
  pager_init m script = Some s0 ->
  run s0 lsa = Some sa ->
  (sb = sa /\ lsa = [] \/
   step sa LCons = Some sb /\ List.length (s_out sb) = S (List.length (s_out sa))) ->
  s_cons sb = CActive ->
  Forall (eq LProd) lp -> run sb lp = Some s1 ->
  run s1 (LDrop :: ls2) = Some s2 ->
  accept_drop m script (List.length (s_out s2)) (s_out s2) (map req_key (s_reqs s2)) = true.
Proof. exact accept_drop_complete. Qed.

(* the client-side page timeout racing the fetch (T cases of the tie): an observation accepted
   through [accept_full_timeout] is a full read of the SAME pages under an environment that
   differs from the script only by the timeout striking an earlier attempt, and satisfies the
   property predicate for that environment *)
Theorem C07_early_timeout_sound : forall m nodes script ctor oi ok,
  accept_full_timeout m script ctor oi ok = true -> plans_ok nodes script = true ->
  exists sc, In sc (early_timeouts script) /\ plans_ok nodes sc = true /\
    script_pages sc = script_pages script /\
    (known_ignored m (List.length nodes) sc = false ->
       prop_full_ok m (List.length nodes) sc oi ok = true).
Proof. exact early_timeout_sound. Qed.

(* the environments it ranges over, and the streams they admit: cutting a page's faults after i
   and striking there either yields the timeout error or the outcome the page had anyway; with
   the earlier pages returning rows, the stream is their rows, the timeout error, the end *)
Theorem C07_early_timeout_shape : forall script sc, In sc (early_timeouts script) ->
  exists pre ps rest i, script = pre ++ ps :: rest /\ sc = pre ++ with_timeout i ps :: rest /\
    (i <= List.length (ps_faults ps))%nat.
Proof. exact early_timeouts_shape. Qed.

Theorem C07_early_timeout_cut : forall m n ps i,
  spec_page m n (with_timeout i ps) = PoErr e_timeout \/
  spec_page m n (with_timeout i ps) = spec_page m n ps.
Proof. exact early_timeout_cut. Qed.

Theorem C07_early_timeout_stream : forall m n pre ps rest i first,
  (forall q, In q pre -> exists rows st, spec_page m n q = PoResp (RRows rows (Some st))) ->
  spec_page m n (with_timeout i ps) = PoErr e_timeout ->
  expected true m n first (pre ++ with_timeout i ps :: rest) =
    Some (spec_error_stream (script_pages (pre ++ ps :: rest)) (List.length pre) e_timeout).
Proof. exact early_timeout_stream. Qed.

(* target identities, for EVERY plan oracle (any duplicate-free non-empty plans, any faults): the
   requests of page i+1 start at the node that answered page i; RetrySameTarget and a transparent
   re-prepare stay on the node; RetryNextTarget and a connection that cannot be acquired move to
   a node not used before in this page; the plan running out ends the page's requests.
   [coord_ok] is the relation the tie evaluates on the nodes of the requests seen by the mock
   (Session modes; of a drop case's last observed page only the first request). *)
Theorem C07_coordinator_stability : forall script, Forall plan_fine script ->
  coord_ok None script (seq_targets script) = true.
Proof. exact (fun script => coord_thm script None). Qed.

Theorem C07_seq_targets_are_requests : forall script,
  (exists rows p rq0, start MSession script = (rq0, SPager rows p)) ->
  flat_map tag_page (enumerate_from 0 (seq_targets script)) =
  map (fun r => (rq_page r, rq_target r)) (fst (seq_run MSession script)).
Proof. exact seq_targets_reqs. Qed.

(* resuming with a caller-supplied PagingState (query_single_page / execute_single_page).  That
   every attempt carries the caller's state is how [single_run] is DEFINED (it is checked by the
   tie, kind P, not proved).  Proved: the caller gets what the decisions mean -- the same
   count-based outcome as a pager's page request -- for every plan that enumerates the nodes;
   and the attempts go to nodes as the coordinator rules say (fresh plan). *)
Theorem C07_single_page_outcome : forall nodes st ps, NoDup nodes -> page_ok nodes ps ->
  List.length (fst (single_run st ps)) = List.length (fst (fetch_one MSession None ps)) /\
  match single_expected (List.length nodes) ps with
  | PoResp r => exists c, snd (single_run st ps) = FCompleted c r
  | PoErr e => snd (single_run st ps) = FFailed e
  | PoIgnored e => exists c, snd (single_run st ps) = FIgnored c
  end.
Proof. exact single_thm. Qed.

Theorem C07_single_page_targets : forall ps, plan_fine ps ->
  follows (ps_faults ps) None [] (fst (fetch_one MSession None ps)) = true.
Proof. exact single_targets. Qed.

(* the acceptor of the single-page cases against the LOOP-FREE specification (plans enumerate
   the nodes): an accepted observation carries the caller's state on every request; the caller got,
   exactly once, the result or the error the closed form [spec_page_closed] says; the server saw
   the closed-form number of requests [requests_closed]; the nodes obey the plan rules.
   (Replaces the definitional C07_accept_single_unfolds.) *)
Theorem C07_accept_single_sound : forall nodes st ps obs ok nodes_,
  accept_single st ps obs ok nodes_ = true -> NoDup nodes -> page_ok nodes ps -> nodes <> [] ->
  prop_single_ok st ok = true /\
  obs = sres_of (spec_page_closed MSession (List.length nodes) ps) /\
  List.length ok = requests_closed (ps_faults ps) (List.length nodes - 1) 0 /\
  follows (ps_faults ps) None [] nodes_ = true.
Proof. exact accept_single_sound_closed. Qed.

(* the model's own single-page run is accepted (reflexivity of the tests + C07_single_page_targets) *)
Theorem C07_accept_single_accepts_model : forall st ps, plan_fine ps ->
  accept_single st ps (single_result (snd (single_run st ps))) (fst (single_run st ps))
                (fst (fetch_one MSession None ps)) = true.
Proof. exact accept_single_complete. Qed.

(* early drop of a read whose script holds a client timeout: the same tolerance as for full
   reads, sound in the same sense *)
Theorem C07_drop_timeout_sound : forall m nodes script cnt oi ok,
  accept_drop_timeout m script cnt oi ok = true -> plans_ok nodes script = true ->
  exists sc, In sc (early_timeouts script) /\ plans_ok nodes sc = true /\
    script_pages sc = script_pages script /\
    (known_ignored m (List.length nodes) sc = false ->
       prop_drop_ok m (List.length nodes) sc cnt oi ok = true).
Proof. exact drop_timeout_sound. Qed.

(* how a page request ends, in closed form (positions and counts, no loop): it ends at the first
   fault that is terminal by itself or that asks for another target when the spare targets are
   used up; otherwise the response arrives.  Equal to the recursive [spec_page] used above. *)
Theorem C07_page_outcome_closed_form : forall m n ps, spec_page m n ps = spec_page_closed m n ps.
Proof. exact spec_page_closed_eq. Qed.

(* how many requests a page needs, for ANY duplicate-free plan: one per sent fault before the
   fault that ends the request, plus the ending attempt (unless the request ended on a target
   whose connection could not be acquired), plus the successful attempt when nothing ends it.
   In particular RetryNextTarget / an unavailable connection is followed by another attempt
   exactly while a spare target remains. *)
Theorem C07_attempts_request_count : forall fs resp t rest used,
  List.length (fst (attempts fs resp t rest)) = requests_closed fs (List.length rest + used) used.
Proof. exact attempts_count. Qed.

Theorem C07_page_request_count : forall nodes stable ps, NoDup nodes -> page_ok nodes ps ->
  stable_ok MSession nodes stable -> nodes <> [] ->
  List.length (fst (fetch_one MSession stable ps)) =
  requests_closed (ps_faults ps) (List.length nodes - 1) 0.
Proof. exact fetch_count. Qed.

(* coordinator stability tightened (a theorem about the model, [coord_ok] itself stays lax): every
   page of the model's target trace has exactly the closed-form length, so a page's requests end
   early only when the plan has run out *)
Theorem C07_coordinator_page_lengths : forall nodes, NoDup nodes -> nodes <> [] ->
  forall script stable, Forall (page_ok nodes) script -> stable_ok MSession nodes stable ->
  map (@List.length N) (worker_targets stable script) =
  map (fun ps => requests_closed (ps_faults ps) (List.length nodes - 1) 0)
      (firstn (List.length (worker_targets stable script)) script).
Proof. exact targets_count. Qed.

(* ---- deepening round 4: what the extracted acceptors / predicates of the driver MEAN ---------- *)

(* [accept_full] is exact comparison with the sequential reference [seq_run] (items through
   [obs_items]: a constructor error reads "error, end"; a stuck reference reads as no items) *)
Theorem C07_accept_full_exact : forall m script oi ok,
  accept_full m script oi ok = true <->
  oi = obs_items (snd (seq_run m script)) /\ ok = map req_key (fst (seq_run m script)).
Proof. exact accept_full_iff. Qed.

(* the property predicates as propositions: every observed request carries the state returned with
   the page before it, and IF the expected stream is defined the items are it (its first cnt
   items); so on a script that lets the server go silent only the states are constrained *)
Theorem C07_prop_predicates_meaning : forall m n script,
  (forall oi ok, prop_full_ok m n script oi ok = true <->
     (forall i st, In (i, st) ok -> st = spec_state (script_pages script) i) /\
     (forall its, expected true m n true script = Some its -> oi = its)) /\
  (forall cnt oi ok, prop_drop_ok m n script cnt oi ok = true <->
     (forall i st, In (i, st) ok -> st = spec_state (script_pages script) i) /\
     (forall its, expected true m n true script = Some its -> oi = firstn cnt its)).
Proof. exact prop_ok_iff. Qed.

(* the constructor flag the timeout acceptors compare *)
Theorem C07_ctor_fails_iff : forall m script,
  (ctor_fails m script = true <-> exists rq0 e, start m script = (rq0, SFail e)) /\
  (forall s0, pager_init m script = Some s0 -> ctor_fails m script = false).
Proof. exact ctor_fails_iff. Qed.

(* the environments of the timeout tolerance, exactly (C07_early_timeout_shape as an iff): one
   page's fault list cut after i <= its length and a timeout there, no scripted T on a page before *)
Theorem C07_early_timeouts_exact : forall script sc,
  In sc (early_timeouts script) <->
  exists pre ps rest i, script = pre ++ ps :: rest /\ sc = pre ++ with_timeout i ps :: rest /\
    (i <= List.length (ps_faults ps))%nat /\
    Forall (fun q => existsb is_timeout (ps_faults q) = false) pre.
Proof. exact early_timeouts_iff. Qed.

(* completeness of the two timeout acceptors: whatever the model does under one of those
   environments is accepted -- every complete schedule (constructor flag false), a constructor
   error (flag true), every "lazy consumer, worker runs, drop" schedule *)
Theorem C07_early_timeout_complete : forall m script sc, In sc (early_timeouts script) ->
  (forall s0 ls s, pager_init m sc = Some s0 -> run s0 ls = Some s -> s_cons s = CEnded ->
     accept_full_timeout m script false (s_out s) (map req_key (s_reqs s)) = true) /\
  (forall rq0 e, start m sc = (rq0, SFail e) ->
     accept_full_timeout m script true [IErr e; IEnd] (map req_key rq0) = true).
Proof. exact early_timeout_complete. Qed.

Theorem C07_drop_timeout_complete : forall m script sc s0 lsa sa sb lp s1 ls2 s2,
  In sc (early_timeouts script) ->
  pager_init m sc = Some s0 ->
  run s0 lsa = Some sa ->
  (sb = sa /\ lsa = [] \/
   step sa LCons = Some sb /\ List.length (s_out sb) = S (List.length (s_out sa))) ->
  s_cons sb = CActive ->
  Forall (eq LProd) lp -> run sb lp = Some s1 ->
  run s1 (LDrop :: ls2) = Some s2 ->
  accept_drop_timeout m script (List.length (s_out s2)) (s_out s2) (map req_key (s_reqs s2)) = true.
Proof. exact drop_timeout_complete. Qed.

(* the primitives of the node relation [follows] / [coord_ok] *)
Theorem C07_coord_primitives :
  (forall t used x, fits (Some t) used x = true <-> x = t) /\
  (forall used x, fits None used x = true <-> ~ In x used) /\
  (forall (l : list target), last_opt l = None <-> l = []) /\
  (forall (l : list target) x, last_opt l = Some x <-> exists pre, l = pre ++ [x]).
Proof. exact coord_primitives. Qed.

(* ---- non-vacuity: concrete scripts and schedules ---------------------------------------- *)
Definition ex_script : list pscript :=
  [ mk_ps [0; 1; 2] [FErr 4097 DSame] (RRows [1; 2] (Some [170]));
    mk_ps [2; 0; 1] [FErr 4098 DNext; FConnFail] (RRows [] (Some []));
    mk_ps [1; 2; 0] [] (RRows [3] None) ].

Example C07_ex_good :
  good_script MSession ex_script = true /\
  seq_run MSession ex_script =
    ([mk_req 0 None 0; mk_req 0 None 0;
      mk_req 1 (Some [170]) 0; mk_req 1 (Some [170]) 1;
      mk_req 2 (Some []) 1],
     OStream [IRow 1; IRow 2; IRow 3; IEnd]) /\
  spec_requests MSession ex_script =
    [(0%nat, None); (0%nat, None); (1%nat, Some [170]); (1%nat, Some [170]); (2%nat, Some [])].
Proof. repeat split; vm_compute; reflexivity. Qed.

(* one concrete interleaving (worker runs ahead, consumer catches up) and one where the
   consumer is polled as early as possible; both end with the same stream *)
Example C07_ex_schedules :
  (exists s0 s, pager_init MSession ex_script = Some s0 /\
     run s0 [LProd; LProd; LProd; LCons; LCons; LCons; LProd; LCons; LCons] = Some s /\
     s_cons s = CEnded /\ s_out s = [IRow 1; IRow 2; IRow 3; IEnd]) /\
  (exists s0 s, pager_init MSession ex_script = Some s0 /\
     run s0 [LCons; LCons; LProd; LProd; LCons; LProd; LProd; LCons; LCons] = Some s /\
     s_cons s = CEnded /\ s_out s = [IRow 1; IRow 2; IRow 3; IEnd]).
Proof. split; eexists; eexists; (split; [reflexivity|]); vm_compute; repeat split. Qed.

Definition ex_fail_script : list pscript :=
  [ mk_ps [0; 1] [] (RRows [1; 2] (Some [7]));
    mk_ps [0; 1] [FErr 4097 DNext; FErr 8704 DDont] (RRows [3] None) ].

Example C07_ex_fail :
  fail_point MSession 2 true ex_fail_script = Some (1%nat, 8704) /\
  expected true MSession 2 true ex_fail_script = Some [IRow 1; IRow 2; IErr 8704; IEnd] /\
  snd (seq_run MSession ex_fail_script) = OStream [IRow 1; IRow 2; IErr 8704; IEnd] /\
  fail_point MConn 2 true ex_fail_script = Some (1%nat, 4097) /\
  fail_point MSession 1 true [mk_ps [0] [FTimeout] RVoid] = Some (0%nat, e_timeout) /\
  known_ignored MSession 2 ex_fail_script = false /\ plans_ok [0; 1] ex_fail_script = true.
Proof. repeat split; vm_compute; reflexivity. Qed.

(* every other way a page request ends without rows is in the failure class too, and the
   specification agrees with the model on each (the cases the first audit found uncovered) *)
Definition pg12 := mk_ps [0] [] (RRows [1; 2] (Some [170])).
Example C07_ex_fail_classes :
  (* plan exhausted after RetryNextTarget: the last error *)
  fail_point MSession 1 true [pg12; mk_ps [0] [FErr 5 DNext] (RRows [3] None)] = Some (1%nat, 5) /\
  snd (seq_run MSession [pg12; mk_ps [0] [FErr 5 DNext] (RRows [3] None)])
    = OStream [IRow 1; IRow 2; IErr 5; IEnd] /\
  (* empty plan *)
  fail_point MSession 0 true [mk_ps [] [] (RRows [1] None)] = Some (0%nat, e_empty_plan) /\
  snd (seq_run MSession [mk_ps [] [] (RRows [1] None)]) = OFail e_empty_plan /\
  (* no connection to any target *)
  fail_point MSession 1 true [mk_ps [0] [FConnFail] (RRows [1] None)] = Some (0%nat, e_pool) /\
  snd (seq_run MSession [mk_ps [0] [FConnFail] (RRows [1] None)]) = OFail e_pool /\
  (* a later page that is not Rows *)
  fail_point MSession 1 true [pg12; mk_ps [0] [] RVoid] = Some (1%nat, e_unexpected) /\
  snd (seq_run MSession [pg12; mk_ps [0] [] RVoid]) = OStream [IRow 1; IRow 2; IErr e_unexpected; IEnd] /\
  (* a Void FIRST page is an empty result for a Session pager, an error for the connection pager *)
  fail_point MSession 1 true [mk_ps [0] [] RVoid] = None /\
  expected true MSession 1 true [mk_ps [0] [] RVoid] = Some [IEnd] /\
  fail_point MConn 1 true [mk_ps [0] [] RVoid] = Some (0%nat, e_unexpected) /\
  (* "no more pages" before the script ends: the rest of the script is not read *)
  expected true MSession 1 true [mk_ps [0] [] (RRows [1] None); mk_ps [0] [] (RRows [2] None)]
    = Some [IRow 1; IEnd] /\
  (* more pages announced, none served: no claim *)
  expected true MSession 1 true [pg12] = None /\
  (* a transparent re-prepare re-sends the same state and changes nothing else *)
  expected true MSession 1 true [pg12; mk_ps [0] [FUnprep] (RRows [3] None)]
    = Some [IRow 1; IRow 2; IRow 3; IEnd] /\
  map req_key (fst (seq_run MSession [pg12; mk_ps [0] [FUnprep] (RRows [3] None)]))
    = [(0%nat, None); (1%nat, Some [170]); (1%nat, Some [170])].
Proof. repeat split; vm_compute; reflexivity. Qed.

(* plans_ok rejects plans that are not enumerations of the node set *)
Example C07_ex_plans :
  plans_ok [0; 1; 2] ex_script = true /\
  plans_ok [0; 1] ex_script = false /\
  plans_ok [0; 1; 2] [mk_ps [0; 0; 1] [] RVoid] = false /\
  plans_ok [0; 1; 2] [mk_ps [0; 1; 3] [] RVoid] = false.
Proof. repeat split; vm_compute; reflexivity. Qed.

Example C07_ex_drop :
  exists s0 s1 s2, pager_init MSession ex_script = Some s0 /\
    run s0 [LCons; LProd; LProd] = Some s1 /\ run s1 [LDrop; LProd; LProd] = Some s2 /\
    s_fetched s1 = 2%nat /\ s_fetched s2 = 3%nat /\ s_prod s2 = PDone /\
    s_out s2 = [IRow 1] /\ List.length (s_reqs s2) = 5%nat.
Proof. eexists; eexists; eexists. vm_compute. repeat split. Qed.

Example C07_ex_accept :
  accept_full MSession ex_script [IRow 1; IRow 2; IRow 3; IEnd]
    [(0%nat, None); (0%nat, None); (1%nat, Some [170]); (1%nat, Some [170]); (2%nat, Some [])] = true /\
  accept_full MSession ex_script [IRow 1; IRow 2; IRow 2; IRow 3; IEnd]
    [(0%nat, None); (0%nat, None); (1%nat, Some [170]); (1%nat, Some [170]); (2%nat, Some [])] = false /\
  accept_drop MSession ex_script 1 [IRow 1]
    [(0%nat, None); (0%nat, None); (1%nat, Some [170]); (1%nat, Some [170])] = true /\
  accept_drop MSession ex_script 1 [IRow 1]
    [(0%nat, None); (0%nat, None); (1%nat, None)] = false.
Proof. repeat split; vm_compute; reflexivity. Qed.

(* O1: the known-finding class, the strict and the non-strict stream, and what the model does *)
Example C07_ex_ignore :
  known_ignored MSession 2 refute_script = true /\
  known_ignored MSession 2 ex_fail_script = false /\
  known_ignored MSession 3 ex_script = false /\
  known_ignored MConn 2 refute_script = false /\
  expected true MSession 2 true refute_script = Some [IRow 1; IRow 2; IErr 4352; IEnd] /\
  expected false MSession 2 true refute_script = Some [IRow 1; IRow 2; IEnd] /\
  snd (seq_run MSession refute_script) = OStream [IRow 1; IRow 2; IEnd] /\
  fail_point MSession 2 true refute_script = Some (1%nat, 4352).
Proof. repeat split; vm_compute; reflexivity. Qed.

(* the property predicates the driver evaluates, on accepting AND rejecting observations *)
Definition ex_keys : list (nat * option (list N)) :=
  [(0%nat, None); (0%nat, None); (1%nat, Some [170]); (1%nat, Some [170]); (2%nat, Some [])].
Example C07_ex_prop :
  prop_full_ok MSession 3 ex_script [IRow 1; IRow 2; IRow 3; IEnd] ex_keys = true /\
  (* one request more or less per page is not the property's business *)
  prop_full_ok MSession 3 ex_script [IRow 1; IRow 2; IRow 3; IEnd]
    [(0%nat, None); (1%nat, Some [170]); (2%nat, Some [])] = true /\
  (* lost / duplicated / reordered row, missing end, wrong state, state on the first request *)
  prop_full_ok MSession 3 ex_script [IRow 1; IRow 3; IEnd] ex_keys = false /\
  prop_full_ok MSession 3 ex_script [IRow 1; IRow 2; IRow 2; IRow 3; IEnd] ex_keys = false /\
  prop_full_ok MSession 3 ex_script [IRow 2; IRow 1; IRow 3; IEnd] ex_keys = false /\
  prop_full_ok MSession 3 ex_script [IRow 1; IRow 2; IRow 3] ex_keys = false /\
  prop_full_ok MSession 3 ex_script [IRow 1; IRow 2; IRow 3; IEnd]
    [(0%nat, None); (1%nat, Some [171])] = false /\
  prop_full_ok MSession 3 ex_script [IRow 1; IRow 2; IRow 3; IEnd] [(0%nat, Some [170])] = false /\
  prop_full_ok MSession 3 ex_script [IRow 1; IRow 2; IRow 3; IEnd] [(2%nat, Some [170])] = false /\
  (* failing scripts: swallowed error, lost row before the error, wrong state *)
  prop_full_ok MSession 2 ex_fail_script [IRow 1; IRow 2; IErr 8704; IEnd] [(0%nat, None); (1%nat, Some [7])] = true /\
  prop_full_ok MSession 2 ex_fail_script [IRow 1; IRow 2; IEnd] [(0%nat, None); (1%nat, Some [7])] = false /\
  prop_full_ok MSession 2 ex_fail_script [IRow 1; IErr 8704; IEnd] [(0%nat, None); (1%nat, Some [7])] = false /\
  prop_full_ok MSession 2 ex_fail_script [IRow 1; IRow 2; IErr 8704; IEnd] [(0%nat, None); (1%nat, Some [8])] = false /\
  (* O1: the silent end the code produces is NOT accepted by the property *)
  prop_full_ok MSession 2 refute_script [IRow 1; IRow 2; IEnd] [(0%nat, None); (1%nat, Some [7])] = false /\
  (* early drop: exactly the first n items *)
  prop_drop_ok MSession 3 ex_script 2 [IRow 1; IRow 2] [(0%nat, None)] = true /\
  prop_drop_ok MSession 3 ex_script 2 [IRow 1] [(0%nat, None)] = false /\
  prop_drop_ok MSession 3 ex_script 2 [] [(0%nat, None)] = false /\
  prop_drop_ok MSession 3 ex_script 2 [IRow 2; IRow 1] [(0%nat, None)] = false /\
  prop_drop_ok MSession 2 ex_fail_script 3 [IRow 1; IRow 2; IErr 8704] [(0%nat, None); (1%nat, Some [7])] = true /\
  prop_drop_ok MSession 2 ex_fail_script 3 [IRow 1; IRow 2; IEnd] [(0%nat, None); (1%nat, Some [7])] = false /\
  prop_drop_ok MSession 2 ex_fail_script 1 [IRow 1] [(0%nat, None); (1%nat, Some [9])] = false.
Proof. repeat split; vm_compute; reflexivity. Qed.

(* the specification functions themselves *)
Example C07_ex_spec :
  spec_stream [([1; 2], Some [7]); ([], Some []); ([3], None); ([4], None)] = [IRow 1; IRow 2; IRow 3; IEnd] /\
  spec_error_stream [([1; 2], Some [7]); ([], Some []); ([3], None)] 2 9 = [IRow 1; IRow 2; IErr 9; IEnd] /\
  spec_state [([1; 2], Some [7]); ([], Some []); ([3], None)] 0 = None /\
  spec_state [([1; 2], Some [7]); ([], Some []); ([3], None)] 1 = Some [7] /\
  spec_state [([1; 2], Some [7]); ([], Some []); ([3], None)] 2 = Some [] /\
  spec_state [([1; 2], Some [7]); ([], Some []); ([3], None)] 3 = None /\
  good_script MSession ex_fail_script = false /\
  good_script MSession [mk_ps [0] [] (RRows [1] (Some [1]))] = false /\
  good_script MSession [mk_ps [0] [] (RRows [1] None); mk_ps [0] [] (RRows [2] None)] = false /\
  good_script MSession [mk_ps [0] [FErr 1 DNext] (RRows [1] None)] = false.
Proof. repeat split; vm_compute; reflexivity. Qed.

Definition ex_t_script : list pscript :=
  [ mk_ps [0; 1] [] (RRows [1] (Some [7])); mk_ps [0; 1] [FErr 4097 DSame; FTimeout] (RRows [2] None) ].
Example C07_ex_early_timeout :
  List.length (early_timeouts ex_t_script) = 4%nat /\
  (* scripted: page 1 times out on its second attempt *)
  accept_full MSession ex_t_script [IRow 1; IErr 65536; IEnd] [(0%nat, None); (1%nat, Some [7]); (1%nat, Some [7])] = true /\
  (* stall: the timeout strikes page 1's first attempt, or already page 0 (constructor error) *)
  accept_full_timeout MSession ex_t_script false [IRow 1; IErr 65536; IEnd] [(0%nat, None); (1%nat, Some [7])] = true /\
  accept_full_timeout MSession ex_t_script true [IErr 65536; IEnd] [(0%nat, None)] = true /\
  (* not admissible: a lost row, a swallowed error, a timeout after the scripted one *)
  accept_full_timeout MSession ex_t_script false [IErr 65536; IEnd] [(0%nat, None); (1%nat, Some [7])] = false /\
  accept_full_timeout MSession ex_t_script false [IRow 1; IEnd] [(0%nat, None); (1%nat, Some [7])] = false /\
  accept_full_timeout MSession ex_t_script false [IRow 1; IRow 2; IEnd] [(0%nat, None); (1%nat, Some [7]); (1%nat, Some [7])] = false.
Proof. repeat split; vm_compute; reflexivity. Qed.

Example C07_ex_coord :
  seq_targets ex_script = [[0; 0]; [0; 1]; [1]] /\
  coord_ok None ex_script [[0; 0]; [0; 1]; [1]] = true /\
  (* another plan order is fine as long as the rules hold *)
  coord_ok None ex_script [[1; 1]; [1; 0]; [0]] = true /\
  (* page 1 not started at the node that answered page 0 *)
  coord_ok None ex_script [[0; 0]; [1; 2]; [2]] = false /\
  (* RetrySameTarget that moved *)
  coord_ok None ex_script [[0; 1]; [1; 2]; [2]] = false /\
  (* RetryNextTarget that stayed *)
  coord_ok None ex_script [[0; 0]; [0; 0]; [0]] = false /\
  (* page 2 not started at the node that answered page 1 *)
  coord_ok None ex_script [[0; 0]; [0; 1]; [0]] = false.
Proof. repeat split; vm_compute; reflexivity. Qed.

Example C07_ex_single :
  single_run (Some [9; 9]) (mk_ps [0; 1] [FErr 4097 DSame; FErr 4098 DNext] (RRows [5] (Some [1])))
    = ([(0%nat, Some [9; 9]); (0%nat, Some [9; 9]); (0%nat, Some [9; 9])], FCompleted 1 (RRows [5] (Some [1]))) /\
  single_run None (mk_ps [0] [FErr 8704 DDont] (RRows [5] None)) = ([(0%nat, None)], FFailed 8704) /\
  single_expected 1 (mk_ps [0] [FErr 4098 DNext] (RRows [5] None)) = PoErr 4098.
Proof. repeat split; vm_compute; reflexivity. Qed.

Definition ex_single_ps := mk_ps [0; 1] [FErr 4097 DSame; FErr 4098 DNext] (RRows [5] (Some [1])).
Example C07_ex_accept_single :
  accept_single (Some [9]) ex_single_ps (SRows [5] (Some [1]))
    [(0%nat, Some [9]); (0%nat, Some [9]); (0%nat, Some [9])] [1; 1; 0] = true /\
  (* a request without the caller's state, a lost row, a wrong next state, one attempt less,
     a RetrySameTarget that moved *)
  accept_single (Some [9]) ex_single_ps (SRows [5] (Some [1]))
    [(0%nat, Some [9]); (0%nat, None); (0%nat, Some [9])] [1; 1; 0] = false /\
  accept_single (Some [9]) ex_single_ps (SRows [] (Some [1]))
    [(0%nat, Some [9]); (0%nat, Some [9]); (0%nat, Some [9])] [1; 1; 0] = false /\
  accept_single (Some [9]) ex_single_ps (SRows [5] None)
    [(0%nat, Some [9]); (0%nat, Some [9]); (0%nat, Some [9])] [1; 1; 0] = false /\
  accept_single (Some [9]) ex_single_ps (SRows [5] (Some [1]))
    [(0%nat, Some [9]); (0%nat, Some [9])] [1; 1] = false /\
  accept_single (Some [9]) ex_single_ps (SRows [5] (Some [1]))
    [(0%nat, Some [9]); (0%nat, Some [9]); (0%nat, Some [9])] [1; 0; 1] = false /\
  prop_single_ok (Some [9]) [(0%nat, Some [9]); (0%nat, Some [9])] = true /\
  prop_single_ok (Some [9]) [(0%nat, Some [9]); (0%nat, None)] = false /\
  prop_single_ok None [(0%nat, Some [])] = false.
Proof. repeat split; vm_compute; reflexivity. Qed.

Example C07_ex_closed_form :
  (* terminal fault first *)
  attempts_closed [FErr 1 DSame; FErr 2 DDont; FErr 3 DNext] 0 0 RVoid = PoErr 2 /\
  (* the second next-target decision finds no spare target *)
  attempts_closed [FErr 1 DNext; FErr 2 DSame; FConnFail; FTimeout] 1 0 RVoid = PoErr e_pool /\
  attempts_closed [FErr 1 DNext; FErr 2 DSame; FConnFail; FTimeout] 2 0 RVoid = PoErr e_timeout /\
  attempts_closed [FErr 1 DNext; FUnprep; FErr 2 DSame] 1 0 RVoid = PoResp RVoid /\
  attempts_closed [FErr 7 DIgnore] 3 0 RVoid = PoIgnored 7 /\
  spec_page_closed MSession 0 ex_single_ps = PoErr e_empty_plan /\
  spec_page_closed MSession 1 ex_single_ps = PoErr 4098 /\
  spec_page_closed MConn 2 ex_single_ps = PoErr 4097.
Proof. repeat split; vm_compute; reflexivity. Qed.

Example C07_ex_drop_timeout :
  (* the caller takes 2 items of a read whose page 1 is scripted to time out on its second
     attempt; a stall makes the timeout strike the first attempt *)
  accept_drop MSession ex_t_script 2 [IRow 1; IErr 65536] [(0%nat, None); (1%nat, Some [7])] = false /\
  accept_drop_timeout MSession ex_t_script 2 [IRow 1; IErr 65536] [(0%nat, None); (1%nat, Some [7])] = true /\
  accept_drop_timeout MSession ex_t_script 2 [IRow 1; IEnd] [(0%nat, None); (1%nat, Some [7])] = false /\
  accept_drop_timeout MSession ex_t_script 2 [IErr 65536; IEnd] [(0%nat, None); (1%nat, Some [7])] = false.
Proof. repeat split; vm_compute; reflexivity. Qed.

Example C07_ex_request_count :
  (* success after two same-target retries *)
  requests_closed [FErr 1 DSame; FUnprep] 0 0 = 3%nat /\
  (* next-target with a spare target: another attempt follows; without: the page ends there *)
  requests_closed [FErr 1 DNext] 1 0 = 2%nat /\
  requests_closed [FErr 1 DNext] 0 0 = 1%nat /\
  (* a connection that cannot be acquired sends nothing *)
  requests_closed [FConnFail] 1 0 = 1%nat /\
  requests_closed [FConnFail] 0 0 = 0%nat /\
  requests_closed [FErr 1 DNext; FConnFail; FErr 2 DSame] 2 0 = 3%nat /\
  requests_closed [FErr 1 DNext; FConnFail; FErr 2 DSame] 1 0 = 1%nat /\
  (* terminal faults end the page with their own attempt *)
  requests_closed [FErr 1 DSame; FTimeout; FErr 2 DSame] 3 0 = 2%nat /\
  List.length (fst (attempts [FErr 1 DNext; FConnFail; FErr 2 DSame] RVoid 0 [1; 2])) = 3%nat /\
  sres_of (PoIgnored 5) = SVoid /\ sres_of (PoResp RNonResult) = SErr e_unexpected /\
  sres_of (PoErr 7) = SErr 7 /\ sres_of (PoResp (RRows [1] None)) = SRows [1] None.
Proof. repeat split; vm_compute; reflexivity. Qed.

(* deepening round 4: the hypotheses of the two completeness theorems on concrete schedules (the
   timeout strikes page 1's first attempt: full read, lazy drop after 1 item; page 0: constructor) *)
Definition ex_t_sc1 : list pscript :=
  [ mk_ps [0; 1] [] (RRows [1] (Some [7]));
    with_timeout 0 (mk_ps [0; 1] [FErr 4097 DSame; FTimeout] (RRows [2] None)) ].
Definition ex_t_sc0 : list pscript :=
  [ with_timeout 0 (mk_ps [0; 1] [] (RRows [1] (Some [7])));
    mk_ps [0; 1] [FErr 4097 DSame; FTimeout] (RRows [2] None) ].
Example C07_ex_timeout_complete :
  In ex_t_sc1 (early_timeouts ex_t_script) /\ In ex_t_sc0 (early_timeouts ex_t_script) /\
  (exists s0 s, pager_init MSession ex_t_sc1 = Some s0 /\
     run s0 [LProd; LProd; LCons; LCons; LCons] = Some s /\ s_cons s = CEnded /\
     s_out s = [IRow 1; IErr 65536; IEnd] /\
     accept_full_timeout MSession ex_t_script false (s_out s) (map req_key (s_reqs s)) = true) /\
  (exists rq0, start MSession ex_t_sc0 = (rq0, SFail 65536) /\
     ctor_fails MSession ex_t_sc0 = true /\ ctor_fails MSession ex_t_sc1 = false) /\
  (exists s0 sb s1 s2, pager_init MSession ex_t_sc1 = Some s0 /\
     step s0 LCons = Some sb /\ List.length (s_out sb) = S (List.length (s_out s0)) /\
     s_cons sb = CActive /\ run sb [LProd; LProd] = Some s1 /\ run s1 [LDrop] = Some s2 /\
     s_out s2 = [IRow 1] /\
     accept_drop_timeout MSession ex_t_script 1 (s_out s2) (map req_key (s_reqs s2)) = true).
Proof.
  split; [vm_compute; right; left; reflexivity|].
  split; [vm_compute; left; reflexivity|].
  split; [eexists; eexists; split; [reflexivity|]; vm_compute; repeat split|].
  split; [eexists; vm_compute; repeat split|].
  eexists; eexists; eexists; eexists. split; [reflexivity|]. vm_compute. repeat split.
Qed.

(* the predicates as propositions, evaluated: a wrong state or a wrong item refutes prop_full_ok;
   fits / last_opt on concrete nodes *)
Example C07_ex_meaning :
  expected true MSession 2 true ex_t_script = Some [IRow 1; IErr 65536; IEnd] /\
  prop_full_ok MSession 2 ex_t_script [IRow 1; IErr 65536; IEnd] [(0%nat, None); (1%nat, Some [7])] = true /\
  prop_full_ok MSession 2 ex_t_script [IRow 1; IErr 65536; IEnd] [(0%nat, None); (1%nat, None)] = false /\
  prop_full_ok MSession 2 ex_t_script [IRow 1; IEnd] [(0%nat, None); (1%nat, Some [7])] = false /\
  prop_drop_ok MSession 2 ex_t_script 1 [IRow 1] [(0%nat, None)] = true /\
  prop_drop_ok MSession 2 ex_t_script 1 [IRow 2] [(0%nat, None)] = false /\
  accept_full MSession ex_t_sc1 [IRow 1; IErr 65536; IEnd] [(0%nat, None); (1%nat, Some [7])] = true /\
  obs_items (snd (seq_run MSession ex_t_sc0)) = [IErr 65536; IEnd] /\
  fits (Some 1) [1] 1 = true /\ fits None [1] 1 = false /\ fits None [1] 2 = true /\
  last_opt [0; 1; 2] = Some 2 /\ last_opt (@nil target) = None.
Proof. repeat split; vm_compute; reflexivity. Qed.

Print Assumptions C07_rows.
Print Assumptions C07_rows_safety.
Print Assumptions C07_ends.
Print Assumptions C07_good_script_answers.
Print Assumptions C07_stream.
Print Assumptions C07_error_after_prefix.
Print Assumptions C07_fail_point_is_expected.
Print Assumptions C07_good_is_expected.
Print Assumptions C07_ignore_refuted.
Print Assumptions C07_states.
Print Assumptions C07_no_dup_under_retry.
Print Assumptions C07_early_drop.
Print Assumptions C07_read_ahead.
Print Assumptions C07_schedule_independent.
Print Assumptions C07_accept_full_sound.
Print Assumptions C07_accept_full_complete.
Print Assumptions C07_accept_drop_sound.
Print Assumptions C07_accept_drop_complete.
Print Assumptions C07_ignored_write_error_ends_silently.
Print Assumptions C07_early_timeout_sound.
Print Assumptions C07_early_timeout_shape.
Print Assumptions C07_early_timeout_cut.
Print Assumptions C07_early_timeout_stream.
Print Assumptions C07_coordinator_stability.
Print Assumptions C07_seq_targets_are_requests.
Print Assumptions C07_single_page_outcome.
Print Assumptions C07_single_page_targets.
Print Assumptions C07_accept_single_sound.
Print Assumptions C07_accept_single_accepts_model.
Print Assumptions C07_drop_timeout_sound.
Print Assumptions C07_page_outcome_closed_form.
Print Assumptions C07_attempts_request_count.
Print Assumptions C07_page_request_count.
Print Assumptions C07_coordinator_page_lengths.
Print Assumptions C07_accept_full_exact.
Print Assumptions C07_prop_predicates_meaning.
Print Assumptions C07_ctor_fails_iff.
Print Assumptions C07_early_timeouts_exact.
Print Assumptions C07_early_timeout_complete.
Print Assumptions C07_drop_timeout_complete.
Print Assumptions C07_coord_primitives.
