(* Property C16 — statements only.  Every theorem is closed by [exact] of a lemma from
   Proofs/Derive_proofs.v; the statements are pinned again in /verif/pins/C16.v.

   [vnodup fs] (the names of the non-skipped fields are pairwise different) is what the macros'
   own `validate` enforces at compile time; it is the NoDup hypothesis of the property. *)
From SV Require Import Base.Prelude Base.Bytes Model.Derive Model.DeriveSpec Proofs.Derive_proofs Proofs.C16_pipeline.
From Coq Require Import Permutation String.
Open Scope N_scope.

(* by-name serialization of a UDT value: for EVERY order in which the database lists the struct's
   fields, each field's value is emitted at the database's position *)
Theorem C16_by_name_ser : forall d db,
  NoDup (map vf_name (nonskipped (vd_fields d))) ->
  Permutation (map fst db) (map vf_name (nonskipped (vd_fields d))) ->
  (forall c f, In c db -> vfind (fst c) (vd_fields d) = Some f -> accepts (vf_ty f) (snd c) = true) ->
  gen_ser_value_by_name d db = Ok (map (fun c => value_of (vd_fields d) (fst c)) db).
Proof. exact by_name_ser_value. Qed.

(* value -> cells -> value is the identity (skipped fields and absent allow_missing fields come
   back as Default), for EVERY field list of the DB type on which serialization and the type check
   succeed: any permutation, with or without extra / missing fields *)
Theorem C16_roundtrip : forall d db cells,
  NoDup (map vf_name (nonskipped (vd_fields d))) -> vvals_ok d = true ->
  gen_ser_value_by_name d db = Ok cells -> gen_typeck_value_by_name d db = Ok tt ->
  gen_deser_value_by_name d db cells = Ok (map (back_value (map fst db)) (vd_fields d)).
Proof. exact roundtrip_value_by_name. Qed.

(* extra, missing, null and renamed fields are accepted / rejected exactly as documented.  The
   documentation says nothing about a UDT type that lists a field name twice, so the property
   theorem is stated for DB lists without duplicate names; [C16_ser_value_any_db] records that the
   table [doc_ser_value_by_name] was extended to such lists by following the code (the value is
   written at every occurrence) - that extension is a fact about the model, not a documented
   behaviour, and is not counted as part of the property. *)
Theorem C16_excess_missing_ser_value : forall d db,
  NoDup (map vf_name (nonskipped (vd_fields d))) -> NoDup (map fst db) ->
  outcome_of (gen_ser_value_by_name d db) = doc_ser_value_by_name d db.
Proof. intros d db H _. exact (ser_value_by_name_doc d db H). Qed.

Lemma C16_ser_value_any_db : forall d db,
  NoDup (map vf_name (nonskipped (vd_fields d))) ->
  outcome_of (gen_ser_value_by_name d db) = doc_ser_value_by_name d db.
Proof. exact ser_value_by_name_doc. Qed.

Theorem C16_excess_missing_typeck_value : forall d db,
  NoDup (map vf_name (nonskipped (vd_fields d))) ->
  (gen_typeck_value_by_name d db = Ok tt <-> doc_typeck_value_by_name d db = true) /\
  gen_typeck_value_by_name d db <> Err EPanic.
Proof. exact typeck_value_by_name_doc. Qed.

Theorem C16_excess_missing_deser_value : forall d db cells,
  NoDup (map vf_name (nonskipped (vd_fields d))) ->
  doc_typeck_value_by_name d db = true ->
  outcome_of (gen_deser_value_by_name d db cells) =
    match all_some (map (fun f => doc_field_value f (spec_items db cells)) (vd_fields d)) with
    | Some vs => Accept vs
    | None => Reject
    end /\
  gen_deser_value_by_name d db cells <> Err EPanic.
Proof. exact deser_value_by_name_spec. Qed.

(* ---- rows (SerializeRow with flatten, DeserializeRow) ---------------------------------- *)

(* [rdesc_wf d]: the column names of all (transitively flattened) leaves are pairwise different *)
Theorem C16_by_name_ser_row : forall d cols, rdesc_wf d = true ->
  Permutation (map fst cols) (map rl_name (rd_leaves d)) ->
  (forall c l, In c cols -> lfind (fst c) (rd_leaves d) = Some l -> accepts (rl_ty l) (snd c) = true) ->
  gen_ser_row_by_name d cols = Ok (map (fun c => rvalue_of (rd_leaves d) (fst c)) cols).
Proof. exact by_name_ser_row. Qed.

Theorem C16_roundtrip_row : forall d ls cols cells, rdesc_wf d = true ->
  leaves_only (rd_fields d) = Some ls ->
  forallb (fun l => val_ok (rl_ty l) (rl_val l)) ls = true ->
  gen_ser_row_by_name d cols = Ok cells -> gen_typeck_row_by_name ls cols = Ok tt ->
  gen_deser_row_by_name ls cols cells = Ok (map rback_value ls).
Proof. exact roundtrip_row_by_name. Qed.

(* full strength since fix fb90e43 in /repo (finding F16: an empty flattened struct used to hide
   the missing columns of later flattened structs); holds for every flatten tree, empty structs
   included *)
Theorem C16_excess_missing_ser_row : forall d cols, rdesc_wf d = true ->
  outcome_of (gen_ser_row_by_name d cols) = doc_ser_row_by_name d cols /\
  gen_ser_row_by_name d cols <> Err EPanic.
Proof. exact ser_row_by_name_doc. Qed.

Theorem C16_excess_missing_typeck_row : forall ls cols,
  NoDup (map rl_name (filter (fun f => negb (rl_skip f)) ls)) ->
  (gen_typeck_row_by_name ls cols = Ok tt <-> doc_typeck_row_by_name ls cols = true) /\
  gen_typeck_row_by_name ls cols <> Err EPanic.
Proof. exact typeck_row_by_name_doc. Qed.

Theorem C16_excess_missing_deser_row : forall ls cols cells,
  NoDup (map rl_name (filter (fun f => negb (rl_skip f)) ls)) ->
  List.length cells = List.length cols ->
  doc_typeck_row_by_name ls cols = true ->
  outcome_of (gen_deser_row_by_name ls cols cells) =
    match all_some (map (fun f => doc_row_field_value f (combine cols cells)) ls) with
    | Some vs => Accept vs
    | None => Reject
    end /\
  gen_deser_row_by_name ls cols cells <> Err EPanic.
Proof. exact deser_row_by_name_spec. Qed.

(* ---- enforce_order ---------------------------------------------------------------------- *)

(* with names checked and no allow_missing field ([vordered_plain]) the ordered flavor accepts
   exactly the declared order: the DB fields must start with the struct's fields, in order, with
   accepted types; anything after them only without forbid_excess_udt_fields *)
Theorem C16_ordered_typeck_value : forall d db, vordered_plain d = true ->
  (gen_typeck_value_ordered d db = Ok tt <->
   exists p rest, db = p ++ rest /\ map fst p = map vf_name (nonskipped (vd_fields d)) /\
                  (vd_forbid d = true -> rest = []) /\
                  forallb acc_pair (combine (nonskipped (vd_fields d)) p) = true).
Proof. exact ordered_exact_value. Qed.

Theorem C16_ordered_ser_value : forall d db, vordered_plain d = true ->
  outcome_of (gen_ser_value_ordered d db) = doc_ser_value_ordered d db.
Proof. exact ser_value_ordered_doc. Qed.

Theorem C16_ordered_typeck_row : forall ls cols,
  (gen_typeck_row_ordered false ls cols = Ok tt <->
   map fst cols = map rl_name (filter (fun f => negb (rl_skip f)) ls) /\
   forallb racc_pair (combine (filter (fun f => negb (rl_skip f)) ls) cols) = true).
Proof. exact ordered_exact_row. Qed.

Theorem C16_ordered_ser_row : forall d cols, rordered_plain d = true ->
  outcome_of (gen_ser_row_ordered d cols) = doc_ser_row_ordered d cols.
Proof. exact ser_row_ordered_doc. Qed.

Theorem C16_ordered_deser_value : forall d db cells, vordered_plain d = true ->
  NoDup (map vf_name (nonskipped (vd_fields d))) -> doc_typeck_value_ordered d db = true ->
  outcome_of (gen_deser_value_ordered d db cells) =
    match all_some (map (fun f => doc_field_value f (spec_items db cells)) (vd_fields d)) with
    | Some vs => Accept vs
    | None => Reject
    end /\
  gen_deser_value_ordered d db cells <> Err EPanic.
Proof. exact deser_value_ordered_spec. Qed.

Theorem C16_ordered_deser_row : forall ls cols cells,
  NoDup (map rl_name (filter (fun f => negb (rl_skip f)) ls)) ->
  List.length cells = List.length cols -> doc_typeck_row_ordered ls cols = true ->
  outcome_of (gen_deser_row_ordered false ls cols cells) =
    match all_some (map (fun f => doc_row_field_value f (combine cols cells)) ls) with
    | Some vs => Accept vs
    | None => Reject
    end /\
  gen_deser_row_ordered false ls cols cells <> Err EPanic.
Proof. exact deser_row_ordered_spec. Qed.

(* enforce_order WITH allow_missing fields (names checked): whatever is accepted is the values of a
   subsequence of the struct's fields that contains every field not marked allow_missing, matched
   one to one, in order, against a prefix of the DB fields.  (Soundness only; that the generated
   code picks the LONGEST such subsequence is C16_ordered_am_* below.) *)
Theorem C16_ordered_allow_missing_sound : forall d db cells, vd_snc d = false ->
  gen_ser_value_ordered d db = Ok cells ->
  exists used p rest, subseq used (nonskipped (vd_fields d)) /\
    (forall f, In f (nonskipped (vd_fields d)) -> ~ In f used -> vf_am f = true) /\
    db = p ++ rest /\ map fst p = map vf_name used /\ cells = map vf_val used /\
    (vd_forbid d = true -> rest = []).
Proof. exact ser_value_ordered_am_sound. Qed.

(* enforce_order + allow_missing (names checked), full characterisation: the bound fields are the
   LONGEST selection of the declared fields that contains every non-allow_missing field and whose
   names are a prefix of the UDT's field names ([doc_ordered_used], found by exhaustive search over
   all sub-sequences); accept / reject / result are then decided on that selection.  Covers the
   plain case as well. *)
Theorem C16_ordered_am_ser_value : forall d db, vd_snc d = false ->
  NoDup (map vf_name (nonskipped (vd_fields d))) ->
  outcome_of (gen_ser_value_ordered d db) = doc_ser_value_ordered_am d db.
Proof. exact ser_value_ordered_am_doc. Qed.

Theorem C16_ordered_am_typeck_value : forall d db, vd_snc d = false ->
  NoDup (map vf_name (nonskipped (vd_fields d))) ->
  (gen_typeck_value_ordered d db = Ok tt <-> doc_typeck_value_ordered_am d db = true).
Proof. exact typeck_value_ordered_am_doc. Qed.

Theorem C16_ordered_am_deser_value : forall d db cells, vd_snc d = false ->
  NoDup (map vf_name (nonskipped (vd_fields d))) -> doc_typeck_value_ordered_am d db = true ->
  outcome_of (gen_deser_value_ordered d db cells) = doc_deser_value_ordered_am d db cells /\
  gen_deser_value_ordered d db cells <> Err EPanic.
Proof. exact deser_value_ordered_am_doc. Qed.

(* KNOWN FINDING (docs/C16.md; class ordered-allow-missing-present-but-dropped).  The longest-selection
   table is what the code does; the DOCUMENTED behaviour ("allow_missing: if the UDT definition does
   not contain this field"; "enforce_order: if the order is incorrect ... will fail") is the strict
   table [doc_*_ordered_strict], which rejects a UDT listing an allow_missing field of the struct at
   a place where it does not get bound.  Full-strength statements (refuted by the witness below):
     outcome_of (gen_ser_value_ordered d db) = doc_ser_value_ordered_strict d db, and
     gen_typeck_value_ordered d db = Ok tt <-> doc_typeck_value_ordered_strict d db = true
   ("the ordered mode accepts precisely the declared order").  Proved: outside the class.
   NOTE: [doc_*_ordered_strict] is DEFINED as the longest-selection table with the class rejected, so
   the three C16_ordered_strict_* statements are definitional corollaries of C16_ordered_am_*.  Their
   content comes from C16_ordered_strict_{typeck,ser}_is_documented below: the strict tables are proved
   equivalent to the INDEPENDENT inductive relation of Model/DeriveSpec.v (one constructor per
   documented sentence, no sub-sequence search, no class predicate). *)
Theorem C16_ordered_strict_ser_value : forall d db, vd_snc d = false ->
  NoDup (map vf_name (nonskipped (vd_fields d))) -> ordered_am_drops d db = false ->
  outcome_of (gen_ser_value_ordered d db) = doc_ser_value_ordered_strict d db.
Proof. exact ser_value_ordered_strict_doc. Qed.

Theorem C16_ordered_strict_typeck_value : forall d db, vd_snc d = false ->
  NoDup (map vf_name (nonskipped (vd_fields d))) -> ordered_am_drops d db = false ->
  (gen_typeck_value_ordered d db = Ok tt <-> doc_typeck_value_ordered_strict d db = true).
Proof. exact typeck_value_ordered_strict_doc. Qed.

Theorem C16_ordered_strict_deser_value : forall d db cells, vd_snc d = false ->
  NoDup (map vf_name (nonskipped (vd_fields d))) -> ordered_am_drops d db = false ->
  doc_typeck_value_ordered_strict d db = true ->
  outcome_of (gen_deser_value_ordered d db cells) = doc_deser_value_ordered_strict d db cells /\
  gen_deser_value_ordered d db cells <> Err EPanic.
Proof. exact deser_value_ordered_strict_doc. Qed.

(* The documentation as an inductive relation ([ord_bind], Model/DeriveSpec.v: the next declared field
   is the next UDT field by name; a field may be passed over only if it is allow_missing AND the UDT
   does not contain it; what follows the last declared field is excess, tolerated unless
   forbid_excess_udt_fields; every bound field's own type check / serializer decides).  The strict
   tables used by the driver are exactly this relation: *)
Theorem C16_ordered_strict_typeck_is_documented : forall d db, vd_ordered d = true -> vd_snc d = false ->
  NoDup (map vf_name (nonskipped (vd_fields d))) ->
  (doc_typeck_value_ordered_strict d db = true <-> doc_rel_typeck_ordered d db).
Proof. exact typeck_ordered_strict_rel. Qed.

Theorem C16_ordered_strict_ser_is_documented : forall d db cells, vd_ordered d = true -> vd_snc d = false ->
  NoDup (map vf_name (nonskipped (vd_fields d))) ->
  (doc_ser_value_ordered_strict d db = Accept cells <-> doc_rel_ser_ordered d db cells).
Proof. exact ser_ordered_strict_rel. Qed.

(* what the generated code accepts, with NO class premise: the documented relation, or an input of
   the known class F24 handled the longest-selection way *)
Theorem C16_ordered_typeck_characterised : forall d db, vd_ordered d = true -> vd_snc d = false ->
  NoDup (map vf_name (nonskipped (vd_fields d))) ->
  (gen_typeck_value_ordered d db = Ok tt <->
   doc_rel_typeck_ordered d db \/ (ordered_am_drops d db = true /\ doc_typeck_value_ordered_am d db = true)).
Proof. exact typeck_ordered_characterised. Qed.

Theorem C16_ordered_ser_characterised : forall d db cells, vd_ordered d = true -> vd_snc d = false ->
  NoDup (map vf_name (nonskipped (vd_fields d))) ->
  (gen_ser_value_ordered d db = Ok cells <->
   doc_rel_ser_ordered d db cells \/ (ordered_am_drops d db = true /\ doc_ser_value_ordered_am d db = Accept cells)).
Proof. exact ser_ordered_characterised. Qed.

(* the documented binding is a function of the struct and the UDT *)
Theorem C16_ord_bind_unique : forall fs db u p rest u' p' rest',
  ord_bind fs db u p rest -> ord_bind fs db u' p' rest' -> u = u' /\ p = p' /\ rest = rest'.
Proof. exact ord_bind_unique. Qed.

(* struct { #[allow_missing] a: i32 = -1, b: i32 = 7 } enforce_order, UDT (b int, a int): both fields
   are there, swapped; the type is accepted, only b is sent, a comes back as 0 *)
Theorem C16_ordered_precise_refuted : exists d db cells,
  vd_ordered d = true /\ vd_snc d = false /\ vdesc_valid d = true /\ vvals_ok d = true /\
  Permutation (map fst db) (map vf_name (nonskipped (vd_fields d))) /\
  map fst db <> map vf_name (nonskipped (vd_fields d)) /\
  ordered_am_drops d db = true /\
  gen_typeck_value_ordered d db = Ok tt /\ doc_typeck_value_ordered_strict d db = false /\
  gen_ser_value_ordered d db = Ok cells /\ doc_ser_value_ordered_strict d db = Reject /\
  gen_deser_value_ordered d db cells = Ok [Some [0;0;0;0]; Some [0;0;0;7]].
Proof. exact ordered_precise_refuted. Qed.

(* precise round trip, enforce_order with names checked: exactly the fields of the longest
   selection come back as their values, the others as Default *)
Theorem C16_roundtrip_ordered_value_precise : forall d db cells used, vd_snc d = false ->
  NoDup (map vf_name (nonskipped (vd_fields d))) -> vvals_ok d = true ->
  doc_ordered_used (nonskipped (vd_fields d)) db = Some used ->
  gen_ser_value_ordered d db = Ok cells -> gen_typeck_value_ordered d db = Ok tt ->
  gen_deser_value_ordered d db cells = Ok (map (ordered_back used) (vd_fields d)).
Proof. exact roundtrip_value_ordered_precise. Qed.

(* the `[] => Err EPanic` branch of the ordered row type check (slice pattern with fewer columns than
   fields) is not reachable: the column count is compared first *)
Theorem C16_ordered_typeck_row_nopanic : forall ls cols,
  gen_typeck_row_ordered false ls cols <> Err EPanic.
Proof. exact (fun ls cols => proj2 (typeck_row_ordered_doc ls cols)). Qed.

(* the underflow guard of remaining_count in by-name SerializeValue is never hit *)
Theorem C16_ser_value_by_name_nopanic : forall d db,
  NoDup (map vf_name (nonskipped (vd_fields d))) -> gen_ser_value_by_name d db <> Err EPanic.
Proof. exact ser_value_by_name_nopanic. Qed.

(* skip_name_checks: positional binding, types only *)
Theorem C16_snc_ser_value : forall d db, vd_snc d = true ->
  outcome_of (gen_ser_value_ordered d db) = doc_ser_value_snc d db.
Proof. exact ser_value_snc_doc. Qed.

Theorem C16_snc_typeck_value : forall d db, vd_snc d = true ->
  (gen_typeck_value_ordered d db = Ok tt <-> doc_typeck_value_snc d db = true).
Proof. exact typeck_value_snc_doc. Qed.

Theorem C16_snc_deser_value : forall d db cells, vd_snc d = true -> doc_typeck_value_snc d db = true ->
  outcome_of (gen_deser_value_ordered d db cells) =
    match all_some (doc_positional (vd_fields d) (spec_items db cells)) with
    | Some vs => Accept vs
    | None => Reject
    end /\
  gen_deser_value_ordered d db cells <> Err EPanic.
Proof. exact deser_value_snc_doc. Qed.

(* rows, enforce_order, EVERY descriptor (any mix of skip_name_checks in the flatten tree) *)
Theorem C16_ordered_gen_ser_row : forall d cols,
  outcome_of (gen_ser_row_ordered d cols) = doc_ser_row_ordered_gen d cols.
Proof. exact ser_row_ordered_gen_doc. Qed.

Theorem C16_snc_typeck_row : forall ls cols,
  (gen_typeck_row_ordered true ls cols = Ok tt <-> doc_typeck_row_snc ls cols = true) /\
  gen_typeck_row_ordered true ls cols <> Err EPanic.
Proof. exact typeck_row_snc_doc. Qed.

Theorem C16_snc_deser_row : forall ls cols cells, List.length cells = List.length cols ->
  doc_typeck_row_snc ls cols = true ->
  outcome_of (gen_deser_row_ordered true ls cols cells) =
    match all_some (doc_row_positional ls (combine cols cells)) with
    | Some vs => Accept vs
    | None => Reject
    end /\
  gen_deser_row_ordered true ls cols cells <> Err EPanic.
Proof. exact deser_row_snc_doc. Qed.

(* round trip in the ordered flavor, for EVERY descriptor (allow_missing and skip_name_checks
   included): every field comes back as its value, or as Default if it is skipped or was an
   allow_missing field the DB type did not supply at its position *)
Theorem C16_roundtrip_ordered_value : forall d db cells, vvals_ok d = true ->
  gen_ser_value_ordered d db = Ok cells ->
  exists xs, gen_deser_value_ordered d db cells = Ok xs /\ Forall2 rt_ok (vd_fields d) xs.
Proof. exact roundtrip_value_ordered. Qed.

Theorem C16_roundtrip_ordered_row : forall d ls cols cells, leaves_only (rd_fields d) = Some ls ->
  forallb (fun l => val_ok (rl_ty l) (rl_val l)) ls = true ->
  gen_ser_row_ordered d cols = Ok cells ->
  gen_deser_row_ordered (rd_snc d) ls cols cells = Ok (map rback_value ls).
Proof. exact roundtrip_row_ordered. Qed.

(* ================================================================ deepening round 4 =========
   Theorems about the functions the DRIVER calls: the flavor dispatchers [gen_ser_value(_cells)],
   [gen_typeck_value], [gen_deser_value], [gen_ser_row(_cells)], [gen_typeck_row], [gen_deser_row],
   the macros' [vdesc_valid], and the boolean predicates [cells_eqb], [outcome_agrees], [rt_okb].
   The right-hand sides are the tables the driver selects (ocaml/c16/driver.ml doc_ser_value,
   doc_de_value, doc_ser_row, doc_de_row), flavor by flavor; the NoDup premises of the per-flavor
   theorems are discharged from [vdesc_valid] / [rdesc_wf], which the driver evaluates. *)

Theorem C16_cells_eqb_iff : forall a b, cells_eqb a b = true <-> a = b.
Proof. exact cells_eqb_iff. Qed.

(* the driver's "does the observed outcome agree with the documented one" is equality *)
Theorem C16_outcome_agrees_iff : forall obs doc,
  outcome_agrees obs doc = true <-> obs = option_cells doc.
Proof. exact outcome_agrees_iff. Qed.

Theorem C16_rt_okb_iff : forall f x, rt_okb f x = true <-> rt_ok f x.
Proof. exact rt_okb_iff. Qed.

(* the macros' validate, as a proposition: pairwise different names of the non-skipped fields; and
   skip_name_checks only with enforce_order, allow_missing only at the end, no rename *)
Theorem C16_vdesc_valid_iff : forall d, vdesc_valid d = true <->
  NoDup (map vf_name (nonskipped (vd_fields d))) /\
  (vd_snc d = true ->
     vd_ordered d = true /\ am_only_at_end (vd_fields d) = true /\
     forall f, In f (vd_fields d) -> vf_rename f = None).
Proof. exact vdesc_valid_iff. Qed.

(* SerializeValue, EVERY descriptor the macro accepts: outside the class of finding F24 the
   generated code's outcome is the documented table of the descriptor's flavor; it never panics; the
   bytes are the framed cells; a non-UDT type is rejected.  (The NoDup premise on the UDT's names is
   kept for by-name - the documentation is silent about duplicates - although the proof does not
   use it.) *)
Theorem C16_value_ser_pipeline : forall d db, vdesc_valid d = true ->
  (vd_ordered d = false -> NoDup (map fst db)) ->
  (vd_ordered d = true -> vd_snc d = false -> ordered_am_drops d db = false) ->
  outcome_of (gen_ser_value_cells d db) =
    (if vd_ordered d then
       if vd_snc d then doc_ser_value_snc d db else doc_ser_value_ordered_strict d db
     else doc_ser_value_by_name d db) /\
  gen_ser_value_cells d db <> Err EPanic /\
  gen_ser_value d (TUdt db) =
    match gen_ser_value_cells d db with Ok cs => Ok (frame_value cs) | Err e => Err e end /\
  (forall n, gen_ser_value d (TNative n) = Err ENotUdt).
Proof. exact value_ser_pipeline. Qed.

(* DeserializeValue, EVERY descriptor the macro accepts: type_check followed by deserialize - the
   pipeline the driver runs - has the outcome of the documented table of the flavor (Reject when the
   documented type check rejects: no premise on the type check any more) and never panics *)
Theorem C16_value_deser_pipeline : forall d db cells, vdesc_valid d = true ->
  (vd_ordered d = true -> vd_snc d = false -> ordered_am_drops d db = false) ->
  outcome_of (match gen_typeck_value d (TUdt db) with
              | Ok _ => gen_deser_value d db cells
              | Err e => Err e
              end) =
    (if vd_ordered d then
       if vd_snc d then doc_deser_value_snc d db cells else doc_deser_value_ordered_strict d db cells
     else doc_deser_value_by_name d db cells) /\
  (match gen_typeck_value d (TUdt db) with
   | Ok _ => gen_deser_value d db cells
   | Err e => Err e
   end) <> Err EPanic /\
  (forall n, gen_typeck_value d (TNative n) = Err ENotUdt).
Proof. exact value_deser_pipeline. Qed.

(* SerializeRow, every flavor and flatten tree *)
Theorem C16_row_ser_pipeline : forall d cols, (rd_ordered d = false -> rdesc_wf d = true) ->
  outcome_of (gen_ser_row_cells d cols) =
    (if rd_ordered d then doc_ser_row_ordered_gen d cols else doc_ser_row_by_name d cols) /\
  gen_ser_row_cells d cols <> Err EPanic /\
  gen_ser_row d cols =
    match gen_ser_row_cells d cols with Ok cs => Ok (frame_cells cs) | Err e => Err e end.
Proof. exact row_ser_pipeline. Qed.

(* DeserializeRow (no flatten), every flavor: type_check then deserialize = the documented table;
   never panics.  [rdesc_wf] is needed exactly where the driver asks for it. *)
Theorem C16_row_deser_pipeline : forall d ls cols cells, leaves_only (rd_fields d) = Some ls ->
  List.length cells = List.length cols ->
  (rd_ordered d && rd_snc d = false -> rdesc_wf d = true) ->
  outcome_of (match gen_typeck_row d ls cols with
              | Ok _ => gen_deser_row d ls cols cells
              | Err e => Err e
              end) =
    (if rd_ordered d then
       if rd_snc d then doc_deser_row_snc ls cols cells else doc_deser_row_ordered ls cols cells
     else doc_deser_row_by_name ls cols cells) /\
  (match gen_typeck_row d ls cols with
   | Ok _ => gen_deser_row d ls cols cells
   | Err e => Err e
   end) <> Err EPanic.
Proof. exact row_deser_pipeline. Qed.

(* "the ordered serializers and the ordered value type_check have no panic site", as a theorem *)
Theorem C16_ordered_nopanic :
  (forall d db, gen_typeck_value_ordered d db <> Err EPanic) /\
  (forall d db, gen_ser_value_ordered d db <> Err EPanic) /\
  (forall d cols, gen_ser_row_ordered d cols <> Err EPanic).
Proof. exact ordered_nopanic. Qed.

(* non-vacuity: a struct with an allow_missing field declared BEFORE a required one (the shape of
   finding F1), renamed, skipped and default_when_null fields *)
Definition ex_f (id : string) (ren : option string) (sk am dwn : bool) (t : rty) (v : cell) : vfield :=
  {| vf_ident := id; vf_rename := ren; vf_skip := sk; vf_am := am; vf_dwn := dwn; vf_ty := t; vf_val := v |}.
Definition ex_d : vdesc :=
  {| vd_ordered := false; vd_forbid := false; vd_snc := false;
     vd_fields := [ ex_f "a" None false true false RInt (Some [0;0;0;7]);
                    ex_f "b" (Some "x") false false false RText (Some [97;98]);
                    ex_f "s" None true false false RInt (Some [0;0;0;9]);
                    ex_f "c" None false false true ROptInt None ] |}%string.

Example C16_ex_hyps : NoDup (map vf_name (nonskipped (vd_fields ex_d))) /\ vvals_ok ex_d = true /\
  vdesc_valid ex_d = true.
Proof. split; [|split; reflexivity]. apply nodupb_NoDup. reflexivity. Qed.

Example C16_ex_perm :
  gen_ser_value_by_name ex_d [("c", DInt); ("x", DText); ("a", DInt)]%string
    = Ok [None; Some [97;98]; Some [0;0;0;7]] /\
  gen_typeck_value_by_name ex_d [("c", DInt); ("x", DText); ("a", DInt)]%string = Ok tt /\
  gen_deser_value_by_name ex_d [("c", DInt); ("x", DText); ("a", DInt)]%string [None; Some [97;98]; Some [0;0;0;7]]
    = Ok [Some [0;0;0;7]; Some [97;98]; Some [0;0;0;0]; None].
Proof. repeat split; vm_compute; reflexivity. Qed.

(* extra fields in the middle are sent as NULL, at the end not at all; the allow_missing field may
   be absent; the required field [x] may not (this is where the pre-fix macro returned Ok) *)
Example C16_ex_excess_missing :
  gen_ser_value_by_name ex_d [("zz", DText); ("x", DText); ("yy", DInt); ("c", DInt); ("ww", DInt)]%string
    = Ok [None; Some [97;98]; None; None] /\
  gen_ser_value_by_name ex_d [("a", DInt); ("c", DInt)]%string = Err (EValueMissingForUdtField "x"%string) /\
  doc_ser_value_by_name ex_d [("a", DInt); ("c", DInt)]%string = Reject /\
  gen_ser_value_by_name ex_d []%string = Err (EValueMissingForUdtField "x"%string).
Proof. repeat split; vm_compute; reflexivity. Qed.


(* rows: a struct with two flattened structs (one nested), by name *)
Definition ex_l (id : string) (ren : option string) (sk dwn : bool) (t : rty) (v : cell) : rleaf :=
  {| rl_ident := id; rl_rename := ren; rl_skip := sk; rl_dwn := dwn; rl_ty := t; rl_val := v |}.
Definition ex_r : rdesc :=
  {| rd_ordered := false; rd_snc := false;
     rd_fields := [ RLeaf (ex_l "a" None false false RInt (Some [0;0;0;1]));
                    RFlat false false [ RLeaf (ex_l "b" (Some "y") false false RText (Some [98]));
                                        RFlat false false [ RLeaf (ex_l "c" None false false ROptInt None) ] ];
                    RLeaf (ex_l "s" None true false RInt (Some [0;0;0;9])) ] |}%string.
Example C16_ex_rows : rdesc_wf ex_r = true /\
  gen_ser_row_by_name ex_r [("c", DInt); ("a", DInt); ("y", DText)]%string = Ok [None; Some [0;0;0;1]; Some [98]] /\
  gen_ser_row_by_name ex_r [("c", DInt); ("a", DInt)]%string = Err (ENoColumnWithName "y"%string) /\
  gen_ser_row_by_name ex_r [("c", DInt); ("zz", DInt)]%string = Err (EValueMissingForColumn "zz"%string).
Proof. repeat split; vm_compute; reflexivity. Qed.

(* the shape of finding F16 (empty struct flattened before another flattened struct): the missing
   column is reported *)
Definition ex_e : rdesc :=
  {| rd_ordered := false; rd_snc := false;
     rd_fields := [ RFlat false false [];
                    RFlat false false [ RLeaf (ex_l "c" None false false ROptInt None) ] ] |}%string.
Example C16_ex_empty_flatten : rdesc_wf ex_e = true /\
  gen_ser_row_by_name ex_e [] = Err (ENoColumnWithName "c"%string) /\
  gen_ser_row_by_name ex_e [("c", DInt)]%string = Ok [None].
Proof. repeat split; vm_compute; reflexivity. Qed.

(* enforce_order: the declared order is accepted, a swapped one is not *)
Definition ex_o : vdesc :=
  {| vd_ordered := true; vd_forbid := true; vd_snc := false;
     vd_fields := [ ex_f "a" None false false false RInt (Some [0;0;0;7]);
                    ex_f "s" None true false false RInt (Some [0;0;0;9]);
                    ex_f "b" None false false false RText (Some [97]) ] |}%string.
Example C16_ex_ordered : vordered_plain ex_o = true /\ vvals_ok ex_o = true /\
  gen_typeck_value_ordered ex_o [("a", DInt); ("b", DText)]%string = Ok tt /\
  gen_typeck_value_ordered ex_o [("b", DText); ("a", DInt)]%string = Err (EDeFieldNameMismatch 0 "a" "b")%string /\
  gen_typeck_value_ordered ex_o [("a", DInt); ("b", DText); ("c", DInt)]%string = Err (EExcessFieldInUdt "c")%string /\
  gen_ser_value_ordered ex_o [("a", DInt); ("b", DText)]%string = Ok [Some [0;0;0;7]; Some [97]].
Proof. repeat split; vm_compute; reflexivity. Qed.

(* ---- anchors for the specification functions and the driver's predicates: accepting AND rejecting
   inputs, so that a definition weakened later breaks a pinned Example ---------------------------- *)
Example C16_ex_doc_null_rule :
  doc_null_rule true RInt None = Some (Some [0;0;0;0]) /\ doc_null_rule false RInt None = None /\
  doc_null_rule false ROptInt None = Some None /\ doc_null_rule true RText (Some [97]) = Some (Some [97]) /\
  doc_null_rule true RInt (Some [1;2;3]) = None /\
  spec_items [("a", DInt); ("b", DText)]%string [Some [7]] = [(("a", DInt), Some [7]); (("b", DText), None)]%string /\
  spec_items [("a", DInt)]%string [Some [7]; Some [8]] = [(("a", DInt), Some [7])]%string.
Proof. repeat split; vm_compute; reflexivity. Qed.

Example C16_ex_doc_by_name_rejects :
  doc_typeck_value_by_name ex_d [("x", DText); ("c", DInt)]%string = true /\
  doc_typeck_value_by_name ex_d [("x", DText); ("c", DInt); ("x", DText)]%string = false /\
  doc_typeck_value_by_name ex_d [("x", DInt); ("c", DInt)]%string = false /\
  doc_typeck_value_by_name ex_d [("c", DInt); ("a", DInt)]%string = false /\
  doc_typeck_value_by_name ex_d [("x", DText); ("zz", DInt); ("c", DInt)]%string = true /\
  doc_ser_value_by_name ex_d [("x", DBigInt)]%string = Reject /\
  doc_deser_value_by_name ex_d [("x", DText); ("c", DInt)]%string [None; None] = Reject /\
  doc_deser_value_by_name ex_d [("c", DInt); ("x", DText)]%string [None; Some [98]]
    = Accept [Some [0;0;0;0]; Some [98]; Some [0;0;0;0]; None] /\
  outcome_agrees (Some [None]) (Accept [Some []]) = false /\ outcome_agrees (Some [None]) Reject = false /\
  outcome_agrees None (Accept [None]) = false /\ outcome_agrees None Reject = true /\
  outcome_agrees (Some [None; Some [1]]) (Accept [None; Some [1]]) = true.
Proof. repeat split; vm_compute; reflexivity. Qed.

Definition ex_x : vdesc :=
  {| vd_ordered := false; vd_forbid := true; vd_snc := false;
     vd_fields := [ ex_f "a" None false false false RInt (Some [0;0;0;7]) ] |}%string.
Example C16_ex_forbid_and_validate :
  doc_ser_value_by_name ex_x [("a", DInt); ("zz", DInt)]%string = Reject /\
  doc_ser_value_by_name ex_x [("a", DInt)]%string = Accept [Some [0;0;0;7]] /\
  doc_typeck_value_by_name ex_x [("zz", DInt); ("a", DInt)]%string = false /\
  vdesc_valid ex_x = true /\
  vdesc_valid {| vd_ordered := false; vd_forbid := false; vd_snc := true; vd_fields := vd_fields ex_x |} = false /\
  vdesc_valid {| vd_ordered := false; vd_forbid := false; vd_snc := false;
                 vd_fields := vd_fields ex_x ++ vd_fields ex_x |} = false /\
  vvals_ok {| vd_ordered := false; vd_forbid := false; vd_snc := false;
              vd_fields := [ ex_f "a" None false false false RInt None ]%string |} = false.
Proof. repeat split; vm_compute; reflexivity. Qed.

(* enforce_order + allow_missing: the longest admissible selection *)
Definition ex_am : vdesc :=
  {| vd_ordered := true; vd_forbid := false; vd_snc := false;
     vd_fields := [ ex_f "a" None false true false RInt (Some [0;0;0;7]);
                    ex_f "b" None false false false RText (Some [98]) ] |}%string.
Example C16_ex_ordered_am :
  option_map (map vf_ident) (doc_ordered_used (vd_fields ex_am) [("a", DInt); ("b", DText)]%string) = Some ["a"; "b"]%string /\
  option_map (map vf_ident) (doc_ordered_used (vd_fields ex_am) [("b", DText); ("a", DInt)]%string) = Some ["b"]%string /\
  doc_ordered_used (vd_fields ex_am) [("a", DInt)]%string = None /\
  doc_typeck_value_ordered_am ex_am [("b", DText); ("a", DInt)]%string = true /\
  doc_typeck_value_ordered_am ex_am [("a", DText); ("b", DText)]%string = false /\
  doc_typeck_value_ordered_am ex_am [("zz", DInt); ("b", DText)]%string = false /\
  doc_ser_value_ordered_am ex_am [("b", DText); ("a", DInt)]%string = Accept [Some [98]] /\
  gen_ser_value_ordered ex_am [("b", DText); ("a", DInt)]%string = Ok [Some [98]] /\
  doc_deser_value_ordered_am ex_am [("b", DText); ("a", DInt)]%string [Some [99]; Some [0;0;0;1]]
    = Accept [Some [0;0;0;0]; Some [99]].
Proof. repeat split; vm_compute; reflexivity. Qed.

(* String binds to ascii as well as to text; nothing else does *)
Example C16_ex_ascii :
  accepts RText DAscii = true /\ accepts ROptText DAscii = true /\ accepts RInt DAscii = false /\
  accepts ROptInt DAscii = false /\ accepts RText DBigInt = false /\
  doc_typeck_value_by_name ex_d [("x", DAscii); ("c", DInt)]%string = true /\
  doc_typeck_value_by_name ex_d [("x", DText); ("c", DAscii)]%string = false /\
  gen_ser_value_by_name ex_d [("c", DInt); ("x", DAscii)]%string = Ok [None; Some [97;98]].
Proof. repeat split; vm_compute; reflexivity. Qed.

Example C16_ex_ordered_am_class :
  ordered_am_drops ex_am [("b", DText); ("a", DInt)]%string = true /\
  ordered_am_drops ex_am [("a", DInt); ("b", DText)]%string = false /\
  ordered_am_drops ex_am [("b", DText)]%string = false /\
  ordered_am_drops ex_am [("b", DText); ("zz", DInt)]%string = false /\
  doc_typeck_value_ordered_strict ex_am [("b", DText); ("a", DInt)]%string = false /\
  doc_typeck_value_ordered_strict ex_am [("b", DText); ("zz", DInt)]%string = true /\
  doc_ser_value_ordered_strict ex_am [("b", DText); ("a", DInt)]%string = Reject /\
  doc_ser_value_ordered_strict ex_am [("a", DInt); ("b", DText)]%string = Accept [Some [0;0;0;7]; Some [98]] /\
  map (ordered_back [ex_f "b" None false false false RText (Some [98])]%string) (vd_fields ex_am)
    = [Some [0;0;0;0]; Some [98]].
Proof. repeat split; vm_compute; reflexivity. Qed.

Example C16_ex_documented_relation :
  doc_rel_typeck_ordered ex_am [("a", DInt); ("b", DText)]%string /\
  doc_rel_typeck_ordered ex_am [("b", DText); ("zz", DInt)]%string /\
  ~ doc_rel_typeck_ordered ex_am [("b", DText); ("a", DInt)]%string /\
  ~ doc_rel_typeck_ordered ex_am [("a", DText); ("b", DText)]%string /\
  doc_rel_ser_ordered ex_am [("a", DInt); ("b", DText)]%string [Some [0;0;0;7]; Some [98]] /\
  ~ doc_rel_ser_ordered ex_am [("b", DText); ("a", DInt)]%string [Some [98]].
Proof.
  assert (Hnd : NoDup (map vf_name (nonskipped (vd_fields ex_am)))) by (apply nodupb_NoDup; reflexivity).
  repeat split.
  - apply (C16_ordered_strict_typeck_is_documented ex_am _ eq_refl eq_refl Hnd). reflexivity.
  - apply (C16_ordered_strict_typeck_is_documented ex_am _ eq_refl eq_refl Hnd). reflexivity.
  - intros H. apply (C16_ordered_strict_typeck_is_documented ex_am _ eq_refl eq_refl Hnd) in H. discriminate H.
  - intros H. apply (C16_ordered_strict_typeck_is_documented ex_am _ eq_refl eq_refl Hnd) in H. discriminate H.
  - apply (C16_ordered_strict_ser_is_documented ex_am _ _ eq_refl eq_refl Hnd). reflexivity.
  - intros H. apply (C16_ordered_strict_ser_is_documented ex_am _ _ eq_refl eq_refl Hnd) in H. discriminate H.
Qed.

(* skip_name_checks: positional, types only *)
Definition ex_snc : vdesc :=
  {| vd_ordered := true; vd_forbid := true; vd_snc := true;
     vd_fields := [ ex_f "a" None false false false RInt (Some [0;0;0;7]);
                    ex_f "b" None false true false RText (Some [98]) ] |}%string.
Example C16_ex_snc :
  doc_typeck_value_snc ex_snc [("x", DInt); ("y", DText)]%string = true /\
  doc_typeck_value_snc ex_snc [("x", DInt)]%string = true /\
  doc_typeck_value_snc ex_snc [("x", DText)]%string = false /\
  doc_typeck_value_snc ex_snc []%string = false /\
  doc_typeck_value_snc ex_snc [("x", DInt); ("y", DText); ("z", DInt)]%string = false /\
  doc_ser_value_snc ex_snc [("x", DInt); ("y", DText)]%string = Accept [Some [0;0;0;7]; Some [98]] /\
  doc_ser_value_snc ex_snc [("x", DText)]%string = Reject /\
  doc_deser_value_snc ex_snc [("x", DInt)]%string [Some [0;0;0;1]] = Accept [Some [0;0;0;1]; Some []].
Proof. repeat split; vm_compute; reflexivity. Qed.

(* rows: rejecting inputs of the documented tables *)
Definition ex_ro : rdesc :=
  {| rd_ordered := true; rd_snc := false;
     rd_fields := [ RLeaf (ex_l "a" None false false RInt (Some [0;0;0;1]));
                    RFlat false true [ RLeaf (ex_l "b" None false false RText (Some [98])) ] ] |}%string.
Example C16_ex_rows_reject :
  doc_ser_row_by_name ex_r [("c", DInt); ("a", DInt)]%string = Reject /\
  doc_ser_row_by_name ex_r [("c", DInt); ("a", DInt); ("y", DText); ("zz", DInt)]%string = Reject /\
  doc_ser_row_by_name ex_r [("c", DInt); ("a", DText); ("y", DText)]%string = Reject /\
  doc_ser_row_ordered_gen ex_ro [("a", DInt); ("q", DText)]%string = Accept [Some [0;0;0;1]; Some [98]] /\
  doc_ser_row_ordered_gen ex_ro [("q", DInt); ("b", DText)]%string = Reject /\
  doc_ser_row_ordered_gen ex_ro [("a", DInt)]%string = Reject /\
  doc_ser_row_ordered_gen ex_ro [("a", DInt); ("b", DText); ("c", DInt)]%string = Reject /\
  doc_typeck_row_by_name [ex_l "a" None false false RInt None] [("a", DInt); ("a", DInt)]%string = false /\
  doc_typeck_row_by_name [ex_l "a" None false false RInt None] [("a", DInt); ("z", DInt)]%string = false /\
  doc_typeck_row_by_name [ex_l "a" None false false RInt None] [("a", DInt)]%string = true /\
  doc_typeck_row_ordered [ex_l "a" None false false RInt None; ex_l "b" None false false RText None]
    [("b", DText); ("a", DInt)]%string = false /\
  doc_typeck_row_snc [ex_l "a" None false false RInt None] [("z", DInt)]%string = true /\
  doc_typeck_row_snc [ex_l "a" None false false RInt None] [("a", DText)]%string = false /\
  doc_deser_row_by_name [ex_l "a" None false false RInt None] [("a", DInt)]%string [None] = Reject /\
  doc_deser_row_by_name [ex_l "a" None false true RInt None] [("a", DInt)]%string [None] = Accept [Some [0;0;0;0]] /\
  rdesc_wf {| rd_ordered := false; rd_snc := false;
              rd_fields := [ RLeaf (ex_l "a" None false false RInt None);
                             RFlat false false [ RLeaf (ex_l "a" None false false RInt None) ] ] |}%string = false.
Proof. repeat split; vm_compute; reflexivity. Qed.

(* round 4: the hypotheses of the pipeline theorems hold on concrete descriptors of every flavor
   (and the F24 premise does exclude something); the predicates accept AND reject *)
Definition ex_rl : rdesc :=
  {| rd_ordered := true; rd_snc := false;
     rd_fields := [ RLeaf (ex_l "a" None false false RInt (Some [0;0;0;1]));
                    RLeaf (ex_l "s" None true false RInt (Some [0;0;0;9]));
                    RLeaf (ex_l "b" None false true RText (Some [98])) ] |}%string.
Example C16_ex_pipeline :
  vdesc_valid ex_d = true /\ vdesc_valid ex_o = true /\ vdesc_valid ex_am = true /\ vdesc_valid ex_snc = true /\
  nodupb (map fst [("c", DInt); ("x", DText); ("a", DInt)]%string) = true /\
  ordered_am_drops ex_am [("a", DInt); ("b", DText)]%string = false /\
  ordered_am_drops ex_am [("b", DText); ("a", DInt)]%string = true /\
  outcome_of (match gen_typeck_value ex_am (TUdt [("a", DInt); ("b", DText)]%string) with
              | Ok _ => gen_deser_value ex_am [("a", DInt); ("b", DText)]%string [Some [0;0;0;1]; Some [99]]
              | Err e => Err e end) = Accept [Some [0;0;0;1]; Some [99]] /\
  outcome_of (match gen_typeck_value ex_d (TUdt [("c", DText)]%string) with
              | Ok _ => gen_deser_value ex_d [("c", DText)]%string [None]
              | Err e => Err e end) = Reject /\
  doc_deser_value_by_name ex_d [("c", DText)]%string [None] = Reject /\
  vdesc_valid {| vd_ordered := false; vd_forbid := false; vd_snc := true; vd_fields := [] |} = false /\
  leaves_only (rd_fields ex_rl) = Some [ ex_l "a" None false false RInt (Some [0;0;0;1]);
                                         ex_l "s" None true false RInt (Some [0;0;0;9]);
                                         ex_l "b" None false true RText (Some [98]) ]%string /\
  rdesc_wf ex_rl = true /\
  outcome_of (match gen_typeck_row ex_rl [ ex_l "a" None false false RInt None; ex_l "s" None true false RInt None;
                                            ex_l "b" None false true RText None ]%string
                                   [("a", DInt); ("b", DAscii)]%string with
              | Ok _ => gen_deser_row ex_rl [ ex_l "a" None false false RInt None; ex_l "s" None true false RInt None;
                                              ex_l "b" None false true RText None ]%string
                                      [("a", DInt); ("b", DAscii)]%string [Some [0;0;0;5]; None]
              | Err e => Err e end) = Accept [Some [0;0;0;5]; Some [0;0;0;0]; Some []] /\
  outcome_of (gen_ser_row_cells ex_rl [("a", DInt); ("b", DText)]%string) = Accept [Some [0;0;0;1]; Some [98]] /\
  outcome_agrees (Some [Some [1]]) (Accept [Some [1]]) = true /\
  outcome_agrees (Some [Some [1]]) (Accept [None]) = false /\
  outcome_agrees None (Accept [None]) = false /\
  outcome_agrees (Some []) Reject = false /\
  outcome_agrees None Reject = true /\
  rt_okb (ex_f "a" None false true false RInt (Some [0;0;0;7])) (Some [0;0;0;0]) = true /\
  rt_okb (ex_f "a" None false false false RInt (Some [0;0;0;7])) (Some [0;0;0;0]) = false.
Proof. repeat split; vm_compute; reflexivity. Qed.

Print Assumptions C16_by_name_ser.
Print Assumptions C16_roundtrip.
Print Assumptions C16_excess_missing_ser_value.
Print Assumptions C16_excess_missing_typeck_value.
Print Assumptions C16_excess_missing_deser_value.
Print Assumptions C16_by_name_ser_row.
Print Assumptions C16_roundtrip_row.
Print Assumptions C16_excess_missing_ser_row.
Print Assumptions C16_excess_missing_typeck_row.
Print Assumptions C16_excess_missing_deser_row.
Print Assumptions C16_ordered_typeck_value.
Print Assumptions C16_ordered_ser_value.
Print Assumptions C16_ordered_typeck_row.
Print Assumptions C16_ordered_ser_row.
Print Assumptions C16_ordered_deser_value.
Print Assumptions C16_ordered_deser_row.
Print Assumptions C16_ordered_allow_missing_sound.
Print Assumptions C16_roundtrip_ordered_value.
Print Assumptions C16_roundtrip_ordered_row.
Print Assumptions C16_ordered_am_ser_value.
Print Assumptions C16_ordered_am_typeck_value.
Print Assumptions C16_ordered_am_deser_value.
Print Assumptions C16_snc_ser_value.
Print Assumptions C16_snc_typeck_value.
Print Assumptions C16_snc_deser_value.
Print Assumptions C16_ordered_gen_ser_row.
Print Assumptions C16_snc_typeck_row.
Print Assumptions C16_snc_deser_row.
Print Assumptions C16_ordered_strict_ser_value.
Print Assumptions C16_ordered_strict_typeck_value.
Print Assumptions C16_ordered_strict_deser_value.
Print Assumptions C16_ordered_precise_refuted.
Print Assumptions C16_roundtrip_ordered_value_precise.
Print Assumptions C16_ser_value_by_name_nopanic.
Print Assumptions C16_ordered_typeck_row_nopanic.
Print Assumptions C16_ordered_strict_typeck_is_documented.
Print Assumptions C16_ordered_strict_ser_is_documented.
Print Assumptions C16_ordered_typeck_characterised.
Print Assumptions C16_ordered_ser_characterised.
Print Assumptions C16_ord_bind_unique.
Print Assumptions C16_cells_eqb_iff.
Print Assumptions C16_outcome_agrees_iff.
Print Assumptions C16_rt_okb_iff.
Print Assumptions C16_vdesc_valid_iff.
Print Assumptions C16_value_ser_pipeline.
Print Assumptions C16_value_deser_pipeline.
Print Assumptions C16_row_ser_pipeline.
Print Assumptions C16_row_deser_pipeline.
Print Assumptions C16_ordered_nopanic.
