(* Property C16 — statements only.  Every theorem is closed by [exact] of a lemma from
   Proofs/Derive_proofs.v; the statements are pinned again in /verif/pins/C16.v.

   [vnodup fs] (the names of the non-skipped fields are pairwise different) is what the macros'
   own `validate` enforces at compile time; it is the NoDup hypothesis of the property. *)
From SV Require Import Base.Prelude Base.Bytes Model.Derive Proofs.Derive_proofs.
From Coq Require Import Permutation String.
Open Scope N_scope.

(* by-name serialization of a UDT value: for EVERY order in which the database lists the struct's
   fields, each field's value is emitted at the database's position *)
Theorem C16_by_name_ser : forall d db,
  NoDup (map vf_name (nonskipped (vd_fields d))) ->
  Permutation (map fst db) (map vf_name (nonskipped (vd_fields d))) ->
  (forall c f, In c db -> vfind (fst c) (vd_fields d) = Some f -> accepts (vf_ty f) (snd c) = true) ->
  gen_ser_value_by_name d db = Ok (map (fun c => value_of (vd_fields d) (fst c)) db).
Proof. exact by_name_ser_value. Qed.

(* value -> cells -> value is the identity (skipped fields and absent allow_missing fields come
   back as Default), for EVERY field list of the DB type on which serialization and the type check
   succeed: any permutation, with or without extra / missing fields *)
Theorem C16_roundtrip : forall d db cells,
  NoDup (map vf_name (nonskipped (vd_fields d))) -> vvals_ok d = true ->
  gen_ser_value_by_name d db = Ok cells -> gen_typeck_value_by_name d db = Ok tt ->
  gen_deser_value_by_name d db cells = Ok (map (back_value (map fst db)) (vd_fields d)).
Proof. exact roundtrip_value_by_name. Qed.

(* extra, missing, null and renamed fields are accepted / rejected exactly as documented *)
Theorem C16_excess_missing_ser_value : forall d db,
  NoDup (map vf_name (nonskipped (vd_fields d))) ->
  outcome_of (gen_ser_value_by_name d db) = doc_ser_value_by_name d db.
Proof. exact ser_value_by_name_doc. Qed.

Theorem C16_excess_missing_typeck_value : forall d db,
  NoDup (map vf_name (nonskipped (vd_fields d))) ->
  (gen_typeck_value_by_name d db = Ok tt <-> doc_typeck_value_by_name d db = true) /\
  gen_typeck_value_by_name d db <> Err EPanic.
Proof. exact typeck_value_by_name_doc. Qed.

Theorem C16_excess_missing_deser_value : forall d db cells,
  NoDup (map vf_name (nonskipped (vd_fields d))) ->
  doc_typeck_value_by_name d db = true ->
  outcome_of (gen_deser_value_by_name d db cells) =
    match all_some (map (fun f => doc_field_value f (udt_items db cells)) (vd_fields d)) with
    | Some vs => Accept vs
    | None => Reject
    end /\
  gen_deser_value_by_name d db cells <> Err EPanic.
Proof. exact deser_value_by_name_doc. Qed.

(* non-vacuity: a struct with an allow_missing field declared BEFORE a required one (the shape of
   finding F1), renamed, skipped and default_when_null fields *)
Definition ex_f (id : string) (ren : option string) (sk am dwn : bool) (t : rty) (v : cell) : vfield :=
  {| vf_ident := id; vf_rename := ren; vf_skip := sk; vf_am := am; vf_dwn := dwn; vf_ty := t; vf_val := v |}.
Definition ex_d : vdesc :=
  {| vd_ordered := false; vd_forbid := false; vd_snc := false;
     vd_fields := [ ex_f "a" None false true false RInt (Some [0;0;0;7]);
                    ex_f "b" (Some "x") false false false RText (Some [97;98]);
                    ex_f "s" None true false false RInt (Some [0;0;0;9]);
                    ex_f "c" None false false true ROptInt None ] |}%string.

Example C16_ex_hyps : NoDup (map vf_name (nonskipped (vd_fields ex_d))) /\ vvals_ok ex_d = true /\
  vdesc_valid ex_d = true.
Proof. split; [|split; reflexivity]. apply nodupb_NoDup. reflexivity. Qed.

Example C16_ex_perm :
  gen_ser_value_by_name ex_d [("c", DInt); ("x", DText); ("a", DInt)]%string
    = Ok [None; Some [97;98]; Some [0;0;0;7]] /\
  gen_typeck_value_by_name ex_d [("c", DInt); ("x", DText); ("a", DInt)]%string = Ok tt /\
  gen_deser_value_by_name ex_d [("c", DInt); ("x", DText); ("a", DInt)]%string [None; Some [97;98]; Some [0;0;0;7]]
    = Ok [Some [0;0;0;7]; Some [97;98]; Some [0;0;0;0]; None].
Proof. repeat split; vm_compute; reflexivity. Qed.

(* extra fields in the middle are sent as NULL, at the end not at all; the allow_missing field may
   be absent; the required field [x] may not (this is where the pre-fix macro returned Ok) *)
Example C16_ex_excess_missing :
  gen_ser_value_by_name ex_d [("zz", DText); ("x", DText); ("yy", DInt); ("c", DInt); ("ww", DInt)]%string
    = Ok [None; Some [97;98]; None; None] /\
  gen_ser_value_by_name ex_d [("a", DInt); ("c", DInt)]%string = Err (EValueMissingForUdtField "x"%string) /\
  doc_ser_value_by_name ex_d [("a", DInt); ("c", DInt)]%string = Reject /\
  gen_ser_value_by_name ex_d []%string = Err (EValueMissingForUdtField "x"%string).
Proof. repeat split; vm_compute; reflexivity. Qed.

Print Assumptions C16_by_name_ser.
Print Assumptions C16_roundtrip.
Print Assumptions C16_excess_missing_ser_value.
Print Assumptions C16_excess_missing_typeck_value.
Print Assumptions C16_excess_missing_deser_value.
