(* Property C05 — statements only.  Every theorem is closed by [exact] of a lemma from
   Proofs/Plan_proofs.v; the statements are pinned again in /verif/pins/C05.v.

   A plan is observed as its list of node ids [p].  The property is the conjunction of
   P_nodup, P_filter, P_locality, P_complete, P_order, P_lwt (Model/Plan.v), where the order is
   expressed through [group_of]: 0 alive local-rack replicas, 1 alive local-DC replicas, 2 alive
   (remote) replicas, 3 alive local-rack nodes, 4 alive local nodes, 5 alive remote nodes,
   6 enabled-but-down local nodes, 7 enabled-but-down remote nodes, 8 not allowed in the plan. *)
From SV Require Import Base.Prelude Model.Ring Model.Replicas Model.Plan Proofs.Ring_proofs Proofs.Replicas_proofs Proofs.Plan_proofs Proofs.C05_round4.
From Coq Require Import Permutation.
Open Scope Z_scope.

(* soundness of the acceptor the correspondence check evaluates on every REAL plan:
   accepted => duplicate-free, only enabled nodes, only preferred-datacenter nodes when failover
   is not permitted, every other enabled token-owning node present, groups in order (live
   replicas local rack / local DC / remote, then live nodes, then nodes believed down), and for
   LWT the replica part equal to the one deterministic sequence *)
Theorem C05_accept_sound : forall dcf rackf (g : ring N) keyspaces enabled connected pol rq p,
  plan_matches dcf rackf g keyspaces enabled connected pol rq p = true ->
  P_nodup p /\ P_filter enabled p /\ P_locality dcf pol rq p /\ P_complete dcf g enabled pol rq p /\
  P_order dcf rackf g keyspaces enabled connected pol rq p /\
  P_lwt dcf rackf g keyspaces enabled connected pol rq p.
Proof. exact (fun dcf rackf g ks en co => plan_matches_sound dcf rackf g ks en co (fun _ => 0%N)). Qed.

(* an accepted plan names only token-owning nodes; and the acceptor refuses NOTHING that has the
   property: it is exactly the conjunction of the seven predicates *)
Theorem C05_accept_ring : forall dcf rackf (g : ring N) keyspaces enabled connected pol rq p,
  plan_matches dcf rackf g keyspaces enabled connected pol rq p = true -> P_ring g p.
Proof. exact (fun dcf rackf g ks en co => plan_matches_ring dcf rackf g ks en co (fun _ => 0%N)). Qed.

Theorem C05_accept_complete : forall dcf rackf (g : ring N) keyspaces enabled connected pol rq p,
  P_nodup p -> P_filter enabled p -> P_locality dcf pol rq p -> P_ring g p ->
  P_complete dcf g enabled pol rq p ->
  P_order dcf rackf g keyspaces enabled connected pol rq p ->
  P_lwt dcf rackf g keyspaces enabled connected pol rq p ->
  plan_matches dcf rackf g keyspaces enabled connected pol rq p = true.
Proof. exact (fun dcf rackf g ks en co => plan_matches_complete dcf rackf g ks en co (fun _ => 0%N)). Qed.

(* "the one deterministic ring order": without a location preference the LWT replica sequence
   is the alive replicas in the order of their first position on the ring walk from the token *)
Theorem C05_lwt_ring_order : forall dcf rackf (g : ring N) keyspaces enabled connected pol rq,
  sorted_weak g ->
  (forall k s, ks_lookup keyspaces k = Some s -> nts_keys_ok s) ->
  forall t s, eff_pref pol rq = PAny -> token_strategy keyspaces pol rq = Some (t, s) ->
  lwt_sequence dcf rackf g keyspaces enabled connected pol rq =
  filter (fun n => alive enabled connected n && mem n (reps_iter dcf rackf g keyspaces t s CAny))
         (uniq (ring_range g t)).
Proof. exact lwt_sequence_ring_order. Qed.

(* what an accepted pick() result means: a member of the first non-empty group; for LWT
   replicas the head of the deterministic sequence *)
Theorem C05_pick_sound : forall dcf rackf (g : ring N) keyspaces enabled connected pol rq n,
  pick_matches dcf rackf g keyspaces enabled connected pol rq (Some n) = true ->
  (group_of dcf rackf g keyspaces enabled connected pol rq n < 8)%nat /\
  (forall m, In m (all_nodes g) ->
     (group_of dcf rackf g keyspaces enabled connected pol rq n <=
      group_of dcf rackf g keyspaces enabled connected pol rq m)%nat) /\
  (rq_lwt rq = true -> (group_of dcf rackf g keyspaces enabled connected pol rq n < 3)%nat ->
   exists r, lwt_sequence dcf rackf g keyspaces enabled connected pol rq = n :: r).
Proof. exact (fun dcf rackf g ks en co => pick_matches_sound dcf rackf g ks en co (fun _ => 0%N)). Qed.

(* the model of fallback() (the whole plan whenever pick() yields nothing, and the plan's tail
   otherwise) is accepted for EVERY oracle: every rotation index, every shuffle permutation *)
Theorem C05_fallback_accepted : forall dcf rackf (g : ring N) keyspaces enabled connected shf pol rq,
  sorted_weak g ->
  (forall k s, ks_lookup keyspaces k = Some s -> nts_keys_ok s) ->
  forall cho shuf, (forall site l, Permutation (shuf site l) l) ->
  plan_matches dcf rackf g keyspaces enabled connected pol rq
    (map fst (fallback dcf rackf g keyspaces enabled connected shf pol rq cho shuf)) = true.
Proof. exact fallback_matches. Qed.

(* hence C05_nodup, C05_filter, C05_locality, C05_complete, C05_order, C05_lwt for it *)
Theorem C05_fallback_properties : forall dcf rackf (g : ring N) keyspaces enabled connected shf pol rq,
  sorted_weak g ->
  (forall k s, ks_lookup keyspaces k = Some s -> nts_keys_ok s) ->
  forall cho shuf, (forall site l, Permutation (shuf site l) l) ->
  let p := map fst (fallback dcf rackf g keyspaces enabled connected shf pol rq cho shuf) in
  P_nodup p /\ P_filter enabled p /\ P_locality dcf pol rq p /\ P_complete dcf g enabled pol rq p /\
  P_order dcf rackf g keyspaces enabled connected pol rq p /\
  P_lwt dcf rackf g keyspaces enabled connected pol rq p.
Proof. exact fallback_properties. Qed.

(* no two targets of the fallback plan are equal under DefaultPolicyTargetComparator (no
   hypothesis: holds for every ring, every oracle) *)
Theorem C05_nodup_targets : forall dcf rackf (g : ring N) keyspaces enabled connected shf pol rq cho shuf,
  ForallOrdPairs (fun x y => target_cmp x y = false)
    (fallback dcf rackf g keyspaces enabled connected shf pol rq cho shuf).
Proof. exact fallback_targets_distinct. Qed.

(* the chain structure behind it: replica groups (with the token's shard) de-duplicated, then
   the node groups (no shard) minus the replicas *)
Theorem C05_fallback_structure : forall dcf rackf (g : ring N) keyspaces enabled connected shf pol rq cho shuf,
  fallback dcf rackf g keyspaces enabled connected shf pol rq cho shuf =
  map (with_shard shf) (uniq (concat (seg_replicas dcf rackf g keyspaces enabled connected pol rq shuf))) ++
  map no_shard
    (filter (fun n => negb (mem n (concat (seg_replicas dcf rackf g keyspaces enabled connected pol rq shuf))))
            (uniq (concat (seg_nodes dcf rackf g enabled connected pol rq cho)))).
Proof. exact fallback_structure. Qed.

(* ---- the whole Plan (pick() first, then fallback() without the picked target) ------------
   for EVERY oracle: every index drawn from 0..len, every shuffle permutation *)
Theorem C05_pick_accepted : forall dcf rackf (g : ring N) keyspaces enabled connected shf pol rq,
  sorted_weak g ->
  (forall k s, ks_lookup keyspaces k = Some s -> nts_keys_ok s) ->
  forall cho, (forall site len, (0 < len)%nat -> (cho site len < len)%nat) ->
  pick_matches dcf rackf g keyspaces enabled connected pol rq
    (option_map fst (pick dcf rackf g keyspaces enabled connected shf pol rq cho)) = true.
Proof.
  exact (fun dcf rackf g ks en co shf pol rq Hs Hk cho =>
           pick_matches_model dcf rackf g ks en co shf pol rq Hs Hk cho (fun _ l => l) (fun _ l => Permutation_refl l)).
Qed.

Theorem C05_plan_accepted : forall dcf rackf (g : ring N) keyspaces enabled connected shf pol rq,
  sorted_weak g ->
  (forall k s, ks_lookup keyspaces k = Some s -> nts_keys_ok s) ->
  forall cho shuf, (forall site l, Permutation (shuf site l) l) ->
  (forall site len, (0 < len)%nat -> (cho site len < len)%nat) ->
  plan_matches dcf rackf g keyspaces enabled connected pol rq
    (map fst (plan dcf rackf g keyspaces enabled connected shf pol rq cho shuf)) = true.
Proof. exact plan_matches_model. Qed.

(* C05_nodup, C05_filter, C05_locality, C05_complete, C05_order, C05_lwt of the design, as one
   statement about the model's Plan *)
Theorem C05_plan_properties : forall dcf rackf (g : ring N) keyspaces enabled connected shf pol rq,
  sorted_weak g ->
  (forall k s, ks_lookup keyspaces k = Some s -> nts_keys_ok s) ->
  forall cho shuf, (forall site l, Permutation (shuf site l) l) ->
  (forall site len, (0 < len)%nat -> (cho site len < len)%nat) ->
  let p := map fst (plan dcf rackf g keyspaces enabled connected shf pol rq cho shuf) in
  P_nodup p /\ P_filter enabled p /\ P_locality dcf pol rq p /\ P_complete dcf g enabled pol rq p /\
  P_order dcf rackf g keyspaces enabled connected pol rq p /\
  P_lwt dcf rackf g keyspaces enabled connected pol rq p.
Proof. exact plan_properties. Qed.

(* LWT: the replica part of the plan is the same sequence for all oracles *)
Theorem C05_lwt : forall dcf rackf (g : ring N) keyspaces enabled connected shf pol rq,
  sorted_weak g ->
  (forall k s, ks_lookup keyspaces k = Some s -> nts_keys_ok s) ->
  forall cho shuf, (forall site l, Permutation (shuf site l) l) ->
  (forall site len, (0 < len)%nat -> (cho site len < len)%nat) ->
  rq_lwt rq = true ->
  filter (fun n => (group_of dcf rackf g keyspaces enabled connected pol rq n <? 3)%nat)
         (map fst (plan dcf rackf g keyspaces enabled connected shf pol rq cho shuf)) =
  lwt_sequence dcf rackf g keyspaces enabled connected pol rq.
Proof. exact plan_lwt_deterministic. Qed.

(* where the plan's nodes come from *)
Theorem C05_plan_nodes : forall dcf rackf (g : ring N) keyspaces enabled connected shf pol rq,
  sorted_weak g ->
  (forall k s, ks_lookup keyspaces k = Some s -> nts_keys_ok s) ->
  forall cho shuf, (forall site l, Permutation (shuf site l) l) ->
  (forall site len, (0 < len)%nat -> (cho site len < len)%nat) ->
  map fst (plan dcf rackf g keyspaces enabled connected shf pol rq cho shuf) =
  match pick dcf rackf g keyspaces enabled connected shf pol rq cho with
  | Some (p, _) => p :: remove_by N.eqb p (map fst (fallback dcf rackf g keyspaces enabled connected shf pol rq cho shuf))
  | None => map fst (fallback dcf rackf g keyspaces enabled connected shf pol rq cho shuf)
  end.
Proof. exact plan_nodes. Qed.

(* ---- node liveness changing between pick() and fallback() (the two reads of one Plan) ----
   what still holds: the first target is an acceptable pick for the liveness pick() saw, the rest
   is the (accepted) fallback plan of the later liveness minus at most the picked target; every
   node was enabled when it was chosen and is permitted (host filter, locality); the rest names
   no node twice *)
Theorem C05_two_reads_safe : forall dcf rackf (g : ring N) keyspaces en1 co1 en2 co2 shf pol rq,
  sorted_weak g ->
  (forall k s, ks_lookup keyspaces k = Some s -> nts_keys_ok s) ->
  forall cho shuf, (forall site l, Permutation (shuf site l) l) ->
  (forall site len, (0 < len)%nat -> (cho site len < len)%nat) ->
  forall p tl,
  plan_two_reads dcf rackf g keyspaces en1 co1 en2 co2 shf pol rq cho shuf = Some (p :: tl) ->
  pick_matches dcf rackf g keyspaces en1 co1 pol rq (Some (fst p)) = true /\
  plan_matches dcf rackf g keyspaces en2 co2 pol rq
    (map fst (fallback dcf rackf g keyspaces en2 co2 shf pol rq cho shuf)) = true /\
  (en1 (fst p) = true /\ permitted dcf g pol rq (fst p) = true) /\
  (forall n, In n (map fst tl) -> en2 n = true /\ permitted dcf g pol rq n = true) /\
  NoDup (map fst tl) /\
  (let fb2 := map fst (fallback dcf rackf g keyspaces en2 co2 shf pol rq cho shuf) in
   map fst tl = fb2 \/ exists a b, fb2 = a ++ fst p :: b /\ map fst tl = a ++ b).
Proof. exact two_reads_safe. Qed.

(* what does NOT survive: the picked replica, down by the time fallback() runs, reappears as a
   shard-less "maybe down" target that the exact-equality filter of Plan does not remove.  The
   witness plan names node 1 twice and is out of group order under the liveness pick() saw and
   under the later one; it IS complete (every token-owning node is named). *)
Theorem C05_two_reads_refuted :
  exists p, tw_plan = Some p /\ map fst p = [1; 2; 1]%N /\ ~ NoDup (map fst p) /\
    nondecreasing (map (group_of (fun _ => None) (fun _ => None) tw_g tw_ks tw_up tw_up tw_pol tw_rq) (map fst p)) = false /\
    nondecreasing (map (group_of (fun _ => None) (fun _ => None) tw_g tw_ks tw_up tw_co2 tw_pol tw_rq) (map fst p)) = false /\
    (forall n, In n (all_nodes tw_g) -> In n (map fst p)).
Proof. exact two_reads_refuted. Qed.

(* the kind-L acceptor evaluated on every real two-read Plan: what acceptance means, and that the
   model's two-read plan is accepted for every oracle *)
Theorem C05_two_reads_accept_sound : forall dcf rackf (g : ring N) keyspaces en1 co1 en2 co2 pol rq p,
  two_reads_matches dcf rackf g keyspaces en1 co1 en2 co2 pol rq p = true ->
  exists h rest, p = h :: rest /\
    pick_matches dcf rackf g keyspaces en1 co1 pol rq (Some h) = true /\
    exists F, plan_matches dcf rackf g keyspaces en2 co2 pol rq F = true /\
      ((rest = F /\
        (In h rest ->
         (group_of dcf rackf g keyspaces en2 co2 pol rq h < 8)%nat /\
         Bool.eqb (group_of dcf rackf g keyspaces en1 co1 pol rq h <? 3)%nat
                  (group_of dcf rackf g keyspaces en2 co2 pol rq h <? 3)%nat = false)) \/
       (~ In h rest /\ exists a b, F = a ++ h :: b /\ rest = a ++ b)).
Proof. exact two_reads_matches_sound. Qed.

Theorem C05_two_reads_accepted : forall dcf rackf (g : ring N) keyspaces en1 co1 en2 co2 shf pol rq,
  sorted_weak g ->
  (forall k s, ks_lookup keyspaces k = Some s -> nts_keys_ok s) ->
  forall cho shuf, (forall site l, Permutation (shuf site l) l) ->
  (forall site len, (0 < len)%nat -> (cho site len < len)%nat) ->
  forall pl, plan_two_reads dcf rackf g keyspaces en1 co1 en2 co2 shf pol rq cho shuf = Some pl ->
  two_reads_matches dcf rackf g keyspaces en1 co1 en2 co2 pol rq (map fst pl) = true.
Proof. exact two_reads_accepted. Qed.

(* the kind-L violation test (evaluated only on a plan the acceptor refused): what it means,
   that nothing the acceptor accepts fails it, and that the model's two-read plan passes it *)
Theorem C05_two_reads_safe_b_sound : forall dcf rackf (g : ring N) keyspaces en1 co1 en2 co2 pol rq p,
  two_reads_safe_b dcf rackf g keyspaces en1 co1 en2 co2 pol rq p = true <->
  exists h rest, p = h :: rest /\
    (en1 h = true /\ permitted dcf g pol rq h = true) /\
    (forall n, In n rest -> en2 n = true /\ permitted dcf g pol rq n = true) /\
    NoDup rest /\
    (In h rest ->
     ~ ((group_of dcf rackf g keyspaces en2 co2 pol rq h < 8)%nat /\
        Bool.eqb (group_of dcf rackf g keyspaces en1 co1 pol rq h <? 3)%nat
                 (group_of dcf rackf g keyspaces en2 co2 pol rq h <? 3)%nat = true)).
Proof. exact two_reads_safe_b_spec. Qed.

Theorem C05_two_reads_accept_safe : forall dcf rackf (g : ring N) keyspaces en1 co1 en2 co2 pol rq p,
  sorted_weak g ->
  two_reads_matches dcf rackf g keyspaces en1 co1 en2 co2 pol rq p = true ->
  two_reads_safe_b dcf rackf g keyspaces en1 co1 en2 co2 pol rq p = true.
Proof. exact two_reads_matches_safe. Qed.

Theorem C05_two_reads_model_safe : forall dcf rackf (g : ring N) keyspaces en1 co1 en2 co2 shf pol rq,
  sorted_weak g ->
  (forall k s, ks_lookup keyspaces k = Some s -> nts_keys_ok s) ->
  forall cho shuf, (forall site l, Permutation (shuf site l) l) ->
  (forall site len, (0 < len)%nat -> (cho site len < len)%nat) ->
  forall pl, plan_two_reads dcf rackf g keyspaces en1 co1 en2 co2 shf pol rq cho shuf = Some pl ->
  two_reads_safe_b dcf rackf g keyspaces en1 co1 en2 co2 pol rq (map fst pl) = true.
Proof. exact two_reads_model_safe. Qed.

(* ---- any number of liveness changes, at arbitrary points of one Plan ----------------------
   [reads]: the candidates the fallback iterator pulled and that passed their liveness test, in
   the order pulled, each with the snapshot (enabled, connected) it was tested under
   ([reads_ok]: the candidate is offered by the fallback chain under that snapshot); unique_by
   runs over everything pulled, Plan removes the picked target by exact equality.  Then: the
   first target is an acceptable pick for the snapshot pick() saw; every target was enabled in
   the snapshot it was chosen in and is permitted; the later targets name no node twice; the
   picked node is named again at most once, and only with another annotation.  The two-read
   plan is the instance in which every candidate is pulled under the second snapshot. *)
Theorem C05_reads_safe : forall dcf rackf (g : ring N) keyspaces shf pol rq,
  sorted_weak g ->
  (forall k s, ks_lookup keyspaces k = Some s -> nts_keys_ok s) ->
  forall cho shuf, (forall site l, Permutation (shuf site l) l) ->
  (forall site len, (0 < len)%nat -> (cho site len < len)%nat) ->
  forall (s0 : snapshot) reads p tl,
  reads_ok dcf rackf g keyspaces shf pol rq cho shuf reads ->
  plan_reads dcf rackf g keyspaces shf pol rq cho s0 reads = Some (p :: tl) ->
  pick_matches dcf rackf g keyspaces (fst s0) (snd s0) pol rq (Some (fst p)) = true /\
  (fst s0 (fst p) = true /\ permitted dcf g pol rq (fst p) = true) /\
  (forall x, In x tl -> exists s, In (x, s) reads /\ fst s (fst x) = true /\ permitted dcf g pol rq (fst x) = true) /\
  NoDup (map fst tl) /\
  (forall x, In x tl -> fst x = fst p -> snd x <> snd p).
Proof. exact plan_reads_safe. Qed.

Theorem C05_two_reads_as_reads : forall dcf rackf (g : ring N) keyspaces shf pol rq cho shuf (s0 s1 : snapshot),
  plan_two_reads dcf rackf g keyspaces (fst s0) (snd s0) (fst s1) (snd s1) shf pol rq cho shuf =
  plan_reads dcf rackf g keyspaces shf pol rq cho s0
    (map (fun x => (x, s1)) (chain_under dcf rackf g keyspaces shf pol rq cho shuf s1)) /\
  reads_ok dcf rackf g keyspaces shf pol rq cho shuf
    (map (fun x => (x, s1)) (chain_under dcf rackf g keyspaces shf pol rq cho shuf s1)).
Proof. exact plan_two_reads_as_reads. Qed.

(* three snapshots: node 2 pulled while node 1 is down, node 1 pulled (as a node target) after it
   came back: the duplicate of C05_two_reads_refuted; a shard-less target pulled after the picked
   one is dropped by unique_by; a node disabled in its snapshot is not offered *)
Example C05_ex_reads :
  let ro := reads_ok (fun _ => None) (fun _ => None) tw_g tw_ks (fun _ => 0%N) tw_pol tw_rq (fun _ _ => 0%nat) (fun _ l => l) in
  let pr := plan_reads (fun _ => None) (fun _ => None) tw_g tw_ks (fun _ => 0%N) tw_pol tw_rq (fun _ _ => 0%nat) in
  let up : snapshot := (tw_up, tw_up) in
  let down1 : snapshot := (tw_up, tw_co2) in
  let off2 : snapshot := (fun n => negb (N.eqb n 2), tw_up) in
  let rd := [((2, None), down1); ((1, None), up)]%N in
  ro rd /\ pr up rd = Some [(1, Some 0); (2, None); (1, None)]%N /\
  pr up [((1, Some 0), up); ((1, None), down1); ((2, None), down1)]%N = Some [(1, Some 0); (2, None)]%N /\
  ~ ro [((2, None), off2)]%N.
Proof.
  cbv zeta. split; [|split; [|split]].
  - repeat constructor; vm_compute; tauto.
  - vm_compute. reflexivity.
  - vm_compute. reflexivity.
  - intros H. inversion H as [|? ? H1 _]. vm_compute in H1. intuition congruence.
Qed.

(* the witness is the two-read plan of a two-node ring whose node 1 loses its connections *)
Example C05_ex_two_reads :
  tw_plan = plan_two_reads (fun _ => None) (fun _ => None) [(10, 1%N); (20, 2%N)] [(0%N, Simple 1)]
              (fun _ => true) (fun _ => true) (fun _ => true) (fun n => negb (N.eqb n 1)) (fun _ => 0%N)
              {| pol_pref := None; pol_token_aware := true; pol_failover := false |}
              {| rq_token := Some 5; rq_ks := Some 0%N; rq_lwt := false; rq_pref := PAny |}
              (fun _ _ => 0%nat) (fun _ l => l) /\
  tw_plan = Some [(1, Some 0); (2, None); (1, None)]%N /\
  (* enabled changes too: node 2 disabled at the second read is simply absent from the rest *)
  option_map (map fst) (plan_two_reads (fun _ => None) (fun _ => None) tw_g tw_ks tw_up tw_up
     (fun n => negb (N.eqb n 2)) tw_up (fun _ => 0%N) tw_pol tw_rq (fun _ _ => 0%nat) (fun _ l => l)) = Some [1%N].
Proof. repeat split; vm_compute; reflexivity. Qed.

(* ---- non-vacuity: the 7-node, 2-datacenter ring of the repository's own tests -----------
   nodes A..G = 1..7; eu = 1, us = 2; racks r1 = 1, r2 = 2; keyspace 0 = NTS {eu:3, us:3} *)
Definition ex_dcf (n : N) : option N :=
  match n with 4%N | 5%N | 6%N => Some 2%N | _ => Some 1%N end.
Definition ex_rackf (n : N) : option N :=
  match n with 6%N | 7%N => Some 2%N | _ => Some 1%N end.
Definition ex_g : ring N := sort_ring (map (fun e : Z * Z => (fst e, Z.to_N (snd e)))
  [(50,1);(250,1);(400,1);(100,2);(600,2);(900,2);(300,3);(650,3);(700,3);(350,4);(550,4);
   (150,5);(750,5);(200,6);(450,6);(500,7);(800,7)]).
Definition ex_ks : list (N * strategy) := [(0%N, NTS [(1%N, 3%nat); (2%N, 3%nat)])].
Definition ex_enabled (n : N) : bool := negb (N.eqb n 6).          (* F is filtered out *)
Definition ex_connected (n : N) : bool := negb (N.eqb n 3).        (* C is down *)
Definition ex_pol := {| pol_pref := Some (PDcRack 1 1); pol_token_aware := true; pol_failover := true |}.
Definition ex_rq (lwt : bool) := {| rq_token := Some 160; rq_ks := Some 0%N; rq_lwt := lwt; rq_pref := PAny |}.

Example C05_ex_hyps :
  sorted_weak ex_g /\ (forall k s, ks_lookup ex_ks k = Some s -> nts_keys_ok s).
Proof.
  split; [apply sort_ring_sorted|].
  intros k s. cbn. destruct (N.eqb 0 k); [|discriminate]. intros [= <-]. cbn.
  repeat constructor; cbn; intuition congruence.
Qed.

(* eu replicas A, C, G (C down), us replicas F (disabled), D, E: a plan in group order *)
Example C05_ex_accept :
  plan_matches ex_dcf ex_rackf ex_g ex_ks ex_enabled ex_connected ex_pol (ex_rq false) [1; 7; 5; 4; 2; 3]%N = true /\
  plan_matches ex_dcf ex_rackf ex_g ex_ks ex_enabled ex_connected ex_pol (ex_rq false) [1; 7; 4; 5; 2; 3]%N = true /\
  (* a down node before a live one, a disabled node, a missing node: all refused *)
  plan_matches ex_dcf ex_rackf ex_g ex_ks ex_enabled ex_connected ex_pol (ex_rq false) [1; 3; 7; 5; 4; 2]%N = false /\
  plan_matches ex_dcf ex_rackf ex_g ex_ks ex_enabled ex_connected ex_pol (ex_rq false) [1; 7; 5; 4; 6; 2; 3]%N = false /\
  plan_matches ex_dcf ex_rackf ex_g ex_ks ex_enabled ex_connected ex_pol (ex_rq false) [1; 7; 5; 4; 2]%N = false /\
  (* LWT: the replica part is fixed — ring order inside each group *)
  lwt_sequence ex_dcf ex_rackf ex_g ex_ks ex_enabled ex_connected ex_pol (ex_rq true) = [1; 7; 4; 5]%N /\
  plan_matches ex_dcf ex_rackf ex_g ex_ks ex_enabled ex_connected ex_pol (ex_rq true) [1; 7; 4; 5; 2; 3]%N = true /\
  plan_matches ex_dcf ex_rackf ex_g ex_ks ex_enabled ex_connected ex_pol (ex_rq true) [1; 7; 5; 4; 2; 3]%N = false.
Proof. repeat split; vm_compute; reflexivity. Qed.

Example C05_ex_two_reads_acceptor :
  let tr := two_reads_matches (fun _ => None) (fun _ => None) tw_g tw_ks tw_up tw_up in
  tr tw_up tw_co2 tw_pol tw_rq [1; 2; 1]%N = true /\      (* node 1 became a non-replica target: kept *)
  tr tw_up tw_co2 tw_pol tw_rq [1; 2]%N = false /\         (* ... so it must reappear *)
  tr tw_up tw_up tw_pol tw_rq [1; 2]%N = true /\           (* nothing changed: removed *)
  tr tw_up tw_up tw_pol tw_rq [1; 1; 2]%N = false /\       (* nothing changed: must NOT reappear *)
  tr tw_up tw_up tw_pol tw_rq [2; 1]%N = false /\          (* head is not an acceptable pick *)
  tr (fun n => negb (N.eqb n 1)) tw_up tw_pol tw_rq [1; 2]%N = true /\   (* node 1 disabled afterwards *)
  tr (fun n => negb (N.eqb n 1)) tw_up tw_pol tw_rq [1; 2; 1]%N = false.
Proof. repeat split; vm_compute; reflexivity. Qed.

(* the violation test on refused plans: a wrong order or a missing node is not a violation, a
   repeated unchanged head, a repeated later node, a disabled or foreign node is *)
Example C05_ex_two_reads_safe_b :
  let sf := two_reads_safe_b (fun _ => None) (fun _ => None) tw_g tw_ks tw_up tw_up in
  let tr := two_reads_matches (fun _ => None) (fun _ => None) tw_g tw_ks tw_up tw_up in
  (tr tw_up tw_up tw_pol tw_rq [2; 1]%N, sf tw_up tw_up tw_pol tw_rq [2; 1]%N) = (false, true) /\
  (tr tw_up tw_up tw_pol tw_rq [1]%N, sf tw_up tw_up tw_pol tw_rq [1]%N) = (false, true) /\
  sf tw_up tw_up tw_pol tw_rq [1; 1; 2]%N = false /\
  sf tw_up tw_co2 tw_pol tw_rq [1; 2; 1]%N = true /\
  sf tw_up tw_up tw_pol tw_rq [1; 2; 2]%N = false /\
  sf (fun n => negb (N.eqb n 2)) tw_up tw_pol tw_rq [1; 2]%N = false /\
  sf tw_up tw_up tw_pol tw_rq [1; 2; 9]%N = false /\
  sf tw_up tw_up tw_pol tw_rq [] = false /\
  (* the model's two-read plan (the witness of C05_two_reads_refuted) passes it *)
  option_map (fun p => sf tw_up tw_co2 tw_pol tw_rq (map fst p)) tw_plan = Some true.
Proof. repeat split; vm_compute; reflexivity. Qed.

Example C05_ex_permitted :
  map (permitted ex_dcf ex_g ex_pol (ex_rq false)) [1; 4; 9]%N = [true; true; false] /\
  map (permitted ex_dcf ex_g {| pol_pref := Some (PDc 1); pol_token_aware := true; pol_failover := false |} (ex_rq false)) [1; 4; 9]%N
    = [true; false; false].
Proof. split; vm_compute; reflexivity. Qed.

Example C05_ex_groups :
  map (group_of ex_dcf ex_rackf ex_g ex_ks ex_enabled ex_connected ex_pol (ex_rq false)) [1; 2; 3; 4; 5; 6; 7; 9]%N
    = [0; 3; 6; 2; 2; 8; 1; 8]%nat /\
  (* a node that owns no token is refused even at the end of an otherwise good plan *)
  plan_matches ex_dcf ex_rackf ex_g ex_ks ex_enabled ex_connected ex_pol (ex_rq false) [1; 7; 5; 4; 2; 3; 9]%N = false /\
  (* pick(): None is refused while a live replica exists *)
  pick_matches ex_dcf ex_rackf ex_g ex_ks ex_enabled ex_connected ex_pol (ex_rq false) None = false /\
  pick_matches ex_dcf ex_rackf ex_g ex_ks ex_enabled ex_connected ex_pol (ex_rq false) (Some 2%N) = false.
Proof. repeat split; vm_compute; reflexivity. Qed.

Example C05_ex_model :
  let cho := fun (_ len : nat) => Nat.pred len in
  let shuf := fun (_ : nat) (l : list N) => rev l in
  map fst (plan ex_dcf ex_rackf ex_g ex_ks ex_enabled ex_connected (fun _ => 0%N) ex_pol (ex_rq false) cho shuf) = [1; 7; 5; 4; 2; 3]%N /\
  map fst (plan ex_dcf ex_rackf ex_g ex_ks ex_enabled ex_connected (fun _ => 0%N) ex_pol (ex_rq true) cho shuf) = [1; 7; 4; 5; 2; 3]%N /\
  pick ex_dcf ex_rackf ex_g ex_ks ex_enabled ex_connected (fun _ => 0%N) ex_pol (ex_rq false) cho = Some (1%N, Some 0%N) /\
  pick_matches ex_dcf ex_rackf ex_g ex_ks ex_enabled ex_connected ex_pol (ex_rq true) (Some 1%N) = true /\
  pick_matches ex_dcf ex_rackf ex_g ex_ks ex_enabled ex_connected ex_pol (ex_rq true) (Some 7%N) = false.
Proof. repeat split; vm_compute; reflexivity. Qed.

(* ==== deepening round 4: the extracted acceptor pieces, exactly =============================
   min_group (the driver's diagnostic), the boundary "group 8 = may not be named", pick_matches
   on Some and on None as equivalences, a frame statement for group_of and what it gives for the
   kind-L acceptor, and the two-read model at one snapshot *)
Theorem C05_min_group_spec : forall dcf rackf (g : ring N) keyspaces enabled connected pol rq,
  (forall m, In m (all_nodes g) ->
     (min_group dcf rackf g keyspaces enabled connected pol rq <=
      group_of dcf rackf g keyspaces enabled connected pol rq m)%nat) /\
  (min_group dcf rackf g keyspaces enabled connected pol rq <= 8)%nat /\
  (min_group dcf rackf g keyspaces enabled connected pol rq = 8%nat \/
   exists n, In n (all_nodes g) /\
     group_of dcf rackf g keyspaces enabled connected pol rq n =
     min_group dcf rackf g keyspaces enabled connected pol rq).
Proof. exact min_group_spec. Qed.

Theorem C05_group_lt8_iff : forall dcf rackf (g : ring N) keyspaces enabled connected pol rq,
  sorted_weak g -> forall n,
  (group_of dcf rackf g keyspaces enabled connected pol rq n < 8)%nat <->
  enabled n = true /\ permitted dcf g pol rq n = true.
Proof. exact group_lt8_iff. Qed.

(* C05_pick_sound with its converse: the acceptor refuses no pick that has the property *)
Theorem C05_pick_iff : forall dcf rackf (g : ring N) keyspaces enabled connected pol rq,
  sorted_weak g -> forall n,
  pick_matches dcf rackf g keyspaces enabled connected pol rq (Some n) = true <->
  (group_of dcf rackf g keyspaces enabled connected pol rq n < 8)%nat /\
  (forall m, In m (all_nodes g) ->
     (group_of dcf rackf g keyspaces enabled connected pol rq n <=
      group_of dcf rackf g keyspaces enabled connected pol rq m)%nat) /\
  (rq_lwt rq = true -> (group_of dcf rackf g keyspaces enabled connected pol rq n < 3)%nat ->
   exists r, lwt_sequence dcf rackf g keyspaces enabled connected pol rq = n :: r).
Proof. exact pick_matches_some_iff. Qed.

(* pick() = None is accepted exactly when no token-owning node may be named, or (LWT, remote
   replicas allowed) the ring's primary replica is down and no node is in a local replica group *)
Theorem C05_pick_none_iff : forall dcf rackf (g : ring N) keyspaces enabled connected pol rq,
  pick_matches dcf rackf g keyspaces enabled connected pol rq None = true <->
  (forall m, In m (all_nodes g) -> group_of dcf rackf g keyspaces enabled connected pol rq m = 8%nat) \/
  (rq_lwt rq = true /\ remote_allowed pol rq = true /\
   exists t s primary r, token_strategy keyspaces pol rq = Some (t, s) /\
     reps_ordered dcf rackf g keyspaces t s CAny = primary :: r /\
     alive enabled connected primary = false /\
     forall m, In m (all_nodes g) -> (2 <= group_of dcf rackf g keyspaces enabled connected pol rq m)%nat).
Proof. exact pick_matches_none_iff. Qed.

(* frame: a node's group depends on that node's liveness only ... *)
Theorem C05_group_frame : forall dcf rackf (g : ring N) keyspaces en1 co1 en2 co2 pol rq n,
  en1 n = en2 n -> co1 n = co2 n ->
  group_of dcf rackf g keyspaces en1 co1 pol rq n = group_of dcf rackf g keyspaces en2 co2 pol rq n.
Proof. exact group_of_frame. Qed.

(* ... so a two-read plan accepted by the kind-L acceptor never names the picked node again when
   that node's own liveness is unchanged, whatever happened to the others: the rest is an accepted
   later plan with the head taken out *)
Theorem C05_two_reads_unchanged_head : forall dcf rackf (g : ring N) keyspaces en1 co1 en2 co2 pol rq h rest,
  en1 h = en2 h -> co1 h = co2 h ->
  two_reads_matches dcf rackf g keyspaces en1 co1 en2 co2 pol rq (h :: rest) = true ->
  ~ In h rest /\
  exists a b, rest = a ++ b /\ plan_matches dcf rackf g keyspaces en2 co2 pol rq (a ++ h :: b) = true.
Proof. exact two_reads_unchanged_head. Qed.

(* the two-read model read twice under the same liveness is the one-snapshot Plan *)
Theorem C05_two_reads_same_snapshot : forall dcf rackf (g : ring N) keyspaces en co shf pol rq cho shuf,
  plan_two_reads dcf rackf g keyspaces en co en co shf pol rq cho shuf =
  match pick dcf rackf g keyspaces en co shf pol rq cho with
  | Some _ => Some (plan dcf rackf g keyspaces en co shf pol rq cho shuf)
  | None => None
  end.
Proof. exact two_reads_same_snapshot. Qed.

(* non-vacuity of the hypotheses of C05_two_reads_* / C05_reads_safe on the witness ring and of
   the oracle hypotheses (index 0, identity shuffle) *)
Example C05_ex_tw_hyps :
  sorted_weak tw_g /\ (forall k s, ks_lookup tw_ks k = Some s -> nts_keys_ok s) /\
  (forall (site : nat) (l : list N), Permutation ((fun _ l => l) site l) l) /\
  (forall site len : nat, (0 < len)%nat -> ((fun _ _ => 0%nat) site len < len)%nat) /\
  plan_two_reads (fun _ => None) (fun _ => None) tw_g tw_ks tw_up tw_up tw_up tw_up (fun _ => 0%N) tw_pol tw_rq
    (fun _ _ => 0%nat) (fun _ l => l) = Some [(1, Some 0); (2, None)]%N.
Proof.
  split; [|split; [|split; [|split]]].
  - change tw_g with (sort_ring tw_g). apply sort_ring_sorted.
  - intros k s. cbn. destruct (N.eqb 0 k); [|discriminate]. intros [= <-]. exact I.
  - intros _ l. apply Permutation_refl.
  - intros _ len H. exact H.
  - vm_compute. reflexivity.
Qed.

(* the hypotheses of C05_lwt_ring_order (no location preference, token-aware) on the 7-node ring:
   the LWT sequence is the live replicas in ring order from token 160 (F = 6 disabled, C = 3 down) *)
Definition ex_pol_any := {| pol_pref := None; pol_token_aware := true; pol_failover := false |}.
Example C05_ex_lwt_ring_order :
  eff_pref ex_pol_any (ex_rq true) = PAny /\
  token_strategy ex_ks ex_pol_any (ex_rq true) = Some (160, NTS [(1%N, 3%nat); (2%N, 3%nat)]) /\
  reps_ordered ex_dcf ex_rackf ex_g ex_ks 160 (NTS [(1%N, 3%nat); (2%N, 3%nat)]) CAny = [6; 1; 3; 4; 7; 5]%N /\
  lwt_sequence ex_dcf ex_rackf ex_g ex_ks ex_enabled ex_connected ex_pol_any (ex_rq true) = [1; 4; 7; 5]%N.
Proof. repeat split; vm_compute; reflexivity. Qed.

(* both disjuncts of C05_pick_none_iff, and min_group: LWT whose primary replica (F = 6) is not
   alive while the best group is 2 -> None accepted; the same request non-LWT -> None refused;
   every node disabled -> min_group = 8 and None accepted; C05_ex_accept's cluster: min_group 0 *)
Example C05_ex_pick_none :
  pick_matches ex_dcf ex_rackf ex_g ex_ks ex_enabled ex_connected ex_pol_any (ex_rq true) None = true /\
  min_group ex_dcf ex_rackf ex_g ex_ks ex_enabled ex_connected ex_pol_any (ex_rq true) = 2%nat /\
  map (group_of ex_dcf ex_rackf ex_g ex_ks ex_enabled ex_connected ex_pol_any (ex_rq true)) [1; 2; 3; 4; 5; 6; 7]%N
    = [2; 4; 6; 2; 2; 8; 2]%nat /\
  pick_matches ex_dcf ex_rackf ex_g ex_ks ex_enabled ex_connected ex_pol_any (ex_rq false) None = false /\
  pick_matches ex_dcf ex_rackf ex_g ex_ks (fun _ => false) ex_connected ex_pol (ex_rq false) None = true /\
  min_group ex_dcf ex_rackf ex_g ex_ks (fun _ => false) ex_connected ex_pol (ex_rq false) = 8%nat /\
  min_group ex_dcf ex_rackf ex_g ex_ks ex_enabled ex_connected ex_pol (ex_rq false) = 0%nat /\
  (* the unchanged-head statement: node 1's liveness is the same at both reads, node 2 goes down *)
  two_reads_matches (fun _ => None) (fun _ => None) tw_g tw_ks tw_up tw_up tw_up (fun n => negb (N.eqb n 2)) tw_pol tw_rq [1; 2]%N = true.
Proof. repeat split; vm_compute; reflexivity. Qed.


Print Assumptions C05_accept_sound.
Print Assumptions C05_pick_sound.
Print Assumptions C05_accept_ring.
Print Assumptions C05_accept_complete.
Print Assumptions C05_lwt_ring_order.
Print Assumptions C05_fallback_accepted.
Print Assumptions C05_fallback_properties.
Print Assumptions C05_nodup_targets.
Print Assumptions C05_fallback_structure.
Print Assumptions C05_pick_accepted.
Print Assumptions C05_plan_accepted.
Print Assumptions C05_plan_properties.
Print Assumptions C05_lwt.
Print Assumptions C05_plan_nodes.
Print Assumptions C05_two_reads_safe.
Print Assumptions C05_two_reads_refuted.
Print Assumptions C05_two_reads_accept_sound.
Print Assumptions C05_two_reads_accepted.
Print Assumptions C05_two_reads_safe_b_sound.
Print Assumptions C05_two_reads_accept_safe.
Print Assumptions C05_two_reads_model_safe.
Print Assumptions C05_reads_safe.
Print Assumptions C05_two_reads_as_reads.
Print Assumptions C05_min_group_spec.
Print Assumptions C05_group_lt8_iff.
Print Assumptions C05_pick_iff.
Print Assumptions C05_pick_none_iff.
Print Assumptions C05_group_frame.
Print Assumptions C05_two_reads_unchanged_head.
Print Assumptions C05_two_reads_same_snapshot.
