(* Property C01 — CQL value encoding conforms to the protocol and round-trips.
   Statements only.  Every theorem is closed by [exact] of a lemma from Proofs/Cql_proofs.v,
   Proofs/CqlTyped_proofs.v, Proofs/C01_round4_proofs.v or Proofs/Vint_proofs.v (the *_refuted ones by computation on a witness); the statements are
   pinned again in /verif/pins/C01.v.

   Vocabulary (Model/Cql.v):  ser_cell / ser_value = the code's serialiser (serialize_cql_value +
   CellWriter), deser_cell / deser_value = the code's `DeserializeValue for CqlValue`,
   enc_spec / Enc / EncCell = the wire format transcribed from the protocol text, pad / pad_cell =
   what a round trip must return, wf / wf_cell = "a value of the type", size_only = "refused only
   because a length exceeds i32", vector_hole / empty_tuple_inside / known_class = the two known
   finding classes (F2 vector-null-element, F14 empty-tuple). *)
From SV Require Import Base.Prelude Base.Bytes Model.Vint Model.Cql Model.CqlTyped Proofs.Vint_proofs Proofs.Cql_proofs Proofs.CqlTyped_proofs Proofs.C01_round4_proofs.
Open Scope N_scope.

(* ---------------------------------------------------------------------------------------- *)
(* Round trip                                                                                *)
(* ---------------------------------------------------------------------------------------- *)

(* Full-strength statement, NOT true of the code as it is (see the two _refuted theorems):
     forall t c b r, wf_cell t c = true -> ser_cell t c = Ok b ->
                     deser_cell t (b ++ r) = Ok (pad_cell t c, r).
   Proved: the same statement outside the two known classes. *)
Theorem C01_roundtrip : forall t c b r,
  wf_cell t c = true -> known_class_cell t c = false -> ser_cell t c = Ok b ->
  deser_cell t (b ++ r) = Ok (pad_cell t c, r).
Proof. exact roundtrip_cell. Qed.

(* the same for a bare value through a writer with or without a size (vector elements) *)
Theorem C01_roundtrip_value : forall t ws v b,
  wf_type t = true -> wf_val t v = true -> known_class t v = false ->
  ser_value ws t v = Ok b -> blen b < two64 -> deser_value t b = Ok (pad t v).
Proof. exact (fun t ws v b => roundtrip_value t ws v b). Qed.

Theorem C01_roundtrip_value_sized : forall t v b,
  wf_type t = true -> wf_val t v = true -> known_class t v = false ->
  ser_value true t v = Ok b -> deser_value t b = Ok (pad t v).
Proof. exact roundtrip_value_sized. Qed.

(* known_class is exactly the disjunction of the two finding classes *)
Theorem C01_known_class_split : forall t v,
  known_class t v = false <-> vector_hole t v = false /\ empty_tuple_inside t v = false.
Proof. exact known_class_split. Qed.

(* F2 on the dynamic path: vector<int,2> = [7, Empty] is accepted, written as 4 bytes, and the
   driver's own decoder refuses them *)
Theorem C01_roundtrip_refuted_vector : exists t c b,
  wf_cell t c = true /\ ser_cell t c = Ok b /\ deser_cell t b <> Ok (pad_cell t c, []).
Proof. exact roundtrip_refuted_vector. Qed.

(* F2 as found: Vec<Option<i32>> = [Some(7), None] bound to vector<int,2> is accepted, the null
   marker is written as element data and reads back as -1 *)
Theorem C01_vector_cells_refuted :
  ser_vector_cells (TNative NInt) 2 [CVal (CInt 7); CNull] = Ok [0; 0; 0; 8; 0; 0; 0; 7; 255; 255; 255; 255] /\
  deser_cell (TVector (TNative NInt) 2) [0; 0; 0; 8; 0; 0; 0; 7; 255; 255; 255; 255]
  = Ok (CVal (CVector [CInt 7; CInt (-1)]), []).
Proof. exact vector_cells_refuted. Qed.

(* F14: CqlValue::Tuple(vec![]) at tuple<int,text> is written as a zero-length cell and reads back
   as Empty, not as (null, null) *)
Theorem C01_roundtrip_refuted_tuple : exists t c b,
  wf_cell t c = true /\ ser_cell t c = Ok b /\ deser_cell t b <> Ok (pad_cell t c, []).
Proof. exact roundtrip_refuted_tuple. Qed.

(* ---------------------------------------------------------------------------------------- *)
(* Conformance                                                                               *)
(* ---------------------------------------------------------------------------------------- *)

(* Full-strength statement, not true of the code as it is (C01_conforms_refuted):
     forall t v b, wf t v = true -> ser_value true t v = Ok b -> Enc t v b.
   Proved: outside the class vector_hole (the empty tuple DOES conform). *)
Theorem C01_conforms : forall t ws v b,
  wf_type t = true -> wf_val t v = true -> vector_hole t v = false ->
  ser_value ws t v = Ok b -> blen b < two64 -> Enc t v b.
Proof. exact (fun t ws v b => conforms_value t ws v b). Qed.

Theorem C01_conforms_refuted : exists t v b,
  wf t v = true /\ ser_value true t v = Ok b /\ ~ Enc t v b.
Proof. exact conforms_refuted. Qed.

(* the specification function [enc_spec] (hence Enc) is exactly the inductive relation EncR, whose
   rules are the sentences of the protocol text (Model/Cql.v section 7) *)
Theorem C01_enc_relation : forall t v b, Enc t v b <-> EncR t v b.
Proof. exact (fun t v b => enc_spec_relation t v b). Qed.

(* cells: null is [int] -1, not-set is [int] -2, a value is [int] n + n bytes of its encoding *)
Theorem C01_cell_conforms : forall t c b,
  wf_cell t c = true ->
  match c with CVal v => vector_hole t v = false | _ => True end ->
  ser_cell t c = Ok b -> EncCell t c b.
Proof. exact conforms_cell. Qed.

Theorem C01_cell_markers : forall t,
  ser_cell t CNull = Ok (spec_int (-1)) /\ ser_cell t CUnset = Ok (spec_int (-2)) /\
  (supports_empty t = true -> ser_cell t (CVal CEmpty) = Ok (spec_int 0)).
Proof. exact cell_markers. Qed.

Theorem C01_conforms_sized : forall t v b,
  wf_type t = true -> wf_val t v = true -> vector_hole t v = false ->
  ser_value true t v = Ok b -> Enc t v b.
Proof. exact conforms_value_sized. Qed.

(* ---------------------------------------------------------------------------------------- *)
(* Typed carriers whose elements are cells (Vec<Option<T>>, Vec<MaybeUnset<T>>)                *)
(* ---------------------------------------------------------------------------------------- *)

(* bound to a list / set: nulls (and not-set, read back as null) at every element position
   round-trip through the Vec<Option<_>> decoder and are the specified encoding *)
Theorem C01_roundtrip_sequence_cells : forall e cs b,
  wf_type e = true -> Forall (cell_ok e) cs -> ser_sequence_cells e cs = Ok b ->
  exists body, b = framed body /\ blen body <= i32_max /\
               deser_listlike_cells e body = Ok (map (pad_cell e) cs).
Proof. exact roundtrip_sequence_cells. Qed.

Theorem C01_conforms_sequence_cells : forall e cs b,
  wf_type e = true -> Forall (cell_ok e) cs -> ser_sequence_cells e cs = Ok b ->
  enc_seq_cells_spec e cs = Some b.
Proof. exact conforms_sequence_cells. Qed.

(* without null / unset elements the typed carriers write exactly what the dynamic value writes,
   so C01_roundtrip / C01_cell_conforms apply to them; with such an element bound to a vector:
   C01_vector_cells_refuted *)
Theorem C01_vector_cells_vals : forall e d vs,
  ser_vector_cells e d (map CVal vs) = ser_cell (TVector e d) (CVal (CVector vs)).
Proof. exact ser_vector_cells_vals. Qed.

Theorem C01_sequence_cells_vals : forall e vs,
  ser_sequence_cells e (map CVal vs) = ser_cell (TList e) (CVal (CList vs)).
Proof. exact ser_sequence_cells_vals. Qed.

(* ---------------------------------------------------------------------------------------- *)
(* "The same holds through every typed Rust representation": Model/CqlTyped.v                  *)
(* ---------------------------------------------------------------------------------------- *)

(* every modelled carrier (ints, floats, bool, strings, blobs, inet, uuid/timeuuid, date/time/
   timestamp/duration/counter, varint/decimal, num-bigint, CqlValue, Option/MaybeUnset/MaybeEmpty,
   &/Box/Arc, Vec/[T], sets, maps, tuples of any arity, arbitrarily nested) WRITES, into a sized or
   size-less writer, exactly what the dynamic value it embeds into writes - errors included *)
Theorem C01_typed_write : forall k ws t v c,
  embed k t v = Some c -> typed_write k ws t v = ser_cell_ws ws t c.
Proof. exact (fun k ws t v c => typed_write_embed k ws t v c). Qed.

(* ... and its own decoder READS, from any bytes the dynamic decoder accepts, the carrier value of
   what the dynamic decoder returns *)
Theorem C01_typed_read : forall k t b x,
  typed_check k t = true -> deser_value t b = Ok x -> typed_read k t (Some b) = unembed k t x.
Proof. exact (fun k t b x => typed_read_unembed k t b x). Qed.

(* hence the typed round trip is the dynamic one *)
Theorem C01_typed_roundtrip : forall k t v x b,
  embed k t v = Some (CVal x) -> typed_check k t = true ->
  wf t x = true -> known_class t x = false ->
  typed_write k true t v = Ok b ->
  exists body, b = framed body /\ typed_read k t (Some body) = unembed k t (pad t x).
Proof. exact typed_roundtrip. Qed.

(* ... and for every PLAIN carrier (no CqlValue inside - it pads - and no Option around something
   that can itself be null - Some(None) is written as null) the decoder returns the very carrier
   value that was written: "decoding those bytes yields an equal value" through the typed carriers *)
Theorem C01_typed_roundtrip_exact : forall k t v x b,
  plain k = true -> embed k t v = Some (CVal x) -> typed_check k t = true ->
  wf t x = true -> known_class t x = false ->
  typed_write k true t v = Ok b ->
  exists body, b = framed body /\ typed_read k t (Some body) = Ok v.
Proof. exact typed_roundtrip_exact. Qed.

(* ... and with nulls ANYWHERE inside: no embedding of the whole value into [cval] is assumed (a
   [Vec<Option<i32>>] holding a [None], a [BTreeMap<String, Option<BigInt>>] with a null value have
   none: [CList]/[CSet]/[CMap] have no null elements).  [tgood k t v] (Model/CqlTyped.v section 6)
   says by recursion over the CARRIER that [v] is a value of the type: leaves embed as values of the
   type ([wf]), [Option]/[MaybeEmpty] add null/empty at every level, collections and tuples are
   element-wise; a [Vec] bound to a vector keeps the premises of the theorem above (F2).  What the
   typed writer emits for such a value is one [bytes] cell that is consumed exactly, whatever
   follows, and from whose content the typed reader returns [v] itself. *)
Theorem C01_typed_roundtrip_cells : forall k t v b r,
  plain k = true -> typed_check k t = true -> tgood k t v = true ->
  typed_write k true t v = Ok b ->
  exists ob, read_cql_bytes (b ++ r) = Some (ob, r) /\ typed_read k t ob = Ok v /\
             (nullable k = false -> ob <> None).
Proof. intros k t v b r Hp Hc Hg Hw. exact (typed_roundtrip_cells k t v b Hp Hc Hg Hw r). Qed.

(* [tgood] is no narrower than the premises of C01_typed_roundtrip_exact: every carrier value that
   embeds as a value of the type outside the known classes satisfies it, so the theorem above
   covers everything the previous one does (and the values with nulls inside in addition) *)
Theorem C01_typed_cells_subsumes : forall k t v x,
  plain k = true -> typed_check k t = true -> embed k t v = Some (CVal x) ->
  wf t x = true -> known_class t x = false -> tgood k t v = true.
Proof. intros k t v x Hp Hc He Hwf Hk. exact (embed_tgood k t v (CVal x) Hp Hc He (conj Hwf Hk)). Qed.

(* the num-bigint family: from_signed_bytes_be (to_signed_bytes_be z) = z for every integer *)
Theorem C01_bigint_normal_form : forall z, big_of_bytes (min_twos z) = z.
Proof. exact big_of_min_twos. Qed.

(* ---------------------------------------------------------------------------------------- *)
(* F2 fix proposal: the repaired vector writer [ser_value_fixed] (Model/Cql.v section 4b)      *)
(* ---------------------------------------------------------------------------------------- *)

(* the repair only removes outputs ... *)
Theorem C01_fixed_refines : forall t ws v b,
  ser_value_fixed ws t v = Ok b -> ser_value ws t v = Ok b.
Proof. exact fixed_refines. Qed.

(* ... exactly those with a vector hole: what it accepts has none, and it refuses no value of the
   type without one *)
Theorem C01_fixed_no_hole : forall t ws v b,
  wf_type t = true -> wf_val t v = true -> ser_value_fixed ws t v = Ok b -> vector_hole t v = false.
Proof. exact fixed_no_hole. Qed.

Theorem C01_fixed_complete : forall t c b,
  wf_cell t c = true -> match c with CVal v => vector_hole t v = false | _ => True end ->
  ser_cell t c = Ok b -> ser_cell_fixed t c = Ok b.
Proof. exact fixed_complete_cell. Qed.

(* hence, with the repaired writer, the round trip holds without the F2 class (F14, the empty
   tuple, is a different finding) and conformance holds for EVERY value of the type *)
Theorem C01_roundtrip_fixed : forall t c b r,
  wf_cell t c = true ->
  match c with CVal v => empty_tuple_inside t v = false | _ => True end ->
  ser_cell_fixed t c = Ok b -> deser_cell t (b ++ r) = Ok (pad_cell t c, r).
Proof. exact roundtrip_cell_fixed. Qed.

Theorem C01_conforms_fixed : forall t c b,
  wf_cell t c = true -> ser_cell_fixed t c = Ok b -> EncCell t c b.
Proof. exact conforms_cell_fixed. Qed.

(* ---------------------------------------------------------------------------------------- *)
(* What [wf] excludes, explicitly                                                             *)
(* ---------------------------------------------------------------------------------------- *)

(* for native types, "value of the type" = what the Rust type of the constructor can hold, minus
   three domain exclusions (non-ASCII for ascii, a time of day outside the day, a zero-byte varint) *)
Theorem C01_wf_native_char : forall n v,
  wf_native n v = rust_native n v && negb (domain_excl n v).
Proof. exact wf_native_char. Qed.

(* EVERY excluded value that the writer accepts is not read back by the driver's own reader: these
   inputs are outside "every value of that type", the writer just does not validate them *)
Theorem C01_outside_ascii : forall v ws b,
  rust_native NAscii v = true -> domain_excl NAscii v = true ->
  ser_value ws (TNative NAscii) v = Ok b -> deser_value (TNative NAscii) b = Err DE_ExpectedAscii.
Proof. exact outside_ascii_all. Qed.

Theorem C01_outside_time : forall v ws b,
  rust_native NTime v = true -> domain_excl NTime v = true ->
  ser_value ws (TNative NTime) v = Ok b -> deser_value (TNative NTime) b = Err DE_ValueOverflow.
Proof. exact outside_time_all. Qed.

Theorem C01_outside_varint : forall v ws b,
  rust_native NVarint v = true -> domain_excl NVarint v = true ->
  ser_value ws (TNative NVarint) v = Ok b -> b = [] /\ deser_value (TNative NVarint) b = Ok CEmpty.
Proof. exact outside_varint_all. Qed.

(* non-vacuity: each exclusion has an accepted instance *)
Example C01_ex_outside :
  (rust_native NAscii (CText [195; 169]) = true /\ domain_excl NAscii (CText [195; 169]) = true /\
   ser_value true (TNative NAscii) (CText [195; 169]) = Ok [195; 169]) /\
  (rust_native NTime (CTime (-1)) = true /\ domain_excl NTime (CTime (-1)) = true /\
   ser_value true (TNative NTime) (CTime (-1)) = Ok [255; 255; 255; 255; 255; 255; 255; 255]) /\
  (rust_native NTime (CTime 86400000000000) = true /\ domain_excl NTime (CTime 86400000000000) = true) /\
  (rust_native NVarint (CVarint []) = true /\ domain_excl NVarint (CVarint []) = true /\
   ser_value true (TNative NVarint) (CVarint []) = Ok []) /\
  domain_excl NTime (CTime 0) = false /\ domain_excl NVarint (CVarint [0]) = false /\
  domain_excl NAscii (CText [97]) = false /\ domain_excl NInt (CInt 1) = false.
Proof. repeat split; vm_compute; reflexivity. Qed.

(* ---------------------------------------------------------------------------------------- *)
(* Totality: [wf] is what serialisation accepts (up to the i32 size limits)                   *)
(* ---------------------------------------------------------------------------------------- *)

Theorem C01_ser_total : forall t c, wf_cell t c = true -> size_only (ser_cell t c).
Proof. exact ser_total_cell. Qed.

Theorem C01_ser_total_value : forall t ws v,
  wf_type t = true -> wf_val t v = true -> size_only (ser_value ws t v).
Proof. exact (fun t ws v => ser_total_value t ws v). Qed.

(* the decoder's element loops run on fuel (1 + buffer length); it never runs out, for any type
   and any bytes, so DE_OutOfFuel is not an observable outcome of the model *)
Theorem C01_deser_fuel : forall t b,
  deser_value t b <> Err DE_OutOfFuel /\ deser_cell t b <> Err DE_OutOfFuel.
Proof. exact (fun t b => conj (deser_value_no_oof t b) (deser_cell_no_oof t b)). Qed.

(* ---------------------------------------------------------------------------------------- *)
(* vint / zig-zag                                                                            *)
(* ---------------------------------------------------------------------------------------- *)

Theorem C01_vint_roundtrip : forall n r, n < 2 ^ 64 -> uvint_decode (uvint_encode n ++ r) = Some (n, r).
Proof. exact uvint_roundtrip. Qed.

Theorem C01_vint_signed_roundtrip : forall z r, (- 2 ^ 63 <= z < 2 ^ 63)%Z ->
  vint_decode (vint_encode z ++ r) = Some (z, r).
Proof. exact vint_roundtrip. Qed.

(* the byte count `(639 - 9 * leading_zeros) >> 6` (at least 1) is the magnitude-threshold table *)
Theorem C01_vint_len : forall n, n < 2 ^ 64 -> N.max 1 (uvint_nbytes n) = spec_uvint_len n.
Proof. exact uvint_nbytes_spec. Qed.

(* the encoder with its sign-extended i32 mask is the specified encoding *)
Theorem C01_vint_conforms : forall n, n < 2 ^ 64 -> uvint_encode n = spec_uvint n.
Proof. exact uvint_encode_spec. Qed.

Theorem C01_zigzag : forall z, (- 2 ^ 63 <= z < 2 ^ 63)%Z ->
  zigzag_encode z = spec_zigzag z /\ zigzag_encode z < 2 ^ 64 /\ zigzag_decode (zigzag_encode z) = z.
Proof. exact zigzag_all. Qed.

(* ---------------------------------------------------------------------------------------- *)
(* Non-vacuity: concrete non-trivial states meeting the hypotheses                           *)
(* ---------------------------------------------------------------------------------------- *)

Definition ex_text (s : list N) := CText s.

(* map<int, frozen<tuple<text, list<int>>>> with a null inside the tuple *)
Example C01_ex_map :
  let t := TMap (TNative NInt) (TTuple [TNative NText; TList (TNative NInt)]) in
  let c := CVal (CMap [(CInt 1, CTuple [None; Some (CList [CInt 2; CInt (-3)])]);
                       (CInt (-2), CTuple [Some (CText [97; 98])])]) in
  wf_cell t c = true /\ known_class_cell t c = false /\
  exists b, ser_cell t c = Ok b /\ List.length b = 66%nat /\
            deser_cell t b = Ok (CVal (CMap [(CInt 1, CTuple [None; Some (CList [CInt 2; CInt (-3)])]);
                                             (CInt (-2), CTuple [Some (CText [97; 98]); None])]), []).
Proof.
  cbv zeta. split; [reflexivity|]. split; [reflexivity|].
  eexists. split; [vm_compute; reflexivity|]. split; reflexivity.
Qed.

(* a UDT value given in another field order and with a field missing *)
Example C01_ex_udt :
  let t := TUdt [107] [117] [([97], TNative NInt); ([98], TNative NText); ([99], TNative NBoolean)] in
  let c := CVal (CUdt [107] [117] [([99], Some (CBoolean true)); ([97], Some (CInt 5))]) in
  wf_cell t c = true /\ known_class_cell t c = false /\
  ser_cell t c = Ok [0;0;0;17; 0;0;0;4; 0;0;0;5; 255;255;255;255; 0;0;0;1; 1] /\
  pad_cell t c = CVal (CUdt [107] [117] [([97], Some (CInt 5)); ([98], None); ([99], Some (CBoolean true))]) /\
  EncCell t c [0;0;0;17; 0;0;0;4; 0;0;0;5; 255;255;255;255; 0;0;0;1; 1].
Proof. cbv zeta. repeat split; vm_compute; reflexivity. Qed.

(* a 9-byte vint, and a duration whose three vints take 1, 5 and 9 bytes *)
Example C01_ex_vint :
  uvint_encode (2 ^ 63) = [255; 128; 0; 0; 0; 0; 0; 0; 0] /\
  uvint_decode [255; 128; 0; 0; 0; 0; 0; 0; 0; 7] = Some (2 ^ 63, [7]) /\
  ser_value true (TNative NDuration) (CDuration 1 (-2147483648) (2 ^ 63 - 1))%Z
  = Ok [2; 240; 255; 255; 255; 255; 255; 255; 255; 255; 255; 255; 255; 255; 254].
Proof. repeat split; vm_compute; reflexivity. Qed.

(* a vector of text (vint-prefixed elements, the last one empty: F13, repaired) and a vector of
   fixed-width elements nested in a list *)
Example C01_ex_vector :
  let t := TVector (TNative NText) 2 in
  let c := CVal (CVector [CText [97]; CText []]) in
  wf_cell t c = true /\ known_class_cell t c = false /\
  ser_cell t c = Ok [0; 0; 0; 3; 1; 97; 0] /\ deser_cell t [0; 0; 0; 3; 1; 97; 0] = Ok (c, []) /\
  ser_cell (TList (TVector (TNative NFloat) 2)) (CVal (CList [CVector [CFloat 1; CFloat 2139095041]]))
  = Ok [0;0;0;16; 0;0;0;1; 0;0;0;8; 0;0;0;1; 127;128;0;1].
Proof. cbv zeta. repeat split; vm_compute; reflexivity. Qed.

(* values of a type are not refused: a non-ASCII text for an ascii column is not a value of it *)
Example C01_ex_wf :
  wf (TNative NAscii) (CText [195; 169]) = false /\
  ser_value true (TNative NAscii) (CText [195; 169]) = Ok [195; 169] /\
  deser_value (TNative NAscii) [195; 169] = Err DE_ExpectedAscii /\
  wf (TNative NTime) (CTime 86400000000000) = false /\
  wf (TList (TNative NInt)) (CSet [CInt 1]) = true /\
  pad (TList (TNative NInt)) (CSet [CInt 1]) = CList [CInt 1].
Proof. repeat split; vm_compute; reflexivity. Qed.

(* anchors for the definitions the driver relies on, including REJECTING instances *)
Example C01_ex_known_class :
  (* the two classes, at the top and nested *)
  known_class (TVector (TNative NInt) 2) (CVector [CInt 7; CEmpty]) = true /\
  known_class (TList (TVector (TNative NInt) 2)) (CList [CVector [CInt 1; CEmpty]]) = true /\
  known_class (TTuple [TNative NInt]) (CTuple []) = true /\
  known_class (TMap (TNative NInt) (TTuple [TNative NInt])) (CMap [(CInt 1, CTuple [])]) = true /\
  known_class_of (TTuple [TNative NInt]) (CTuple []) = Some KB_empty_tuple /\
  known_class_of (TVector (TNative NInt) 2) (CVector [CInt 7; CEmpty]) = Some KA_vector_null_element /\
  (* ordinary values are in no class: Empty in a vint-prefixed vector, an empty string as last
     element, a short (non-empty) tuple, a null tuple element, an empty list, a vector of tuples *)
  known_class (TVector (TNative NVarint) 2) (CVector [CVarint [1]; CEmpty]) = false /\
  known_class (TVector (TNative NText) 2) (CVector [CText [97]; CText []]) = false /\
  known_class (TTuple [TNative NInt; TNative NText]) (CTuple [Some (CInt 1)]) = false /\
  known_class (TTuple [TNative NInt; TNative NText]) (CTuple [None]) = false /\
  known_class (TList (TNative NInt)) (CList []) = false /\
  known_class (TVector (TNative NInt) 2) (CVector [CInt 7; CInt (-1)]) = false /\
  known_class (TNative NInt) (CInt 7) = false /\
  known_class_of (TNative NInt) CEmpty = None /\
  cells_hole [CVal (CInt 7); CNull] = true /\ cells_hole [CVal (CInt 7); CUnset] = true /\
  cells_hole [CVal (CInt 7); CVal CEmpty] = true /\ cells_hole [CVal (CInt 7); CVal (CInt 8)] = false.
Proof. repeat split; vm_compute; reflexivity. Qed.

Example C01_ex_predicates :
  (* conformance predicate: accepts the encoding, rejects a wrong byte, a wrong length, a missing
     frame, a null marker for a value *)
  conforms_ok (TNative NInt) (CVal (CInt 7)) [0;0;0;4; 0;0;0;7] = true /\
  conforms_ok (TNative NInt) (CVal (CInt 7)) [0;0;0;4; 0;0;0;8] = false /\
  conforms_ok (TNative NInt) (CVal (CInt 7)) [0;0;0;3; 0;0;7] = false /\
  conforms_ok (TNative NInt) (CVal (CInt 7)) [0;0;0;7] = false /\
  conforms_ok (TNative NInt) (CVal (CInt 7)) [255;255;255;255] = false /\
  conforms_ok (TNative NInt) CNull [255;255;255;255] = true /\
  conforms_ok (TNative NInt) CUnset [255;255;255;254] = true /\
  conforms_ok (TNative NInt) CUnset [255;255;255;255] = false /\
  conforms_ok (TVector (TNative NInt) 2) (CVal (CVector [CInt 7; CEmpty])) [0;0;0;4; 0;0;0;7] = false /\
  (* pad: what must come back *)
  pad_cell (TTuple [TNative NInt; TNative NText]) (CVal (CTuple [Some (CInt 1)]))
    = CVal (CTuple [Some (CInt 1); None]) /\
  pad_cell (TNative NInt) CUnset = CNull /\
  pad (TNative NText) CEmpty = CText [] /\ pad (TNative NInt) CEmpty = CEmpty /\
  (* wf: rejecting instances *)
  wf (TNative NInt) (CInt (2 ^ 31)) = false /\ wf (TNative NInt) (CBigInt 1) = false /\
  wf (TNative NVarint) (CVarint []) = false /\ wf (TNative NInet) (CInet [1; 2; 3]) = false /\
  wf (TTuple [TNative NInt]) (CTuple [Some (CInt 1); Some (CInt 2)]) = false /\
  wf (TVector (TNative NInt) 2) (CVector [CInt 1]) = false /\
  wf (TVector (TNative NInt) 0) (CVector []) = false /\
  wf (TUdt [107] [117] [([97], TNative NInt)]) (CUdt [107] [117] [([98], Some (CInt 1))]) = false /\
  wf (TNative NCounter) CEmpty = false /\ wf (TNative NInt) CEmpty = true /\
  (* the element-cell specification *)
  enc_seq_cells_spec (TNative NInt) [CVal (CInt 7); CNull; CUnset]
    = Some [0;0;0;20; 0;0;0;3; 0;0;0;4; 0;0;0;7; 255;255;255;255; 255;255;255;254] /\
  ser_sequence_cells (TNative NInt) [CVal (CInt 7); CNull; CUnset]
    = Ok [0;0;0;20; 0;0;0;3; 0;0;0;4; 0;0;0;7; 255;255;255;255; 255;255;255;254] /\
  deser_listlike_cells (TNative NInt) [0;0;0;3; 0;0;0;4; 0;0;0;7; 255;255;255;255; 255;255;255;254]
    = Ok [CVal (CInt 7); CNull; CNull] /\
  (* inet: 4 and 16 bytes are different values (an IPv4-mapped IPv6 address stays 16 bytes) *)
  deser_value (TNative NInet) [0;0;0;0; 0;0;0;0; 0;0;255;255; 1;2;3;4]
    = Ok (CInet [0;0;0;0; 0;0;0;0; 0;0;255;255; 1;2;3;4]).
Proof. repeat split; vm_compute; reflexivity. Qed.

Example C01_ex_fixed :
  (* the three F2 witnesses are refused by the repaired writer, ordinary vectors are unchanged *)
  ser_cell_fixed (TVector (TNative NInt) 2) (CVal (CVector [CInt 7; CEmpty])) = Err SE_VectorLen /\
  ser_vector_cells_fixed (TNative NInt) 2 [CVal (CInt 7); CNull] = Err SE_VectorLen /\
  ser_vector_cells_fixed (TNative NBigInt) 2 [CVal (CBigInt 7); CUnset] = Err SE_VectorLen /\
  ser_cell_fixed (TVector (TNative NInt) 2) (CVal (CVector [CInt 7; CInt (-1)]))
    = Ok [0;0;0;8; 0;0;0;7; 255;255;255;255] /\
  ser_vector_cells_fixed (TNative NInt) 2 [CVal (CInt 7); CVal (CInt (-1))]
    = Ok [0;0;0;8; 0;0;0;7; 255;255;255;255] /\
  ser_cell_fixed (TVector (TNative NText) 2) (CVal (CVector [CText [97]; CEmpty])) = Ok [0;0;0;3; 1;97; 0] /\
  ser_cell_fixed (TList (TVector (TNative NFloat) 1)) (CVal (CList [CVector [CEmpty]])) = Err SE_VectorLen.
Proof. repeat split; vm_compute; reflexivity. Qed.

Example C01_ex_typed :
  (* Vec<(i32, Option<String>)> bound to list<tuple<int, text>> *)
  let k := KVec (KTuple [KLeaf LI32; KOption (KLeaf LString)]) in
  let t := TList (TTuple [TNative NInt; TNative NText]) in
  let v := TSeq [TTup [TInt 7; TNone]; TTup [TInt (-1); TSome (TBytes [97])]] in
  embed k t v = Some (CVal (CList [CTuple [Some (CInt 7); None]; CTuple [Some (CInt (-1)); Some (CText [97])]])) /\
  typed_check k t = true /\
  (* the premises of C01_typed_roundtrip hold for this value *)
  wf t (CList [CTuple [Some (CInt 7); None]; CTuple [Some (CInt (-1)); Some (CText [97])]]) = true /\
  known_class t (CList [CTuple [Some (CInt 7); None]; CTuple [Some (CInt (-1)); Some (CText [97])]]) = false /\
  typed_write k true t v
    = Ok [0;0;0;37; 0;0;0;2; 0;0;0;12; 0;0;0;4; 0;0;0;7; 255;255;255;255;
          0;0;0;13; 0;0;0;4; 255;255;255;255; 0;0;0;1; 97] /\
  typed_read k t (Some [0;0;0;2; 0;0;0;12; 0;0;0;4; 0;0;0;7; 255;255;255;255;
                        0;0;0;13; 0;0;0;4; 255;255;255;255; 0;0;0;1; 97]) = Ok v /\
  (* num-bigint normalises: 128 is 0x0080, -129 is 0xff7f, 0 is 0x00; zero bytes read as 0 *)
  typed_write (KLeaf LBigInt) true (TNative NVarint) (TBig 128) = Ok [0;0;0;2; 0;128] /\
  typed_write (KLeaf LBigInt) true (TNative NVarint) (TBig (-129)) = Ok [0;0;0;2; 255;127] /\
  typed_write (KLeaf LBigInt) false (TNative NVarint) (TBig 0) = Ok [0] /\
  typed_read (KLeaf LBigInt) (TNative NVarint) (Some [0; 0; 128]) = Ok (TBig 128) /\
  typed_read (KLeaf LBigInt) (TNative NVarint) (Some []) = Ok (TBig 0) /\
  (* a null collection decodes to an empty Vec / map; a null int is refused; i32 at bigint is a type error *)
  typed_read (KVec (KLeaf LI32)) (TList (TNative NInt)) None = Ok (TSeq []) /\
  typed_read (KMapC (KLeaf LI32) (KLeaf LString)) (TMap (TNative NInt) (TNative NText)) None = Ok (TMapV []) /\
  typed_read (KLeaf LI32) (TNative NInt) None = Err DE_ExpectedNonNull /\
  typed_check (KLeaf LI32) (TNative NBigInt) = false /\
  typed_write (KLeaf LI32) true (TNative NBigInt) (TInt 1) = Err SE_MismatchedType /\
  (* the typed decoders have no empty-cell rule: i32 refuses a zero-length cell, MaybeEmpty<i32> reads Empty *)
  typed_read (KLeaf LI32) (TNative NInt) (Some []) = Err DE_ByteLengthMismatch /\
  typed_read (KMaybeEmpty (KLeaf LI32)) (TNative NInt) (Some []) = Ok TEmptyV /\
  (* String at ascii: the reader checks ASCII, the writer does not *)
  typed_write (KLeaf LString) true (TNative NAscii) (TBytes [195; 169]) = Ok [0;0;0;2; 195; 169] /\
  typed_read (KLeaf LString) (TNative NAscii) (Some [195; 169]) = Err DE_ExpectedAscii.
Proof. cbv zeta. repeat split; vm_compute; reflexivity. Qed.

Example C01_ex_typed_cells :
  (* Vec<Option<i32>> with a None inside, bound to list<int>: no [cval] has a null list element *)
  let k1 := KVec (KOption (KLeaf LI32)) in
  let t1 := TList (TNative NInt) in
  let v1 := TSeq [TSome (TInt 7); TNone] in
  plain k1 = true /\ typed_check k1 t1 = true /\ embed k1 t1 v1 = None /\ tgood k1 t1 v1 = true /\
  typed_write k1 true t1 v1 = Ok [0;0;0;16; 0;0;0;2; 0;0;0;4; 0;0;0;7; 255;255;255;255] /\
  typed_read k1 t1 (Some [0;0;0;2; 0;0;0;4; 0;0;0;7; 255;255;255;255]) = Ok v1 /\
  (* BTreeMap<String, Option<BigInt>> with a null value, bound to map<text, varint> *)
  let k2 := KMapC (KLeaf LString) (KOption (KLeaf LBigInt)) in
  let t2 := TMap (TNative NText) (TNative NVarint) in
  let v2 := TMapV [(TBytes [97], TNone); (TBytes [98], TSome (TBig 128))] in
  plain k2 = true /\ typed_check k2 t2 = true /\ embed k2 t2 v2 = None /\ tgood k2 t2 v2 = true /\
  typed_write k2 true t2 v2
    = Ok [0;0;0;24; 0;0;0;2; 0;0;0;1; 97; 255;255;255;255; 0;0;0;1; 98; 0;0;0;2; 0;128] /\
  typed_read k2 t2 (Some [0;0;0;2; 0;0;0;1; 97; 255;255;255;255; 0;0;0;1; 98; 0;0;0;2; 0;128]) = Ok v2 /\
  (* what [tgood] refuses: a non-ASCII String at ascii, a Vec with a null element bound to a vector (F2) *)
  tgood (KVec (KLeaf LString)) (TList (TNative NAscii)) (TSeq [TBytes [195; 169]]) = false /\
  tgood (KVec (KOption (KLeaf LI32))) (TVector (TNative NInt) 2) (TSeq [TSome (TInt 7); TNone]) = false /\
  tgood (KVec (KLeaf LI32)) (TVector (TNative NInt) 2) (TSeq [TInt 7; TInt (-1)]) = true.
Proof. cbv zeta. repeat split; vm_compute; reflexivity. Qed.

Example C01_ex_enc_relation :
  EncR (TList (TTuple [TNative NInt; TNative NText])) (CList [CTuple [Some (CInt 7)]])
       [0;0;0;1; 0;0;0;8; 0;0;0;4; 0;0;0;7] /\
  ~ EncR (TNative NInt) (CInt 7) [0;0;0;8] /\
  ~ EncR (TVector (TNative NInt) 2) (CVector [CInt 7; CEmpty]) [0;0;0;7].
Proof.
  split; [apply C01_enc_relation; vm_compute; reflexivity|].
  split; intros H; apply C01_enc_relation in H; vm_compute in H; discriminate H.
Qed.

Example C01_ex_plain :
  (* plain carriers, and the two kinds that are not: CqlValue pads, Option<Option<T>> forgets Some(None) *)
  plain (KVec (KTuple [KLeaf LI32; KOption (KLeaf LString)])) = true /\
  plain (KMapC (KLeaf LString) (KOption (KLeaf LBigInt))) = true /\
  plain KDyn = false /\ plain (KOption (KOption (KLeaf LI32))) = false /\ plain (KMaybeUnset (KLeaf LI32)) = false /\
  typed_write (KOption (KOption (KLeaf LI32))) true (TNative NInt) (TSome TNone) = Ok [255; 255; 255; 255] /\
  typed_read (KOption (KOption (KLeaf LI32))) (TNative NInt) None = Ok TNone /\
  typed_write KDyn true (TTuple [TNative NInt; TNative NInt]) (TDynV (CTuple [Some (CInt 1)])) = Ok [0;0;0;8; 0;0;0;4; 0;0;0;1] /\
  typed_read KDyn (TTuple [TNative NInt; TNative NInt]) (Some [0;0;0;4; 0;0;0;1]) = Ok (TDynV (CTuple [Some (CInt 1); None])) /\
  (* bigint boundaries *)
  min_twos 127 = [127] /\ min_twos 128 = [0; 128] /\ min_twos (-128) = [128] /\ min_twos (-129) = [255; 127] /\
  min_twos 0 = [0] /\ min_twos (-1) = [255] /\ min_twos (2 ^ 63) = [0; 128; 0; 0; 0; 0; 0; 0; 0].
Proof. repeat split; vm_compute; reflexivity. Qed.

(* ---------------------------------------------------------------------------------------- *)
(* Deepening round 4: the boolean predicates the driver decides verdicts with               *)
(* ---------------------------------------------------------------------------------------- *)

(* conforms_ok (the predicate the driver evaluates on the IMPLEMENTATION's bytes when they differ
   from the model's) decides EncCell exactly; and on the model's own output it holds whenever
   C01_cell_conforms applies, so an `ok` (bytes equal to the model's) on a value of the type
   without a vector hole is a conforming output *)
Theorem C01_conforms_ok_iff : forall t c b, conforms_ok t c b = true <-> EncCell t c b.
Proof. exact conforms_ok_iff. Qed.

Theorem C01_conforms_ok_model : forall t c b,
  wf_cell t c = true ->
  match c with CVal v => vector_hole t v = false | _ => True end ->
  ser_cell t c = Ok b -> conforms_ok t c b = true.
Proof. exact conforms_ok_model. Qed.

(* the driver's premise test for kind Q (`wf_type e && for_all (cell_okb e) cells`) is exactly the
   premise of the _sequence_cells theorems, so both conclusions hold whenever the test passes *)
Theorem C01_cells_okb_iff : forall e cs, forallb (cell_okb e) cs = true <-> Forall (cell_ok e) cs.
Proof. exact cells_okb_iff. Qed.

Theorem C01_sequence_cells_decided : forall e cs b,
  wf_type e = true -> forallb (cell_okb e) cs = true -> ser_sequence_cells e cs = Ok b ->
  enc_seq_cells_spec e cs = Some b /\
  exists body, b = framed body /\ blen body <= i32_max /\
               deser_listlike_cells e body = Ok (map (pad_cell e) cs).
Proof. exact sequence_cells_decided. Qed.

(* the class the driver tags with: None exactly outside known_class (the premise of C01_roundtrip),
   A exactly on a vector hole (the premise of C01_conforms), B exactly on an empty tuple without one *)
Theorem C01_known_class_of_char : forall t v,
  (known_class_of t v = None <-> known_class t v = false) /\
  (known_class_of t v = Some KA_vector_null_element <-> vector_hole t v = true) /\
  (known_class_of t v = Some KB_empty_tuple <-> vector_hole t v = false /\ empty_tuple_inside t v = true).
Proof. exact known_class_of_char. Qed.

(* kind V: when cells_hole is false the cells are all values, none of them Empty, and the typed
   carrier writes exactly what the dynamic vector value writes (the driver then judges the case as
   that value, full property); cells_hole = true is exactly "some element is null / not set / Empty" *)
Theorem C01_cells_hole_char : forall cs,
  cells_hole cs = false <-> exists vs, cs = map CVal vs /\ ~ In CEmpty vs.
Proof. exact cells_hole_char. Qed.

Theorem C01_vector_cells_no_hole : forall e d cs,
  cells_hole cs = false ->
  exists vs, cs = map CVal vs /\ ~ In CEmpty vs /\
             ser_vector_cells e d cs = ser_cell (TVector e d) (CVal (CVector vs)).
Proof. exact vector_cells_no_hole. Qed.

(* the signed vint the driver compares kind N with (spec_vint) is what the model's encoder writes *)
Theorem C01_vint_signed_conforms : forall z, (- 2 ^ 63 <= z < 2 ^ 63)%Z -> vint_encode z = spec_vint z.
Proof. exact vint_encode_spec. Qed.

(* non-vacuity of the round-4 implications: a map with a null-padded tuple inside (conforms_ok on
   the model's output), a Vec<Option<i32>> with a null and a not-set element bound to a list, a
   hole-free Vec bound to a vector *)
Example C01_ex_round4 :
  let t := TMap (TNative NInt) (TTuple [TNative NText; TNative NInt]) in
  let c := CVal (CMap [(CInt 1, CTuple [Some (CText [97])])]) in
  wf_cell t c = true /\ vector_hole t (CMap [(CInt 1, CTuple [Some (CText [97])])]) = false /\
  (exists b, ser_cell t c = Ok b /\ conforms_ok t c b = true) /\
  conforms_ok t c [0;0;0;4; 0;0;0;0] = false /\
  wf_type (TNative NInt) = true /\
  forallb (cell_okb (TNative NInt)) [CVal (CInt 7); CNull; CUnset] = true /\
  ser_sequence_cells (TNative NInt) [CVal (CInt 7); CNull; CUnset]
    = Ok [0;0;0;20; 0;0;0;3; 0;0;0;4; 0;0;0;7; 255;255;255;255; 255;255;255;254] /\
  forallb (cell_okb (TNative NAscii)) [CVal (CAscii [200])] = false /\
  cells_hole [CVal (CInt 7); CVal (CInt 8)] = false /\
  ser_vector_cells (TNative NInt) 2 [CVal (CInt 7); CVal (CInt 8)] = Ok [0;0;0;8; 0;0;0;7; 0;0;0;8] /\
  vint_encode (-300) = spec_vint (-300) /\ spec_vint (-300) = [130; 87].
Proof. cbv zeta. repeat split; try (eexists; split); vm_compute; reflexivity. Qed.

(* of_cell, with which the driver rebuilds the model's carrier value from the cell printed on a T / E
   case line, inverts embed: for a plain carrier and a cell in padded form (pad_cell t c = c: what a
   round trip through the carrier returns) it yields the very carrier value that embeds into it *)
Theorem C01_of_cell_embed : forall k, plain k = true -> forall t v c,
  typed_check k t = true -> embed k t v = Some c -> pad_cell t c = c -> of_cell k t c = Some v.
Proof. exact of_cell_embed. Qed.

Example C01_ex_of_cell :
  let k := KOption (KTuple [KLeaf LI32; KOption (KLeaf LString)]) in
  let t := TTuple [TNative NInt; TNative NText] in
  let v := TSome (TTup [TInt 1; TNone]) in
  let c := CVal (CTuple [Some (CInt 1); None]) in
  plain k = true /\ typed_check k t = true /\ embed k t v = Some c /\ pad_cell t c = c /\ of_cell k t c = Some v /\
  embed k t TNone = Some CNull /\ of_cell k t CNull = Some TNone.
Proof. cbv zeta. repeat split; vm_compute; reflexivity. Qed.

Print Assumptions C01_roundtrip.
Print Assumptions C01_roundtrip_value.
Print Assumptions C01_roundtrip_value_sized.
Print Assumptions C01_known_class_split.
Print Assumptions C01_roundtrip_refuted_vector.
Print Assumptions C01_vector_cells_refuted.
Print Assumptions C01_roundtrip_refuted_tuple.
Print Assumptions C01_conforms.
Print Assumptions C01_conforms_refuted.
Print Assumptions C01_conforms_sized.
Print Assumptions C01_roundtrip_sequence_cells.
Print Assumptions C01_conforms_sequence_cells.
Print Assumptions C01_vector_cells_vals.
Print Assumptions C01_sequence_cells_vals.
Print Assumptions C01_typed_write.
Print Assumptions C01_typed_read.
Print Assumptions C01_typed_roundtrip.
Print Assumptions C01_typed_roundtrip_exact.
Print Assumptions C01_typed_roundtrip_cells.
Print Assumptions C01_typed_cells_subsumes.
Print Assumptions C01_bigint_normal_form.
Print Assumptions C01_fixed_refines.
Print Assumptions C01_fixed_no_hole.
Print Assumptions C01_fixed_complete.
Print Assumptions C01_roundtrip_fixed.
Print Assumptions C01_conforms_fixed.
Print Assumptions C01_wf_native_char.
Print Assumptions C01_outside_ascii.
Print Assumptions C01_outside_time.
Print Assumptions C01_outside_varint.
Print Assumptions C01_enc_relation.
Print Assumptions C01_cell_conforms.
Print Assumptions C01_cell_markers.
Print Assumptions C01_ser_total.
Print Assumptions C01_ser_total_value.
Print Assumptions C01_deser_fuel.
Print Assumptions C01_vint_roundtrip.
Print Assumptions C01_vint_signed_roundtrip.
Print Assumptions C01_vint_len.
Print Assumptions C01_vint_conforms.
Print Assumptions C01_zigzag.
Print Assumptions C01_conforms_ok_iff.
Print Assumptions C01_conforms_ok_model.
Print Assumptions C01_cells_okb_iff.
Print Assumptions C01_sequence_cells_decided.
Print Assumptions C01_known_class_of_char.
Print Assumptions C01_cells_hole_char.
Print Assumptions C01_vector_cells_no_hole.
Print Assumptions C01_vint_signed_conforms.
Print Assumptions C01_of_cell_embed.
