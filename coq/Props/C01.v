(* Property C01 — CQL value encoding conforms to the protocol and round-trips.
   Statements only.  Every theorem is closed by [exact] of a lemma from Proofs/Cql_proofs.v or
   Proofs/Vint_proofs.v (the *_refuted ones by computation on a witness); the statements are
   pinned again in /verif/pins/C01.v.

   Vocabulary (Model/Cql.v):  ser_cell / ser_value = the code's serialiser (serialize_cql_value +
   CellWriter), deser_cell / deser_value = the code's `DeserializeValue for CqlValue`,
   enc_spec / Enc / EncCell = the wire format transcribed from the protocol text, pad / pad_cell =
   what a round trip must return, wf / wf_cell = "a value of the type", size_only = "refused only
   because a length exceeds i32", vector_hole / empty_tuple_inside / known_class = the two known
   finding classes (F2 vector-null-element, F14 empty-tuple). *)
From SV Require Import Base.Prelude Base.Bytes Model.Vint Model.Cql Proofs.Vint_proofs Proofs.Cql_proofs.
Open Scope N_scope.

(* ---------------------------------------------------------------------------------------- *)
(* Round trip                                                                                *)
(* ---------------------------------------------------------------------------------------- *)

(* Full-strength statement, NOT true of the code as it is (see the two _refuted theorems):
     forall t c b r, wf_cell t c = true -> ser_cell t c = Ok b ->
                     deser_cell t (b ++ r) = Ok (pad_cell t c, r).
   Proved: the same statement outside the two known classes. *)
Theorem C01_roundtrip : forall t c b r,
  wf_cell t c = true -> known_class_cell t c = false -> ser_cell t c = Ok b ->
  deser_cell t (b ++ r) = Ok (pad_cell t c, r).
Proof. exact roundtrip_cell. Qed.

(* the same for a bare value through a writer with or without a size (vector elements) *)
Theorem C01_roundtrip_value : forall t ws v b,
  wf_type t = true -> wf_val t v = true -> known_class t v = false ->
  ser_value ws t v = Ok b -> blen b < two64 -> deser_value t b = Ok (pad t v).
Proof. exact (fun t ws v b => roundtrip_value t ws v b). Qed.

(* known_class is exactly the disjunction of the two finding classes *)
Theorem C01_known_class_split : forall t v,
  known_class t v = false <-> vector_hole t v = false /\ empty_tuple_inside t v = false.
Proof. exact known_class_split. Qed.

(* F2 on the dynamic path: vector<int,2> = [7, Empty] is accepted, written as 4 bytes, and the
   driver's own decoder refuses them *)
Theorem C01_roundtrip_refuted_vector : exists t c b,
  wf_cell t c = true /\ ser_cell t c = Ok b /\ deser_cell t b <> Ok (pad_cell t c, []).
Proof. exact roundtrip_refuted_vector. Qed.

(* F2 as found: Vec<Option<i32>> = [Some(7), None] bound to vector<int,2> is accepted, the null
   marker is written as element data and reads back as -1 *)
Theorem C01_vector_cells_refuted :
  ser_vector_cells (TNative NInt) 2 [CVal (CInt 7); CNull] = Ok [0; 0; 0; 8; 0; 0; 0; 7; 255; 255; 255; 255] /\
  deser_cell (TVector (TNative NInt) 2) [0; 0; 0; 8; 0; 0; 0; 7; 255; 255; 255; 255]
  = Ok (CVal (CVector [CInt 7; CInt (-1)]), []).
Proof. exact vector_cells_refuted. Qed.

(* F14: CqlValue::Tuple(vec![]) at tuple<int,text> is written as a zero-length cell and reads back
   as Empty, not as (null, null) *)
Theorem C01_roundtrip_refuted_tuple : exists t c b,
  wf_cell t c = true /\ ser_cell t c = Ok b /\ deser_cell t b <> Ok (pad_cell t c, []).
Proof. exact roundtrip_refuted_tuple. Qed.

(* ---------------------------------------------------------------------------------------- *)
(* Conformance                                                                               *)
(* ---------------------------------------------------------------------------------------- *)

(* Full-strength statement, not true of the code as it is (C01_conforms_refuted):
     forall t v b, wf t v = true -> ser_value true t v = Ok b -> Enc t v b.
   Proved: outside the class vector_hole (the empty tuple DOES conform). *)
Theorem C01_conforms : forall t ws v b,
  wf_type t = true -> wf_val t v = true -> vector_hole t v = false ->
  ser_value ws t v = Ok b -> blen b < two64 -> Enc t v b.
Proof. exact (fun t ws v b => conforms_value t ws v b). Qed.

Theorem C01_conforms_refuted : exists t v b,
  wf t v = true /\ ser_value true t v = Ok b /\ ~ Enc t v b.
Proof. exact conforms_refuted. Qed.

(* cells: null is [int] -1, not-set is [int] -2, a value is [int] n + n bytes of its encoding *)
Theorem C01_cell_conforms : forall t c b,
  wf_cell t c = true ->
  match c with CVal v => vector_hole t v = false | _ => True end ->
  ser_cell t c = Ok b -> EncCell t c b.
Proof. exact conforms_cell. Qed.

Theorem C01_cell_markers : forall t,
  ser_cell t CNull = Ok (spec_int (-1)) /\ ser_cell t CUnset = Ok (spec_int (-2)) /\
  (supports_empty t = true -> ser_cell t (CVal CEmpty) = Ok (spec_int 0)).
Proof. exact cell_markers. Qed.

(* ---------------------------------------------------------------------------------------- *)
(* Totality: [wf] is what serialisation accepts (up to the i32 size limits)                   *)
(* ---------------------------------------------------------------------------------------- *)

Theorem C01_ser_total : forall t c, wf_cell t c = true -> size_only (ser_cell t c).
Proof. exact ser_total_cell. Qed.

Theorem C01_ser_total_value : forall t ws v,
  wf_type t = true -> wf_val t v = true -> size_only (ser_value ws t v).
Proof. exact (fun t ws v => ser_total_value t ws v). Qed.

(* the decoder's element loops run on fuel (1 + buffer length); it never runs out, for any type
   and any bytes, so DE_OutOfFuel is not an observable outcome of the model *)
Theorem C01_deser_fuel : forall t b,
  deser_value t b <> Err DE_OutOfFuel /\ deser_cell t b <> Err DE_OutOfFuel.
Proof. exact (fun t b => conj (deser_value_no_oof t b) (deser_cell_no_oof t b)). Qed.

(* ---------------------------------------------------------------------------------------- *)
(* vint / zig-zag                                                                            *)
(* ---------------------------------------------------------------------------------------- *)

Theorem C01_vint_roundtrip : forall n r, n < 2 ^ 64 -> uvint_decode (uvint_encode n ++ r) = Some (n, r).
Proof. exact uvint_roundtrip. Qed.

Theorem C01_vint_signed_roundtrip : forall z r, (- 2 ^ 63 <= z < 2 ^ 63)%Z ->
  vint_decode (vint_encode z ++ r) = Some (z, r).
Proof. exact vint_roundtrip. Qed.

(* the byte count `(639 - 9 * leading_zeros) >> 6` (at least 1) is the magnitude-threshold table *)
Theorem C01_vint_len : forall n, n < 2 ^ 64 -> N.max 1 (uvint_nbytes n) = spec_uvint_len n.
Proof. exact uvint_nbytes_spec. Qed.

(* the encoder with its sign-extended i32 mask is the specified encoding *)
Theorem C01_vint_conforms : forall n, n < 2 ^ 64 -> uvint_encode n = spec_uvint n.
Proof. exact uvint_encode_spec. Qed.

Theorem C01_zigzag : forall z, (- 2 ^ 63 <= z < 2 ^ 63)%Z ->
  zigzag_encode z = spec_zigzag z /\ zigzag_encode z < 2 ^ 64 /\ zigzag_decode (zigzag_encode z) = z.
Proof. exact zigzag_all. Qed.

(* ---------------------------------------------------------------------------------------- *)
(* Non-vacuity: concrete non-trivial states meeting the hypotheses                           *)
(* ---------------------------------------------------------------------------------------- *)

Definition ex_text (s : list N) := CText s.

(* map<int, frozen<tuple<text, list<int>>>> with a null inside the tuple *)
Example C01_ex_map :
  let t := TMap (TNative NInt) (TTuple [TNative NText; TList (TNative NInt)]) in
  let c := CVal (CMap [(CInt 1, CTuple [None; Some (CList [CInt 2; CInt (-3)])]);
                       (CInt (-2), CTuple [Some (CText [97; 98])])]) in
  wf_cell t c = true /\ known_class_cell t c = false /\
  exists b, ser_cell t c = Ok b /\ List.length b = 66%nat /\
            deser_cell t b = Ok (CVal (CMap [(CInt 1, CTuple [None; Some (CList [CInt 2; CInt (-3)])]);
                                             (CInt (-2), CTuple [Some (CText [97; 98]); None])]), []).
Proof.
  cbv zeta. split; [reflexivity|]. split; [reflexivity|].
  eexists. split; [vm_compute; reflexivity|]. split; reflexivity.
Qed.

(* a UDT value given in another field order and with a field missing *)
Example C01_ex_udt :
  let t := TUdt [107] [117] [([97], TNative NInt); ([98], TNative NText); ([99], TNative NBoolean)] in
  let c := CVal (CUdt [107] [117] [([99], Some (CBoolean true)); ([97], Some (CInt 5))]) in
  wf_cell t c = true /\ known_class_cell t c = false /\
  ser_cell t c = Ok [0;0;0;17; 0;0;0;4; 0;0;0;5; 255;255;255;255; 0;0;0;1; 1] /\
  pad_cell t c = CVal (CUdt [107] [117] [([97], Some (CInt 5)); ([98], None); ([99], Some (CBoolean true))]) /\
  EncCell t c [0;0;0;17; 0;0;0;4; 0;0;0;5; 255;255;255;255; 0;0;0;1; 1].
Proof. cbv zeta. repeat split; vm_compute; reflexivity. Qed.

(* a 9-byte vint, and a duration whose three vints take 1, 5 and 9 bytes *)
Example C01_ex_vint :
  uvint_encode (2 ^ 63) = [255; 128; 0; 0; 0; 0; 0; 0; 0] /\
  uvint_decode [255; 128; 0; 0; 0; 0; 0; 0; 0; 7] = Some (2 ^ 63, [7]) /\
  ser_value true (TNative NDuration) (CDuration 1 (-2147483648) (2 ^ 63 - 1))%Z
  = Ok [2; 240; 255; 255; 255; 255; 255; 255; 255; 255; 255; 255; 255; 255; 254].
Proof. repeat split; vm_compute; reflexivity. Qed.

(* a vector of text (vint-prefixed elements, the last one empty: F13, repaired) and a vector of
   fixed-width elements nested in a list *)
Example C01_ex_vector :
  let t := TVector (TNative NText) 2 in
  let c := CVal (CVector [CText [97]; CText []]) in
  wf_cell t c = true /\ known_class_cell t c = false /\
  ser_cell t c = Ok [0; 0; 0; 3; 1; 97; 0] /\ deser_cell t [0; 0; 0; 3; 1; 97; 0] = Ok (c, []) /\
  ser_cell (TList (TVector (TNative NFloat) 2)) (CVal (CList [CVector [CFloat 1; CFloat 2139095041]]))
  = Ok [0;0;0;16; 0;0;0;1; 0;0;0;8; 0;0;0;1; 127;128;0;1].
Proof. cbv zeta. repeat split; vm_compute; reflexivity. Qed.

(* values of a type are not refused: a non-ASCII text for an ascii column is not a value of it *)
Example C01_ex_wf :
  wf (TNative NAscii) (CText [195; 169]) = false /\
  ser_value true (TNative NAscii) (CText [195; 169]) = Ok [195; 169] /\
  deser_value (TNative NAscii) [195; 169] = Err DE_ExpectedAscii /\
  wf (TNative NTime) (CTime 86400000000000) = false /\
  wf (TList (TNative NInt)) (CSet [CInt 1]) = true /\
  pad (TList (TNative NInt)) (CSet [CInt 1]) = CList [CInt 1].
Proof. repeat split; vm_compute; reflexivity. Qed.

Print Assumptions C01_roundtrip.
Print Assumptions C01_roundtrip_value.
Print Assumptions C01_known_class_split.
Print Assumptions C01_roundtrip_refuted_vector.
Print Assumptions C01_vector_cells_refuted.
Print Assumptions C01_roundtrip_refuted_tuple.
Print Assumptions C01_conforms.
Print Assumptions C01_conforms_refuted.
Print Assumptions C01_cell_conforms.
Print Assumptions C01_cell_markers.
Print Assumptions C01_ser_total.
Print Assumptions C01_ser_total_value.
Print Assumptions C01_deser_fuel.
Print Assumptions C01_vint_roundtrip.
Print Assumptions C01_vint_signed_roundtrip.
Print Assumptions C01_vint_len.
Print Assumptions C01_vint_conforms.
Print Assumptions C01_zigzag.
