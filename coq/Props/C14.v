(* Property C14 — statements only.  Every theorem is closed by [exact] of a lemma from
   Proofs/Reprepare_proofs.v (round 4: Proofs/C14_round4.v); the statements are pinned again in /verif/pins/C14.v.

   Reading guide.  [greach ST init st]: st is reachable in the generic interleaving system — any
   number of concurrent EXECUTE / BATCH calls on any connections (with or without the
   metadata-id extension), the server answering each request with an ARBITRARY response, in any
   order (labels GL_exec / GL_batch / GL_resp / GL_tick).  [g_calls st c] is call c with its
   ghost log: [k_sent] = requests sent, newest first, each EXECUTE paired with the snapshot of
   the statement's shared cell it was built from; [k_rcvd] = responses received, newest first.
   [srun D ST ns (sinit init nodes) ls = Some st]: st is reached by the history ls of the
   specification system — nodes are state machines over {prepared, evicted, schema-changed,
   id-changing} events answering EXECUTE / BATCH / PREPARE as the protocol documents say. *)
From SV Require Import Base.Prelude Base.Bytes Model.Reprepare Proofs.Reprepare_proofs Proofs.C14_round4.
Open Scope N_scope.

(* UNPREPARED, then a PREPARED with the same id, then r: the call sent EXECUTE, PREPARE of the
   statement's text, EXECUTE again; the second EXECUTE has the same statement id, values,
   consistency, serial consistency, page size, paging state and timestamp; the caller gets what
   [outcome_of] makes of r — the function that also maps the answer to a FIRST execute
   (C14_direct) to the caller's result *)
Theorem C14_transparent : forall ST init st c a i pm r,
  greach ST init st ->
  let k := g_calls st c in
  let s := ST (xa_stmt a) in
  k_x k = Some a ->
  k_rcvd k = [r; RPrepared (s_id s) pm; RUnprepared i] ->
  exists m1 m2,
    let f1 := mk_exec_frame s (k_ext k) a m1 in
    let f2 := mk_exec_frame s (k_ext k) a m2 in
    k_sent k = [(Q_execute f2, Some m2); (Q_prepare (s_text s), None); (Q_execute f1, Some m1)] /\
    (f_id f2 = s_id s /\ f_id f2 = f_id f1 /\ f_values f2 = f_values f1 /\ f_cons f2 = f_cons f1 /\
     f_serial f2 = f_serial f1 /\ f_page_size f2 = f_page_size f1 /\ f_paging f2 = f_paging f1 /\
     f_ts f2 = f_ts f1) /\
    k_st k = CS_done (outcome_of (k_ext k) (cp_cached (k_ext k) (xa_use_cached a) m2) r).
Proof. exact transparent. Qed.

Theorem C14_direct : forall ST init st c a r,
  greach ST init st ->
  let k := g_calls st c in
  k_x k = Some a -> k_rcvd k = [r] -> is_unprepared r = false ->
  exists m, k_sent k = [(Q_execute (mk_exec_frame (ST (xa_stmt a)) (k_ext k) a m), Some m)] /\
            k_st k = CS_done (outcome_of (k_ext k) (cp_cached (k_ext k) (xa_use_cached a) m) r).
Proof. exact direct. Qed.

(* re-preparation yields another id: RepreparedIdChanged, and in every continuation of the
   history the call has sent exactly EXECUTE, PREPARE — nothing is executed under the other id *)
Theorem C14_id_changed : forall ST init st c a i id pm,
  greach ST init st ->
  let k := g_calls st c in
  let s := ST (xa_stmt a) in
  k_x k = Some a ->
  k_rcvd k = [RPrepared id pm; RUnprepared i] -> id <> s_id s ->
  k_st k = CS_done (O_err E_IdChanged) /\
  forall ls st', grun ST st ls = Some st' ->
    exists m, k_sent (g_calls st' c) =
      [(Q_prepare (s_text s), None); (Q_execute (mk_exec_frame s (k_ext k) a m), Some m)].
Proof. exact id_changed. Qed.

(* the batch loop: every BATCH frame of a call is the same frame; every PREPARE is for a
   statement of the batch found by the id of an UNPREPARED answer *)
Theorem C14_batch_resend : forall ST init st c,
  greach ST init st ->
  let k := g_calls st c in
  k_x k = None -> k_st k <> CS_idle ->
  exists b, forall q om, In (q, om) (k_sent k) ->
    om = None /\ (q = Q_batch (mk_batch_frame ST b) \/
                  exists p id, q = Q_prepare (s_text (ST p)) /\ find_prepared ST (ba_items b) id = Some p).
Proof. exact batch_resend. Qed.

Theorem C14_batch_id_changed : forall ST init st c id pm rest,
  greach ST init st ->
  let k := g_calls st c in
  k_x k = None -> k_rcvd k = RPrepared id pm :: rest ->
  exists b,
  (exists p sent', k_st k = CS_batch b /\ id = s_id (ST p) /\
                   k_sent k = (Q_batch (mk_batch_frame ST b), None) :: sent') \/
  (k_st k = CS_done (O_err E_IdChanged) /\
   exists p rest', id <> s_id (ST p) /\
     forall ls st', grun ST st ls = Some st' ->
       k_sent (g_calls st' c) = (Q_prepare (s_text (ST p)), None) :: rest') \/
  k_st k = CS_done O_norows.
Proof. exact batch_id_changed. Qed.

(* rows are decoded with the metadata sent in that response; or, if the response has none:
   when the request asked to skip it, with the snapshot m the request was built from — a value
   the cell had (the initial one or a later stored announcement) —, otherwise with no columns *)
Theorem C14_decode_meta : forall ST init st c a used pg nr cl,
  greach ST init st ->
  let k := g_calls st c in
  let s := xa_stmt a in
  k_x k = Some a -> k_st k = CS_done (O_rows used pg nr cl) ->
  exists m b rest_sent rest_rcvd,
    let f := mk_exec_frame (ST s) (k_ext k) a m in
    k_sent k = (Q_execute f, Some m) :: rest_sent /\ k_rcvd k = RRows b :: rest_rcvd /\
    pg = rb_paging b /\ nr = rb_nrows b /\ cl = rb_cells b /\
    (m = init s \/ In m (g_ann st s)) /\
    match rb_meta b with
    | RM_full nid cols => used = meta_of_cols nid cols
    | RM_none _ => if f_skip f then used = m /\ m_count m <> 0 else used = mock_empty
    end.
Proof. exact decode_meta. Qed.

(* the cell of a statement is always the most recently stored value; every value ever stored
   carries a metadata id and was announced — it is the statement's initial metadata or was carried,
   together with that id, by a PREPARED or a Rows response received by a call about the statement;
   every snapshot an EXECUTE was built from is such a value *)
Theorem C14_cell_announced : forall ST init st,
  greach ST init st -> cell_inv init st.
Proof. exact reach_cell_inv. Qed.

(* every EXECUTE that is sent is built from the cell as it is at that moment (= the most recently
   stored announcement): in particular it presents that metadata's id *)
Theorem C14_next_id : forall ST init st l st' c f om,
  greach ST init st -> gstep ST st l = Some st' ->
  k_sent (g_calls st' c) = (Q_execute f, om) :: k_sent (g_calls st c) ->
  exists a, k_x (g_calls st' c) = Some a /\
    let s := xa_stmt a in
    let cur := hd (init s) (g_ann st' s) in
    g_cells st' s = cur /\ om = Some cur /\
    f = mk_exec_frame (ST s) (k_ext (g_calls st' c)) a cur.
Proof. exact next_id. Qed.

Theorem C14_frame_presents_id : forall st a m y,
  m_count m <> 0 -> m_id m = Some y ->
  f_rmid (mk_exec_frame st true a m) = Some y /\ f_skip (mk_exec_frame st true a m) = true.
Proof. exact frame_presents_id. Qed.

(* skip_metadata is never requested while the metadata the frame was built from has 0 columns;
   it is requested exactly when a cached metadata is handed to the response parser *)
Theorem C14_never_skip_with_empty : forall ST init st c f om,
  greach ST init st ->
  In (Q_execute f, om) (k_sent (g_calls st c)) ->
  exists a m, k_x (g_calls st c) = Some a /\ om = Some m /\
              f = mk_exec_frame (ST (xa_stmt a)) (k_ext (g_calls st c)) a m /\
              (f_skip f = true -> m_count m <> 0 /\
                                  cp_cached (k_ext (g_calls st c)) (xa_use_cached a) m = Some m) /\
              (f_skip f = false -> cp_cached (k_ext (g_calls st c)) (xa_use_cached a) m = None).
Proof. exact never_skip_with_empty. Qed.

(* End to end, against the specification nodes.  Full-strength statement (the property for every
   call of every history):

     forall … ls st c a u pg nr cl, srun D ST ns (sinit init nodes) ls = Some st ->
       k_x k = Some a -> k_st k = CS_done (O_rows u pg nr cl) ->
       exists enc p, s_enc st c = Some (enc, p) /\ m_cols u = enc /\ …

   It is FALSE for the faithful model of the code: C14_faithful_refuted below (known finding F17,
   class stale-cached-metadata-without-ext).  What is proved:
   * C14_faithful: for ALL histories (nodes with or without the extension, events, calls,
     interleavings), every call outside the QUADRANT "no extension on the connection and cached
     result metadata requested" that returns rows returns them decoded with the columns the
     answering node encoded them with, and with exactly that node's payload;
   * C14_announced_in_quadrant (generic system, ANY server; premises: no connection of the run has
     the extension, no PREPARED carries a metadata id, the initial metadata has no id — so not
     mixed clusters): nothing is ever stored, and rows that come without metadata are decoded
     with the columns announced at preparation.
   For a quadrant call that is NOT in the class [KnownClass] (no re-preparation announced other
   columns than it decoded with) this means: decoded with what preparation AND every
   re-preparation announced — by the definition of the class, not by a further theorem.  For a
   quadrant call nothing is proved about the NODE's columns: without the extension the server
   cannot announce an ALTER that evicts nothing, and the decoded columns can lag behind. *)
Theorem C14_faithful : forall (D : schema) (ST : nat -> stmt) (ns : nat) (init : nat -> meta),
  (forall s v v', mid_of D s v = mid_of D s v' -> cols_of D s v = cols_of D s v') ->
  (forall s v, mid_of D s v <> []) ->
  (forall s s', s_id (ST s) = s_id (ST s') -> s = s') ->
  (forall s s', s_text (ST s) = s_text (ST s') -> s = s') ->
  (forall s, meta_ok D s (init s)) ->
  forall nodes ls st c a u pg nr cl,
  srun D ST ns (sinit init nodes) ls = Some st ->
  let k := g_calls (s_g st) c in
  k_x k = Some a -> k_st k = CS_done (O_rows u pg nr cl) ->
  ~ Quadrant (k_ext k) (xa_use_cached a) ->
  exists enc p, s_enc st c = Some (enc, p) /\ m_cols u = enc /\
                pg = p_paging p /\ nr = p_nrows p /\ cl = p_cells p.
Proof. exact faithful_outside_quadrant. Qed.

(* any server, any interleaving; [noext_label]: every call is made on a connection without the
   extension and, accordingly, no PREPARED carries a result metadata id *)
Theorem C14_announced_in_quadrant : forall ST init ls st c a u pg nr cl,
  (forall s, m_id (init s) = None) -> Forall noext_label ls ->
  grun ST (ginit init) ls = Some st ->
  let k := g_calls st c in
  let s := xa_stmt a in
  k_x k = Some a -> k_st k = CS_done (O_rows u pg nr cl) ->
  (forall s', g_cells st s' = init s' /\ g_ann st s' = []) /\
  (exists b rest, k_rcvd k = RRows b :: rest /\
     match rb_meta b with
     | RM_full nid cols => u = meta_of_cols nid cols
     | RM_none _ => m_cols u = m_cols (init s) \/ u = mock_empty
     end).
Proof. exact announced_in_quadrant. Qed.

(* the class the driver computes is the class *)
Theorem C14_known_classb_sound : forall ST st n c cols,
  known_classb ST st n c cols = true -> KnownClass ST st c cols.
Proof. exact known_classb_sound. Qed.

(* known finding F25, class foreign-cached-metadata-without-ext (the node's answer at PREPARATION
   announced other columns and was discarded by Session::prepare): the class the driver computes *)
Theorem C14_known_class_prepb_sound : forall pa ext uc cols,
  known_class_prepb pa ext uc cols = true -> KnownClassPrep pa ext uc cols.
Proof. exact known_class_prepb_spec. Qed.

Theorem C14_quadrant_dec : forall ext uc, quadrantb ext uc = true <-> Quadrant ext uc.
Proof. exact quadrantb_spec. Qed.

(* the complete log of every call (requests sent, responses received, program counter) is one of
   the logs [exec_log] / [batch_log] describe: for a batch, in order: BATCH, then per UNPREPARED
   answer whose id is found in the batch a PREPARE of that statement and, after a PREPARED with its
   id, the identical BATCH again; the outcome is [batch_final] of the last answer *)
Theorem C14_call_log : forall ST init st,
  greach ST init st -> forall c, call_ok ST (g_calls st c).
Proof. exact reach_call_ok. Qed.

(* the interleaving search used for the tie's concurrent callers only builds runs *)
Theorem C14_par_sound : forall ST ok fuel st pre post st',
  g_par fuel ST ok st pre post = Some st' -> (exists ls, grun ST st ls = Some st') /\ ok st' = true.
Proof. exact g_par_sound. Qed.

(* the specification system is an instance of the generic one: C14_transparent … apply to it *)
Theorem C14_spec_is_generic : forall (D : schema) (ST : nat -> stmt) (ns : nat) (init : nat -> meta),
  (forall s v v', mid_of D s v = mid_of D s v' -> cols_of D s v = cols_of D s v') ->
  (forall s v, mid_of D s v <> []) ->
  (forall s s', s_id (ST s) = s_id (ST s') -> s = s') ->
  (forall s s', s_text (ST s) = s_text (ST s') -> s = s') ->
  (forall s, meta_ok D s (init s)) ->
  forall nodes ls st,
  srun D ST ns (sinit init nodes) ls = Some st -> greach ST init (s_g st).
Proof. exact srun_greach. Qed.

(* Transparency end to end: from ANY reachable state of the specification system in which call c
   has its first EXECUTE in flight to a node that has evicted the statement (and still prepares its
   text under the id the client holds, and the statement returns columns), the uninterrupted
   continuation serve/receive (UNPREPARED), serve/receive (PREPARED), reload, serve/receive ends with
   the caller holding the rows the node put into its last answer — decoded with the node's columns
   for every call outside the quadrant. *)
Theorem C14_evicted_recovers : forall (D : schema) (ST : nat -> stmt) (ns : nat) (init : nat -> meta),
  (forall s v v', mid_of D s v = mid_of D s v' -> cols_of D s v = cols_of D s v') ->
  (forall s v, mid_of D s v <> []) ->
  (forall s s', s_id (ST s) = s_id (ST s') -> s = s') ->
  (forall s s', s_text (ST s) = s_text (ST s') -> s = s') ->
  (forall s, meta_ok D s (init s)) ->
  forall nodes ls st c a m s p0 p1 p,
  srun D ST ns (sinit init nodes) ls = Some st ->
  let nd := s_nodes st (s_route st c) in
  let k := g_calls (s_g st) c in
  stmt_of_id ST ns (s_id (ST s)) = Some s -> stmt_of_text ST ns (s_text (ST s)) = Some s ->
  sid D s 0 = s_id (ST s) ->
  k_x k = Some a -> xa_stmt a = s -> k_st k = CS_exec1 a m ->
  s_out st c = Some (Q_execute (mk_exec_frame (ST s) (k_ext k) a m)) -> s_inbox st c = None ->
  k_ext k = n_ext nd ->
  n_prep nd s = false -> n_salt nd s = 0 -> cols_of D s (n_ver nd s) <> [] ->
  exists st' u,
    srun D ST ns st [SL_serve c p0; SL_recv c; SL_serve c p1; SL_recv c; SL_tick c; SL_serve c p; SL_recv c] = Some st' /\
    k_st (g_calls (s_g st') c) = CS_done (O_rows u (p_paging p) (p_nrows p) (p_cells p)) /\
    (~ Quadrant (k_ext k) (xa_use_cached a) -> m_cols u = cols_of D s (n_ver nd s)).
Proof. exact recovers_outside_quadrant. Qed.

(* The acceptors the correspondence check runs on the recorded traces build a run of the system,
   label by label: an accepted trace is a reachable state in which, for the i-th recorded
   operation, call c+i received exactly the recorded responses, sent every recorded request and
   ended with the recorded outcome (as far as the caller can observe it).  So every theorem above
   speaks about every accepted trace. *)
Theorem C14_accept_sound : forall ST tr st c c' st',
  g_accept ST st c tr = (c', V_ok st') ->
  (exists ls, grun ST st ls = Some st') /\
  forall i o, nth_error tr i = Some o -> op_matches st' (c + i) o.
Proof. exact g_accept_sound. Qed.

Theorem C14_spec_accept_sound : forall D ST ns tr st c c' st',
  s_accept D ST ns st c tr = (c', V_ok st') -> exists ls, srun D ST ns st ls = Some st'.
Proof. exact s_accept_sound. Qed.

(* … and from the initial state its generic part is reachable, so every generic theorem applies *)
Theorem C14_spec_accept_reach : forall D ST ns init nodes tr c' st',
  s_accept D ST ns (sinit init nodes) O tr = (c', V_ok st') ->
  (exists ls, srun D ST ns (sinit init nodes) ls = Some st') /\ greach ST init (s_g st').
Proof. exact s_accept_sound2. Qed.

(* the recorded requests ARE the requests the model's call sent, in order *)
Theorem C14_accept_requests : forall ST tr st c c' st',
  g_accept ST st c tr = (c', V_ok st') ->
  forall i o, nth_error tr i = Some o -> op_requests st' (c + i) o.
Proof. exact g_accept_requests. Qed.

(* C14_ok_sound: every `ok` of the correspondence check goes through [g_accept]; for an accepted
   history the property's sentences hold OF THE RECORDED requests, answers and outcomes:
   1. UNPREPARED, PREPARED(same id), r  =>  the recorded requests are EXECUTE, PREPARE of the text,
      EXECUTE with the same id, values, consistency, serial consistency, page size, paging state,
      timestamp, and the recorded outcome is the normal result of r;
   2. UNPREPARED, PREPARED(other id)  =>  the outcome is RepreparedIdChanged and exactly EXECUTE,
      PREPARE were recorded (nothing resent);
   3. every recorded EXECUTE is built from a value the statement's cell had (initial or a stored
      announcement) — it presents that metadata's id — and asks to skip metadata only with columns;
   4. recorded rows were decoded with the columns sent in the last answer, or, if it had none and
      skipping was requested, with those of such a cell value. *)
Theorem C14_ok_sound : forall ST init tr c' st',
  g_accept ST (ginit init) O tr = (c', V_ok st') ->
  forall i nd ext a xs out, nth_error tr i = Some (TO_exec nd ext a xs out) ->
  let s := ST (xa_stmt a) in
  (forall i0 pm r, map x_resp xs = [RUnprepared i0; RPrepared (s_id s) pm; r] ->
     exists m1 m2,
       let f1 := mk_exec_frame s ext a m1 in
       let f2 := mk_exec_frame s ext a m2 in
       map x_req xs = [Q_execute f1; Q_prepare (s_text s); Q_execute f2] /\
       (f_id f2 = s_id s /\ f_id f2 = f_id f1 /\ f_values f2 = f_values f1 /\ f_cons f2 = f_cons f1 /\
        f_serial f2 = f_serial f1 /\ f_page_size f2 = f_page_size f1 /\ f_paging f2 = f_paging f1 /\
        f_ts f2 = f_ts f1) /\
       obs_out_eqb (obs_of_outcome (outcome_of ext (cp_cached ext (xa_use_cached a) m2) r)) out = true) /\
  (forall i0 id pm, map x_resp xs = [RUnprepared i0; RPrepared id pm] -> id <> s_id s ->
     obs_out_eqb (OB_err E_IdChanged) out = true /\
     exists m, map x_req xs = [Q_execute (mk_exec_frame s ext a m); Q_prepare (s_text s)]) /\
  (forall f, In (Q_execute f) (map x_req xs) ->
     exists m, f = mk_exec_frame s ext a m /\ (m = init (xa_stmt a) \/ In m (g_ann st' (xa_stmt a))) /\
               (f_skip f = true -> m_count m <> 0)) /\
  (forall cols pg rows t, out = OB_rows cols pg rows t ->
     exists m b pre,
       map x_resp xs = pre ++ [RRows b] /\
       (m = init (xa_stmt a) \/ In m (g_ann st' (xa_stmt a))) /\
       last (map x_req xs) (Q_prepare 0) = Q_execute (mk_exec_frame s ext a m) /\
       match rb_meta b with
       | RM_full _ sent => cols = sent
       | RM_none _ => if f_skip (mk_exec_frame s ext a m) then cols = m_cols m else cols = []
       end).
Proof. exact accepted_sentences. Qed.

(* Session::prepare: the new statement is one some node announced and every node that prepared it
   did so under its id; different ids => PreparedStatementIdsMismatch; nobody => AllAttemptsFailed *)
Theorem C14_prepare_on_all : forall rs,
  match prepare_on_all rs with
  | Ok (id, m) => In (RPrepared id m) rs /\ forall id' m', In (RPrepared id' m') rs -> id' = id
  | Err PE_AllFailed => forall id m, ~ In (RPrepared id m) rs
  | Err PE_IdsMismatch => exists id m id' m', In (RPrepared id m) rs /\ In (RPrepared id' m') rs /\ id <> id'
  end.
Proof. exact prepare_on_all_spec. Qed.

Theorem C14_prep_accept_sound : forall rs o, prep_accept rs o = true ->
  match o with
  | PO_ok id cols => exists m, In (RPrepared id m) rs /\ m_cols m = cols /\
                               prepare_on_all (RPrepared id m :: rs) = Ok (id, m)
  | PO_err e => prepare_on_all rs = Err e
  end.
Proof. exact prep_accept_sound. Qed.

(* prepare_nongeneric with its second round: an accepted observation is the result of
   [session_prepare] for some order of the recorded answers *)
Theorem C14_session_prep_accept_sound : forall rs1 rs2 o, session_prep_accept rs1 rs2 o = true ->
  match rs2, o with
  | None, PO_ok id cols => exists m, In (RPrepared id m) rs1 /\ m_cols m = cols /\
                                     forall r2, session_prepare (RPrepared id m :: rs1) r2 = Ok (id, m)
  | None, PO_err _ => False
  | Some r2, PO_ok id cols => exists e m, prepare_on_all rs1 = Err e /\ In (RPrepared id m) r2 /\ m_cols m = cols /\
                                          session_prepare rs1 (RPrepared id m :: r2) = Ok (id, m)
  | Some r2, PO_err e => exists e1, prepare_on_all rs1 = Err e1 /\ session_prepare rs1 r2 = Err e
  end.
Proof. exact session_prep_accept_sound. Qed.

(* the liveness caveat of the batch loop, formally: the loop has no bound on the number of
   UNPREPARED answers — for every n there is a schedule (a server that evicts the statement again
   after every re-preparation) in which one BATCH call has sent n+1 identical BATCH frames and is
   still waiting.  (The execute path gives up after one re-preparation: C14_call_log.) *)
Theorem C14_batch_loop_unbounded : forall ST init c ext s v pm n,
  let b := mkB [BI_prep s v] 0 1 None None in
  exists st,
    grun ST (ginit init) (GL_batch c ext b :: evict_forever c (s_id (ST s)) pm n) = Some st /\
    k_st (g_calls st c) = CS_batch b /\
    List.length (filter (fun e => match fst e with Q_batch _ => true | _ => false end) (k_sent (g_calls st c))) = S n.
Proof. exact batch_loop_unbounded. Qed.


(* ---------------------------------------------------------------------------------------- *)
(* non-vacuity: concrete histories of the specification system                                *)
(* ---------------------------------------------------------------------------------------- *)
Definition exST : nat -> stmt := fun s => mkStmt [1; N.of_nat s] (N.of_nat s + 1).
Definition cA : list col := [mkCol 1 TInt; mkCol 2 TText].
Definition cB : list col := [mkCol 1 TInt; mkCol 2 TText; mkCol 3 TBigInt].
Definition exD : schema :=
  mkSchema (fun _ v => if v =? 0 then cA else cB) (fun _ v => [7; v + 1])
           (fun s k => if k =? 0 then [1; N.of_nat s] else [1; N.of_nat s; k]) (fun _ => false).
Definition exNodes (ext : bool) : nat -> node := fun _ => mkNode ext (fun _ => true) (fun _ => 0) (fun _ => 0).
Definition exInit (ext : bool) : nat -> meta := fun _ => meta_of_cols (if ext then Some [7; 1] else None) cA.
Definition exArgs (uc : bool) : xargs := mkX 0 uc [9; 9] 6 (Some 9) None None (Some 5%Z).
Definition payA : payload := mkPayload None 1 [Some [0;0;0;1]; Some [104; 105]].
Definition payB : payload := mkPayload None 1 [Some [0;0;0;2]; Some [104]; Some [0;0;0;0;0;0;0;3]].
Definition cols_eqb := list_eqb col_eqb.

(* the hypotheses of C14_faithful hold of exD / exST / exInit *)
Example C14_ex_premises :
  (forall s v v', mid_of exD s v = mid_of exD s v' -> cols_of exD s v = cols_of exD s v') /\
  (forall s v, mid_of exD s v <> []) /\
  (forall s s', s_id (exST s) = s_id (exST s') -> s = s') /\
  (forall s s', s_text (exST s) = s_text (exST s') -> s = s') /\
  (forall s, meta_ok exD s (exInit true s)) /\ (forall s, meta_ok exD s (exInit false s)).
Proof.
  repeat split.
  - intros s v v' H. simpl in *. inversion H. assert (v = v') by lia. now subst.
  - intros s v H. discriminate.
  - intros s s' H. simpl in H. inversion H. lia.
  - intros s s' H. simpl in H. lia.
  - intros s. right; right. exists 0. split; reflexivity.
  - intros s. right; left. reflexivity.
Qed.

(* extension on: execute (cached metadata used), ALTER + eviction on the node, execute again:
   UNPREPARED -> PREPARE -> same id, new metadata id and columns -> resend presenting the NEW id
   with skip_metadata -> rows without metadata decoded with the NEW columns *)
Definition exHist1 : list slabel :=
  [SL_exec 0 0 (exArgs false); SL_serve 0 payA; SL_recv 0;
   SL_event 0 (EV_schema 0 1); SL_event 0 (EV_evicted 0);
   SL_exec 1 0 (exArgs false); SL_serve 1 payB; SL_recv 1; SL_serve 1 payB; SL_recv 1; SL_tick 1;
   SL_serve 1 payB; SL_recv 1].

Example C14_ex_transparent :
  match srun exD exST 1 (sinit (exInit true) (exNodes true)) exHist1 with
  | Some st =>
      let k0 := g_calls (s_g st) 0 in let k1 := g_calls (s_g st) 1 in
      match k_st k0, k_rcvd k0, k_st k1, k_rcvd k1, k_sent k1 with
      | CS_done (O_rows u0 _ _ _), [RRows b0],
        CS_done (O_rows u1 _ n1 c1), [RRows b1; RPrepared id pm; RUnprepared _],
        [(Q_execute f2, Some m2); (Q_prepare _, None); (Q_execute f1, Some m1)] =>
          cols_eqb (m_cols u0) cA && cols_eqb (m_cols u1) cB &&
          match rb_meta b0, rb_meta b1 with RM_none _, RM_none _ => true | _, _ => false end &&
          bytes_eqb id (s_id (exST 0)) && cols_eqb (m_cols pm) cB &&
          obytes_eqb (f_rmid f1) (Some [7; 1]) && obytes_eqb (f_rmid f2) (Some [7; 2]) &&
          f_skip f1 && f_skip f2 && same_core f1 f2 && cols_eqb (m_cols m2) cB &&
          obytes_eqb (m_id (g_cells (s_g st) 0)) (Some [7; 2]) &&
          match s_enc st 1 with Some (enc, p) => cols_eqb enc cB && (p_nrows p =? n1) | None => false end
      | _, _, _, _, _ => false
      end
  | None => false
  end = true.
Proof. vm_compute. reflexivity. Qed.

(* the hypotheses of C14_evicted_recovers hold in the state reached by the first six labels of exHist1 *)
Example C14_ex_recovers_hyps :
  match srun exD exST 1 (sinit (exInit true) (exNodes true)) (firstn 6 exHist1) with
  | Some st =>
      let k := g_calls (s_g st) 1 in let nd := s_nodes st (s_route st 1) in
      match k_x k, k_st k, s_out st 1, s_inbox st 1 with
      | Some a, CS_exec1 a' m, Some (Q_execute f), None =>
          negb (n_prep nd 0) && (n_salt nd 0 =? 0) && negb (cols_eqb (cols_of exD 0 (n_ver nd 0)) []) &&
          Bool.eqb (k_ext k) (n_ext nd) && exec_frame_eqb f (mk_exec_frame (exST 0) (k_ext k) a m) &&
          bytes_eqb (sid exD 0 0) (s_id (exST 0)) &&
          match stmt_of_id exST 1 (s_id (exST 0)), stmt_of_text exST 1 (s_text (exST 0)) with
          | Some O, Some O => true | _, _ => false end
      | _, _, _, _ => false
      end
  | None => false
  end = true.
Proof. vm_compute. reflexivity. Qed.

(* extension on, ALTER without eviction: the execute presents the old id, the node answers with
   METADATA_CHANGED + new id + columns, the rows are decoded with those, the cell is replaced and
   the next execute presents the new id and gets rows without metadata *)
Definition exHist2 : list slabel :=
  [SL_event 0 (EV_schema 0 1);
   SL_exec 0 0 (exArgs false); SL_serve 0 payB; SL_recv 0;
   SL_exec 1 0 (exArgs true); SL_serve 1 payB; SL_recv 1].

Example C14_ex_new_id :
  match srun exD exST 1 (sinit (exInit true) (exNodes true)) exHist2 with
  | Some st =>
      let k0 := g_calls (s_g st) 0 in let k1 := g_calls (s_g st) 1 in
      match k_st k0, k_rcvd k0, k_sent k0, k_st k1, k_rcvd k1, k_sent k1 with
      | CS_done (O_rows u0 _ _ _), [RRows b0], [(Q_execute f0, _)],
        CS_done (O_rows u1 _ _ _), [RRows b1], [(Q_execute f1, _)] =>
          cols_eqb (m_cols u0) cB && cols_eqb (m_cols u1) cB &&
          match rb_meta b0, rb_meta b1 with RM_full (Some i) _, RM_none _ => bytes_eqb i [7; 2] | _, _ => false end &&
          obytes_eqb (f_rmid f0) (Some [7; 1]) && obytes_eqb (f_rmid f1) (Some [7; 2]) &&
          match g_ann (s_g st) 0 with [m] => obytes_eqb (m_id m) (Some [7; 2]) | _ => false end
      | _, _, _, _, _, _ => false
      end
  | None => false
  end = true.
Proof. vm_compute. reflexivity. Qed.

(* the node now prepares the text under another id: RepreparedIdChanged, two requests, no resend *)
Example C14_ex_id_changed :
  match srun exD exST 1 (sinit (exInit true) (exNodes true))
          [SL_event 0 (EV_idchange 0 3); SL_exec 0 0 (exArgs false); SL_serve 0 payA; SL_recv 0;
           SL_serve 0 payA; SL_recv 0] with
  | Some st =>
      let k0 := g_calls (s_g st) 0 in
      match k_st k0, k_rcvd k0, k_sent k0 with
      | CS_done (O_err E_IdChanged), [RPrepared id _; RUnprepared _], [(Q_prepare _, None); (Q_execute _, Some _)] =>
          bytes_eqb id [1; 0; 3] && negb (bytes_eqb id (s_id (exST 0)))
      | _, _, _ => false
      end
  | None => false
  end = true.
Proof. vm_compute. reflexivity. Qed.

(* batch of two prepared statements, the second evicted on the node: BATCH, UNPREPARED(id of 1),
   PREPARE of statement 1, the identical BATCH again, Void *)
Example C14_ex_batch :
  match srun exD exST 2 (sinit (exInit true) (exNodes true))
          [SL_event 0 (EV_evicted 1);
           SL_batch 0 0 (mkB [BI_prep 0 [1]; BI_query 77; BI_prep 1 [2]] 0 6 None (Some 8%Z));
           SL_serve 0 payA; SL_recv 0; SL_serve 0 payA; SL_recv 0; SL_serve 0 payA; SL_recv 0] with
  | Some st =>
      let k0 := g_calls (s_g st) 0 in
      match k_st k0, k_rcvd k0, k_sent k0 with
      | CS_done O_norows, [RVoid; RPrepared _ _; RUnprepared id], [(Q_batch g, None); (Q_prepare t, None); (Q_batch f, None)] =>
          bytes_eqb id (s_id (exST 1)) && batch_frame_eqb f g && (t =? s_text (exST 1)) &&
          (List.length (bf_items f) =? 3)%nat
      | _, _, _ => false
      end
  | None => false
  end = true.
Proof. vm_compute. reflexivity. Qed.

(* Known finding F17 (class stale-cached-metadata-without-ext).  Without the extension and with
   use_cached_result_metadata on, ALTER + eviction + re-preparation leaves the cell untouched (the
   PREPARED of the re-preparation carries no metadata id, [reprepare] then returns before looking
   at the columns it announces) and the rows encoded with the new columns are decoded with the old
   ones: the full-strength C14_faithful fails on this 10-step history of the specification system. *)
Definition exHistStale : list slabel :=
  [SL_event 0 (EV_schema 0 1); SL_event 0 (EV_evicted 0);
   SL_exec 0 0 (exArgs true); SL_serve 0 payB; SL_recv 0; SL_serve 0 payB; SL_recv 0; SL_tick 0;
   SL_serve 0 payB; SL_recv 0].

Theorem C14_faithful_refuted :
  exists ls st c a u pg nr cl enc p,
    srun exD exST 1 (sinit (exInit false) (exNodes false)) ls = Some st /\
    k_x (g_calls (s_g st) c) = Some a /\
    k_st (g_calls (s_g st) c) = CS_done (O_rows u pg nr cl) /\
    KnownClass exST (s_g st) c (m_cols u) /\
    s_enc st c = Some (enc, p) /\ m_cols u <> enc.
Proof.
  exists exHistStale.
  destruct (srun exD exST 1 (sinit (exInit false) (exNodes false)) exHistStale) as [st|] eqn:E;
    [|vm_compute in E; discriminate].
  assert (H : exists a u pg nr cl enc p,
            k_x (g_calls (s_g st) 0) = Some a /\ k_st (g_calls (s_g st) 0) = CS_done (O_rows u pg nr cl) /\
            known_classb exST (s_g st) 1 0 (m_cols u) = true /\
            s_enc st 0 = Some (enc, p) /\ m_cols u <> enc).
  { vm_compute in E. inversion E; subst st; clear E. vm_compute.
    do 7 eexists. repeat split; try reflexivity. intros H; discriminate H. }
  destruct H as [a [u [pg [nr [cl [enc [p [H1 [H2 [H3 [H4 H5]]]]]]]]]]].
  exists st, 0%nat, a, u, pg, nr, cl, enc, p. repeat split; try assumption.
  eapply known_classb_sound; eassumption.
Qed.

(* "… which is also what the next execution presents", for concurrent callers, EVERY interleaving
   and ANY server (after repo 75c6d7e; before it [handle_result_metadata_new_id] could write a
   caller's cached snapshot back over newer metadata — fixed finding F20):
   * C14_store_announced: a cell only ever changes by storing metadata that the response being
     delivered carries together with a metadata id — never a caller's snapshot;
   * C14_cell_follows_rows: after a Rows answer announcing id i was delivered to an execute on a
     connection with the extension, the cell holds id i, whatever the other callers did;
   with C14_next_id (every EXECUTE is built from the cell as it is when it is sent): the next
   execution presents the id of the announcement that was processed last. *)
Theorem C14_store_announced : forall ST st l st' s,
  gstep ST st l = Some st' ->
  (g_ann st' s = g_ann st s /\ g_cells st' s = g_cells st s) \/
  exists c r m, l = GL_resp c r /\ carries r m /\ m_id m <> None /\
                g_ann st' s = m :: g_ann st s /\ g_cells st' s = m.
Proof. exact store_announced. Qed.

Theorem C14_cell_follows_rows : forall ST st c st' a m b i cols,
  gstep ST st (GL_resp c (RRows b)) = Some st' ->
  k_st (g_calls st c) = CS_exec1 a m \/ k_st (g_calls st c) = CS_exec2 a m ->
  k_ext (g_calls st c) = true -> rb_meta b = RM_full (Some i) cols ->
  m_id (g_cells st' (xa_stmt a)) = Some i.
Proof. exact cell_follows_rows. Qed.

(* … and the counterpart for re-preparations: after a PREPARED with the statement's id that announces
   metadata id i was delivered to a re-preparing call (execute or batch loop), the cell holds i —
   except under the non-destructive rule (announcement without columns, cell with columns), where the
   cell is untouched.  Every interleaving, any server. *)
Theorem C14_cell_follows_reprepare : forall ST st c st' s pm i,
  gstep ST st (GL_resp c (RPrepared (s_id (ST s)) pm)) = Some st' ->
  (exists a, k_st (g_calls st c) = CS_prep a /\ xa_stmt a = s) \/ (exists b, k_st (g_calls st c) = CS_bprep b s) ->
  m_id pm = Some i ->
  (m_count (g_cells st s) = 0 \/ m_count pm <> 0 -> m_id (g_cells st' s) = Some i) /\
  (m_count (g_cells st s) <> 0 -> m_count pm = 0 -> g_cells st' s = g_cells st s).
Proof. exact cell_follows_reprepare. Qed.

(* its hypotheses in the re-preparation of exHist1: call 1 is in CS_prep, the PREPARED in its inbox
   has the statement's id and announces [7;2]; after the delivery the cell holds [7;2] *)
Example C14_ex_cell_follows_reprepare :
  match srun exD exST 1 (sinit (exInit true) (exNodes true)) (firstn 9 exHist1),
        srun exD exST 1 (sinit (exInit true) (exNodes true)) (firstn 10 exHist1) with
  | Some st, Some st' =>
      match k_st (g_calls (s_g st) 1), s_inbox st 1 with
      | CS_prep a, Some (RPrepared id pm, _, _) =>
          (xa_stmt a =? 0)%nat && bytes_eqb id (s_id (exST 0)) && obytes_eqb (m_id pm) (Some [7;2]) &&
          negb (m_count pm =? 0) && obytes_eqb (m_id (g_cells (s_g st) 0)) (Some [7;1]) &&
          obytes_eqb (m_id (g_cells (s_g st') 0)) (Some [7;2])
      | _, _ => false
      end
  | _, _ => false
  end = true.
Proof. vm_compute. reflexivity. Qed.

(* the history on which the code before 75c6d7e ended with the OLD id in the cell: call 0 is served
   while the node has the old schema (rows without metadata), the schema changes, call 1 is
   answered with METADATA_CHANGED + new id, then call 0's answer arrives.  Now nothing is written
   back and call 2 presents the NEW id. *)
Definition exHistRace : list slabel :=
  [SL_exec 0 0 (exArgs false); SL_serve 0 payA; SL_event 0 (EV_schema 0 1);
   SL_exec 1 0 (exArgs false); SL_serve 1 payB; SL_recv 1; SL_recv 0; SL_exec 2 0 (exArgs false)].

Example C14_ex_race_no_writeback :
  match srun exD exST 1 (sinit (exInit true) (exNodes true)) exHistRace with
  | Some st =>
      let g := s_g st in
      match k_rcvd (g_calls g 0), k_rcvd (g_calls g 1), k_st (g_calls g 0), k_sent (g_calls g 2), g_ann g 0 with
      | [RRows b0], [RRows b1], CS_done (O_rows u0 _ _ _), [(Q_execute f2, _)], [newer] =>
          match rb_meta b0, rb_meta b1 with
          | RM_none _, RM_full (Some i) _ => bytes_eqb i [7; 2]
          | _, _ => false
          end &&
          cols_eqb (m_cols u0) cA &&                                   (* call 0 decoded with its snapshot *)
          obytes_eqb (m_id newer) (Some [7; 2]) && obytes_eqb (m_id (g_cells g 0)) (Some [7; 2]) &&
          obytes_eqb (f_rmid f2) (Some [7; 2])
      | _, _, _, _, _ => false
      end
  | None => false
  end = true.
Proof. vm_compute. reflexivity. Qed.

(* the same history, spelled out *)
Example C14_ex_stale_without_ext :
  match srun exD exST 1 (sinit (exInit false) (exNodes false)) exHistStale with
  | Some st =>
      let k0 := g_calls (s_g st) 0 in
      match k_st k0, k_rcvd k0, s_enc st 0 with
      | CS_done (O_rows u _ _ _), [RRows b; RPrepared _ pm; RUnprepared _], Some (enc, _) =>
          cols_eqb (m_cols u) cA && cols_eqb enc cB && cols_eqb (m_cols pm) cB &&
          match rb_meta b with RM_none _ => true | _ => false end
      | _, _, _ => false
      end
  | None => false
  end = true.
Proof. vm_compute. reflexivity. Qed.

(* statement whose PREPARED announces an id but no columns: no skip_metadata, empty id presented,
   the node answers with id + columns, which are stored although the id is "the same" *)
Example C14_ex_late_metadata :
  let D := mkSchema (cols_of exD) (mid_of exD) (sid exD) (fun _ => true) in
  match srun D exST 1 (sinit (fun _ => meta_of_cols (Some [7; 1]) []) (exNodes true))
          [SL_exec 0 0 (exArgs true); SL_serve 0 payA; SL_recv 0; SL_exec 1 0 (exArgs true)] with
  | Some st =>
      match k_sent (g_calls (s_g st) 0), k_st (g_calls (s_g st) 0), k_sent (g_calls (s_g st) 1) with
      | [(Q_execute f0, Some m0)], CS_done (O_rows u _ _ _), [(Q_execute f1, Some m1)] =>
          negb (f_skip f0) && obytes_eqb (f_rmid f0) (Some []) && (m_count m0 =? 0) &&
          cols_eqb (m_cols u) cA && f_skip f1 && obytes_eqb (f_rmid f1) (Some [7; 1]) && cols_eqb (m_cols m1) cA
      | _, _, _ => false
      end
  | None => false
  end = true.
Proof. vm_compute. reflexivity. Qed.

(* the acceptor accepts the trace of the first history (as the mock would record it) *)
Example C14_ex_accept :
  let x1 := mkXchg (Q_execute (mk_exec_frame (exST 0) true (exArgs false) (exInit true 0)))
                   (RRows (mkRows (RM_none 2) None 1 (p_cells payA))) cA payA in
  match s_accept exD exST 1 (sinit (exInit true) (exNodes true)) 0
          [TO_exec 0 true (exArgs false) [x1]
             (OB_rows cA None (Some [[Some [0;0;0;1]; Some [104; 105]]]) true);
           TO_event 0 (EV_evicted 0)] with
  | (_, V_ok _) => true
  | _ => false
  end = true.
Proof. vm_compute. reflexivity. Qed.

(* ---------------------------------------------------------------------------------------- *)
(* anchors: the predicates the driver and the class rely on, on accepting AND rejecting inputs *)
(* ---------------------------------------------------------------------------------------- *)
Example C14_ex_quadrant :
  quadrantb false true = true /\ quadrantb true true = false /\ quadrantb false false = false /\
  quadrantb true false = false /\ ~ Quadrant true true /\ ~ Quadrant false false.
Proof. repeat split; try reflexivity; intros [A B]; discriminate. Qed.

(* the class needs the quadrant AND a re-preparation that announced OTHER columns *)
Example C14_ex_known_class :
  match srun exD exST 1 (sinit (exInit false) (exNodes false)) exHistStale,
        srun exD exST 1 (sinit (exInit true) (exNodes true)) exHist1,
        srun exD exST 1 (sinit (exInit false) (exNodes false))
          [SL_event 0 (EV_evicted 0); SL_exec 0 0 (exArgs true); SL_serve 0 payA; SL_recv 0;
           SL_serve 0 payA; SL_recv 0; SL_tick 0; SL_serve 0 payA; SL_recv 0] with
  | Some stale, Some ext, Some same =>
      known_classb exST (s_g stale) 1 0 cA &&            (* decoded with cA, re-preparation announced cB *)
      negb (known_classb exST (s_g stale) 1 0 cB) &&      (* had it decoded with cB: not in the class *)
      negb (known_classb exST (s_g stale) 0 0 cA) &&      (* no call looked at: nothing found *)
      negb (known_classb exST (s_g ext) 2 1 cA) &&        (* extension on: never *)
      negb (known_classb exST (s_g same) 1 0 cA)          (* eviction without ALTER: same columns announced *)
  | _, _, _ => false
  end = true.
Proof. vm_compute. reflexivity. Qed.

Definition exF1 : exec_frame := mk_exec_frame (exST 0) true (exArgs false) (exInit true 0).
Definition exRowsA : resp := RRows (mkRows (RM_none 2) None 1 (p_cells payA)).
Definition exObsA : obs_out := OB_rows cA None (Some [[Some [0;0;0;1]; Some [104; 105]]]) true.
Definition exX (q : request) (r : resp) (enc : list col) : xchg := mkXchg q r enc payA.

(* the property predicate on one operation: accepts the normal shapes, rejects an UNPREPARED that is
   not followed by a re-preparation, a resend with another value / timestamp, a resend after the id
   changed, a non-error outcome after the id changed, rows decoded with other columns than the node
   encoded / sent *)
Example C14_ex_prop_exec :
  let u := RUnprepared (s_id (exST 0)) in
  let p := RPrepared (s_id (exST 0)) (meta_of_cols (Some [7;1]) cA) in
  let p' := RPrepared [9] (meta_of_cols (Some [7;1]) cA) in
  let prep := Q_prepare (s_text (exST 0)) in
  let f2bad := mkExec (f_id exF1) (f_rmid exF1) [1] (f_cons exF1) (f_serial exF1) (f_page_size exF1)
                      (f_paging exF1) (f_ts exF1) (f_skip exF1) in
  let f2ts := mkExec (f_id exF1) (f_rmid exF1) (f_values exF1) (f_cons exF1) (f_serial exF1) (f_page_size exF1)
                     (f_paging exF1) None (f_skip exF1) in
  prop_exec_ok exST true (exArgs false) [exX (Q_execute exF1) exRowsA cA] exObsA = true /\
  prop_exec_ok exST true (exArgs false)
    [exX (Q_execute exF1) u []; exX prep p []; exX (Q_execute exF1) exRowsA cA] exObsA = true /\
  prop_exec_ok exST true (exArgs false) [exX (Q_execute exF1) u []; exX prep p' []] (OB_err E_IdChanged) = true /\
  prop_exec_ok exST true (exArgs false) [exX (Q_execute exF1) u []] (OB_err E_Unprepared) = false /\
  prop_exec_ok exST true (exArgs false)
    [exX (Q_execute exF1) u []; exX prep p []; exX (Q_execute f2bad) exRowsA cA] exObsA = false /\
  prop_exec_ok exST true (exArgs false)
    [exX (Q_execute exF1) u []; exX prep p []; exX (Q_execute f2ts) exRowsA cA] exObsA = false /\
  prop_exec_ok exST true (exArgs false)
    [exX (Q_execute exF1) u []; exX prep p' []; exX (Q_execute exF1) exRowsA cA] exObsA = false /\
  prop_exec_ok exST true (exArgs false) [exX (Q_execute exF1) u []; exX prep p' []] (OB_err E_Unprepared) = true /\
  prop_exec_ok exST true (exArgs false) [exX (Q_execute exF1) u []; exX prep p' []] OB_norows = false /\
  prop_exec_ok exST true (exArgs false) [exX (Q_execute exF1) u []; exX prep p' []] exObsA = false /\
  prop_exec_ok exST true (exArgs false) [exX (Q_execute exF1) exRowsA cB] exObsA = false /\
  prop_exec_ok exST true (exArgs false)
    [exX (Q_execute exF1) (RRows (mkRows (RM_full None cB) None 1 (p_cells payA))) cB] exObsA = false.
Proof. vm_compute. repeat split; reflexivity. Qed.

(* what an EXECUTE has to present: the announced id and skip with the extension, nothing without *)
Example C14_ex_present :
  let an := mkAnn (fun _ => cA) (fun _ => Some [7;1]) (fun _ => false) in
  let an0 := mkAnn (fun _ => []) (fun _ => Some [7;1]) (fun _ => false) in
  let fr (rm : option bytes) (sk : bool) := mkExec (f_id exF1) rm (f_values exF1) (f_cons exF1) (f_serial exF1) (f_page_size exF1)
                         (f_paging exF1) (f_ts exF1) sk in
  present_ok an true (exArgs false) (fr (Some [7;1]) true) = true /\
  present_ok an true (exArgs false) (fr (Some [7;2]) true) = false /\
  present_ok an true (exArgs false) (fr (Some [7;1]) false) = false /\
  present_ok an true (exArgs false) (fr (Some []) true) = false /\
  present_ok an0 true (exArgs false) (fr (Some []) false) = true /\
  present_ok an0 true (exArgs false) (fr (Some [7;1]) false) = false /\
  present_ok an false (exArgs true) (fr None true) = true /\
  present_ok an false (exArgs false) (fr None false) = true /\
  present_ok an false (exArgs false) (fr None true) = false /\
  present_ok an false (exArgs true) (fr (Some [7;1]) true) = false.
Proof. vm_compute. repeat split; reflexivity. Qed.

(* the bookkeeping check on whole histories: the stale trace is reported and tagged in-class; the
   same trace with the rows decoded with the announced columns is clean; with the extension a stale
   decode is reported OUTSIDE the class; a wrong presented id is reported *)
Example C14_ex_stale_check :
  let an (b : bool) := mkAnn (fun _ => cA) (fun _ => if b then Some [7;1] else None) (fun _ => false) in
  let u := RUnprepared (s_id (exST 0)) in
  let prep := Q_prepare (s_text (exST 0)) in
  let fne := mk_exec_frame (exST 0) false (exArgs true) (exInit false 0) in
  let pB := RPrepared (s_id (exST 0)) (meta_of_cols None cB) in
  let rowsB := RRows (mkRows (RM_none 3) None 1 (p_cells payB)) in
  let obs (c : list col) := OB_rows c None None false in
  let stale := [exX (Q_execute fne) u []; exX prep pB []; exX (Q_execute fne) rowsB cB] in
  stale_check exST 1 true (an false) 0 [TO_exec 0 false (exArgs true) stale (obs cA)] = [(0%nat, Some true)] /\
  stale_check exST 1 true (an false) 0 [TO_exec 0 false (exArgs true) stale (obs cB)] = [] /\
  stale_check exST 1 true (an true) 0
    [TO_exec 0 true (exArgs false) [exX (Q_execute exF1) rowsB cB] (obs cB)] = [(0%nat, Some false)] /\
  stale_check exST 1 true (an true) 0
    [TO_exec 0 true (exArgs false) [exX (Q_execute exF1) exRowsA cA] exObsA] = [] /\
  stale_check exST 1 true (mkAnn (fun _ => cA) (fun _ => Some [7;2]) (fun _ => false)) 0
    [TO_exec 0 true (exArgs false) [exX (Q_execute exF1) exRowsA cA] exObsA] = [(0%nat, None)].
Proof. vm_compute. repeat split; reflexivity. Qed.

(* the interleaving search accepts the two concurrent calls of the race history (cell = NEW id), finds no
   interleaving that leaves the old id, and rejects a wrong outcome *)
Example C14_ex_par :
  let x0 := exX (Q_execute exF1) exRowsA cA in
  let x1 := exX (Q_execute exF1) (RRows (mkRows (RM_full (Some [7;2]) cB) None 1 (p_cells payB))) cB in
  let oB := OB_rows cB None (Some [[Some [0;0;0;2]; Some [104]; Some [0;0;0;0;0;0;0;3]]]) true in
  let p0 := mkP 0 true (exArgs false) false [x0] exObsA in
  let p1 (o : obs_out) := mkP 1 true (exArgs false) false [x1] o in
  match g_par 40 exST (fun g => obytes_eqb (m_id (g_cells g 0)) (Some [7;2])) (ginit (exInit true)) [] [p0; p1 oB] with
  | Some st => true
  | None => false
  end &&
  match g_par 40 exST (fun g => obytes_eqb (m_id (g_cells g 0)) (Some [7;1])) (ginit (exInit true)) [] [p0; p1 oB] with
  | Some _ => false     (* no interleaving leaves the old id in the cell any more *)
  | None => true
  end &&
  match g_par 40 exST (fun _ => true) (ginit (exInit true)) [] [p0; p1 exObsA] with
  | Some _ => false
  | None => true
  end = true.
Proof. vm_compute. reflexivity. Qed.

Example C14_ex_prepare :
  let pA := RPrepared [1] (meta_of_cols (Some [7;1]) cA) in
  let pB := RPrepared [1] (meta_of_cols None cB) in
  let pX := RPrepared [2] (meta_of_cols None cA) in
  prepare_on_all [RDbError 8704; pA; pB] = Ok ([1], meta_of_cols (Some [7;1]) cA) /\
  prepare_on_all [pB; pA] = Ok ([1], meta_of_cols None cB) /\
  prepare_on_all [pA; RVoid; pX] = Err PE_IdsMismatch /\
  prepare_on_all [RDbError 8704; RVoid] = Err PE_AllFailed /\
  prep_accept [RDbError 8704; pA; pB] (PO_ok [1] cB) = true /\
  prep_accept [RDbError 8704; pA; pB] (PO_ok [1] cA) = true /\
  prep_accept [pA; pB] (PO_ok [1] [mkCol 9 TInt]) = false /\
  prep_accept [pA; pX] (PO_ok [1] cA) = false /\
  prep_accept [pA; pX] (PO_err PE_IdsMismatch) = true /\
  prep_accept [pA; pB] (PO_err PE_IdsMismatch) = false /\
  prep_accept [pA] (PO_err PE_AllFailed) = false /\
  prep_accept [RDbError 8704] (PO_err PE_AllFailed) = true /\
  session_prepare [RDbError 8704] [pB] = Ok ([1], meta_of_cols None cB) /\
  session_prep_accept [RDbError 8704] (Some [pB]) (PO_ok [1] cB) = true /\
  session_prep_accept [pA] (Some [pB]) (PO_ok [1] cB) = false /\
  session_prep_accept [RDbError 8704] None (PO_err PE_AllFailed) = false /\
  session_prep_accept [pA; pX] (Some [pA; pX]) (PO_err PE_IdsMismatch) = true.
Proof. vm_compute. repeat split; reflexivity. Qed.

(* mixed cluster: statement prepared through a node WITHOUT the extension (cell without id), executed
   on a node WITH it: empty id presented with skip_metadata, the node answers with id + columns, the
   cell takes them; then on the node without the extension (cached metadata off): no id, no skip,
   nothing stored; back on the extension node the id is presented *)
Example C14_ex_mixed_cluster :
  let nodes := fun nd => mkNode (Nat.eqb nd 0) (fun _ => true) (fun _ => 0) (fun _ => 0) in
  match srun exD exST 1 (sinit (exInit false) nodes)
          [SL_exec 0 0 (exArgs false); SL_serve 0 payA; SL_recv 0;
           SL_exec 1 1 (exArgs false); SL_serve 1 payA; SL_recv 1;
           SL_exec 2 0 (exArgs false)] with
  | Some st =>
      let g := s_g st in
      match k_sent (g_calls g 0), k_rcvd (g_calls g 0), k_sent (g_calls g 1), k_rcvd (g_calls g 1), k_sent (g_calls g 2) with
      | [(Q_execute f0, _)], [RRows b0], [(Q_execute f1, _)], [RRows b1], [(Q_execute f2, _)] =>
          obytes_eqb (f_rmid f0) (Some []) && f_skip f0 &&
          match rb_meta b0 with RM_full (Some i) _ => bytes_eqb i [7;1] | _ => false end &&
          obytes_eqb (f_rmid f1) None && negb (f_skip f1) &&
          match rb_meta b1 with RM_full None _ => true | _ => false end &&
          obytes_eqb (f_rmid f2) (Some [7;1]) && f_skip f2 &&
          (List.length (g_ann g 0) =? 1)%nat
      | _, _, _, _, _ => false
      end
  | None => false
  end = true.
Proof. vm_compute. reflexivity. Qed.

(* hypotheses of C14_ok_sound: a recorded re-preparation history accepted by [g_accept] from [ginit] *)
Example C14_ex_ok_sound_hyps :
  let u := RUnprepared (s_id (exST 0)) in
  let p := RPrepared (s_id (exST 0)) (meta_of_cols (Some [7;1]) cA) in
  let tr := [TO_exec 0 true (exArgs false)
               [exX (Q_execute exF1) u []; exX (Q_prepare (s_text (exST 0))) p []; exX (Q_execute exF1) exRowsA cA] exObsA] in
  match g_accept exST (ginit (exInit true)) 0 tr with
  | (_, V_ok _) => true
  | _ => false
  end = true /\
  match g_accept exST (ginit (exInit true)) 0
          [TO_exec 0 true (exArgs false) [exX (Q_execute exF1) u []; exX (Q_prepare 99) p []; exX (Q_execute exF1) exRowsA cA] exObsA] with
  | (_, V_ok _) => false
  | _ => true
  end = true.
Proof. vm_compute. split; reflexivity. Qed.

(* hypotheses of C14_announced_in_quadrant: a run without the extension that ends with rows decoded
   with the cached columns *)
Example C14_ex_quadrant_run :
  let a := exArgs true in
  let ls := [GL_exec 0 false a; GL_resp 0 (RRows (mkRows (RM_none 2) None 1 (p_cells payA)))] in
  Forall noext_label ls /\
  match grun exST (ginit (exInit false)) ls with
  | Some st => match k_st (g_calls st 0) with CS_done (O_rows u _ _ _) => cols_eqb (m_cols u) cA | _ => false end
  | None => false
  end = true.
Proof. split; [repeat constructor|vm_compute; reflexivity]. Qed.

(* anchors of the Prop-level definitions the statements use: one instance that holds, one that does not *)
Example C14_ex_anchor_noext_label :
  noext_label (GL_exec 0 false (exArgs true)) /\ ~ noext_label (GL_exec 0 true (exArgs true)) /\
  noext_label (GL_resp 0 (RPrepared [1] (meta_of_cols None cA))) /\
  ~ noext_label (GL_resp 0 (RPrepared [1] (meta_of_cols (Some [7]) cA))).
Proof. simpl. repeat split; try reflexivity; intros H; discriminate H. Qed.

Example C14_ex_anchor_carries :
  carries (RPrepared [1] (meta_of_cols None cA)) (meta_of_cols None cA) /\
  carries (RRows (mkRows (RM_full (Some [7]) cA) None 0 [])) (meta_of_cols (Some [7]) cA) /\
  ~ carries RVoid mock_empty /\
  ~ carries (RRows (mkRows (RM_full None cA) None 0 [])) (meta_of_cols None cA) /\
  ~ carries (RRows (mkRows (RM_none 2) None 0 [])) (meta_of_cols (Some [7]) cA).
Proof.
  repeat split.
  - left. eauto.
  - right. exists (mkRows (RM_full (Some [7]) cA) None 0 []), [7], cA. auto.
  - intros [[id H]|[b [i [c [H _]]]]]; discriminate H.
  - intros [[id H]|[b [i [c [H [H2 _]]]]]]; [discriminate H|]. inversion H; subst. discriminate H2.
  - intros [[id H]|[b [i [c [H [H2 _]]]]]]; [discriminate H|]. inversion H; subst. discriminate H2.
Qed.

Example C14_ex_anchor_call_ok_op_matches_cell_inv :
  call_ok exST idle_call /\
  ~ call_ok exST (mkC true (Some (exArgs false)) CS_idle [] []) /\
  ~ op_matches (ginit (exInit true)) 0 (TO_exec 0 true (exArgs false) [] exObsA) /\
  cell_inv (exInit true) (ginit (exInit true)) /\
  ~ cell_inv (exInit true) (mkG (fun _ => mock_empty) (fun _ => idle_call) (fun _ => [])).
Proof.
  split; [left; reflexivity|]. split; [unfold call_ok; simpl; intros H; inversion H|].
  split; [intros [H _]; discriminate H|]. split.
  - constructor; simpl; [reflexivity|intros s0 m0 []|intros c0 a0 q0 m0 H; discriminate H].
  - intros [H _ _]. specialize (H 0%nat). discriminate H.
Qed.

(* F25's class and the per-node bookkeeping of the nodes without the extension: accepting and
   rejecting instances *)
Example C14_ex_known_class_prep :
  known_class_prepb [cA; cB] false true cA = true /\      (* a node announced cB at preparation, decoded with cA *)
  known_class_prepb [cA; cA] false true cA = false /\     (* every node announced what was decoded with *)
  known_class_prepb [cA; []] false true cA = false /\     (* an announcement without columns does not count *)
  known_class_prepb [cA; cB] true true cA = false /\      (* extension on: never *)
  known_class_prepb [cA; cB] false false cA = false /\    (* cached metadata off: never *)
  ~ KnownClassPrep [cA; cA] false true cA /\ KnownClassPrep [cA; cB] false true cA.
Proof.
  repeat split; try reflexivity.
  - intros [_ [c' [[E|[E|[]]] [_ N]]]]; subst c'; now apply N.
  - exists cB. split; [right; left; reflexivity|]. split; discriminate.
Qed.

Example C14_ex_plain_node_check :
  let fne := mk_exec_frame (exST 0) false (exArgs true) (exInit false 0) in
  let rowsB := RRows (mkRows (RM_none 3) None 1 (p_cells payB)) in
  let obs (c : list col) := OB_rows c None None false in
  let u := RUnprepared (s_id (exST 0)) in
  let pB := RPrepared (s_id (exST 0)) (meta_of_cols None cB) in
  let an (c : list col) : nat -> nat -> list col * bool := fun _ _ => (c, false) in
  (* node 1 announced cB at preparation, its rows are decoded with the kept cA: second shape *)
  plain_node_check exST 1 (an cB) 0 [TO_exec 1 false (exArgs true) [exX (Q_execute fne) rowsB cB] (obs cA)] = [(0%nat, false)] /\
  (* it announced cA at preparation and cB in a re-preparation: first shape *)
  plain_node_check exST 1 (an cA) 0
    [TO_exec 1 false (exArgs true) [exX (Q_execute fne) u []; exX (Q_prepare (s_text (exST 0))) pB []; exX (Q_execute fne) rowsB cB] (obs cA)]
    = [(0%nat, true)] /\
  (* decoded with what the node announced: clean; a node WITH the extension is not looked at *)
  plain_node_check exST 1 (an cB) 0 [TO_exec 1 false (exArgs true) [exX (Q_execute fne) rowsB cB] (obs cB)] = [] /\
  plain_node_check exST 1 (an cB) 0 [TO_exec 1 true (exArgs true) [exX (Q_execute fne) rowsB cB] (obs cA)] = [] /\
  (* a node that never announced columns (late statement): nothing to compare with *)
  plain_node_check exST 1 (an []) 0 [TO_exec 1 false (exArgs true) [exX (Q_execute fne) rowsB cB] (obs cA)] = [].
Proof. vm_compute. repeat split; reflexivity. Qed.

(* ---------------------------------------------------------------------------------------- *)
(* Deepening round 3: the bookkeeping the driver uses to tag F17 / F25 rests on theorems.       *)
(* [stale_check] (uniform clusters) and [plain_node_check] (mixed clusters: per node without   *)
(* the extension) run over the recorded history.  For a history accepted by [g_accept]:        *)
(* ---------------------------------------------------------------------------------------- *)

(* a hit that [stale_check] tags "in class" is an execute without the extension, with cached metadata
   requested, and some call of the accepted run received a re-preparation PREPARED (statement's id)
   that announced columns, other ones than the rows were decoded with: [KnownClass] (F17) holds of that
   call in the final state of the run *)
Theorem C14_stale_check_tag_sound : forall ST ns init tr c' st' cp an0 i,
  g_accept ST (ginit init) O tr = (c', V_ok st') ->
  (forall s, an_reprep an0 s = false) ->
  In (i, Some true) (stale_check ST ns cp an0 O tr) ->
  exists nd a xs cols pg rows t,
    nth_error tr i = Some (TO_exec nd false a xs (OB_rows cols pg rows t)) /\
    KnownClass ST st' i cols.
Proof. exact stale_check_tag_sound. Qed.

(* every hit of [plain_node_check] is in the class of its shape: flag true = the node's latest
   announcement was a re-preparation recorded in the history => [KnownClass] (F17); flag false = it was
   the node's answer at preparation => [KnownClassPrep] (F25) for every list of preparation answers
   that contains this node's *)
Theorem C14_plain_node_check_sound : forall ST ns init tr c' st' prep i fr,
  g_accept ST (ginit init) O tr = (c', V_ok st') ->
  In (i, fr) (plain_node_check ST ns (fun nd s => (prep nd s, false)) O tr) ->
  exists nd a xs cols pg rows t,
    nth_error tr i = Some (TO_exec nd false a xs (OB_rows cols pg rows t)) /\
    if fr then KnownClass ST st' i cols
    else forall pa, In (prep nd (xa_stmt a)) pa -> KnownClassPrep pa false (xa_use_cached a) cols.
Proof. exact plain_node_check_sound. Qed.

(* [plain_node_check] IS its positional specification, both directions (any history, accepted or not):
   (i, fr) is reported iff operation i is an execute on a node without the extension whose last
   answer came without metadata as requested and was decoded with other columns than the non-empty
   ones that node most recently announced ([pn_fold]: its answer at preparation, then its
   re-preparations, over everything recorded up to and including operation i), fr telling which.
   So a history with no hit satisfies sentence 3 per node without the extension, and every hit is a
   genuine decode-with-other-than-announced-columns event. *)
Theorem C14_plain_node_check_spec : forall ST ns tr an i0 i fr,
  In (i, fr) (plain_node_check ST ns an i0 tr) <-> exists k, i = (i0 + k)%nat /\ pn_hit ST ns an tr k fr.
Proof. exact plain_node_check_spec. Qed.

(* hypotheses of the two soundness theorems: an accepted history with a tagged hit *)
Example C14_ex_tag_sound_hyps :
  let a := exArgs true in
  let fne := mk_exec_frame (exST 0) false a (exInit false 0) in
  let u := RUnprepared (s_id (exST 0)) in
  let pB := RPrepared (s_id (exST 0)) (meta_of_cols None cB) in
  let rowsB := RRows (mkRows (RM_none 3) None 1 (p_cells payB)) in
  let out := OB_rows cA None (Some [[Some [0;0;0;2]; Some [104]]]) true in
  let tr := [TO_exec 0 false a [exX (Q_execute fne) u []; exX (Q_prepare (s_text (exST 0))) pB []; exX (Q_execute fne) rowsB cB] out] in
  let an0 := mkAnn (fun _ => cA) (fun _ => None) (fun _ => false) in
  match g_accept exST (ginit (exInit false)) 0 tr with (_, V_ok _) => true | _ => false end = true /\
  stale_check exST 1 true an0 0 tr = [(0%nat, Some true)] /\
  plain_node_check exST 1 (fun _ _ => (cA, false)) 0 tr = [(0%nat, true)] /\
  plain_node_check exST 1 (fun _ _ => (cB, false)) 0
    [TO_exec 0 false a [exX (Q_execute fne) rowsB cB] out] = [(0%nat, false)] /\
  match g_accept exST (ginit (exInit false)) 0 [TO_exec 0 false a [exX (Q_execute fne) rowsB cB] out] with
  | (_, V_ok _) => true | _ => false end = true.
Proof. vm_compute. repeat split; reflexivity. Qed.

(* ---------------------------------------------------------------------------------- *)
(* Deepening round 4 (proof-only): characterising theorems for extracted functions the  *)
(* driver uses for a verdict and that had Examples only (Proofs/C14_round4.v)           *)
(* ---------------------------------------------------------------------------------- *)

(* the caller's raw view (ColumnIterator; [obs_of_outcome], [normal_result]): chunk_rows yields
   [rows] iff these are nrows rows of ncols cells each and the cells start with them, in order *)
Theorem C14_chunk_rows_spec : forall ncols nrows cells rows,
  chunk_rows ncols nrows cells = Some rows <->
  List.length rows = nrows /\ Forall (fun r => List.length r = ncols) rows /\
  exists rest, cells = concat rows ++ rest.
Proof. exact chunk_rows_spec. Qed.

(* ... and it yields something iff there are at least ncols * nrows cells *)
Theorem C14_chunk_rows_some_iff : forall ncols nrows cells,
  (exists rows, chunk_rows ncols nrows cells = Some rows) <-> (ncols * nrows <= List.length cells)%nat.
Proof. exact chunk_rows_some_iff. Qed.

(* the caller's typed view (Row): decode_rows yields [rows] iff the raw view is [rows] without the
   column tags, every typed row is tagged with exactly [cols], and every cell fits its column type *)
Theorem C14_decode_rows_spec : forall cols nrows cells rows,
  decode_rows cols nrows cells = Some rows <->
  chunk_rows (List.length cols) nrows cells = Some (map (map snd) rows) /\
  Forall (fun row => map fst row = cols /\ row_fits cols (map snd row)) rows.
Proof. exact decode_rows_spec. Qed.

(* [typed_ok] of obs_of_outcome: typed decoding succeeds iff the raw view exists and every raw row
   fits the columns *)
Theorem C14_typed_view_iff : forall cols nrows cells,
  (exists rows, decode_rows cols nrows cells = Some rows) <->
  (exists raw, chunk_rows (List.length cols) nrows cells = Some raw /\ Forall (row_fits cols) raw).
Proof. exact decode_rows_typed_iff. Qed.

(* the presented-id check of the bookkeeping: when a cell value m holds what the bookkeeping says
   was announced last (columns, id, count consistent), a frame passes present_ok iff its
   result_metadata_id and skip_metadata are the ones calculate_cached_metadata_params computes
   from m — in particular the model's own frame built from m passes *)
Theorem C14_present_ok_iff : forall an ext a f m,
  cell_agrees an (xa_stmt a) m ->
  (present_ok an ext a f = true <->
   f_rmid f = cp_rmid ext (xa_use_cached a) m /\ f_skip f = cp_skip ext (xa_use_cached a) m).
Proof. exact present_ok_iff_params. Qed.

Theorem C14_present_ok_model_frame : forall an st ext a m,
  cell_agrees an (xa_stmt a) m -> present_ok an ext a (mk_exec_frame st ext a m) = true.
Proof. exact present_ok_model_frame. Qed.

(* the property predicate evaluated on a mismatching EXECUTE operation is exactly its Prop reading
   [PropExec]: one exchange, not UNPREPARED, normal result | UNPREPARED, PREPARE of the text, not
   answered PREPARED(same id), an error and nothing resent | UNPREPARED, PREPARE, PREPARED(same id),
   EXECUTE with the same id / values / consistency / serial consistency / page size / paging state /
   timestamp, normal result of the last answer *)
Theorem C14_prop_exec_ok_iff : forall ST fe a xs out,
  prop_exec_ok ST fe a xs out = true <-> PropExec ST fe a xs out.
Proof. exact prop_exec_ok_iff. Qed.

(* non-vacuity: a cell that agrees with a non-trivial bookkeeping state; typed rows of two columns;
   a raw view that exists while the typed one does not (a 3-byte int) *)
Example C14_ex_round4 :
  let an := mkAnn (fun _ => cA) (fun _ => Some [7;1]) (fun _ => false) in
  let cells := [Some [0;0;0;1]; Some [104;105]; None; Some [111]] in
  cell_agrees an 0 (meta_of_cols (Some [7;1]) cA) /\
  cell_agrees (mkAnn (fun _ => []) (fun _ => None) (fun _ => false)) 0 mock_empty /\
  List.length cA = 2%nat /\
  (exists rows, decode_rows cA 2 cells = Some rows /\ List.length rows = 2%nat) /\
  chunk_rows 2 2 cells = Some [[Some [0;0;0;1]; Some [104;105]]; [None; Some [111]]] /\
  chunk_rows 2 2 [Some [0;0;1]; Some [104]; None; None] <> None /\
  decode_rows cA 2 [Some [0;0;1]; Some [104]; None; None] = None /\
  chunk_rows 2 3 cells = None.
Proof.
  cbv zeta. repeat split; try (vm_compute; congruence).
  vm_compute. eexists. split; reflexivity.
Qed.

Print Assumptions C14_transparent.
Print Assumptions C14_direct.
Print Assumptions C14_id_changed.
Print Assumptions C14_batch_resend.
Print Assumptions C14_batch_id_changed.
Print Assumptions C14_decode_meta.
Print Assumptions C14_cell_announced.
Print Assumptions C14_next_id.
Print Assumptions C14_frame_presents_id.
Print Assumptions C14_never_skip_with_empty.
Print Assumptions C14_faithful.
Print Assumptions C14_spec_is_generic.
Print Assumptions C14_accept_sound.
Print Assumptions C14_spec_accept_sound.
Print Assumptions C14_evicted_recovers.
Print Assumptions C14_faithful_refuted.
Print Assumptions C14_announced_in_quadrant.
Print Assumptions C14_known_classb_sound.
Print Assumptions C14_quadrant_dec.
Print Assumptions C14_call_log.
Print Assumptions C14_par_sound.
Print Assumptions C14_store_announced.
Print Assumptions C14_cell_follows_rows.
Print Assumptions C14_spec_accept_reach.
Print Assumptions C14_accept_requests.
Print Assumptions C14_ok_sound.
Print Assumptions C14_prepare_on_all.
Print Assumptions C14_prep_accept_sound.
Print Assumptions C14_batch_loop_unbounded.
Print Assumptions C14_session_prep_accept_sound.
Print Assumptions C14_cell_follows_reprepare.
Print Assumptions C14_known_class_prepb_sound.
Print Assumptions C14_stale_check_tag_sound.
Print Assumptions C14_plain_node_check_sound.
Print Assumptions C14_plain_node_check_spec.
Print Assumptions C14_chunk_rows_spec.
Print Assumptions C14_chunk_rows_some_iff.
Print Assumptions C14_decode_rows_spec.
Print Assumptions C14_typed_view_iff.
Print Assumptions C14_present_ok_iff.
Print Assumptions C14_present_ok_model_frame.
Print Assumptions C14_prop_exec_ok_iff.
