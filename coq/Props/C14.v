(* Property C14 — statements only.  Every theorem is closed by [exact] of a lemma from
   Proofs/Reprepare_proofs.v; the statements are pinned again in /verif/pins/C14.v.

   Reading guide.  [greach ST init st]: st is reachable in the generic interleaving system — any
   number of concurrent EXECUTE / BATCH calls on any connections (with or without the
   metadata-id extension), the server answering each request with an ARBITRARY response, in any
   order (labels GL_exec / GL_batch / GL_resp / GL_tick).  [g_calls st c] is call c with its
   ghost log: [k_sent] = requests sent, newest first, each EXECUTE paired with the snapshot of
   the statement's shared cell it was built from; [k_rcvd] = responses received, newest first.
   [srun D ST ns (sinit init nodes) ls = Some st]: st is reached by the history ls of the
   specification system — nodes are state machines over {prepared, evicted, schema-changed,
   id-changing} events answering EXECUTE / BATCH / PREPARE as the protocol documents say. *)
From SV Require Import Base.Prelude Base.Bytes Model.Reprepare Proofs.Reprepare_proofs.
Open Scope N_scope.

(* UNPREPARED, then a PREPARED with the same id, then r: the call sent EXECUTE, PREPARE of the
   statement's text, EXECUTE again; the second EXECUTE has the same statement id, values,
   consistency, serial consistency, page size, paging state and timestamp; the caller gets what
   [outcome_of] makes of r — the function that also maps the answer to a FIRST execute
   (C14_direct) to the caller's result *)
Theorem C14_transparent : forall ST init st c a i pm r,
  greach ST init st ->
  let k := g_calls st c in
  let s := ST (xa_stmt a) in
  k_x k = Some a ->
  k_rcvd k = [r; RPrepared (s_id s) pm; RUnprepared i] ->
  exists m1 m2,
    let f1 := mk_exec_frame s (k_ext k) a m1 in
    let f2 := mk_exec_frame s (k_ext k) a m2 in
    k_sent k = [(Q_execute f2, Some m2); (Q_prepare (s_text s), None); (Q_execute f1, Some m1)] /\
    (f_id f2 = s_id s /\ f_id f2 = f_id f1 /\ f_values f2 = f_values f1 /\ f_cons f2 = f_cons f1 /\
     f_serial f2 = f_serial f1 /\ f_page_size f2 = f_page_size f1 /\ f_paging f2 = f_paging f1 /\
     f_ts f2 = f_ts f1) /\
    k_st k = CS_done (outcome_of (k_ext k) (cp_cached (k_ext k) (xa_use_cached a) m2) r).
Proof. exact transparent. Qed.

Theorem C14_direct : forall ST init st c a r,
  greach ST init st ->
  let k := g_calls st c in
  k_x k = Some a -> k_rcvd k = [r] -> is_unprepared r = false ->
  exists m, k_sent k = [(Q_execute (mk_exec_frame (ST (xa_stmt a)) (k_ext k) a m), Some m)] /\
            k_st k = CS_done (outcome_of (k_ext k) (cp_cached (k_ext k) (xa_use_cached a) m) r).
Proof. exact direct. Qed.

(* re-preparation yields another id: RepreparedIdChanged, and in every continuation of the
   history the call has sent exactly EXECUTE, PREPARE — nothing is executed under the other id *)
Theorem C14_id_changed : forall ST init st c a i id pm,
  greach ST init st ->
  let k := g_calls st c in
  let s := ST (xa_stmt a) in
  k_x k = Some a ->
  k_rcvd k = [RPrepared id pm; RUnprepared i] -> id <> s_id s ->
  k_st k = CS_done (O_err E_IdChanged) /\
  forall ls st', grun ST st ls = Some st' ->
    exists m, k_sent (g_calls st' c) =
      [(Q_prepare (s_text s), None); (Q_execute (mk_exec_frame s (k_ext k) a m), Some m)].
Proof. exact id_changed. Qed.

(* the batch loop: every BATCH frame of a call is the same frame; every PREPARE is for a
   statement of the batch found by the id of an UNPREPARED answer *)
Theorem C14_batch_resend : forall ST init st c,
  greach ST init st ->
  let k := g_calls st c in
  k_x k = None -> k_st k <> CS_idle ->
  exists b, forall q om, In (q, om) (k_sent k) ->
    om = None /\ (q = Q_batch (mk_batch_frame ST b) \/
                  exists p id, q = Q_prepare (s_text (ST p)) /\ find_prepared ST (ba_items b) id = Some p).
Proof. exact batch_resend. Qed.

Theorem C14_batch_id_changed : forall ST init st c id pm rest,
  greach ST init st ->
  let k := g_calls st c in
  k_x k = None -> k_rcvd k = RPrepared id pm :: rest ->
  exists b,
  (exists p sent', k_st k = CS_batch b /\ id = s_id (ST p) /\
                   k_sent k = (Q_batch (mk_batch_frame ST b), None) :: sent') \/
  (k_st k = CS_done (O_err E_IdChanged) /\
   exists p rest', id <> s_id (ST p) /\
     forall ls st', grun ST st ls = Some st' ->
       k_sent (g_calls st' c) = (Q_prepare (s_text (ST p)), None) :: rest') \/
  k_st k = CS_done O_norows.
Proof. exact batch_id_changed. Qed.

(* rows are decoded with the metadata sent in that response; or, if the response has none:
   when the request asked to skip it, with the snapshot m the request was built from — a value
   the cell had (the initial one or a later stored announcement) —, otherwise with no columns *)
Theorem C14_decode_meta : forall ST init st c a used pg nr cl,
  greach ST init st ->
  let k := g_calls st c in
  let s := xa_stmt a in
  k_x k = Some a -> k_st k = CS_done (O_rows used pg nr cl) ->
  exists m b rest_sent rest_rcvd,
    let f := mk_exec_frame (ST s) (k_ext k) a m in
    k_sent k = (Q_execute f, Some m) :: rest_sent /\ k_rcvd k = RRows b :: rest_rcvd /\
    pg = rb_paging b /\ nr = rb_nrows b /\ cl = rb_cells b /\
    (m = init s \/ In m (g_ann st s)) /\
    match rb_meta b with
    | RM_full nid cols => used = meta_of_cols nid cols
    | RM_none _ => if f_skip f then used = m /\ m_count m <> 0 else used = mock_empty
    end.
Proof. exact decode_meta. Qed.

(* the cell of a statement is always the most recently stored value; every value ever stored
   carries a metadata id and was announced — it is the statement's initial metadata or was carried,
   together with that id, by a PREPARED or a Rows response received by a call about the statement;
   every snapshot an EXECUTE was built from is such a value *)
Theorem C14_cell_announced : forall ST init st,
  greach ST init st -> cell_inv init st.
Proof. exact reach_cell_inv. Qed.

(* every EXECUTE that is sent is built from the cell as it is at that moment (= the most recently
   stored announcement): in particular it presents that metadata's id *)
Theorem C14_next_id : forall ST init st l st' c f om,
  greach ST init st -> gstep ST st l = Some st' ->
  k_sent (g_calls st' c) = (Q_execute f, om) :: k_sent (g_calls st c) ->
  exists a, k_x (g_calls st' c) = Some a /\
    let s := xa_stmt a in
    let cur := hd (init s) (g_ann st' s) in
    g_cells st' s = cur /\ om = Some cur /\
    f = mk_exec_frame (ST s) (k_ext (g_calls st' c)) a cur.
Proof. exact next_id. Qed.

Theorem C14_frame_presents_id : forall st a m y,
  m_count m <> 0 -> m_id m = Some y ->
  f_rmid (mk_exec_frame st true a m) = Some y /\ f_skip (mk_exec_frame st true a m) = true.
Proof. exact frame_presents_id. Qed.

(* skip_metadata is never requested while the metadata the frame was built from has 0 columns;
   it is requested exactly when a cached metadata is handed to the response parser *)
Theorem C14_never_skip_with_empty : forall ST init st c f om,
  greach ST init st ->
  In (Q_execute f, om) (k_sent (g_calls st c)) ->
  exists a m, k_x (g_calls st c) = Some a /\ om = Some m /\
              f = mk_exec_frame (ST (xa_stmt a)) (k_ext (g_calls st c)) a m /\
              (f_skip f = true -> m_count m <> 0 /\
                                  cp_cached (k_ext (g_calls st c)) (xa_use_cached a) m = Some m) /\
              (f_skip f = false -> cp_cached (k_ext (g_calls st c)) (xa_use_cached a) m = None).
Proof. exact never_skip_with_empty. Qed.

(* End to end, against the specification nodes: for ALL histories (any number of nodes with or
   without the extension, any events, any calls, any interleaving of sends, node answers and
   receipts), a call made on a connection with the extension, or with use_cached_result_metadata
   off, that returns rows returns them decoded with the columns the answering node encoded them
   with, and returns exactly the payload that node sent.  Premises: the metadata id determines
   the columns, ids are not empty, distinct statements have distinct ids and texts, the initial
   metadata of each statement is what some node announced. *)
Theorem C14_faithful : forall (D : schema) (ST : nat -> stmt) (ns : nat) (init : nat -> meta),
  (forall s v v', mid_of D s v = mid_of D s v' -> cols_of D s v = cols_of D s v') ->
  (forall s v, mid_of D s v <> []) ->
  (forall s s', s_id (ST s) = s_id (ST s') -> s = s') ->
  (forall s s', s_text (ST s) = s_text (ST s') -> s = s') ->
  (forall s, meta_ok D s (init s)) ->
  forall nodes ls st c a u pg nr cl,
  srun D ST ns (sinit init nodes) ls = Some st ->
  let k := g_calls (s_g st) c in
  k_x k = Some a -> k_st k = CS_done (O_rows u pg nr cl) ->
  (k_ext k = true \/ xa_use_cached a = false) ->
  exists enc p, s_enc st c = Some (enc, p) /\ m_cols u = enc /\
                pg = p_paging p /\ nr = p_nrows p /\ cl = p_cells p.
Proof. exact faithful. Qed.

(* the specification system is an instance of the generic one: C14_transparent … apply to it *)
Theorem C14_spec_is_generic : forall (D : schema) (ST : nat -> stmt) (ns : nat) (init : nat -> meta),
  (forall s v v', mid_of D s v = mid_of D s v' -> cols_of D s v = cols_of D s v') ->
  (forall s v, mid_of D s v <> []) ->
  (forall s s', s_id (ST s) = s_id (ST s') -> s = s') ->
  (forall s s', s_text (ST s) = s_text (ST s') -> s = s') ->
  (forall s, meta_ok D s (init s)) ->
  forall nodes ls st,
  srun D ST ns (sinit init nodes) ls = Some st -> greach ST init (s_g st).
Proof. exact srun_greach. Qed.

Print Assumptions C14_transparent.
Print Assumptions C14_direct.
Print Assumptions C14_id_changed.
Print Assumptions C14_batch_resend.
Print Assumptions C14_batch_id_changed.
Print Assumptions C14_decode_meta.
Print Assumptions C14_cell_announced.
Print Assumptions C14_next_id.
Print Assumptions C14_frame_presents_id.
Print Assumptions C14_never_skip_with_empty.
Print Assumptions C14_faithful.
Print Assumptions C14_spec_is_generic.
