(* Property C13 — statements only.  Every theorem is closed by [exact] of a lemma from
   Proofs/Spec_proofs.v; the statements are pinned again in /verif/pins/C13.v. *)
From SV Require Import Base.Prelude Model.Spec Proofs.Spec_proofs.
From SV Require Model.Retry Model.Fiber Model.E2EAttempts Model.E2ESpec Proofs.E2EAttempts_proofs Proofs.E2ESpec_proofs
  Proofs.E2EResult_proofs.
Open Scope nat_scope.

(* DEFINITIONAL / regression anchor: can_be_ignored equals spec_transient, which is the same table written
   positively (the property text does not fix the ignorable class).  Also definitional glue below:
   C13_gate_cases, C13_e2e_gate_model, C13_e2e_open. *)
Theorem C13_ignorable_table : forall r, can_be_ignored r = is_ignorable (Some r).
Proof. exact can_be_ignored_spec. Qed.

(* for EVERY schedule of any length: at most 1 + max executions are started, the running ones are
   distinct started ones, every started one is running or completed, and while no execution has
   reported an exhausted plan, started + retries_remaining = 1 + max *)
Theorem C13_bound : forall max ls s, run (init max) ls = Some s ->
  started s <= 1 + max /\ NoDup (running s) /\ (forall f, In f (running s) -> f < started s) /\
  List.length (completions ls) + List.length (running s) = started s /\
  (existsb is_exhausted (completions ls) = false -> started s + retries s = 1 + max).
Proof. exact execute_bound. Qed.

(* for EVERY schedule: what execute has returned (or that it has not returned yet) is exactly
   what the property text prescribes from the completion order: the first Success/Definitive;
   otherwise, once every started execution has completed and none may still be started
   (1 + max started, or one reported an exhausted plan), the last Ignorable, or EmptyPlan if
   there was none; otherwise nothing yet *)
Theorem C13_result : forall max ls s, run (init max) ls = Some s ->
  returned s = spec_returned max (started s) (completions ls).
Proof. exact execute_result. Qed.

(* every reachable state that has not returned has an enabled label; with nothing running the
   timer is armed and a retry is left (so select! never waits on nothing, and never finds all
   of its branches terminated) *)
Theorem C13_no_deadlock : forall max ls s, run (init max) ls = Some s -> returned s = None ->
  (running s = [] -> sleep s = Armed /\ retries s > 0) /\
  exists l s', step s l = Some s'.
Proof. exact execute_no_deadlock. Qed.

(* the measure 3*retries + 2*|running| + [sleep armed] strictly decreases along every step *)
Theorem C13_measure : forall s l s', step s l = Some s' -> measure s' < measure s.
Proof. exact step_measure. Qed.

(* hence every schedule is finite ... *)
Theorem C13_terminates : forall max ls s, run (init max) ls = Some s ->
  List.length ls <= 3 * max + 3.
Proof. exact execute_terminates. Qed.

(* ... and a schedule that cannot be extended has returned *)
Theorem C13_always_returns : forall max ls s, run (init max) ls = Some s ->
  (forall l, step s l = None) -> returned s <> None.
Proof. exact execute_always_returns. Qed.

Theorem C13_can_return : forall max ls s, run (init max) ls = Some s ->
  exists ls' s' r, run s ls' = Some s' /\ returned s' = Some r.
Proof. exact execute_can_return. Qed.

(* ---- virtual time: what the correspondence check runs ------------------------------------- *)

(* every observation the timed model can produce (any tie resolution) satisfies the property,
   stated on observable quantities only: with n = number of executions started, finish k =
   start k + duration k:  1 <= n <= 1 + max, and
   EITHER some started execution j has a real answer (Success/Definitive), the call returns it at
          finish j, and no started execution with a real answer finishes earlier,
   OR     no started execution has a real answer, the call returns exactly when the last one
          finishes, none may still be started (n = 1 + max or one reported an exhausted plan),
          and the value is EmptyPlan if none failed ignorably, else the ignorable error of an
          execution that finished last among those *)
Theorem C13_accept_sound : forall max interval fs o,
  accept max interval fs o = true -> PropObs max fs (o_starts o) (o_res o) (o_end o).
Proof. exact accept_sound. Qed.

(* the boolean predicate evaluated by the driver on a mismatch is that proposition *)
Theorem C13_prop_obs_spec : forall max fs sts r e,
  prop_obs max fs (mkObs sts r e) = true <-> PropObs max fs sts r e.
Proof. exact prop_obs_spec. Qed.

(* accepted observations are exactly the model's; each is the final state of a schedule of the
   interleaving semantics above (so C13_bound/result/... apply to it) *)
Theorem C13_accept_schedule : forall max interval fs o,
  accept max interval fs o = true ->
  exists ls s, run (init max) ls = Some s /\ returned s = Some (o_res o) /\
               started s = List.length (o_starts o).
Proof. exact accept_schedule. Qed.

(* for EVERY tie-breaking oracle the timed model returns (it never waits on nothing and never
   runs out of fuel), and what it returns is accepted *)
Theorem C13_accept_complete : forall max interval fs oracle,
  exists o, timed_run (fuel_for max) oracle interval fs (tinit max interval) = Some o /\
            accept max interval fs o = true.
Proof. exact accept_complete. Qed.

(* ---- execution.rs: the idempotence gate and the shared plan ---------------------------------- *)

(* the speculative arm is taken only for an idempotent request with metrics and a policy *)
Theorem C13_gate_cases : forall c,
  gate c = None <->
  (is_idempotent c = false \/ metrics_and_policy c = None \/ metrics_and_policy c = Some None).
Proof. exact gate_cases. Qed.

(* gate closed (in particular: not idempotent), for EVERY schedule: exactly one fiber ever, all
   targets are drawn by it, at most one target is in flight at any time, and the call returns
   that fiber's result (EmptyPlan if it found the plan empty) *)
Theorem C13_gate : forall c pl bls b, gate c = None -> brun (binit c pl) bls = Some b ->
  started (core b) = 1 /\ (forall f, In f (running (core b)) -> f = 0) /\
  (forall d, In d (draws b) -> fst d = 0) /\
  List.length (in_flight b) <= 1 /\
  returned (core b) = spec_returned 0 1 (completions (proj bls)).
Proof. exact gate_closed. Qed.

(* gate open: the select loop inside is a schedule of `execute` (so every theorem above applies
   to it), and at most 1 + max targets are in flight *)
Theorem C13_gate_open : forall c pl bls b max, gate c = Some max -> brun (binit c pl) bls = Some b ->
  run (init max) (proj bls) = Some (core b) /\ List.length (in_flight b) <= 1 + max.
Proof. exact gate_open. Qed.

(* one shared iterator: the targets handed out so far, in order, followed by what is left, are
   the plan - nothing is handed out twice, nothing is skipped *)
Theorem C13_plan_conservation : forall c pl bls b, brun (binit c pl) bls = Some b ->
  pl = rev (drawn (draws b)) ++ plan b.
Proof. exact plan_conservation. Qed.

(* hence, for a duplicate-free plan, no target is handed to two fibers (nor twice to one), and
   the targets in flight at any moment are pairwise different *)
Theorem C13_distinct_targets : forall c pl bls b, NoDup pl -> brun (binit c pl) bls = Some b ->
  NoDup (drawn (draws b)) /\
  (forall f1 f2 t, In (f1, Some t) (draws b) -> In (f2, Some t) (draws b) -> f1 = f2) /\
  NoDup (in_flight b).
Proof. exact distinct_targets. Qed.

(* "The only case where None is returned is when execution plan was exhausted": a fiber can
   yield None only when the shared plan is empty, so giving up further executions loses no target *)
Theorem C13_exhausted_sound : forall c pl bls b f b', brun (binit c pl) bls = Some b ->
  bstep b (BComplete f None) = Some b' -> plan b = [] /\ plan b' = [].
Proof. exact exhausted_sound. Qed.

(* ---- probe plans in virtual time (second tie) -------------------------------------------------- *)

(* the trace-guided search of the driver decides membership in the model's set of traces *)
Theorem C13_probe_guided : forall c interval tg o,
  baccept_guided c interval tg o = baccept c interval tg o.
Proof. exact baccept_guided_eq. Qed.

(* acceptor soundness: every accepted trace satisfies the property predicate - its attempts begin
   on the plan's targets in plan order (none twice, none skipped), every end closes an open attempt
   on that target, and at no point of the observed event order are more attempts open than allowed:
   1 if the gate is closed (not idempotent / no policy / no metrics), 1 + max otherwise *)
Theorem C13_probe_accept_sound : forall c interval tg o,
  baccept_guided c interval tg o = true -> prop_trace c tg o = true.
Proof. exact probe_accept_sound. Qed.

(* every accepted trace is the trace of a schedule of the gate / shared-plan semantics above (so
   C13_gate, C13_gate_open, C13_distinct_targets apply to the run behind it) *)
Theorem C13_probe_accept_schedule : forall c interval tg o,
  baccept_guided c interval tg o = true ->
  (exists bls b, brun (binit c (map fst tg)) bls = Some b /\ returned (core b) = Some (bo_res o) /\
                 begins (bo_events o) = rev (drawn (draws b))) /\
  is_prefix (begins (bo_events o)) (map fst tg) = true.
Proof. exact probe_accept_schedule. Qed.

(* for EVERY tie-breaking oracle the probe-plan model returns (no stuck state, enough fuel) and
   what it returns is accepted *)
Theorem C13_probe_accept_complete : forall c interval tg oracle,
  exists o, btimed_run (bfuel c tg) oracle interval tg (btinit c interval tg) = Some o /\
            baccept_guided c interval tg o = true.
Proof. exact probe_accept_complete. Qed.

(* non-vacuity: concrete schedules *)
Definition ex_ign : rres := Err (LastAttemptError UnableToAllocStreamId).
Definition ex_def : rres := Err (LastAttemptError (DbError Invalid)).
Example C13_ex_schedule :
  (* two timer ticks, the second execution fails ignorably, the first one answers *)
  option_map returned (run (init 2) [Timer; Timer; Complete 1 (Some ex_ign); Complete 0 (Some (Ok 7%N))])
    = Some (Some (Ok 7%N)) /\
  (* max = 1: both fail ignorably, the last error is returned only after the second completes *)
  option_map returned (run (init 1) [Timer; Complete 1 (Some ex_ign)]) = Some None /\
  option_map returned (run (init 1) [Timer; Complete 1 (Some ex_ign); Complete 0 (Some (Err ConnectionPoolError))])
    = Some (Some (Err ConnectionPoolError)) /\
  (* an exhausted plan stops further executions; with nothing remembered the answer is EmptyPlan *)
  option_map returned (run (init 3) [Complete 0 None]) = Some (Some (Err EmptyPlan)) /\
  (* a definitive error wins over a later success *)
  option_map returned (run (init 1) [Timer; Complete 0 (Some ex_def)]) = Some (Some ex_def) /\
  (* nothing is enabled after the return; a fiber that is not running cannot complete *)
  run (init 1) [Timer; Complete 0 (Some ex_def); Complete 1 (Some (Ok 1%N))] = None /\
  run (init 1) [Complete 1 None] = None.
Proof. repeat split; vm_compute; reflexivity. Qed.

Example C13_ex_timed :
  (* the three paused-clock tests of the repository, as model runs *)
  map o_end (timed_runs 5 1%N [(5%N, Some ex_ign); (5%N, Some ex_ign); (5%N, Some ex_ign); (5%N, Some ex_ign)]) = [8%N; 8%N] /\
  map o_end (timed_runs 5 6%N [(5%N, Some ex_ign); (5%N, Some ex_ign); (5%N, Some ex_ign); (5%N, Some ex_ign)]) = [24%N] /\
  (* a tie between the timer and a real answer: with the timer first one more execution starts *)
  timed_runs 1 2%N [(2%N, Some (Ok 1%N)); (3%N, Some (Ok 2%N))]
    = [mkObs [0%N; 2%N] (Ok 1%N) 2%N; mkObs [0%N] (Ok 1%N) 2%N] /\
  accept 1 2%N [(2%N, Some (Ok 1%N)); (3%N, Some (Ok 2%N))] (mkObs [0%N] (Ok 1%N) 2%N) = true /\
  accept 1 2%N [(2%N, Some (Ok 1%N)); (3%N, Some (Ok 2%N))] (mkObs [0%N; 2%N] (Ok 2%N) 5%N) = false /\
  prop_obs 1 [(2%N, Some (Ok 1%N)); (3%N, Some (Ok 2%N))] (mkObs [0%N; 2%N] (Ok 2%N) 5%N) = false.
Proof. repeat split; vm_compute; reflexivity. Qed.

Definition ex_cfg (idem : bool) : config := mkConfig idem (Some (Some 2)).
Example C13_ex_plan :
  gate (ex_cfg true) = Some 2 /\ gate (ex_cfg false) = None /\ gate (mkConfig true (Some None)) = None /\
  (* idempotent: two fibers draw different targets of the shared plan and both are in flight *)
  option_map in_flight (brun (binit (ex_cfg true) [10%N; 20%N; 30%N]) [BDraw 0; BTimer; BDraw 1]) = Some [10%N; 20%N] /\
  option_map plan (brun (binit (ex_cfg true) [10%N; 20%N; 30%N]) [BDraw 0; BTimer; BDraw 1]) = Some [30%N] /\
  (* not idempotent: no timer, the single fiber walks the plan, one target in flight at a time *)
  brun (binit (ex_cfg false) [10%N; 20%N]) [BDraw 0; BTimer] = None /\
  option_map in_flight (brun (binit (ex_cfg false) [10%N; 20%N]) [BDraw 0; BDraw 0]) = Some [20%N] /\
  (* a fiber that was handed nothing yields None, and only then *)
  option_map (fun b => returned (core b))
    (brun (binit (ex_cfg true) []) [BDraw 0; BComplete 0 None]) = Some (Some (Err EmptyPlan)) /\
  brun (binit (ex_cfg true) [10%N]) [BDraw 0; BComplete 0 None] = None /\
  brun (binit (ex_cfg true) [10%N]) [BComplete 0 (Some (Ok 1%N))] = None.
Proof. repeat split; vm_compute; reflexivity. Qed.

Example C13_ex_probe :
  (* idempotent, max 2, interval 2, four targets: three attempts overlap *)
  map bo_end (btimed_runs (ex_cfg true) 2%N [(1%N, 5%N); (2%N, 5%N); (3%N, 5%N); (4%N, 1%N)]) = [9%N; 9%N] /\
  (* not idempotent: the same plan is walked by one fiber, one attempt at a time *)
  btimed_runs (ex_cfg false) 2%N [(1%N, 5%N); (2%N, 1%N)]
    = [mkBObs [EvBegin 1%N 0%N; EvEnd 1%N 5%N; EvBegin 2%N 5%N; EvEnd 2%N 6%N] (Err ConnectionPoolError) 6%N] /\
  prop_trace (ex_cfg false) [(1%N, 5%N); (2%N, 1%N)]
    (mkBObs [EvBegin 1%N 0%N; EvBegin 2%N 2%N; EvEnd 1%N 5%N; EvEnd 2%N 3%N] (Err ConnectionPoolError) 5%N) = false /\
  prop_trace (ex_cfg true) [(1%N, 5%N); (2%N, 1%N)]
    (mkBObs [EvBegin 1%N 0%N; EvBegin 2%N 2%N; EvEnd 2%N 3%N; EvEnd 1%N 5%N] (Err ConnectionPoolError) 5%N) = true /\
  prop_trace (ex_cfg true) [(1%N, 5%N); (2%N, 1%N)]
    (mkBObs [EvBegin 1%N 0%N; EvBegin 1%N 2%N; EvEnd 1%N 3%N; EvEnd 1%N 5%N] (Err ConnectionPoolError) 5%N) = false /\
  baccept_guided (ex_cfg true) 2%N [(1%N, 5%N); (2%N, 1%N)]
    (mkBObs [EvBegin 1%N 0%N; EvBegin 2%N 2%N; EvEnd 2%N 3%N; EvEnd 1%N 5%N] (Err ConnectionPoolError) 5%N) = true.
Proof. repeat split; vm_compute; reflexivity. Qed.

(* ---- end to end: a real Session against a mock cluster (Model/E2EAttempts.v, Model/E2ESpec.v) -----
   [frs]: the request frames of ONE logical request (one page) as the mock received them, in arrival
   order, with node, consistency, arrival instant, answer and the instant the answer was logged;
   [o]: what the caller got; [t0] / [tret]: the call started no earlier / returned no later;
   [cs], [assign]: the fibers (certificates checked against the execution-loop model of C06);
   [ls]: a schedule of `execute` proposed by the driver.  Names of the e2e development are written
   qualified (E2EAttempts.in_flight is the set of FRAMES in flight at an instant). *)

(* the gate of the end-to-end checker is the gate of the model *)
Theorem C13_e2e_gate_model : forall idem spec,
  E2EAttempts.gate_open idem spec = gate (mkConfig idem (Some spec)).
Proof. exact E2ESpec_proofs.gate_open_is_gate. Qed.

(* Gate closed -- in particular EVERY request that is not idempotent, whatever the profile says:
   the observation is accepted only as one fiber run to its end (Props/C06.v: C06_e2e_run and its
   consequences apply), and at no instant are two of its frames in flight. *)
Theorem C13_e2e_gate : forall p idem spec cl0 nodes down cs assign frs ls t0 tret margin o co,
  E2ESpec.e2e_check13 p idem spec cl0 nodes down cs assign frs ls t0 tret margin o co = true ->
  (idem = false \/ spec = None) ->
  exists c, cs = [c] /\ E2EAttempts.check_single p idem cl0 nodes down c frs tret o co = true
            /\ forall t, List.length (E2EAttempts.in_flight t frs) <= 1.
Proof. exact E2ESpec_proofs.e2e13_gate. Qed.

Theorem C13_e2e_open : forall p idem spec cl0 nodes down cs assign frs ls t0 tret margin o co max,
  E2ESpec.e2e_check13 p idem spec cl0 nodes down cs assign frs ls t0 tret margin o co = true ->
  E2EAttempts.gate_open idem (option_map fst spec) = Some max ->
  exists interval, spec = Some (max, interval) /\
    E2ESpec.check_spec p idem cl0 nodes down max interval cs assign frs ls t0 tret margin o co = true.
Proof. exact E2ESpec_proofs.e2e_check13_open. Qed.

(* Gate open.  Acceptance exhibits a schedule [ls] of `execute` (the interleaving semantics above)
   that returns what the caller got; hence (C13_result) the caller got what the property text
   prescribes for the completion order of that schedule -- the first Success / Definitive answer;
   else, once every started execution completed and none may be started, the last Ignorable -- and
   (C13_bound) between |fibers seen by the mock| and 1 + max executions were started (more than the
   mock saw only if every node that is not cut was handed out).  At every instant at most 1 + max
   frames are in flight, on pairwise different nodes; fiber k's first frame arrives no earlier than
   k retry intervals after the call started; the fibers are runs of the execution-loop model. *)
Theorem C13_e2e_schedule : forall p idem cl0 nodes down max interval cs assign frs ls t0 tret margin o co,
  E2ESpec.check_spec p idem cl0 nodes down max interval cs assign frs ls t0 tret margin o co = true ->
  let e := E2ESpec.mk_env p idem cl0 nodes down interval cs assign frs t0 tret margin co in
  E2EAttempts.multi_ok p idem cl0 nodes down max cs assign frs = true
  /\ (forall t, List.length (E2EAttempts.in_flight t frs) <= 1 + max
                /\ NoDup (map E2EAttempts.f_node (E2EAttempts.in_flight t frs)))
  /\ E2ESpec.starts_ok e = true
  /\ exists s R,
       run (init max) ls = Some s
       /\ returned s = Some R
       /\ spec_returned max (started s) (completions ls) = Some R
       /\ E2ESpec.rres_match e R o = true
       /\ List.length cs <= started s <= 1 + max
       /\ (started s <= List.length cs \/ E2ESpec.e_exhausted e = true)
       /\ E2ESpec.leftovers_ok e s ls = true
       /\ E2ESpec.walk e (init max) ls [] = true.
Proof. exact E2ESpec_proofs.check_spec_sound. Qed.

(* The schedule is truthful.  Every completion in it is backed by the observation ([complete_ok]:
   the fiber ran to its end, its model result is the label's outcome, its last answer was logged
   before the call returned; a fiber the mock never saw completes only with None and only if the
   plan was used up), and a completion is never placed after one whose answer was logged more than
   [margin] later: lo(f) <= hi(g) + margin for f before g. *)
Theorem C13_e2e_completions : forall e ls s seen, E2ESpec.walk e s ls seen = true ->
  forall pre g out post, ls = pre ++ Complete g out :: post ->
  E2ESpec.complete_ok e g out = true /\
  exists lo hi, E2ESpec.comp_window e g = Some (lo, hi)
    /\ (forall x, In x seen -> (x <= hi + E2ESpec.e_margin e)%N)
    /\ (forall f out2, In (Complete f out2) pre ->
          exists lo2 hi2, E2ESpec.comp_window e f = Some (lo2, hi2) /\ (lo2 <= hi + E2ESpec.e_margin e)%N).
Proof. exact E2ESpec_proofs.walk_completions. Qed.

(* a completion placed before the timer tick that started fiber k was logged before fiber k's first
   frame arrived *)
Theorem C13_e2e_timer : forall e ls s seen, E2ESpec.walk e s ls seen = true ->
  forall pre post s1 s2, ls = pre ++ Timer :: post ->
  run s pre = Some s1 -> step s1 Timer = Some s2 -> started s1 < started s2 ->
  forall f out, In (Complete f out) pre ->
  exists lo hi, E2ESpec.comp_window e f = Some (lo, hi) /\ (lo <= E2ESpec.start_hi e (started s1))%N.
Proof. exact E2ESpec_proofs.walk_timer. Qed.

(* the sweep over arrival instants bounds the frames in flight at EVERY instant *)
Theorem C13_e2e_in_flight : forall bound frs, E2EAttempts.overlap_ok bound frs = true ->
  forall t, List.length (E2EAttempts.in_flight t frs) <= bound
            /\ NoDup (map E2EAttempts.f_node (E2EAttempts.in_flight t frs)).
Proof. exact E2EAttempts_proofs.overlap_ok_sound. Qed.

(* ... and conversely: the sweep (hence the `viol` predicate prop_overlap) fails EXACTLY when at some
   instant more than [bound] frames are in flight or two of them are on one node *)
Theorem C13_e2e_in_flight_iff : forall bound frs,
  E2EAttempts.overlap_ok bound frs = true <->
  forall t, List.length (E2EAttempts.in_flight t frs) <= bound
            /\ NoDup (map E2EAttempts.f_node (E2EAttempts.in_flight t frs)).
Proof. exact E2EAttempts_proofs.overlap_ok_iff. Qed.

(* the predicate the driver evaluates on observations for which no certificate is accepted holds of
   every accepted one *)
Theorem C13_e2e_prop_overlap : forall p idem spec cl0 nodes down cs assign frs ls t0 tret margin o co,
  E2ESpec.e2e_check13 p idem spec cl0 nodes down cs assign frs ls t0 tret margin o co = true ->
  E2ESpec.prop_overlap idem (option_map fst spec) frs = true.
Proof. exact E2ESpec_proofs.e2e_check13_prop_overlap. Qed.

(* the class of answers the direct "first real answer wins" predicate ([prop_first_real]) treats as
   real besides a success: under every built-in retry policy, in every session state, such an error
   ends its fiber (DontRetry), and it is not ignorable -- `execute` returns it when it completes *)
Theorem C13_e2e_final_definitive : forall e, E2ESpec.final_definitive e = true ->
  can_be_ignored (Err (LastAttemptError (E2ESpec.conv_err e))) = false /\
  forall s idem cl, snd (Retry.decide s (Retry.mk_ri e idem cl)) = Retry.DontRetry.
Proof. exact E2ESpec_proofs.final_definitive_spec. Qed.

(* The two result predicates the driver evaluates on rejected observations hold of EVERY accepted one
   (gate open): no success / final definitive answer was logged more than the margin before every
   answer that matches what the caller got ("first real answer wins"), and an ignorable error is what
   the caller got only when every frame had been answered before the call returned and -- unless
   connections were cut -- every node got a frame or at least 1 + max frames were sent ("the last
   error once every started execution has finished and none may still be started"). *)
Theorem C13_e2e_result_props : forall p idem spec cl0 nodes down cs assign frs ls t0 tret margin o co max,
  E2ESpec.e2e_check13 p idem spec cl0 nodes down cs assign frs ls t0 tret margin o co = true ->
  E2EAttempts.gate_open idem (option_map fst spec) = Some max ->
  E2ESpec.prop_first_real margin o co frs = true /\
  E2ESpec.prop_last_error max (List.length nodes) down tret o frs = true.
Proof. exact E2EResult_proofs.e2e_check13_result_props. Qed.

(* ... and so does C06's frame predicate, the third extracted predicate the E13 verdicts use *)
Theorem C13_e2e_prop_frames : forall p idem spec cl0 nodes down cs assign frs ls t0 tret margin o co,
  E2ESpec.e2e_check13 p idem spec cl0 nodes down cs assign frs ls t0 tret margin o co = true ->
  E2EAttempts.prop_frames p idem (option_map fst spec) (List.length nodes) frs = true.
Proof. exact E2ESpec_proofs.e2e_check13_prop_frames. Qed.

(* non-vacuity (instants in microseconds, interval 30 ms, margin 150 ms) *)
Definition ex_fr (node arr : N) (a : E2EAttempts.answer) (d : N) :=
  E2EAttempts.mkFrame node Retry.CQuorum arr a d 0.
Definition ex_c (node : N) (free : bool) := E2EAttempts.mkCert [node] [Fiber.OSuccess] free.
Example C13_ex_e2e :
  (* idempotent, max 2: the first node is slow, the speculative fiber on node 0 answers at 30.2 ms *)
  E2ESpec.e2e_check13 Retry.PDefault true (Some (2, 30000%N)) Retry.CQuorum [0; 1; 2]%N []
    [ex_c 2 true; ex_c 0 false] [0; 1]
    [ex_fr 2 100 E2EAttempts.AnsNone 0; ex_fr 0 30100 E2EAttempts.AnsOk 30200]
    [Timer; Complete 1 (Some (Ok 1%N))] 0 30300 150000 E2EAttempts.OCompleted (Some 0%N) = true /\
  (* the speculative fiber must not start before one retry interval has passed *)
  E2ESpec.e2e_check13 Retry.PDefault true (Some (2, 30000%N)) Retry.CQuorum [0; 1; 2]%N []
    [ex_c 2 true; ex_c 0 false] [0; 1]
    [ex_fr 2 100 E2EAttempts.AnsNone 0; ex_fr 0 20100 E2EAttempts.AnsOk 20200]
    [Timer; Complete 1 (Some (Ok 1%N))] 0 30300 150000 E2EAttempts.OCompleted (Some 0%N) = false /\
  (* both answer; the caller gets the slow answer of fiber 0 at 400 ms although fiber 1 answered at
     30.2 ms: no schedule is accepted (fiber 1 cannot be left out, and after its completion the
     call has returned) *)
  E2ESpec.e2e_check13 Retry.PDefault true (Some (2, 30000%N)) Retry.CQuorum [0; 1; 2]%N []
    [ex_c 2 false; ex_c 0 false] [0; 1]
    [ex_fr 2 100 E2EAttempts.AnsOk 400000; ex_fr 0 30100 E2EAttempts.AnsOk 30200]
    [Timer; Complete 0 (Some (Ok 0%N))] 0 400100 150000 E2EAttempts.OCompleted (Some 2%N) = false /\
  (* ... and the schedule in which fiber 1 wins does not return the answer of node 2 *)
  E2ESpec.e2e_check13 Retry.PDefault true (Some (2, 30000%N)) Retry.CQuorum [0; 1; 2]%N []
    [ex_c 2 false; ex_c 0 false] [0; 1]
    [ex_fr 2 100 E2EAttempts.AnsOk 400000; ex_fr 0 30100 E2EAttempts.AnsOk 30200]
    [Timer; Complete 1 (Some (Ok 1%N))] 0 400100 150000 E2EAttempts.OCompleted (Some 2%N) = false /\
  run (init 2) [Timer; Complete 1 (Some (Ok 1%N)); Complete 0 (Some (Ok 0%N))] = None /\
  (* NOT idempotent with the same policy: the same two overlapping frames are rejected whatever the
     certificate, because the property predicate itself is false; one fiber, one frame is fine *)
  E2ESpec.prop_overlap false (Some 2)
    [ex_fr 2 100 E2EAttempts.AnsOk 300000; ex_fr 0 30100 E2EAttempts.AnsOk 30200] = false /\
  E2ESpec.e2e_check13 Retry.PDefault false (Some (2, 30000%N)) Retry.CQuorum [0; 1; 2]%N []
    [E2EAttempts.mkCert [2; 0; 1]%N [Fiber.OSuccess] false] [0]
    [ex_fr 2 100 E2EAttempts.AnsOk 300000] [] 0 300100 150000 E2EAttempts.OCompleted (Some 2%N) = true.
Proof. vm_compute. repeat split; reflexivity. Qed.

Print Assumptions C13_ignorable_table.
Print Assumptions C13_bound.
Print Assumptions C13_result.
Print Assumptions C13_no_deadlock.
Print Assumptions C13_measure.
Print Assumptions C13_terminates.
Print Assumptions C13_always_returns.
Print Assumptions C13_can_return.
Print Assumptions C13_accept_sound.
Print Assumptions C13_prop_obs_spec.
Print Assumptions C13_accept_schedule.
Print Assumptions C13_accept_complete.
Print Assumptions C13_gate_cases.
Print Assumptions C13_gate.
Print Assumptions C13_gate_open.
Print Assumptions C13_plan_conservation.
Print Assumptions C13_distinct_targets.
Print Assumptions C13_exhausted_sound.
Print Assumptions C13_probe_guided.
Print Assumptions C13_probe_accept_sound.
Print Assumptions C13_probe_accept_schedule.
Print Assumptions C13_probe_accept_complete.
(* the direct property predicates of the e2e tie on accepting and rejecting observations *)
Example C13_ex_e2e_predicates :
  (* not idempotent: two frames in flight at once -- whatever the policy *)
  E2ESpec.prop_overlap false (Some 2) [ex_fr 2 100 E2EAttempts.AnsOk 300000; ex_fr 0 30100 E2EAttempts.AnsOk 30200] = false /\
  E2ESpec.prop_overlap false None [ex_fr 2 100 E2EAttempts.AnsOk 300000; ex_fr 0 30100 E2EAttempts.AnsOk 30200] = false /\
  E2ESpec.prop_overlap false (Some 2) [ex_fr 2 100 E2EAttempts.AnsOk 200; ex_fr 0 30100 E2EAttempts.AnsOk 30200] = true /\
  (* max_retry_count = 0: one execution; two frames in flight violate 1 + max *)
  E2ESpec.prop_overlap true (Some 0) [ex_fr 2 100 E2EAttempts.AnsOk 300000; ex_fr 0 30100 E2EAttempts.AnsOk 30200] = false /\
  E2ESpec.prop_overlap true (Some 1) [ex_fr 2 100 E2EAttempts.AnsOk 300000; ex_fr 0 30100 E2EAttempts.AnsOk 30200] = true /\
  (* idempotent, max 1: three in flight; two frames in flight on ONE node *)
  E2ESpec.prop_overlap true (Some 1) [ex_fr 2 100 E2EAttempts.AnsNone 0; ex_fr 0 200 E2EAttempts.AnsNone 0; ex_fr 1 300 E2EAttempts.AnsNone 0] = false /\
  E2ESpec.prop_overlap true (Some 2) [ex_fr 2 100 E2EAttempts.AnsNone 0; ex_fr 2 200 E2EAttempts.AnsNone 0] = false /\
  (* first real answer wins: the caller got node 2's success (logged at 400 ms) although node 0's was
     logged at 30.2 ms; fine when the caller got node 0's, or when the two are within the margin *)
  E2ESpec.prop_first_real 150000 E2EAttempts.OCompleted (Some 2%N)
    [ex_fr 2 100 E2EAttempts.AnsOk 400000; ex_fr 0 30100 E2EAttempts.AnsOk 30200] = false /\
  E2ESpec.prop_first_real 150000 E2EAttempts.OCompleted (Some 0%N)
    [ex_fr 2 100 E2EAttempts.AnsOk 400000; ex_fr 0 30100 E2EAttempts.AnsOk 30200] = true /\
  E2ESpec.prop_first_real 150000 E2EAttempts.OCompleted (Some 2%N)
    [ex_fr 2 100 E2EAttempts.AnsOk 100000; ex_fr 0 30100 E2EAttempts.AnsOk 30200] = true /\
  (* an ignorable error returned although a definitive one was there long before *)
  E2ESpec.prop_first_real 150000 (E2EAttempts.OFailed (Fiber.LAttempt (Retry.EDbError Retry.DbOverloaded))) None
    [ex_fr 2 100 (E2EAttempts.AnsErr (Retry.EDbError Retry.DbInvalid)) 200;
     ex_fr 0 30100 (E2EAttempts.AnsErr (Retry.EDbError Retry.DbOverloaded)) 400000] = false /\
  (* an earlier IGNORABLE answer does not have to win *)
  E2ESpec.prop_first_real 150000 E2EAttempts.OCompleted (Some 0%N)
    [ex_fr 2 100 (E2EAttempts.AnsErr (Retry.EDbError Retry.DbOverloaded)) 200; ex_fr 0 30100 E2EAttempts.AnsOk 400000] = true /\
  (* an ignorable error returned while an execution is in flight / while more may be started *)
  E2ESpec.prop_last_error 2 3 [] 300 (E2EAttempts.OFailed (Fiber.LAttempt (Retry.EDbError Retry.DbOverloaded)))
    [ex_fr 2 100 (E2EAttempts.AnsErr (Retry.EDbError Retry.DbOverloaded)) 200] = false /\
  E2ESpec.prop_last_error 0 3 [] 300 (E2EAttempts.OFailed (Fiber.LAttempt (Retry.EDbError Retry.DbOverloaded)))
    [ex_fr 2 100 (E2EAttempts.AnsErr (Retry.EDbError Retry.DbOverloaded)) 200] = true /\
  E2ESpec.prop_last_error 2 3 [] 300 (E2EAttempts.OFailed (Fiber.LAttempt (Retry.EDbError Retry.DbInvalid)))
    [ex_fr 2 100 (E2EAttempts.AnsErr (Retry.EDbError Retry.DbInvalid)) 200] = true /\
  E2ESpec.prop_last_error 1 3 [] 40000 (E2EAttempts.OFailed (Fiber.LAttempt (Retry.EDbError Retry.DbOverloaded)))
    [ex_fr 2 100 E2EAttempts.AnsNone 0; ex_fr 0 30100 (E2EAttempts.AnsErr (Retry.EDbError Retry.DbOverloaded)) 30200] = false /\
  E2ESpec.prop_last_error 1 3 [] 40000 (E2EAttempts.OFailed (Fiber.LAttempt (Retry.EDbError Retry.DbOverloaded)))
    [ex_fr 2 100 (E2EAttempts.AnsErr (Retry.EDbError Retry.DbOverloaded)) 200;
     ex_fr 0 30100 (E2EAttempts.AnsErr (Retry.EDbError Retry.DbOverloaded)) 30200] = true /\
  E2ESpec.final_definitive (Retry.EDbError Retry.DbTruncateError) = false /\
  E2ESpec.final_definitive (Retry.EDbError Retry.DbInvalid) = true.
Proof. vm_compute. repeat split; reflexivity. Qed.

Print Assumptions C13_e2e_prop_frames.
Print Assumptions C13_e2e_result_props.
Print Assumptions C13_e2e_final_definitive.
Print Assumptions C13_e2e_gate_model.
Print Assumptions C13_e2e_gate.
Print Assumptions C13_e2e_open.
Print Assumptions C13_e2e_schedule.
Print Assumptions C13_e2e_completions.
Print Assumptions C13_e2e_timer.
Print Assumptions C13_e2e_in_flight.
Print Assumptions C13_e2e_in_flight_iff.
Print Assumptions C13_e2e_prop_overlap.
