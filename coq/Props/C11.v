(* Property C11 — statements only.  Every theorem is closed by [exact] of a lemma from
   Proofs/Shard_proofs.v; the statements are pinned again in /verif/pins/C11.v. *)
From SV Require Import Base.Prelude Model.Shard Proofs.Shard_proofs.
From Coq Require Import Permutation String.
Open Scope N_scope.

(* the driver's shard is ScyllaDB's: bias by 2^63, shift left by the ignored bits, multiply by
   the shard count, take the high 64 bits *)
(* (msb <= 63 is the property's quantifier: for msb >= 64 the Rust shift overflows -- debug panic,
   release masks the amount -- and the model's shl64 is not the code any more) *)
Theorem C11_shard_spec : forall n msb t, msb <= 63 -> shard_of n msb t = spec_shard_of n msb t.
Proof. intros n msb t _. exact (shard_of_spec n msb t). Qed.

Theorem C11_shard_lt : forall n msb t, 0 < n -> shard_of n msb t < n.
Proof. exact shard_of_lt. Qed.

Theorem C11_shard_mono : forall n t t', (- 2 ^ 63 <= t <= t')%Z -> (t' < 2 ^ 63)%Z ->
  shard_of n 0 t <= shard_of n 0 t'.
Proof. exact shard_of_msb0_mono. Qed.

(* the candidate ports are exactly the p in [lo,hi] with p mod n = s, in ascending order *)
Theorem C11_ports : forall n s lo hi, 0 < n -> s < n -> lo <= hi -> hi <= u16_max ->
  ports_for_shard n s lo hi = spec_ports n s lo hi.
Proof. exact ports_for_shard_spec. Qed.

(* for EVERY random pivot the iterator visits every such port exactly once *)
Theorem C11_iter : forall n s lo hi pivot, 0 < n -> s < n -> lo <= hi -> hi <= u16_max ->
  Permutation (iter_ports n s lo hi pivot) (spec_ports n s lo hi) /\
  NoDup (iter_ports n s lo hi pivot).
Proof. exact iter_ports_perm. Qed.

Theorem C11_iter_In : forall n s lo hi pivot p, 0 < n -> s < n -> lo <= hi -> hi <= u16_max ->
  In p (iter_ports n s lo hi pivot) <-> (lo <= p <= hi /\ p mod n = s).
Proof. exact iter_ports_In. Qed.

(* for EVERY random index a drawn port lies in the range and is congruent to the shard *)
Theorem C11_draw : forall n s lo hi idx p, 0 < n -> s < n -> lo <= hi -> hi <= u16_max ->
  draw_port n s lo hi idx = Some p -> lo <= p <= hi /\ p mod n = s.
Proof. exact draw_port_sound. Qed.

(* nothing is produced only when no such port exists *)
Theorem C11_empty_iff : forall n s lo hi, 0 < n -> s < n -> lo <= hi -> hi <= u16_max ->
  ports_for_shard n s lo hi = [] <-> (forall p, lo <= p <= hi -> p mod n <> s).
Proof. exact ports_empty_iff. Qed.

Theorem C11_draw_none_iff : forall n s lo hi, 0 < n -> s < n -> lo <= hi -> hi <= u16_max ->
  (forall idx, draw_port n s lo hi idx = None) <-> (forall p, lo <= p <= hi -> p mod n <> s).
Proof. exact draw_port_none_iff. Qed.

(* a draw with an in-range index (the code draws idx < count) always yields a port *)
Theorem C11_draw_some : forall n s lo hi idx,
  (idx < List.length (ports_for_shard n s lo hi))%nat -> exists p, draw_port n s lo hi idx = Some p.
Proof. exact draw_port_some. Qed.

(* the property predicates the driver evaluates on the implementation's output when the
   acceptor rejects it (they decide viol vs diff) say exactly what the property says *)
Theorem C11_prop_iter_ok_iff : forall n s lo hi obs,
  prop_iter_ok n s lo hi obs = true <-> Permutation obs (spec_ports n s lo hi) /\ NoDup obs.
Proof. exact prop_iter_ok_iff. Qed.

Theorem C11_prop_draw_ok_iff : forall n s lo hi obs,
  0 < n -> s < n -> lo <= hi -> hi <= u16_max ->
  prop_draw_ok n s lo hi obs = true <->
  match obs with
  | Some p => lo <= p <= hi /\ p mod n = s
  | None => forall p, lo <= p <= hi -> p mod n <> s
  end.
Proof. exact prop_draw_ok_iff. Qed.

(* the acceptors the correspondence check evaluates on the implementation's outputs are sound
   (accepted => property) and complete for the model (every oracle value is accepted) *)
Theorem C11_accept_iter_sound : forall n s lo hi obs,
  0 < n -> s < n -> lo <= hi -> hi <= u16_max ->
  accept_iter n s lo hi obs = true -> Permutation obs (spec_ports n s lo hi) /\ NoDup obs.
Proof. exact accept_iter_sound. Qed.

Theorem C11_accept_iter_complete : forall n s lo hi pivot,
  0 < n -> s < n -> lo <= hi -> hi <= u16_max ->
  (pivot < Nat.max 1 (List.length (ports_for_shard n s lo hi)))%nat ->
  accept_iter n s lo hi (iter_ports n s lo hi pivot) = true.
Proof. exact accept_iter_complete. Qed.

Theorem C11_accept_draw_sound : forall n s lo hi obs,
  0 < n -> s < n -> lo <= hi -> hi <= u16_max ->
  accept_draw n s lo hi obs = true ->
  match obs with
  | Some p => lo <= p <= hi /\ p mod n = s
  | None => forall p, lo <= p <= hi -> p mod n <> s
  end.
Proof. exact accept_draw_sound. Qed.

(* sharding information with shard >= nr_shards or nr_shards = 0 is refused *)
Theorem C11_parse_ok : forall se ne me shard nr msb,
  parse_shard_info se ne me = Ok (shard, nr, msb) -> shard < nr /\ nr <> 0.
Proof. exact parse_shard_info_ok. Qed.

Theorem C11_parse_rejects : forall s n m rs rn rm shard nr,
  parse_unsigned 65535 s = Some shard -> parse_unsigned 65535 n = Some nr ->
  (nr = 0 \/ nr <= shard) ->
  exists e, parse_shard_info (Some (s :: rs)) (Some (n :: rn)) (Some (m :: rm)) = Err e.
Proof. exact parse_shard_info_rejects. Qed.

(* non-vacuity: concrete states meeting the hypotheses, with non-trivial outputs *)
Example C11_ex_shard : shard_of 7 12 (-42)%Z = 6 /\ shard_of 65535 0 (2 ^ 63 - 1)%Z = 65534.
Proof. split; vm_compute; reflexivity. Qed.
Example C11_ex_ports :
  ports_for_shard 5 3 65520 65535 = [65523; 65528; 65533] /\
  iter_ports 5 3 65520 65535 2 = [65533; 65523; 65528] /\
  ports_for_shard 100 37 65500 65535 = [] /\ ports_for_shard 3 1 65534 65535 = [] /\
  draw_port 5 3 65520 65535 1 = Some 65528.
Proof. repeat split; vm_compute; reflexivity. Qed.
Example C11_ex_parse :
  parse_shard_info (Some ["3"%string]) (Some ["+8"%string]) (Some ["12"%string]) = Ok (3, 8, 12) /\
  parse_shard_info (Some ["8"%string]) (Some ["8"%string]) (Some ["12"%string]) = Err ShardIdOutOfRange /\
  parse_shard_info (Some ["0"%string]) (Some ["0"%string]) (Some ["12"%string]) = Err ZeroShards.
Proof. repeat split; vm_compute; reflexivity. Qed.

(* rejecting examples: the specification and the predicates refuse wrong outputs *)
Example C11_ex_reject :
  prop_iter_ok 5 3 65520 65535 [65523; 65528] = false /\
  prop_iter_ok 5 3 65520 65535 [65523; 65528; 65528] = false /\
  prop_iter_ok 5 3 65520 65535 [65533; 65523; 65528] = true /\
  prop_draw_ok 5 3 65520 65535 (Some 65524) = false /\
  prop_draw_ok 5 3 65520 65535 None = false /\
  prop_draw_ok 100 37 65500 65535 None = true /\
  accept_iter 5 3 65520 65535 [65528; 65523; 65533] = false /\
  spec_ports 5 3 65520 65535 = [65523; 65528; 65533] /\
  spec_shard_of 3 0 (-3074457345618258602)%Z = 1.
Proof. repeat split; vm_compute; reflexivity. Qed.

Print Assumptions C11_shard_spec.
Print Assumptions C11_draw_some.
Print Assumptions C11_prop_iter_ok_iff.
Print Assumptions C11_prop_draw_ok_iff.
Print Assumptions C11_shard_lt.
Print Assumptions C11_shard_mono.
Print Assumptions C11_ports.
Print Assumptions C11_iter.
Print Assumptions C11_iter_In.
Print Assumptions C11_draw.
Print Assumptions C11_empty_iff.
Print Assumptions C11_draw_none_iff.
Print Assumptions C11_accept_iter_sound.
Print Assumptions C11_accept_iter_complete.
Print Assumptions C11_accept_draw_sound.
Print Assumptions C11_parse_ok.
Print Assumptions C11_parse_rejects.
