(* Property C11 — statements only.  Every theorem is closed by [exact] of a lemma from
   Proofs/Shard_proofs.v; the statements are pinned again in /verif/pins/C11.v. *)
From SV Require Import Base.Prelude Model.Shard Proofs.Shard_proofs.
From SV Require Import Model.ShardConnect Proofs.ShardConnect_proofs.
From SV Require Import Model.ShardRange Proofs.ShardRange_proofs.
From Coq Require Import Permutation String.
Open Scope N_scope.

(* the driver's shard is ScyllaDB's: bias by 2^63, shift left by the ignored bits, multiply by
   the shard count, take the high 64 bits *)
(* (msb <= 63 is the property's quantifier: for msb >= 64 the Rust shift overflows -- debug panic,
   release masks the amount -- and the model's shl64 is not the code any more) *)
Theorem C11_shard_spec : forall n msb t, msb <= 63 -> shard_of n msb t = spec_shard_of n msb t.
Proof. intros n msb t _. exact (shard_of_spec n msb t). Qed.

Theorem C11_shard_lt : forall n msb t, 0 < n -> shard_of n msb t < n.
Proof. exact shard_of_lt. Qed.

Theorem C11_shard_mono : forall n t t', (- 2 ^ 63 <= t <= t')%Z -> (t' < 2 ^ 63)%Z ->
  shard_of n 0 t <= shard_of n 0 t'.
Proof. exact shard_of_msb0_mono. Qed.

(* the candidate ports are exactly the p in [lo,hi] with p mod n = s, in ascending order *)
Theorem C11_ports : forall n s lo hi, 0 < n -> s < n -> lo <= hi -> hi <= u16_max ->
  ports_for_shard n s lo hi = spec_ports n s lo hi.
Proof. exact ports_for_shard_spec. Qed.

(* for EVERY random pivot the iterator visits every such port exactly once *)
Theorem C11_iter : forall n s lo hi pivot, 0 < n -> s < n -> lo <= hi -> hi <= u16_max ->
  Permutation (iter_ports n s lo hi pivot) (spec_ports n s lo hi) /\
  NoDup (iter_ports n s lo hi pivot).
Proof. exact iter_ports_perm. Qed.

Theorem C11_iter_In : forall n s lo hi pivot p, 0 < n -> s < n -> lo <= hi -> hi <= u16_max ->
  In p (iter_ports n s lo hi pivot) <-> (lo <= p <= hi /\ p mod n = s).
Proof. exact iter_ports_In. Qed.

(* for EVERY random index a drawn port lies in the range and is congruent to the shard *)
Theorem C11_draw : forall n s lo hi idx p, 0 < n -> s < n -> lo <= hi -> hi <= u16_max ->
  draw_port n s lo hi idx = Some p -> lo <= p <= hi /\ p mod n = s.
Proof. exact draw_port_sound. Qed.

(* nothing is produced only when no such port exists *)
Theorem C11_empty_iff : forall n s lo hi, 0 < n -> s < n -> lo <= hi -> hi <= u16_max ->
  ports_for_shard n s lo hi = [] <-> (forall p, lo <= p <= hi -> p mod n <> s).
Proof. exact ports_empty_iff. Qed.

Theorem C11_draw_none_iff : forall n s lo hi, 0 < n -> s < n -> lo <= hi -> hi <= u16_max ->
  (forall idx, draw_port n s lo hi idx = None) <-> (forall p, lo <= p <= hi -> p mod n <> s).
Proof. exact draw_port_none_iff. Qed.

(* a draw with an in-range index (the code draws idx < count) always yields a port *)
Theorem C11_draw_some : forall n s lo hi idx,
  (idx < List.length (ports_for_shard n s lo hi))%nat -> exists p, draw_port n s lo hi idx = Some p.
Proof. exact draw_port_some. Qed.

(* the property predicates the driver evaluates on the implementation's output when the
   acceptor rejects it (they decide viol vs diff) say exactly what the property says *)
Theorem C11_prop_iter_ok_iff : forall n s lo hi obs,
  prop_iter_ok n s lo hi obs = true <-> Permutation obs (spec_ports n s lo hi) /\ NoDup obs.
Proof. exact prop_iter_ok_iff. Qed.

Theorem C11_prop_draw_ok_iff : forall n s lo hi obs,
  0 < n -> s < n -> lo <= hi -> hi <= u16_max ->
  prop_draw_ok n s lo hi obs = true <->
  match obs with
  | Some p => lo <= p <= hi /\ p mod n = s
  | None => forall p, lo <= p <= hi -> p mod n <> s
  end.
Proof. exact prop_draw_ok_iff. Qed.

(* the acceptors the correspondence check evaluates on the implementation's outputs are sound
   (accepted => property); the iterator's is also complete for the model (every pivot's output is
   accepted), and so is accept_draw's (C11_accept_draw_complete below) *)
Theorem C11_accept_iter_sound : forall n s lo hi obs,
  0 < n -> s < n -> lo <= hi -> hi <= u16_max ->
  accept_iter n s lo hi obs = true -> Permutation obs (spec_ports n s lo hi) /\ NoDup obs.
Proof. exact accept_iter_sound. Qed.

Theorem C11_accept_iter_complete : forall n s lo hi pivot,
  0 < n -> s < n -> lo <= hi -> hi <= u16_max ->
  (pivot < Nat.max 1 (List.length (ports_for_shard n s lo hi)))%nat ->
  accept_iter n s lo hi (iter_ports n s lo hi pivot) = true.
Proof. exact accept_iter_complete. Qed.

Theorem C11_accept_draw_sound : forall n s lo hi obs,
  0 < n -> s < n -> lo <= hi -> hi <= u16_max ->
  accept_draw n s lo hi obs = true ->
  match obs with
  | Some p => lo <= p <= hi /\ p mod n = s
  | None => forall p, lo <= p <= hi -> p mod n <> s
  end.
Proof. exact accept_draw_sound. Qed.

(* sharding information with shard >= nr_shards or nr_shards = 0 is refused *)
Theorem C11_parse_ok : forall se ne me shard nr msb,
  parse_shard_info se ne me = Ok (shard, nr, msb) -> shard < nr /\ nr <> 0.
Proof. exact parse_shard_info_ok. Qed.

Theorem C11_parse_rejects : forall s n m rs rn rm shard nr,
  parse_unsigned 65535 s = Some shard -> parse_unsigned 65535 n = Some nr ->
  (nr = 0 \/ nr <= shard) ->
  exists e, parse_shard_info (Some (s :: rs)) (Some (n :: rn)) (Some (m :: rm)) = Err e.
Proof. exact parse_shard_info_rejects. Qed.

(* ---- the only production caller of the iterator: open_connection_to_shard_aware_port ----
   (Model/ShardConnect.v; [avail] = the outcome class of open_connection per source port, an
   oracle; [pivot] = the iterator's random pivot, an oracle) *)

(* the loop, for an arbitrary port list: it calls open_connection on a prefix of the list in list
   order, every port before the last tried one was address-unavailable, it stops at the FIRST
   port whose outcome is anything else and returns that outcome; NoSourcePortForShard only after
   the whole list was tried *)
Theorem C11_connect_loop : forall ports avail,
  match connect_loop ports avail with
  | Conn p => exists a b, ports = a ++ p :: b /\ tried ports avail = a ++ [p] /\
                          (forall q, In q a -> avail q = AddrUnavailable) /\ avail p = Connected
  | Failed p e => exists a b, ports = a ++ p :: b /\ tried ports avail = a ++ [p] /\
                          (forall q, In q a -> avail q = AddrUnavailable) /\ avail p = OtherError e
  | NoSourcePortForShard => tried ports avail = ports /\
                          (forall q, In q ports -> avail q = AddrUnavailable)
  end.
Proof. exact connect_loop_char. Qed.

(* the port a successful shard-aware connection uses lies in [lo,hi] and is congruent to the shard *)
Theorem C11_connect_conn : forall n s lo hi pivot avail p,
  0 < n -> s < n -> lo <= hi -> hi <= u16_max ->
  open_shard_aware n s lo hi pivot avail = Conn p ->
  lo <= p <= hi /\ p mod n = s /\ avail p = Connected.
Proof. intros n s lo hi pivot avail p Hn Hs Hle Hhi. exact (open_sa_conn n s lo hi Hn Hs Hle Hhi pivot avail p). Qed.

Theorem C11_connect_failed : forall n s lo hi pivot avail p e,
  0 < n -> s < n -> lo <= hi -> hi <= u16_max ->
  open_shard_aware n s lo hi pivot avail = Failed p e ->
  lo <= p <= hi /\ p mod n = s /\ avail p = OtherError e.
Proof. intros n s lo hi pivot avail p e Hn Hs Hle Hhi. exact (open_sa_failed n s lo hi Hn Hs Hle Hhi pivot avail p e). Qed.

(* NoSourcePortForShard iff every port of the specification's set is unavailable ... *)
Theorem C11_connect_none_iff : forall n s lo hi pivot avail,
  0 < n -> s < n -> lo <= hi -> hi <= u16_max ->
  open_shard_aware n s lo hi pivot avail = NoSourcePortForShard <->
  (forall p, lo <= p <= hi -> p mod n = s -> avail p = AddrUnavailable).
Proof. intros n s lo hi pivot avail Hn Hs Hle Hhi. exact (open_sa_none_iff n s lo hi Hn Hs Hle Hhi pivot avail). Qed.

(* ... in particular when none exists *)
Theorem C11_connect_none_empty : forall n s lo hi pivot avail,
  0 < n -> s < n -> lo <= hi -> hi <= u16_max ->
  (forall p, lo <= p <= hi -> p mod n <> s) ->
  open_shard_aware n s lo hi pivot avail = NoSourcePortForShard.
Proof. intros n s lo hi pivot avail Hn Hs Hle Hhi. exact (open_sa_none_empty n s lo hi Hn Hs Hle Hhi pivot avail). Qed.

(* the attempts are a prefix of the iterator's output (iterator order), every candidate port is
   tried at most once, only ports of the specification's set are tried *)
Theorem C11_connect_tried : forall n s lo hi pivot avail,
  0 < n -> s < n -> lo <= hi -> hi <= u16_max ->
  (exists rest, iter_ports n s lo hi pivot = tried_shard_aware n s lo hi pivot avail ++ rest) /\
  NoDup (tried_shard_aware n s lo hi pivot avail) /\
  (forall p, In p (tried_shard_aware n s lo hi pivot avail) -> lo <= p <= hi /\ p mod n = s).
Proof. intros n s lo hi pivot avail Hn Hs Hle Hhi. exact (tried_sa n s lo hi Hn Hs Hle Hhi pivot avail). Qed.

(* the loop gives up only after an attempt from EVERY port of the set *)
Theorem C11_connect_tried_all : forall n s lo hi pivot avail p,
  0 < n -> s < n -> lo <= hi -> hi <= u16_max ->
  open_shard_aware n s lo hi pivot avail = NoSourcePortForShard ->
  lo <= p <= hi -> p mod n = s -> In p (tried_shard_aware n s lo hi pivot avail).
Proof. intros n s lo hi pivot avail p Hn Hs Hle Hhi. exact (tried_sa_all_when_none n s lo hi Hn Hs Hle Hhi pivot avail p). Qed.

(* BOOLEAN REFLECTION of the acceptor's definition (forallb / andb unfolded), no further content:
   the end-to-end acceptor says the property's sentence for the observation point "source port of
   shard-aware connections accepted by the mock node" (with pre = [] this is what the driver
   reports as viol), plus "not a port the harness holds bound" (not a sentence of C11: diff).
   Per connection only: the list may contain the same port twice (a port can be used again after
   its connection was reset); the list-level checks are C11_connect_many_count below *)
Theorem C11_connect_accept_reflect : forall n lo hi pre obs,
  accept_conns n lo hi pre obs = true <->
  (forall port shard, In (port, shard) obs ->
     lo <= port <= hi /\ port mod n = shard /\ ~ In port pre).
Proof. exact accept_conns_iff. Qed.

(* no false alarm: every outcome of the model's loop in an environment in which the pre-bound
   ports are address-unavailable is accepted *)
Theorem C11_connect_accept_complete : forall n s lo hi pre pivot avail p,
  0 < n -> s < n -> lo <= hi -> hi <= u16_max ->
  respects pre avail ->
  open_shard_aware n s lo hi pivot avail = Conn p ->
  accept_conn n lo hi pre p s = true.
Proof. exact accept_conn_complete. Qed.

(* the acceptor is not looser than the model: an accepted observation is the model's outcome for
   some pivot and some environment that respects the pre-bound ports *)
Theorem C11_connect_accept_model : forall n lo hi pre port shard,
  0 < n -> hi <= u16_max ->
  accept_conn n lo hi pre port shard = true ->
  exists pivot avail, respects pre avail /\
    open_shard_aware n shard lo hi pivot avail = Conn port.
Proof. exact accept_conn_model. Qed.

(* starved shards (every port of the set pre-bound, or none exists): C11_connect_starved_reflect
   is the boolean reflection of starvedb's definition through spec_ports_In; the loop can only end
   in NoSourcePortForShard, and no accepted shard-aware connection serves such a shard *)
Theorem C11_connect_starved_reflect : forall n s lo hi pre, lo <= hi + 1 ->
  starvedb n s lo hi pre = true <->
  (forall p, lo <= p <= hi -> p mod n = s -> In p pre).
Proof. exact starvedb_iff. Qed.

Theorem C11_connect_starved_none : forall n s lo hi pre pivot avail,
  0 < n -> s < n -> lo <= hi -> hi <= u16_max ->
  starvedb n s lo hi pre = true -> respects pre avail ->
  open_shard_aware n s lo hi pivot avail = NoSourcePortForShard.
Proof. exact starved_none. Qed.

Theorem C11_connect_accept_not_starved : forall n lo hi pre port shard,
  accept_conn n lo hi pre port shard = true -> starvedb n shard lo hi pre = false.
Proof. exact accept_conn_not_starved. Qed.

(* ---- list level: what the driver RUNS on every E line (extracted open_many, some_pivot_gives) ----
   successive runs of the loop for one shard in the environment "exactly the ports of [busy] are
   unavailable, every other attempt connects; a port that carried a connection stays busy".
   HOWEVER THE PIVOTS FALL the number of connections opened is min(runs, free ports of the shard):
   a loop that gave up at the first busy port, or went on after a success, opens another number. *)
Theorem C11_connect_many_count : forall n s lo hi pivots busy,
  0 < n -> s < n -> lo <= hi -> hi <= u16_max ->
  List.length (open_many n s lo hi pivots busy) =
  Nat.min (List.length pivots) (List.length (free_ports n s lo hi busy)).
Proof. exact open_many_length. Qed.

Theorem C11_connect_many_In : forall n s lo hi pivots busy p,
  0 < n -> s < n -> lo <= hi -> hi <= u16_max ->
  In p (open_many n s lo hi pivots busy) -> lo <= p <= hi /\ p mod n = s /\ ~ In p busy.
Proof. exact open_many_In. Qed.

(* the driver's per-connection question "is this port the loop's outcome for some pivot in the
   known environment" is answered by running the loop for every pivot below k *)
Theorem C11_connect_some_pivot : forall n s lo hi busy port k,
  some_pivot_gives n s lo hi busy port k = true <->
  exists pivot, (pivot < k)%nat /\ open_shard_aware n s lo hi pivot (env_busy busy) = Conn port.
Proof. exact some_pivot_gives_iff. Qed.

Example C11_ex_connect_many :
  (* three runs, two free ports (65523 held): two connections whatever the pivots *)
  open_many 5 3 65520 65535 [0; 0; 0]%nat [65523] = [65528; 65533] /\
  open_many 5 3 65520 65535 [2; 1; 0]%nat [65523] = [65533; 65528] /\
  open_many 5 3 65520 65535 [1]%nat [65523] = [65528] /\
  open_many 5 3 65520 65535 [1; 2]%nat [65523; 65528; 65533] = [] /\
  free_ports 5 3 65520 65535 [65523] = [65528; 65533] /\
  some_pivot_gives 5 3 65520 65535 [65523] 65528 3 = true /\
  some_pivot_gives 5 3 65520 65535 [65523] 65523 3 = false /\
  some_pivot_gives 5 3 65520 65535 [65523] 65529 3 = false.
Proof. repeat split; vm_compute; reflexivity. Qed.

(* ---- deepening round 3 ---- *)

(* the number of runs of the loop for one shard in the refiller's first round, which the driver used
   to compute in OCaml: per_shard per node, minus one for every node whose first (plain-port)
   connection landed on this shard *)
Theorem C11_connect_runs : forall per firsts s, (1 <= per)%nat ->
  runs_for_shard per firsts s = (per * List.length firsts - count_occ N.eq_dec firsts s)%nat.
Proof. exact runs_for_shard_spec. Qed.

(* the interval the driver demands for the number of shard-aware connections of a shard is, for the
   pivots 0,1,2,.. it happens to run the model with AND THEREFORE (C11_connect_many_count) for every
   pivots, [min(runs, free ports when held and busy ports are unavailable),
            min(runs, free ports when only the held ports are unavailable)];
   it is never empty and never allows more than per_shard * nodes connections *)
Theorem C11_connect_count_bounds : forall n lo hi per firsts pre busy s,
  0 < n -> s < n -> lo <= hi -> hi <= u16_max ->
  shard_count_bounds n lo hi per firsts pre busy s =
    (Nat.min (runs_for_shard per firsts s) (List.length (free_ports n s lo hi (pre ++ busy))),
     Nat.min (runs_for_shard per firsts s) (List.length (free_ports n s lo hi pre))) /\
  (fst (shard_count_bounds n lo hi per firsts pre busy s) <= snd (shard_count_bounds n lo hi per firsts pre busy s))%nat /\
  (snd (shard_count_bounds n lo hi per firsts pre busy s) <= per * List.length firsts)%nat.
Proof. exact shard_count_bounds_spec. Qed.

(* LIST level: what a whole list accepted by accept_conns guarantees beyond the per-connection
   sentence: connections from pairwise distinct ports (as simultaneously open connections of one
   client address are) that serve shard s are at most as many as the shard has ports in [lo,hi] that
   the harness does not hold; a starved shard has none (no distinctness needed) *)
Theorem C11_connect_accept_list : forall n lo hi pre obs s,
  lo <= hi + 1 ->
  accept_conns n lo hi pre obs = true -> NoDup (map fst obs) ->
  (List.length (filter (fun c => N.eqb (snd c) s) obs) <= List.length (free_ports n s lo hi pre))%nat.
Proof. exact accept_conns_list. Qed.

Theorem C11_connect_accept_list_starved : forall n lo hi pre obs s,
  accept_conns n lo hi pre obs = true -> starvedb n s lo hi pre = true ->
  filter (fun c => N.eqb (snd c) s) obs = [].
Proof. exact accept_conns_starved_none. Qed.

(* accept_draw is complete for the model as well (so far only soundness was proved): every index the
   code can draw (idx < count; 0 when there is no port) gives an accepted observation *)
Theorem C11_accept_draw_complete : forall n s lo hi idx,
  (idx < Nat.max 1 (List.length (ports_for_shard n s lo hi)))%nat ->
  accept_draw n s lo hi (draw_port n s lo hi idx) = true.
Proof. exact accept_draw_complete. Qed.

Example C11_ex_connect_runs :
  (* 2 nodes, per_shard 2, first connections on shards 1 and 3 *)
  runs_for_shard 2 [1; 3] 1 = 3%nat /\ runs_for_shard 2 [1; 3] 0 = 4%nat /\
  runs_for_shard 1 [3; 3] 3 = 0%nat /\ runs_for_shard 1 [] 3 = 0%nat /\
  (* shard 3 of 5 in 65520..65535: ports 65523 65528 65533; 65523 held, 65528 busy from outside *)
  shard_count_bounds 5 65520 65535 2 [1; 3] [65523] [65528] 3 = (1, 2)%nat /\
  shard_count_bounds 5 65520 65535 1 [3] [65523] [] 3 = (0, 0)%nat /\
  shard_count_bounds 5 65520 65535 2 [0; 0] [] [] 3 = (3, 3)%nat /\
  shard_count_bounds 5 65520 65535 1 [0] [65523; 65528; 65533] [] 3 = (0, 0)%nat.
Proof. repeat split; vm_compute; reflexivity. Qed.

(* non-vacuity of the connect-loop theorems: ports 65523, 65528, 65533 serve shard 3 of 5 *)
Definition ex_env (unavail : list N) (bad : list N) : N -> outcome :=
  fun q => if memb q unavail then AddrUnavailable else if memb q bad then OtherError 7 else Connected.
Example C11_ex_connect :
  (* pivot 2: 65533 and 65523 are in use, the third attempt succeeds *)
  open_shard_aware 5 3 65520 65535 2 (ex_env [65523; 65533] []) = Conn 65528 /\
  tried_shard_aware 5 3 65520 65535 2 (ex_env [65523; 65533] []) = [65533; 65523; 65528] /\
  (* pivot 0: stops at the first success, 65533 is never tried *)
  open_shard_aware 5 3 65520 65535 0 (ex_env [65523] []) = Conn 65528 /\
  tried_shard_aware 5 3 65520 65535 0 (ex_env [65523] []) = [65523; 65528] /\
  (* another error is handed through although a later port would have worked *)
  open_shard_aware 5 3 65520 65535 0 (ex_env [65523] [65528]) = Failed 65528 7 /\
  tried_shard_aware 5 3 65520 65535 0 (ex_env [65523] [65528]) = [65523; 65528] /\
  (* every port in use / no port exists *)
  open_shard_aware 5 3 65520 65535 1 (ex_env [65523; 65528; 65533] []) = NoSourcePortForShard /\
  tried_shard_aware 5 3 65520 65535 1 (ex_env [65523; 65528; 65533] []) = [65528; 65533; 65523] /\
  open_shard_aware 100 37 65500 65535 0 (ex_env [] []) = NoSourcePortForShard /\
  tried_shard_aware 100 37 65500 65535 0 (ex_env [] []) = [] /\
  open_shard_aware 3 1 65534 65535 0 (ex_env [] []) = NoSourcePortForShard.
Proof. repeat split; vm_compute; reflexivity. Qed.

(* the acceptor and the starvation predicate accept and REJECT *)
Example C11_ex_connect_accept :
  accept_conn 5 65520 65535 [65523; 65533] 65528 3 = true /\
  accept_conn 5 65520 65535 [65523; 65533] 65523 3 = false /\   (* pre-bound *)
  accept_conn 5 65520 65535 [] 65518 3 = false /\               (* below lo *)
  accept_conn 5 65520 65530 [] 65533 3 = false /\               (* above hi *)
  accept_conn 5 65520 65535 [] 65529 3 = false /\               (* not congruent *)
  accept_conn 5 65520 65535 [] 65528 4 = false /\               (* serves another shard *)
  accept_conns 5 65520 65535 [65523] [(65528, 3); (65530, 0)] = true /\
  accept_conns 5 65520 65535 [65523] [(65528, 3); (65523, 3)] = false /\
  starvedb 5 3 65520 65535 [65523; 65528; 65533] = true /\
  starvedb 5 3 65520 65535 [65523; 65533] = false /\
  starvedb 100 37 65500 65535 [] = true /\
  starvedb 5 3 65520 65535 [] = false.
Proof. repeat split; vm_compute; reflexivity. Qed.

(* non-vacuity: concrete states meeting the hypotheses, with non-trivial outputs *)
Example C11_ex_shard : shard_of 7 12 (-42)%Z = 6 /\ shard_of 65535 0 (2 ^ 63 - 1)%Z = 65534.
Proof. split; vm_compute; reflexivity. Qed.
Example C11_ex_ports :
  ports_for_shard 5 3 65520 65535 = [65523; 65528; 65533] /\
  iter_ports 5 3 65520 65535 2 = [65533; 65523; 65528] /\
  ports_for_shard 100 37 65500 65535 = [] /\ ports_for_shard 3 1 65534 65535 = [] /\
  draw_port 5 3 65520 65535 1 = Some 65528.
Proof. repeat split; vm_compute; reflexivity. Qed.
Example C11_ex_parse :
  parse_shard_info (Some ["3"%string]) (Some ["+8"%string]) (Some ["12"%string]) = Ok (3, 8, 12) /\
  parse_shard_info (Some ["8"%string]) (Some ["8"%string]) (Some ["12"%string]) = Err ShardIdOutOfRange /\
  parse_shard_info (Some ["0"%string]) (Some ["0"%string]) (Some ["12"%string]) = Err ZeroShards.
Proof. repeat split; vm_compute; reflexivity. Qed.

(* rejecting examples: the specification and the predicates refuse wrong outputs *)
Example C11_ex_reject :
  prop_iter_ok 5 3 65520 65535 [65523; 65528] = false /\
  prop_iter_ok 5 3 65520 65535 [65523; 65528; 65528] = false /\
  prop_iter_ok 5 3 65520 65535 [65533; 65523; 65528] = true /\
  prop_draw_ok 5 3 65520 65535 (Some 65524) = false /\
  prop_draw_ok 5 3 65520 65535 None = false /\
  prop_draw_ok 100 37 65500 65535 None = true /\
  accept_iter 5 3 65520 65535 [65528; 65523; 65533] = false /\
  spec_ports 5 3 65520 65535 = [65523; 65528; 65533] /\
  spec_shard_of 3 0 (-3074457345618258602)%Z = 1.
Proof. repeat split; vm_compute; reflexivity. Qed.

(* ---- deepening round 4 ---- *)

(* the connections opened by successive runs of the loop come from pairwise DISTINCT ports (with
   C11_connect_many_In: distinct free ports of the shard) *)
Theorem C11_connect_many_nodup : forall n s lo hi pivots busy,
  0 < n -> s < n -> lo <= hi -> hi <= u16_max ->
  NoDup (open_many n s lo hi pivots busy).
Proof. exact open_many_NoDup. Qed.

(* at least as many runs as the shard has free ports: EVERY free port of the shard ends up carrying
   a connection, however the pivots fall *)
Theorem C11_connect_many_exhaust : forall n s lo hi pivots busy,
  0 < n -> s < n -> lo <= hi -> hi <= u16_max ->
  (List.length (free_ports n s lo hi busy) <= List.length pivots)%nat ->
  Permutation (open_many n s lo hi pivots busy) (free_ports n s lo hi busy).
Proof. exact open_many_exhaust. Qed.

(* the driver asks some_pivot_gives with k = max 1 |spec_ports|: with that many pivots (or more)
   the answer is closed -- "a port of the shard's set in [lo,hi] that is not busy"; so the driver's
   `diff model-loop-never-gives-this-port` rests on this theorem, and every free port of the shard
   IS the loop's outcome for some pivot (no port of the set is unreachable for the loop) *)
Theorem C11_connect_some_pivot_all : forall n s lo hi busy port k,
  0 < n -> s < n -> lo <= hi -> hi <= u16_max ->
  (List.length (spec_ports n s lo hi) <= k)%nat ->
  some_pivot_gives n s lo hi busy port k = true <->
  lo <= port <= hi /\ port mod n = s /\ ~ In port busy.
Proof. exact some_pivot_gives_all. Qed.

(* shard_of_source_port (kind P; what the NODE computes from a connection's source port) has a
   specification separate from the model: the unique r < n with port = q * n + r *)
Theorem C11_source_port_spec : forall n port r, 0 < n ->
  shard_of_source_port n port = r <-> r < n /\ exists q, port = q * n + r.
Proof. exact source_port_spec. Qed.

(* iterator and node-side assignment are inverse: a port of the range is produced for shard s (for
   every pivot) iff the node files a connection from that port under shard s *)
Theorem C11_source_port_iter : forall n s lo hi pivot p,
  0 < n -> s < n -> lo <= hi -> hi <= u16_max -> lo <= p <= hi ->
  In p (iter_ports n s lo hi pivot) <-> shard_of_source_port n p = s.
Proof. exact source_port_iter. Qed.

(* ShardInfo parsing at full strength (C11_parse_ok was only ->): Ok exactly for three present,
   non-empty entries whose first strings parse as u16 / u16 / u8 with shard < nr_shards, and then
   with exactly these three numbers *)
Theorem C11_parse_ok_iff : forall se ne me shard nr msb,
  parse_shard_info se ne me = Ok (shard, nr, msb) <->
  exists s rs n rn m rm,
    se = Some (s :: rs) /\ ne = Some (n :: rn) /\ me = Some (m :: rm) /\
    parse_unsigned 65535 s = Some shard /\ parse_unsigned 65535 n = Some nr /\
    parse_unsigned 255 m = Some msb /\ shard < nr.
Proof. exact parse_shard_info_ok_iff. Qed.

(* non-vacuity of the round-4 theorems: shard 3 of 5 in 65520..65535 has ports 65523 65528 65533 *)
Example C11_ex_round4 :
  (* 65523 held, two free ports, three runs: both free ports used, in pivot-dependent order *)
  open_many 5 3 65520 65535 [2; 1; 0]%nat [65523] = [65533; 65528] /\
  free_ports 5 3 65520 65535 [65523] = [65528; 65533] /\
  List.length (free_ports 5 3 65520 65535 [65523]) = 2%nat /\
  (* k = |spec_ports| = 3: free ports accepted; held, non-congruent, out-of-range ports refused *)
  List.length (spec_ports 5 3 65520 65535) = 3%nat /\
  some_pivot_gives 5 3 65520 65535 [65523] 65533 3 = true /\
  some_pivot_gives 5 3 65520 65535 [65523] 65523 3 = false /\
  some_pivot_gives 5 3 65520 65535 [65523] 65529 3 = false /\
  some_pivot_gives 5 3 65520 65530 [65523] 65533 3 = false /\
  (* too few pivots miss a free port: the premise on k is needed *)
  some_pivot_gives 5 3 65520 65535 [65523] 65533 1 = false /\
  shard_of_source_port 5 65528 = 3 /\ 65528 = 13105 * 5 + 3 /\
  In 65528 (iter_ports 5 3 65520 65535 2) /\ shard_of_source_port 5 65529 = 4 /\
  parse_shard_info (Some ["3"%string; "x"%string]) (Some ["+8"%string]) (Some ["12"%string]) = Ok (3, 8, 12) /\
  parse_unsigned 65535 "+8" = Some 8 /\ parse_unsigned 255 "256" = None /\
  parse_shard_info (Some ["3"%string]) (Some ["8"%string]) (Some ["256"%string]) = Err ParseIntError.
Proof. repeat split; vm_compute; try reflexivity; tauto. Qed.

(* ---- Range constructor (wave 4 follow-up): ShardAwarePortRange::new, Model/ShardRange.v ----
   The port functions above take a range [lo,hi]; the only way an application obtains one is this
   constructor.  Documented contract: refused iff the range is empty (hi < lo) or starts below 1024. *)

(* accepted <=> 1024 <= lo <= hi, and the accepted range is (lo, hi) unchanged *)
Theorem C11_range_new_iff : forall lo hi r,
  port_range_new lo hi = Some r <-> (1024 <= lo /\ lo <= hi /\ r = (lo, hi)).
Proof. exact port_range_new_iff. Qed.

Theorem C11_range_new_none_iff : forall lo hi,
  port_range_new lo hi = None <-> (hi < lo \/ lo < 1024).
Proof. exact port_range_new_none_iff. Qed.

(* "nothing is produced only when no such port exists" THROUGH the constructor: for every allowed
   range (1024 <= lo <= hi <= 65535), constructor followed by draw / iterator produces nothing (for
   every index resp. pivot) iff no p in [lo,hi] has p mod n = s *)
Theorem C11_range_new_nothing_iff : forall n s lo hi,
  0 < n -> s < n -> 1024 <= lo -> lo <= hi -> hi <= u16_max ->
  ((forall idx, draw_port_new n s lo hi idx = None) <-> (forall p, lo <= p <= hi -> p mod n <> s)) /\
  (forall pivot, iter_ports_new n s lo hi pivot = [] <-> (forall p, lo <= p <= hi -> p mod n <> s)).
Proof. exact range_new_nothing_iff. Qed.

(* accepted range and the shard has a port in it: the range handed on is (lo, hi), every draw with an
   index below the number of such ports yields one of them, and for every pivot the iterator is
   non-empty, a duplicate-free permutation of the set *)
Theorem C11_range_new_produces : forall n s lo hi a b,
  0 < n -> s < n -> hi <= u16_max ->
  port_range_new lo hi = Some (a, b) -> spec_ports n s lo hi <> [] ->
  a = lo /\ b = hi /\
  (forall idx, (idx < List.length (spec_ports n s lo hi))%nat ->
     exists p, draw_port n s a b idx = Some p /\ lo <= p <= hi /\ p mod n = s) /\
  (forall pivot, iter_ports n s a b pivot <> [] /\
     Permutation (iter_ports n s a b pivot) (spec_ports n s lo hi) /\ NoDup (iter_ports n s a b pivot)).
Proof. exact range_new_produces. Qed.

(* a refused range produces nothing, whatever the oracle *)
Theorem C11_range_new_refused : forall n s lo hi, (hi < lo \/ lo < 1024) ->
  (forall idx, draw_port_new n s lo hi idx = None) /\ (forall pivot, iter_ports_new n s lo hi pivot = []).
Proof. exact range_new_refused. Qed.

(* non-vacuity: the boundary 1023 / 1024, lo = hi, hi < lo, the top of u16; an allowed range starting
   at 1024 really produces (a constructor with an inclusive reserved range 0..=1024 would not) *)
Example C11_ex_range_new :
  port_range_new 1024 1024 = Some (1024, 1024) /\ port_range_new 1023 1024 = None /\
  port_range_new 1023 1023 = None /\ port_range_new 1024 1023 = None /\
  port_range_new 1025 1024 = None /\ port_range_new 1024 65535 = Some (1024, 65535) /\
  port_range_new 0 65535 = None /\ port_range_new 65535 65535 = Some (65535, 65535) /\
  port_range_new 65535 65534 = None /\ port_range_new 49152 65535 = Some (49152, 65535) /\
  spec_ports 3 1 1024 1030 = [1024; 1027; 1030] /\
  draw_port_new 3 1 1024 1030 0 = Some 1024 /\ draw_port_new 3 1 1024 1030 2 = Some 1030 /\
  iter_ports_new 3 1 1024 1030 1 = [1027; 1030; 1024] /\
  (* single-port range: shard 1 has the port, shard 0 has none *)
  draw_port_new 3 1 1024 1024 0 = Some 1024 /\ iter_ports_new 3 0 1024 1024 0 = [] /\
  spec_ports 3 0 1024 1024 = [] /\
  (* refused ranges produce nothing although ports of the shard lie between the bounds *)
  spec_ports 3 1 1023 1030 <> [] /\ draw_port_new 3 1 1023 1030 0 = None /\
  iter_ports_new 3 1 1023 1030 0 = [] /\ draw_port_new 3 1 1030 1024 0 = None.
Proof. repeat split; vm_compute; try reflexivity; discriminate. Qed.

Print Assumptions C11_shard_spec.
Print Assumptions C11_draw_some.
Print Assumptions C11_prop_iter_ok_iff.
Print Assumptions C11_prop_draw_ok_iff.
Print Assumptions C11_shard_lt.
Print Assumptions C11_shard_mono.
Print Assumptions C11_ports.
Print Assumptions C11_iter.
Print Assumptions C11_iter_In.
Print Assumptions C11_draw.
Print Assumptions C11_empty_iff.
Print Assumptions C11_draw_none_iff.
Print Assumptions C11_accept_iter_sound.
Print Assumptions C11_accept_iter_complete.
Print Assumptions C11_accept_draw_sound.
Print Assumptions C11_parse_ok.
Print Assumptions C11_parse_rejects.
Print Assumptions C11_connect_loop.
Print Assumptions C11_connect_conn.
Print Assumptions C11_connect_failed.
Print Assumptions C11_connect_none_iff.
Print Assumptions C11_connect_none_empty.
Print Assumptions C11_connect_tried.
Print Assumptions C11_connect_tried_all.
Print Assumptions C11_connect_accept_reflect.
Print Assumptions C11_connect_accept_complete.
Print Assumptions C11_connect_accept_model.
Print Assumptions C11_connect_starved_reflect.
Print Assumptions C11_connect_starved_none.
Print Assumptions C11_connect_accept_not_starved.
Print Assumptions C11_connect_many_count.
Print Assumptions C11_connect_many_In.
Print Assumptions C11_connect_some_pivot.
Print Assumptions C11_connect_runs.
Print Assumptions C11_connect_count_bounds.
Print Assumptions C11_connect_accept_list.
Print Assumptions C11_connect_accept_list_starved.
Print Assumptions C11_accept_draw_complete.
Print Assumptions C11_connect_many_nodup.
Print Assumptions C11_connect_many_exhaust.
Print Assumptions C11_connect_some_pivot_all.
Print Assumptions C11_source_port_spec.
Print Assumptions C11_source_port_iter.
Print Assumptions C11_parse_ok_iff.
Print Assumptions C11_range_new_iff.
Print Assumptions C11_range_new_none_iff.
Print Assumptions C11_range_new_nothing_iff.
Print Assumptions C11_range_new_produces.
Print Assumptions C11_range_new_refused.
