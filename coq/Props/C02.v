(* Property C02 — statements only.  Every theorem is closed by [exact] of a lemma from
   Proofs/Streams_proofs.v; the statements are pinned again in /verif/pins/C02.v.

   Vocabulary (Model/Streams.v): [used ws sid] = bit sid of the 512-word bitmap; [pending s] =
   the (stream id, request id) pairs written by the writer and not yet read back by the reader
   (on the way to the peer ++ received and unanswered ++ answered and on the way back);
   [reachable s] = s is reached from the initial connection by SOME label list, of any length:
   submissions, writer/reader/orphaner steps, the peer receiving and answering in any order,
   callers cancelling at any moment, breaks. *)
From SV Require Import Base.Prelude Model.Streams Proofs.Streams_proofs.
Open Scope N_scope.

(* ---- C02_bitmap_refines, in three parts: the bitmap code refines the set [used] ---- *)

(* allocate returns the least free id, below 32768, and sets exactly that bit *)
Theorem C02_bitmap_alloc : forall ws sid ws', wf_words ws -> sid_alloc ws = Some (sid, ws') ->
  sid < nids /\ used ws sid = false /\ (forall j, j < sid -> used ws j = true) /\
  (forall j, used ws' j = (j =? sid) || used ws j) /\ wf_words ws'.
Proof. exact bitmap_alloc. Qed.

(* allocate fails iff all 32768 ids are reserved *)
Theorem C02_bitmap_full : forall ws, wf_words ws ->
  (sid_alloc ws = None <-> forall j, j < nids -> used ws j = true).
Proof. exact bitmap_full. Qed.

(* free clears exactly one bit *)
Theorem C02_bitmap_free : forall ws sid, wf_words ws -> sid < nids ->
  (forall j, used (sid_free ws sid) j = negb (j =? sid) && used ws j) /\
  wf_words (sid_free ws sid).
Proof. exact bitmap_free. Qed.

(* u64::trailing_ones as modelled: the index of the lowest zero bit of a word that is not !0 *)
Theorem C02_trailing_ones : forall w, w < 2 ^ 64 -> w <> word_full ->
  trailing_ones w < 64 /\ N.testbit w (trailing_ones w) = false /\
  (forall i, i < trailing_ones w -> N.testbit w i = true).
Proof. exact trailing_ones_spec. Qed.

(* ---- C02_inv: holds in every reachable state, for every schedule ---- *)
(* reserved ids = ids pending at the peer = keys of handlers (disjoint union) orphans;
   request_to_stream is the inverse of handlers; stream ids and request ids are unique. *)
Theorem C02_inv : forall s, reachable s ->
  let m := c_hm s in let p := pending s in
  wf_words (hm_words m) /\
  (forall sid, used (hm_words m) sid = true <-> In sid (sids p)) /\
  (forall sid, In sid (sids p) <->
     ((exists h, mget sid (hm_handlers m) = Some h) \/ smem sid (hm_orphans m) = true)) /\
  (forall sid h, mget sid (hm_handlers m) = Some h -> smem sid (hm_orphans m) = false) /\
  (forall sid rid tok, mget sid (hm_handlers m) = Some (rid, tok) ->
     tok = rid /\ mget rid (hm_r2s m) = Some sid /\ In (sid, rid) p) /\
  (forall rid sid, mget rid (hm_r2s m) = Some sid -> mget sid (hm_handlers m) = Some (rid, rid)) /\
  NoDup (sids p) /\ NoDup (rids p ++ c_queue s) /\
  (forall rid, In rid (rids p ++ c_queue s) -> rid < c_next_rid s).
Proof. exact inv_statement. Qed.

(* the invariant is inductive: one step of any kind preserves it *)
Theorem C02_inv_step : forall s l s', Inv s -> step s l = Some s' -> Inv s'.
Proof. exact Inv_step. Qed.

(* ---- C02_no_reuse ---- *)
(* whatever request is written next, the id it gets is not pending at the peer, in particular
   not an id whose caller was cancelled (before, at or after the write) and which is therefore
   in the orphanage *)
Theorem C02_no_reuse : forall s rid tok m' sid, reachable s ->
  hm_allocate (c_hm s) rid tok = (m', AllocOk sid) ->
  ~ In sid (sids (pending s)) /\ smem sid (hm_orphans (c_hm s)) = false /\ sid < nids.
Proof. exact no_reuse. Qed.

(* a stream number is never carried by two requests whose answers have not been read *)
Theorem C02_unique_streams : forall s, reachable s -> NoDup (sids (pending s)).
Proof. exact unique_streams. Qed.

(* ---- C02_delivery ---- *)
(* when the reader takes the frame the peer produced for request [ans] (written with [sid]),
   lookup hands it to the handler of request [ans] itself, which has not been sent anything
   before, or drops it because that request was cancelled; nothing else can happen *)
Theorem C02_delivery : forall s sid ans fl, reachable s -> c_inflight s = (sid, ans) :: fl ->
  (snd (hm_lookup (c_hm s) sid) = LHandler ans ans /\ ~ In ans (map fst (c_mailbox s))) \/
  (snd (hm_lookup (c_hm s) sid) = LOrphaned /\ In ans (c_cancelled s)).
Proof. exact delivery. Qed.

(* every oneshot receives at most one message; a response a caller finds / returns is the one
   the peer produced for that caller's own request *)
Theorem C02_delivery_exact : forall s, reachable s ->
  NoDup (map fst (c_mailbox s)) /\
  (forall tok ans, In (tok, Resp ans) (c_mailbox s) -> ans = tok) /\
  (forall rid ans, In (rid, Resp ans) (c_completed s) -> ans = rid).
Proof. exact mailbox_exact. Qed.

(* an orphan notice that arrives after the response was handed over, or before the request
   was written, or for a request id not handed out yet, changes nothing *)
Theorem C02_late_orphan : forall s rid, reachable s ->
  In rid (map fst (c_mailbox s)) \/ In rid (c_queue s) \/ c_next_rid s <= rid ->
  hm_orphan (c_hm s) rid = c_hm s.
Proof. exact late_orphan. Qed.

(* ---- C02_exhaustion ---- *)
(* the writer answers UnableToAllocStreamId exactly when all 32768 ids are pending, and then
   nothing but the queue and that caller's mailbox changes *)
Theorem C02_exhaustion : forall s rid q, reachable s -> c_broken s = false ->
  c_queue s = rid :: q ->
  ((forall j, j < nids -> In j (sids (pending s))) <->
   step s WriterTake = Some (after_alloc_fail s rid q)).
Proof. exact exhaustion. Qed.

(* the state with all 32768 ids outstanding is reachable *)
Theorem C02_exhaustion_reachable :
  exists s, reachable s /\ c_broken s = false /\ forall j, j < nids -> In j (sids (pending s)).
Proof. exact exhaustion_reachable. Qed.

(* with a peer that answers only what it received, once each, the internal error branches
   (`assert!(prev_handler.is_none())`, UnexpectedStreamId) are never taken *)
Theorem C02_no_spurious_break : forall s l s', reachable s -> step s l = Some s' ->
  c_broken s' = true -> l = Break \/ c_broken s = true.
Proof. exact no_spurious_break. Qed.

(* the branch kept apart from the well-behaved peer: a frame on an id that is not pending reaches
   nobody — lookup answers Missing (the reader then fails with UnexpectedStreamId) and handlers,
   request ids and orphanage are untouched *)
Theorem C02_unsolicited : forall s sid, reachable s -> ~ In sid (sids (pending s)) ->
  snd (hm_lookup (c_hm s) sid) = LMissing /\
  hm_handlers (fst (hm_lookup (c_hm s) sid)) = hm_handlers (c_hm s) /\
  hm_r2s (fst (hm_lookup (c_hm s) sid)) = hm_r2s (c_hm s) /\
  hm_orphans (fst (hm_lookup (c_hm s) sid)) = hm_orphans (c_hm s).
Proof. exact unsolicited. Qed.

(* ---- the handler map alone, for EVERY operation sequence (stale, late, never-allocated ids) ----
   [sm_check] is the property written as a checker over an observed sequence (Model/Streams.v):
   no id handed out while outstanding, allocation fails only with 32768 outstanding, a lookup
   yields exactly the handler allocated with that id / orphaned / missing.  The model passes it
   for all sequences without duplicated request ids; the tie uses the same checker on the
   implementation's results to tell a violation from a mere difference. *)
Theorem C02_sm_spec : forall ops, sm_applicable ops = true -> Forall op_in_range ops ->
  sm_check ops (snd (hm_run hm_new ops)) = true.
Proof. exact sm_spec. Qed.

(* ---- non-vacuity: concrete schedules and states ---- *)
Example C02_ex_check_rejects :
  sm_check [OpAlloc 1 10; OpAlloc 2 11] [RAlloc (AllocOk 0) 10; RAlloc (AllocOk 0) 11] = false /\
  sm_check [OpAlloc 1 10; OpAlloc 2 11; OpLookup 1]
           [RAlloc (AllocOk 0) 10; RAlloc (AllocOk 1) 11; RLookup (LHandler 1 10)] = false /\
  sm_check [OpAlloc 1 10; OpOrphan 1; OpLookup 0]
           [RAlloc (AllocOk 0) 10; RUnit; RLookup (LHandler 1 10)] = false /\
  sm_check [OpAlloc 1 10] [RAlloc AllocFull 10] = false.
Proof. exact sm_check_rejects. Qed.

Definition C02_sched : list label :=
  [Submit; Submit; Submit; WriterTake; WriterTake; Cancel 0; OrphanerTake; WriterTake;
   PeerRecv; PeerRecv; PeerRecv; PeerAnswer 1; ReaderDeliver; PeerAnswer 0; ReaderDeliver;
   Submit; WriterTake; Complete 1; Cancel 3; PeerRecv; PeerAnswer 0; ReaderDeliver; OrphanerTake].

(* request 0 is cancelled after its write: its id 0 stays reserved (request 2 gets id 2), the
   late answer on id 0 is dropped, id 0 is then reused by request 3; answers arrive out of
   order; request 3 is cancelled after its response was delivered: the notice is a no-op *)
Example C02_ex_run :
  option_map (fun s => (c_writing s, c_owed s, c_inflight s, c_mailbox s, c_completed s,
                        melements (hm_handlers (c_hm s)), hm_orphans (c_hm s), c_broken s))
             (run conn_init C02_sched)
  = Some ([], [(2, 2)], [], [(3, Resp 3); (1, Resp 1)], [(1, Resp 1)], [(2, (2, 2))], [], false).
Proof. vm_compute. reflexivity. Qed.

Example C02_ex_orphan_keeps_id :
  option_map (fun s => (c_writing s, hm_orphans (c_hm s), melements (hm_handlers (c_hm s))))
    (run conn_init [Submit; Submit; Submit; WriterTake; WriterTake; Cancel 0; OrphanerTake;
                    WriterTake])
  = Some ([(0, 0); (1, 1); (2, 2)], [0], [(1, (1, 1)); (2, (2, 2))]).
Proof. vm_compute. reflexivity. Qed.

Example C02_ex_bitmap :
  sid_alloc (word_full :: 7 :: repeat 0 510) = Some (67, word_full :: 15 :: repeat 0 510) /\
  sid_alloc (repeat word_full 512) = None /\
  nth 1 (sid_free (word_full :: 15 :: repeat 0 510) 65) 0 = 13 /\
  trailing_ones (2 ^ 63 - 1) = 63.
Proof. repeat split; vm_compute; reflexivity. Qed.

(* the handler map alone, with a duplicated request id and stale ids (the state-machine tie
   drives the real code with such sequences) *)
Example C02_ex_ops :
  snd (hm_run hm_new [OpAlloc 7 100; OpAlloc 7 101; OpOrphan 7; OpLookup 0; OpLookup 1;
                      OpLookup 1; OpProbe 100; OpAlloc 9 102])
  = [RAlloc (AllocOk 0) 100; RAlloc (AllocOk 1) 101; RUnit; RLookup (LHandler 7 100);
     RLookup LOrphaned; RLookup LMissing; RProbe false; RAlloc (AllocOk 0) 102].
Proof. vm_compute. reflexivity. Qed.

Print Assumptions C02_bitmap_alloc.
Print Assumptions C02_bitmap_full.
Print Assumptions C02_bitmap_free.
Print Assumptions C02_trailing_ones.
Print Assumptions C02_inv.
Print Assumptions C02_inv_step.
Print Assumptions C02_no_reuse.
Print Assumptions C02_unique_streams.
Print Assumptions C02_delivery.
Print Assumptions C02_delivery_exact.
Print Assumptions C02_late_orphan.
Print Assumptions C02_exhaustion.
Print Assumptions C02_exhaustion_reachable.
Print Assumptions C02_no_spurious_break.
Print Assumptions C02_unsolicited.
Print Assumptions C02_sm_spec.
