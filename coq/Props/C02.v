(* Property C02 — statements only.  Every theorem is closed by [exact] of a lemma from
   Proofs/Streams_proofs.v; the statements are pinned again in /verif/pins/C02.v.

   Vocabulary (Model/Streams.v): [used ws sid] = bit sid of the 512-word bitmap; [pending s] =
   the (stream id, request id) pairs written by the writer and not yet read back by the reader
   (on the way to the peer ++ received and unanswered ++ answered and on the way back);
   [reachable s] = s is reached from the initial connection by SOME label list, of any length:
   submissions, writer/reader/orphaner steps, the peer receiving and answering in any order,
   callers cancelling at any moment, breaks. *)
From SV Require Import Base.Prelude Model.Streams Proofs.Streams_proofs.
From SV Require Import Model.StreamsTrace Proofs.StreamsTrace_proofs Proofs.C02_d4_proofs.
From SV Require Model.ConnFail.
Open Scope N_scope.

(* ---- C02_bitmap_refines, in three parts: the bitmap code refines the set [used] ---- *)

(* allocate returns the least free id, below 32768, and sets exactly that bit *)
Theorem C02_bitmap_alloc : forall ws sid ws', wf_words ws -> sid_alloc ws = Some (sid, ws') ->
  sid < nids /\ used ws sid = false /\ (forall j, j < sid -> used ws j = true) /\
  (forall j, used ws' j = (j =? sid) || used ws j) /\ wf_words ws'.
Proof. exact bitmap_alloc. Qed.

(* allocate fails iff all 32768 ids are reserved *)
Theorem C02_bitmap_full : forall ws, wf_words ws ->
  (sid_alloc ws = None <-> forall j, j < nids -> used ws j = true).
Proof. exact bitmap_full. Qed.

(* free clears exactly one bit *)
Theorem C02_bitmap_free : forall ws sid, wf_words ws -> sid < nids ->
  (forall j, used (sid_free ws sid) j = negb (j =? sid) && used ws j) /\
  wf_words (sid_free ws sid).
Proof. exact bitmap_free. Qed.

(* u64::trailing_ones as modelled: the index of the lowest zero bit of a word that is not !0 *)
Theorem C02_trailing_ones : forall w, w < 2 ^ 64 -> w <> word_full ->
  trailing_ones w < 64 /\ N.testbit w (trailing_ones w) = false /\
  (forall i, i < trailing_ones w -> N.testbit w i = true).
Proof. exact trailing_ones_spec. Qed.

(* ---- C02_inv: holds in every reachable state, for every schedule ---- *)
(* reserved ids = ids pending at the peer = keys of handlers (disjoint union) orphans;
   request_to_stream is the inverse of handlers; stream ids and request ids are unique. *)
Theorem C02_inv : forall s, reachable s ->
  let m := c_hm s in let p := pending s in
  wf_words (hm_words m) /\
  (forall sid, used (hm_words m) sid = true <-> In sid (sids p)) /\
  (forall sid, In sid (sids p) <->
     ((exists h, mget sid (hm_handlers m) = Some h) \/ smem sid (hm_orphans m) = true)) /\
  (forall sid h, mget sid (hm_handlers m) = Some h -> smem sid (hm_orphans m) = false) /\
  (forall sid rid tok, mget sid (hm_handlers m) = Some (rid, tok) ->
     tok = rid /\ mget rid (hm_r2s m) = Some sid /\ In (sid, rid) p) /\
  (forall rid sid, mget rid (hm_r2s m) = Some sid -> mget sid (hm_handlers m) = Some (rid, rid)) /\
  NoDup (sids p) /\ NoDup (rids p ++ c_queue s) /\
  (forall rid, In rid (rids p ++ c_queue s) -> rid < c_next_rid s).
Proof. exact inv_statement. Qed.

(* the invariant is inductive: one step of any kind preserves it *)
Theorem C02_inv_step : forall s l s', Inv s -> step s l = Some s' -> Inv s'.
Proof. exact Inv_step. Qed.

(* ---- C02_no_reuse ---- *)
(* whatever request is written next, the id it gets is not pending at the peer, in particular
   not an id whose caller was cancelled (before, at or after the write) and which is therefore
   in the orphanage *)
Theorem C02_no_reuse : forall s rid tok m' sid, reachable s ->
  hm_allocate (c_hm s) rid tok = (m', AllocOk sid) ->
  ~ In sid (sids (pending s)) /\ smem sid (hm_orphans (c_hm s)) = false /\ sid < nids.
Proof. exact no_reuse. Qed.

(* a stream number is never carried by two requests whose answers have not been read *)
Theorem C02_unique_streams : forall s, reachable s -> NoDup (sids (pending s)).
Proof. exact unique_streams. Qed.

(* ---- C02_delivery ---- *)
(* when the reader takes the frame the peer produced for request [ans] (written with [sid]),
   lookup hands it to the handler of request [ans] itself, which has not been sent anything
   before, or drops it because that request was cancelled; nothing else can happen *)
Theorem C02_delivery : forall s sid ans fl, reachable s -> c_inflight s = (sid, ans) :: fl ->
  (snd (hm_lookup (c_hm s) sid) = LHandler ans ans /\ ~ In ans (map fst (c_mailbox s))) \/
  (snd (hm_lookup (c_hm s) sid) = LOrphaned /\ In ans (c_cancelled s)).
Proof. exact delivery. Qed.

(* every oneshot receives at most one message; a response a caller finds / returns is the one
   the peer produced for that caller's own request *)
Theorem C02_delivery_exact : forall s, reachable s ->
  NoDup (map fst (c_mailbox s)) /\
  (forall tok ans, In (tok, Resp ans) (c_mailbox s) -> ans = tok) /\
  (forall rid ans, In (rid, Resp ans) (c_completed s) -> ans = rid).
Proof. exact mailbox_exact. Qed.

(* an orphan notice that arrives after the response was handed over, or before the request
   was written, or for a request id not handed out yet, changes nothing *)
Theorem C02_late_orphan : forall s rid, reachable s ->
  In rid (map fst (c_mailbox s)) \/ In rid (c_queue s) \/ c_next_rid s <= rid ->
  hm_orphan (c_hm s) rid = c_hm s.
Proof. exact late_orphan. Qed.

(* ---- C02_exhaustion ---- *)
(* the writer answers UnableToAllocStreamId exactly when all 32768 ids are pending, and then
   nothing but the queue and that caller's mailbox changes *)
Theorem C02_exhaustion : forall s rid q, reachable s -> c_broken s = false ->
  c_queue s = rid :: q ->
  ((forall j, j < nids -> In j (sids (pending s))) <->
   step s WriterTake = Some (after_alloc_fail s rid q)).
Proof. exact exhaustion. Qed.

(* the state with all 32768 ids outstanding is reachable *)
Theorem C02_exhaustion_reachable :
  exists s, reachable s /\ c_broken s = false /\ forall j, j < nids -> In j (sids (pending s)).
Proof. exact exhaustion_reachable. Qed.

(* with a peer that answers only what it received, once each, the internal error branches
   (`assert!(prev_handler.is_none())`, UnexpectedStreamId) are never taken *)
Theorem C02_no_spurious_break : forall s l s', reachable s -> step s l = Some s' ->
  c_broken s' = true -> l = Break \/ c_broken s = true.
Proof. exact no_spurious_break. Qed.

(* the branch kept apart from the well-behaved peer: a frame on an id that is not pending reaches
   nobody — lookup answers Missing (the reader then fails with UnexpectedStreamId) and handlers,
   request ids and orphanage are untouched *)
Theorem C02_unsolicited : forall s sid, reachable s -> ~ In sid (sids (pending s)) ->
  snd (hm_lookup (c_hm s) sid) = LMissing /\
  hm_handlers (fst (hm_lookup (c_hm s) sid)) = hm_handlers (c_hm s) /\
  hm_r2s (fst (hm_lookup (c_hm s) sid)) = hm_r2s (c_hm s) /\
  hm_orphans (fst (hm_lookup (c_hm s) sid)) = hm_orphans (c_hm s).
Proof. exact unsolicited. Qed.

(* ---- the handler map alone, for EVERY operation sequence (stale, late, never-allocated ids) ----
   [sm_check] is the property written as a checker over an observed sequence (Model/Streams.v):
   no id handed out while outstanding, allocation fails only with 32768 outstanding, a lookup
   yields exactly the handler allocated with that id / orphaned / missing.  The model passes it
   for all sequences without duplicated request ids; the tie uses the same checker on the
   implementation's results to tell a violation from a mere difference. *)
Theorem C02_sm_spec : forall ops, sm_applicable ops = true -> Forall op_in_range ops ->
  sm_check ops (snd (hm_run hm_new ops)) = true.
Proof. exact sm_spec. Qed.

(* ---- the handler map WITH the orphans' ages (Model/StreamsTrace.v, part 4) ----
   [th_run] executes operations that carry the reading of the clock; [untimed] forgets the clock.
   The timed map returns what the untimed map returns and holds the same data, for EVERY sequence
   and EVERY clock: nothing but old_orphans_count depends on the ages. *)
Theorem C02_timed_refines : forall ops t m, TRel t m ->
  TRel (fst (th_run t ops)) (fst (hm_run m (untimed ops))) /\
  untimed_res (snd (th_run t ops)) = snd (hm_run m (untimed ops)).
Proof. exact th_refines. Qed.

(* the same operations under any two clocks give the same return values: an allocation succeeds
   in one run iff it succeeds in the other, however long the orphans have been waiting *)
Theorem C02_clock_independent : forall a b, same_ops a b ->
  untimed_res (snd (th_run th_new a)) = untimed_res (snd (th_run th_new b)).
Proof. exact th_clock_independent. Qed.

(* allocation fails iff all 32768 bits are set -- the orphanage and its ages are not consulted *)
Theorem C02_timed_alloc_full : forall t rid tok, wf_words (th_words t) ->
  ((forall j, j < nids -> used (th_words t) j = true) <-> th_allocate t rid tok = (t, AllocFull)).
Proof. exact th_alloc_full. Qed.

(* old_orphans_count: at most the number of orphans, grows with the clock, shrinks when the same
   ids were orphaned later, 0 while every orphan is younger than the threshold *)
Theorem C02_old_count_le : forall o now age,
  ot_older_than o now age <= N.of_nat (List.length (ot_by o)).
Proof. exact older_than_le. Qed.
Theorem C02_old_count_mono : forall o now now' age, now <= now' ->
  ot_older_than o now age <= ot_older_than o now' age.
Proof. exact older_than_mono_now. Qed.
Theorem C02_old_count_bracket : forall l1 l2 mn mn', mn <= mn' ->
  Forall2 (fun e1 e2 => snd e2 = snd e1 /\ fst e2 <= fst e1) l1 l2 ->
  (List.length (filter (is_old mn) l1) <= List.length (filter (is_old mn') l2))%nat.
Proof. exact older_than_mono_times. Qed.
Theorem C02_old_count_young : forall o now age,
  (forall e, In e (ot_by o) -> now - age < fst e) -> ot_older_than o now age = 0.
Proof. exact older_than_young. Qed.

(* ---- the end-to-end acceptor (Model/StreamsTrace.v, part 5) ----
   (C02_trace_sound = NO FALSE ALARM: every model history is accepted; what acceptance MEANS is
   C02_trace_no_share / C02_trace_delivery below)
   [obs_run conn_init ls] is what an outside observer sees of the run ls: requests submitted,
   frames received and sent by the peer, what the callers got.  [c02_trace_ok] is the property
   as a checker over such a history.  Every run of the model, of any length and for any
   schedule, in which all written frames have reached the peer, is accepted; hence a history of
   the real connection that the acceptor rejects is not a behaviour of the model. *)
Theorem C02_trace_sound : forall ls s, run conn_init ls = Some s -> c_writing s = [] ->
  c02_trace_ok (obs_run conn_init ls) = true.
Proof. exact trace_sound. Qed.

(* without the final condition every event is still accepted (it is only needed to justify an
   UnableToAllocStreamId by the 32768 requests that had reached or would reach the peer) *)
Theorem C02_trace_prefix : forall ls s, run conn_init ls = Some s ->
  exists a, acc_run acc_init (obs_run conn_init ls) = Some a.
Proof. exact trace_sound_prefix. Qed.

(* What an ACCEPTED history satisfies (soundness of the acceptor w.r.t. the property text), stated
   on positions of the event list, for every event list whatsoever:
   sentence 2 -- between two request frames carried by the same stream id the peer has answered the
   first one (whether or not its caller abandoned it: the acceptor does not know); *)
Theorem C02_trace_no_share : forall evs i j sid m1 m2, c02_trace_ok evs = true -> (i < j)%nat ->
  nth_error evs i = Some (EIn sid m1) -> nth_error evs j = Some (EIn sid m2) ->
  exists k, (i < k < j)%nat /\ nth_error evs k = Some (EOut sid m1).
Proof. exact trace_ok_no_share. Qed.

(* sentence 1 -- a caller that completed with rows holds the rows built for its own marker, and the
   peer had sent exactly that answer before, on the stream id on which it had received that very
   request *)
Theorem C02_trace_delivery : forall evs k m m', c02_trace_ok evs = true ->
  nth_error evs k = Some (EDone m (ORows m')) ->
  m' = m /\ exists i j sid, (i < j < k)%nat /\ nth_error evs i = Some (EIn sid m) /\
                            nth_error evs j = Some (EOut sid m).
Proof. exact trace_ok_delivery. Qed.

(* ---- the stream-id sentence on the map alone, for EVERY operation sequence: request ids and
   tokens may repeat (there [sm_check] is not applicable).  No id is handed out while outstanding,
   a refusal only with all 32768 outstanding, the assert never fires. *)
Theorem C02_ids_spec : forall ops, Forall op_in_range ops ->
  ids_check ops (snd (hm_run hm_new ops)) = true.
Proof. exact ids_spec. Qed.

(* The runner does not see the real history: the peer's events are in their real order, the
   callers' events are stamped by other threads (submit before the call, outcome after the return)
   and land anywhere among them.  [observes tr obs]: same peer events in the same order, every real
   outcome is somewhere in the observation.  If the OBSERVATION is accepted, the REAL history
   satisfies sentence 2 literally and sentence 1 up to "the answer was sent before the caller
   returned" (which no observer of time stamps can see). *)
Theorem C02_trace_skew : forall tr obs, observes tr obs -> c02_trace_ok obs = true ->
  (forall a b c sid m1 m2, tr = a ++ EIn sid m1 :: b ++ EIn sid m2 :: c -> In (EOut sid m1) b) /\
  (forall m m', In (EDone m (ORows m')) tr ->
     m' = m /\ exists a b c sid, tr = a ++ EIn sid m :: b ++ EOut sid m :: c).
Proof. exact trace_skew_sound. Qed.

(* Bracket of old_orphans_count over a whole run: the same operations under two clock labellings,
   the first with every orphaning read later and every count read earlier: all other results are
   equal, every count of the first is <= the count of the second.  (The real readings lie between
   the runner's stamps, so the real counts lie between the driver's two model runs.) *)
Theorem C02_count_bracket_run : forall a b, same_ops a b -> stamps_le a b ->
  Forall op_in_range (untimed a) ->
  Forall2 res_le (snd (th_run th_new a)) (snd (th_run th_new b)).
Proof. exact th_bracket. Qed.

(* reader(): only stream ids >= 0 reach lookup (so every lookup the reader makes is in range, the
   premise of C02_sm_spec / C02_ids_spec); -1 is an event, other negative ids are dropped *)
Theorem C02_dispatch_lookup : forall raw sid, reader_dispatch raw = DLookup sid -> sid = raw /\ sid < nids.
Proof. exact dispatch_lookup. Qed.
Theorem C02_dispatch_negative : forall raw, 32768 <= raw ->
  reader_dispatch raw = (if raw =? 65535 then DEvent else DIgnore).
Proof. exact dispatch_negative. Qed.

(* orphaner(): a tick breaks the connection iff more than 1024 ids have been orphaned for longer
   than 1 s -- hence never with at most 1024 orphans --, it reads the map only, and once it would
   break it keeps doing so as the clock advances.  At the connection level the break is the label
   [Break]: it preserves the invariant (C02_inv_step), so nothing is misrouted by it. *)
Theorem C02_tick : forall t now,
  (orphaner_tick_breaks t now = true <-> old_count_threshold < th_old_orphans_count t now) /\
  (orphaner_tick_breaks t now = true -> old_count_threshold < N.of_nat (List.length (ot_by (th_ot t)))) /\
  fst (th_step t (TCount now)) = t.
Proof. exact tick_breaks_spec. Qed.
Theorem C02_tick_mono : forall t now now', now <= now' ->
  orphaner_tick_breaks t now = true -> orphaner_tick_breaks t now' = true.
Proof. exact tick_mono. Qed.

(* old_orphans_count characterised: in every state of the timed map reached by operations (any
   clock, lookups in range) each orphaned id is recorded once with its orphaning time, the orphanage
   holds exactly the ids the untimed model has orphaned, and the count at clock [now] is the number
   of ids whose orphaning time tm satisfies tm < now - 1 s (or tm = now - 1 s and id <> 32767: the
   bound `(now - age, i16::MAX)` of the code's range query) *)
Theorem C02_old_count_char : forall ops, Forall op_in_range (untimed ops) ->
  let t := fst (th_run th_new ops) in
  NoDup (map fst (ot_orphans (th_ot t))) /\
  (forall sid, (exists tm, orphaned_since t sid = Some tm) <->
               smem sid (hm_orphans (fst (hm_run hm_new (untimed ops)))) = true) /\
  (forall now, th_old_orphans_count t now = N.of_nat (List.length (old_ids t now))) /\
  (forall now sid, In sid (old_ids t now) <->
     exists tm, orphaned_since t sid = Some tm /\
                (tm < now - old_age_ns \/ (tm = now - old_age_ns /\ sid < 32767))).
Proof. exact old_count_char. Qed.

(* the orphaner's tick ends the connection iff more than 1024 ids are old in that sense *)
Theorem C02_tick_char : forall ops now, Forall op_in_range (untimed ops) ->
  let t := fst (th_run th_new ops) in
  orphaner_tick_breaks t now = true <-> old_count_threshold < N.of_nat (List.length (old_ids t now)).
Proof. exact tick_char. Qed.

(* ---- deepening round 3 ---- *)
(* No false alarm under the runner's skew, event by event: [skew tr obs] = obs is tr with ESub events
   moved earlier and EDone events moved later by any number of adjacent swaps.  Whatever history
   passes the event checks of the acceptor still passes them after such a skew ... *)
Theorem C02_skew_accepts : forall l l', skew l l' -> forall a af, acc_run a l = Some af ->
  exists bf, acc_run a l' = Some bf.
Proof. exact skew_accepts_ex. Qed.

(* ... hence the skewed observation of EVERY run of the connection model is accepted event by event
   (no `viol` on a correct connection whatever the stamping skew).  Not covered: the final clause
   that justifies an UnableToAllocStreamId by positions (a `diff`-level clause). *)
Theorem C02_trace_skew_accepts : forall ls s obs, run conn_init ls = Some s ->
  skew (obs_run conn_init ls) obs -> exists a, acc_run acc_init obs = Some a.
Proof. exact trace_skew_accepts. Qed.

(* a skewed history is an observation in the sense of C02_trace_skew *)
Theorem C02_skew_observes : forall l l', skew l l' -> observes l l'.
Proof. exact skew_observes. Qed.

(* the bracket acceptor of the timed tie: if the real clock readings lie inside the runner's
   brackets (orphanings between the stamps, read later in [lo] and earlier in [hi]; counts the other
   way round) the real results lie between the driver's two model runs: every other result equal,
   every count between the two counts *)
Theorem C02_bracket_accepts : forall lo re hi, same_ops lo re -> same_ops re hi ->
  stamps_le lo re -> stamps_le re hi -> Forall op_in_range (untimed re) ->
  Forall2 res_le (snd (th_run th_new lo)) (snd (th_run th_new re)) /\
  Forall2 res_le (snd (th_run th_new re)) (snd (th_run th_new hi)).
Proof. exact bracket_accepts. Qed.

(* after ANY operation sequence (request ids and tokens may repeat; lookups < 32768) an allocation
   never fires the assert and never returns an id that still has a handler, is in the orphanage
   (abandoned, answer still owed) or is the target of a request_to_stream entry *)
Theorem C02_alloc_fresh_always : forall ops rid tok, Forall op_in_range ops ->
  let m := fst (hm_run hm_new ops) in
  snd (hm_allocate m rid tok) <> AllocPanic /\
  forall sid, snd (hm_allocate m rid tok) = AllocOk sid ->
    sid < nids /\ used (hm_words m) sid = false /\ mget sid (hm_handlers m) = None /\
    smem sid (hm_orphans m) = false /\
    (forall r, mget r (hm_r2s m) <> Some sid).
Proof. exact alloc_fresh_always. Qed.

(* old_ids without the truncated subtraction: for now >= 1 s an id is old iff it was orphaned more
   than 1 s ago (or exactly 1 s ago and is not 32767); for now < 1 s (no real clock) iff it was
   orphaned at clock 0 and is not 32767 *)
Theorem C02_old_ids_age : forall ops now sid, Forall op_in_range (untimed ops) ->
  let t := fst (th_run th_new ops) in
  In sid (old_ids t now) <->
  exists since, orphaned_since t sid = Some since /\
    if old_age_ns <=? now
    then since + old_age_ns < now \/ (since + old_age_ns = now /\ sid < 32767)
    else since = 0 /\ sid < 32767.
Proof. exact old_ids_age. Qed.

(* ---- the frame reader on the byte stream (part 6; [parse_frame] = C10's model of
   read_response_frame) ---- exactly 9 + `length` bytes per frame, for any length *)
Theorem C02_reader_exact : forall f rest, frame_wf f ->
  ConnFail.parse_frame (ConnFail.f_raw f ++ rest) = ConnFail.Got f rest.
Proof. exact parse_frame_exact. Qed.

Theorem C02_reader_frames : forall fs k rest, Forall frame_wf fs ->
  read_frames (List.length fs + k) (concat (map ConnFail.f_raw fs) ++ rest) =
  (fs ++ fst (read_frames k rest), snd (read_frames k rest)).
Proof. exact read_frames_exact. Qed.

(* What sm_check's ACCEPTANCE means, for every observed sequence whatsoever (the two sentences at
   the level of the map): between two hand-outs of one stream id lies a lookup of it (= the answer
   on that id has been read) whether or not the first request was orphaned meanwhile; and a lookup
   that yields a handler yields the request id and token that were allocated with exactly that id. *)
Theorem C02_sm_no_share : forall ops rs i j sid r1 t1 t1' r2 t2 t2', sm_check ops rs = true ->
  (i < j)%nat ->
  nth_error ops i = Some (OpAlloc r1 t1) -> nth_error rs i = Some (RAlloc (AllocOk sid) t1') ->
  nth_error ops j = Some (OpAlloc r2 t2) -> nth_error rs j = Some (RAlloc (AllocOk sid) t2') ->
  exists k, (i < k < j)%nat /\ nth_error ops k = Some (OpLookup sid).
Proof. intros ops rs. exact (sm_check_no_share ops [] rs). Qed.

Theorem C02_sm_delivery : forall ops rs k sid rid tok, sm_check ops rs = true ->
  nth_error ops k = Some (OpLookup sid) -> nth_error rs k = Some (RLookup (LHandler rid tok)) ->
  exists i t', (i < k)%nat /\ nth_error ops i = Some (OpAlloc rid tok) /\
               nth_error rs i = Some (RAlloc (AllocOk sid) t').
Proof. exact sm_check_delivery. Qed.

(* ---- non-vacuity: concrete schedules and states ---- *)
Example C02_ex_check_rejects :
  sm_check [OpAlloc 1 10; OpAlloc 2 11] [RAlloc (AllocOk 0) 10; RAlloc (AllocOk 0) 11] = false /\
  sm_check [OpAlloc 1 10; OpAlloc 2 11; OpLookup 1]
           [RAlloc (AllocOk 0) 10; RAlloc (AllocOk 1) 11; RLookup (LHandler 1 10)] = false /\
  sm_check [OpAlloc 1 10; OpOrphan 1; OpLookup 0]
           [RAlloc (AllocOk 0) 10; RUnit; RLookup (LHandler 1 10)] = false /\
  sm_check [OpAlloc 1 10] [RAlloc AllocFull 10] = false.
Proof. exact sm_check_rejects. Qed.

Definition C02_sched : list label :=
  [Submit; Submit; Submit; WriterTake; WriterTake; Cancel 0; OrphanerTake; WriterTake;
   PeerRecv; PeerRecv; PeerRecv; PeerAnswer 1; ReaderDeliver; PeerAnswer 0; ReaderDeliver;
   Submit; WriterTake; Complete 1; Cancel 3; PeerRecv; PeerAnswer 0; ReaderDeliver; OrphanerTake].

(* request 0 is cancelled after its write: its id 0 stays reserved (request 2 gets id 2), the
   late answer on id 0 is dropped, id 0 is then reused by request 3; answers arrive out of
   order; request 3 is cancelled after its response was delivered: the notice is a no-op *)
Example C02_ex_run :
  option_map (fun s => (c_writing s, c_owed s, c_inflight s, c_mailbox s, c_completed s,
                        melements (hm_handlers (c_hm s)), hm_orphans (c_hm s), c_broken s))
             (run conn_init C02_sched)
  = Some ([], [(2, 2)], [], [(3, Resp 3); (1, Resp 1)], [(1, Resp 1)], [(2, (2, 2))], [], false).
Proof. vm_compute. reflexivity. Qed.

Example C02_ex_orphan_keeps_id :
  option_map (fun s => (c_writing s, hm_orphans (c_hm s), melements (hm_handlers (c_hm s))))
    (run conn_init [Submit; Submit; Submit; WriterTake; WriterTake; Cancel 0; OrphanerTake;
                    WriterTake])
  = Some ([(0, 0); (1, 1); (2, 2)], [0], [(1, (1, 1)); (2, (2, 2))]).
Proof. vm_compute. reflexivity. Qed.

Example C02_ex_bitmap :
  sid_alloc (word_full :: 7 :: repeat 0 510) = Some (67, word_full :: 15 :: repeat 0 510) /\
  sid_alloc (repeat word_full 512) = None /\
  nth 1 (sid_free (word_full :: 15 :: repeat 0 510) 65) 0 = 13 /\
  trailing_ones (2 ^ 63 - 1) = 63.
Proof. repeat split; vm_compute; reflexivity. Qed.

(* the handler map alone, with a duplicated request id and stale ids (the state-machine tie
   drives the real code with such sequences) *)
Example C02_ex_ops :
  snd (hm_run hm_new [OpAlloc 7 100; OpAlloc 7 101; OpOrphan 7; OpLookup 0; OpLookup 1;
                      OpLookup 1; OpProbe 100; OpAlloc 9 102])
  = [RAlloc (AllocOk 0) 100; RAlloc (AllocOk 1) 101; RUnit; RLookup (LHandler 7 100);
     RLookup LOrphaned; RLookup LMissing; RProbe false; RAlloc (AllocOk 0) 102].
Proof. vm_compute. reflexivity. Qed.

(* the acceptor accepts the history of C02_sched and rejects: an id carried by two unanswered
   requests (the second one after its caller abandoned the first), an answer handed to another
   caller, an answer nobody sent, an allocation failure with nothing outstanding *)
Example C02_ex_trace_ok :
  c02_trace_ok (obs_run conn_init C02_sched) = true /\
  obs_run conn_init [Submit; Submit; WriterTake; WriterTake; PeerRecv; PeerRecv; PeerAnswer 1;
                     ReaderDeliver; Complete 1]
  = [ESub 0; ESub 1; EIn 0 0; EIn 1 1; EOut 1 1; EDone 1 (ORows 1)].
Proof. split; vm_compute; reflexivity. Qed.

Example C02_ex_trace_rejects :
  c02_trace_ok [ESub 1; ESub 2; EIn 0 1; EIn 0 2] = false /\
  c02_trace_ok [ESub 1; ESub 2; EIn 0 1; EIn 1 2; EOut 0 1; EDone 2 (ORows 1)] = false /\
  c02_trace_ok [ESub 1; EIn 0 1; EDone 1 (ORows 1)] = false /\
  c02_trace_ok [ESub 1; ESub 2; EIn 0 1; EDone 2 OErrAlloc] = false /\
  c02_trace_ok [ESub 1; ESub 2; EIn 0 1; EOut 0 1; EIn 0 2; EOut 0 2; EDone 2 (ORows 2)] = true.
Proof. repeat split; vm_compute; reflexivity. Qed.

(* ages: an id orphaned at time 5 is old from 5 + 1 s on; allocation does not look *)
Example C02_ex_timed :
  snd (th_run th_new [TOp (OpAlloc 1 1) 0; TOp (OpAlloc 2 2) 1; TOp (OpOrphan 1) 5;
                      TCount (4 + old_age_ns); TCount (5 + old_age_ns); TOp (OpAlloc 3 3) (2 * old_age_ns);
                      TOp (OpLookup 0) (2 * old_age_ns); TCount (3 * old_age_ns)])
  = [TRes (RAlloc (AllocOk 0) 1); TRes (RAlloc (AllocOk 1) 2); TRes RUnit; TCnt 0; TCnt 1;
     TRes (RAlloc (AllocOk 2) 3); TRes (RLookup LOrphaned); TCnt 0].
Proof. vm_compute. reflexivity. Qed.

Example C02_ex_reader :
  read_frames 3 [132; 0; 0; 7; 8; 0; 0; 0; 2; 170; 187;  132; 0; 0; 9; 8; 0; 0; 0; 0;  132; 0]
  = ([ConnFail.mk_frame [132; 0; 0; 7; 8; 0; 0; 0; 2] [170; 187];
      ConnFail.mk_frame [132; 0; 0; 9; 8; 0; 0; 0; 0] []], RdNeedMore 2).
Proof. vm_compute. reflexivity. Qed.

(* the id checker: rejects a double hand-out (also with a repeated request id), a refusal with
   free ids, an id >= 32768; accepts reuse after the lookup *)
Example C02_ex_ids_rejects :
  ids_check [OpAlloc 1 10; OpAlloc 1 11] [RAlloc (AllocOk 0) 10; RAlloc (AllocOk 0) 11] = false /\
  ids_check [OpAlloc 1 10] [RAlloc AllocFull 10] = false /\
  ids_check [OpAlloc 1 10] [RAlloc (AllocOk 32768) 10] = false /\
  ids_check [OpAlloc 1 10] [RAlloc AllocPanic 10] = false /\
  ids_check [OpAlloc 1 10; OpOrphan 1; OpAlloc 2 11] [RAlloc (AllocOk 0) 10; RUnit; RAlloc (AllocOk 0) 11] = false /\
  ids_check [OpAlloc 1 10; OpLookup 0; OpAlloc 1 11]
            [RAlloc (AllocOk 0) 10; RLookup (LHandler 1 10); RAlloc (AllocOk 0) 11] = true.
Proof. repeat split; vm_compute; reflexivity. Qed.

(* more rejections of the trace acceptor: id reused after its caller was answered nothing (the
   earlier request abandoned: no EDone at all), answer on another stream than the request came
   with, rows for a request never written, two outcomes, frame on an id >= 32768 *)
Example C02_ex_trace_rejects2 :
  c02_trace_ok [ESub 1; EIn 5 1; ESub 2; ESub 3; EIn 6 2; EIn 5 3] = false /\
  c02_trace_ok [ESub 1; EIn 5 1; EOut 6 1] = false /\
  c02_trace_ok [ESub 1; ESub 2; EIn 0 1; EOut 0 1; EDone 2 (ORows 2)] = false /\
  c02_trace_ok [ESub 1; EIn 0 1; EOut 0 1; EDone 1 (ORows 1); EDone 1 (ORows 1)] = false /\
  c02_trace_ok [ESub 1; EIn 32768 1] = false /\
  c02_trace_ok [ESub 1; EIn 5 1; EOut 5 1; ESub 2; EIn 5 2; EOut 5 2; EDone 2 (ORows 2)] = true.
Proof. repeat split; vm_compute; reflexivity. Qed.

Example C02_ex_dispatch :
  reader_dispatch 0 = DLookup 0 /\ reader_dispatch 32767 = DLookup 32767 /\
  reader_dispatch 32768 = DIgnore /\ reader_dispatch 65534 = DIgnore /\ reader_dispatch 65535 = DEvent.
Proof. repeat split. Qed.

(* two orphans, threshold 1024: no break; the observation relation on a concrete pair; a bracket *)
Example C02_ex_tick_skew :
  orphaner_tick_breaks (fst (th_run th_new [TOp (OpAlloc 1 1) 0; TOp (OpAlloc 2 2) 0; TOp (OpOrphan 1) 1;
                                           TOp (OpOrphan 2) 2])) (5 * old_age_ns) = false /\
  observes [ESub 1; EIn 0 1; EOut 0 1; EDone 1 (ORows 1)] [ESub 1; EIn 0 1; EOut 0 1; EDone 1 (ORows 1)] /\
  observes [EIn 0 1; ESub 1; EDone 1 (ORows 1); EOut 0 1] [ESub 1; EIn 0 1; EOut 0 1; EDone 1 (ORows 1)] /\
  stamps_le [TOp (OpAlloc 1 1) 0; TOp (OpOrphan 1) 9; TCount 20] [TOp (OpAlloc 1 1) 5; TOp (OpOrphan 1) 7; TCount 30].
Proof.
  repeat split; try (vm_compute; reflexivity); try (cbn; lia).
  all: intros e He Hin; cbn in Hin; cbn; tauto.
Qed.

(* ids 0 and 1 orphaned at clock 5 and 7: at 6 + 1 s only id 0 is old, at 7 + 1 s both (boundary) *)
Example C02_ex_old_ids :
  let t := fst (th_run th_new [TOp (OpAlloc 1 1) 0; TOp (OpAlloc 2 2) 0; TOp (OpAlloc 3 3) 0;
                               TOp (OpOrphan 1) 5; TOp (OpOrphan 2) 7]) in
  old_ids t (6 + old_age_ns) = [0] /\ old_ids t (7 + old_age_ns) = [1; 0] /\ old_ids t old_age_ns = [] /\
  orphaned_since t 1 = Some 7 /\ orphaned_since t 2 = None /\ th_old_orphans_count t (7 + old_age_ns) = 2.
Proof. vm_compute. repeat split; reflexivity. Qed.

(* a skew: request 2 submitted "earlier", outcome of request 1 reported "later"; both histories pass *)
Example C02_ex_skew :
  skew [ESub 1; EIn 0 1; ESub 2; EOut 0 1; EDone 1 (ORows 1); EIn 0 2]
       [ESub 1; ESub 2; EIn 0 1; EOut 0 1; EIn 0 2; EDone 1 (ORows 1)] /\
  c02_trace_ok [ESub 1; EIn 0 1; ESub 2; EOut 0 1; EDone 1 (ORows 1); EIn 0 2] = true /\
  c02_trace_ok [ESub 1; ESub 2; EIn 0 1; EOut 0 1; EIn 0 2; EDone 1 (ORows 1)] = true.
Proof.
  split; [|split; vm_compute; reflexivity].
  eapply skew_trans; [exact (skew_sub [ESub 1] (EIn 0 1) 2 [EOut 0 1; EDone 1 (ORows 1); EIn 0 2])|].
  exact (skew_done [ESub 1; ESub 2; EIn 0 1; EOut 0 1] 1 (ORows 1) (EIn 0 2) []).
Qed.

(* ================================================================ Deepening round 4 (proof only) *)
(* The UnableToAllocStreamId clause of the acceptor, characterised.  [exhaust_ok a m] (evaluated by
   the driver to name the unjustified outcome) holds for a submitted request m with that outcome iff
   its frame never reached the peer and each of the 32768 stream ids was received by the peer with
   ANOTHER request r, submitted before m's outcome, whose caller had no final answer before m's
   submission ([exhaust_justified], written out here). *)
Theorem C02_exhaust_spec : forall a m pm pdm,
  mget m (a_sub a) = Some pm -> mget m (a_done a) = Some (pdm, OErrAlloc) ->
  (exhaust_ok a m = true <->
   mget m (a_recv a) = None /\
   forall sid, sid < nids -> exists r ps,
     r <> m /\ mget r (a_sub a) = Some ps /\ ps < pdm /\
     (forall pd o, mget r (a_done a) = Some (pd, o) -> pm < pd) /\
     mget r (a_recv a) = Some sid).
Proof. exact exhaust_ok_spec. Qed.

(* [final_ok] = every recorded UnableToAllocStreamId outcome of a submitted request is justified;
   hence what [c02_trace_ok] is: the event checks pass and every such outcome is justified. *)
Theorem C02_final_ok_spec : forall a,
  final_ok a = true <->
  forall m pm pdm, mget m (a_sub a) = Some pm -> mget m (a_done a) = Some (pdm, OErrAlloc) ->
                   exhaust_justified a m pm pdm.
Proof. exact final_ok_spec. Qed.

Theorem C02_trace_final : forall evs,
  c02_trace_ok evs = true <->
  exists a, acc_run acc_init evs = Some a /\
    forall m pm pdm, mget m (a_sub a) = Some pm -> mget m (a_done a) = Some (pdm, OErrAlloc) ->
                     exhaust_justified a m pm pdm.
Proof. exact trace_ok_final. Qed.

(* What ACCEPTANCE means for the third clause, on event positions (companion of C02_trace_no_share
   and C02_trace_delivery): a caller that got UnableToAllocStreamId at position pdm was submitted (at
   pm), its request frame never reached the peer, and for each of the 32768 stream ids the peer
   received a frame on that id carrying ANOTHER request r that was submitted before pdm and has no
   outcome of its own at or before pm. *)
Theorem C02_trace_alloc_fail : forall evs pdm m, c02_trace_ok evs = true ->
  nth_error evs pdm = Some (EDone m OErrAlloc) ->
  (forall sid, ~ In (EIn sid m) evs) /\
  exists pm, nth_error evs pm = Some (ESub m) /\
    forall sid, sid < nids -> exists r ps,
      r <> m /\ nth_error evs ps = Some (ESub r) /\ (ps < pdm)%nat /\ In (EIn sid r) evs /\
      forall pd o, nth_error evs pd = Some (EDone r o) -> (pm < pd)%nat.
Proof. exact trace_ok_alloc_fail. Qed.

(* which checker the driver evaluates on the implementation's results: [sm_applicable] is exactly
   "no request id and no token allocated twice" (the premise of C02_sm_spec as a proposition) *)
Theorem C02_sm_applicable_spec : forall ops,
  sm_applicable ops = true <-> NoDup (alloc_rids ops) /\ NoDup (alloc_toks ops).
Proof. exact sm_applicable_spec. Qed.

(* the final-state comparison of the sm tie: [hm_into_handlers] lists exactly the handler table *)
Theorem C02_into_handlers_spec : forall m sid rid tok,
  In (sid, (rid, tok)) (hm_into_handlers m) <-> mget sid (hm_handlers m) = Some (rid, tok).
Proof. exact into_handlers_spec. Qed.

(* non-vacuity of C02_trace_alloc_fail / C02_exhaust_spec: 32769 requests submitted, 32768 of them
   received on the ids 0 .. 32767, the last one refused -- accepted; with only 32767 received the
   refusal is not justified -- rejected *)
Example C02_ex_alloc_fail :
  c02_trace_ok (full_history 32768) = true /\ In (EDone 32768 OErrAlloc) (full_history 32768) /\
  c02_trace_ok (full_history 32767) = false.
Proof.
  split; [vm_compute; reflexivity|]. split; [|vm_compute; reflexivity].
  unfold full_history. apply in_or_app. right. apply in_or_app. right. now left.
Qed.

Example C02_ex_applicable :
  sm_applicable [OpAlloc 1 10; OpLookup 0; OpAlloc 2 11] = true /\
  sm_applicable [OpAlloc 1 10; OpAlloc 1 11] = false /\ sm_applicable [OpAlloc 1 10; OpAlloc 2 10] = false /\
  hm_into_handlers (fst (hm_run hm_new [OpAlloc 7 10; OpAlloc 8 11; OpOrphan 7])) = [(1, (8, 11))].
Proof. repeat split; vm_compute; reflexivity. Qed.

Print Assumptions C02_bitmap_alloc.
Print Assumptions C02_bitmap_full.
Print Assumptions C02_bitmap_free.
Print Assumptions C02_trailing_ones.
Print Assumptions C02_inv.
Print Assumptions C02_inv_step.
Print Assumptions C02_no_reuse.
Print Assumptions C02_unique_streams.
Print Assumptions C02_delivery.
Print Assumptions C02_delivery_exact.
Print Assumptions C02_late_orphan.
Print Assumptions C02_exhaustion.
Print Assumptions C02_exhaustion_reachable.
Print Assumptions C02_no_spurious_break.
Print Assumptions C02_unsolicited.
Print Assumptions C02_sm_spec.
Print Assumptions C02_timed_refines.
Print Assumptions C02_clock_independent.
Print Assumptions C02_timed_alloc_full.
Print Assumptions C02_old_count_le.
Print Assumptions C02_old_count_mono.
Print Assumptions C02_old_count_bracket.
Print Assumptions C02_old_count_young.
Print Assumptions C02_trace_sound.
Print Assumptions C02_trace_prefix.
Print Assumptions C02_reader_exact.
Print Assumptions C02_reader_frames.
Print Assumptions C02_trace_no_share.
Print Assumptions C02_trace_delivery.
Print Assumptions C02_ids_spec.
Print Assumptions C02_trace_skew.
Print Assumptions C02_count_bracket_run.
Print Assumptions C02_dispatch_lookup.
Print Assumptions C02_dispatch_negative.
Print Assumptions C02_tick.
Print Assumptions C02_tick_mono.
Print Assumptions C02_sm_no_share.
Print Assumptions C02_sm_delivery.
Print Assumptions C02_old_count_char.
Print Assumptions C02_tick_char.
Print Assumptions C02_skew_accepts.
Print Assumptions C02_trace_skew_accepts.
Print Assumptions C02_skew_observes.
Print Assumptions C02_bracket_accepts.
Print Assumptions C02_alloc_fresh_always.
Print Assumptions C02_old_ids_age.
Print Assumptions C02_exhaust_spec.
Print Assumptions C02_final_ok_spec.
Print Assumptions C02_trace_final.
Print Assumptions C02_trace_alloc_fail.
Print Assumptions C02_sm_applicable_spec.
Print Assumptions C02_into_handlers_spec.
