(* Property C03 — statements only.  Every theorem is closed by [exact] of a lemma from
   Proofs/Murmur_proofs.v or Proofs/PartKey_proofs.v; the statements are pinned again in
   /verif/pins/C03.v.

   Model (what the code does): Model/Murmur.v [m3_write]/[m3_finish]/[cdc_write]/[cdc_finish]/
   [feed]/[hash_one] (partitioner.rs), Model/PartKey.v [pk_new]/[encoded_pk_chunks]/
   [ps_calculate_token]/[ps_compute_partition_key]/[token_for_partition_key] (prepared.rs,
   result.rs, partitioner.rs).
   Specification (what the server computes): [murmur3_spec] = Cassandra's
   MurmurHash.hash3_x64_128 (seed 0, first long), [j_normalize], [cdc_token_spec],
   [spec_serialized_key], [spec_components], [spec_token]. *)
From SV Require Import Base.Prelude Base.Bytes Model.Cql Model.Shard Model.Murmur Model.MurmurRef Model.PartKey
  Model.PartName Model.PartKeyTyped.
From SV Require Import Proofs.Murmur_proofs Proofs.MurmurRef_proofs Proofs.PartKey_proofs Proofs.PartName_proofs
  Proofs.TokenRing_proofs Proofs.PartKeyTyped_proofs Proofs.C03_d4_proofs.
Open Scope N_scope.

(* ---- the streaming hashers ------------------------------------------------------------- *)

(* for EVERY list of chunks the streaming Murmur3 hasher returns the normalised Cassandra hash
   of the concatenation (the length premise only excludes inputs of 2^63 bytes or more) *)
Theorem C03_chunking : forall chunks : list bytes,
  (Z.of_nat (length (concat chunks)) < 2 ^ 63)%Z ->
  m3_finish (fold_left m3_write chunks m3_init) = token_new (murmur3_spec (concat chunks)).
Proof. exact m3_chunking. Qed.

(* the length premise is sufficient, not necessary: the length enters the hash only modulo 2^64
   (xor followed by wrapping additions), so model and specification agree for EVERY list of
   chunks.  (The model's total_len is an unbounded N; a Rust usize cannot count 2^64 bytes.) *)
Theorem C03_chunking_all : forall chunks : list bytes,
  m3_finish (fold_left m3_write chunks m3_init) = token_new (murmur3_spec (concat chunks)).
Proof. exact m3_chunking_all. Qed.

Theorem C03_feed_all : forall p (chunks : list bytes), feed p chunks = token_spec p (concat chunks).
Proof. exact feed_chunking_all. Qed.

(* ---- a second, independent formulation of the specification (Model/MurmurRef.v) ----------
   Appleby's published MurmurHash3_x64_128 in unsigned 64-bit arithmetic, walking the data block
   by block with a descending tail loop, plus Cassandra's signed tail bytes: for every byte
   string it is the unsigned reading of the Java-style hash3_x64_128, both halves *)
Theorem C03_reference : forall key : bytes, bytes_ok key ->
  u_hash3_x64_128 key =
  ((fst (hash3_x64_128 key) mod 2 ^ 64)%Z, (snd (hash3_x64_128 key) mod 2 ^ 64)%Z).
Proof. exact u_hash3_spec. Qed.

Theorem C03_reference_token : forall key : bytes, bytes_ok key ->
  u_token key = murmur3_token_spec key.
Proof. exact u_token_spec. Qed.

(* the streaming hasher of the driver against that reference, for every chunking *)
Theorem C03_chunking_reference : forall chunks : list bytes, bytes_ok (concat chunks) ->
  m3_finish (fold_left m3_write chunks m3_init) = u_token (concat chunks).
Proof. exact m3_chunking_reference. Qed.

(* for EVERY list of chunks the CDC hasher returns the CDC token of the concatenation *)
Theorem C03_cdc_chunking : forall chunks : list bytes,
  cdc_finish (fold_left cdc_write chunks cdc_init) = cdc_token_spec (concat chunks).
Proof. exact cdc_chunking. Qed.

(* the CDC token: a key of at least 8 bytes gets the big-endian i64 of its first 8 bytes,
   normalised; a shorter key gets i64::MIN *)
Theorem C03_cdc : forall key : bytes,
  ((8 <= length key)%nat -> cdc_token_spec key = j_normalize (dec_signed (firstn 8 key))) /\
  ((length key < 8)%nat -> cdc_token_spec key = (- 2 ^ 63)%Z).
Proof. exact (fun key => conj (cdc_token_long key) (cdc_token_short key)). Qed.

(* the CDC token written out (content for C03_cdc, which only unfolds the definition): the first
   eight bytes as one big-endian two's complement integer, MIN -> MAX *)
Theorem C03_cdc_explicit : forall key : bytes, bytes_ok key -> (8 <= length key)%nat ->
  let b i := Z.of_N (nth i key 0) in
  cdc_token_spec key =
  j_normalize (jlong (b 0%nat * 2 ^ 56 + b 1%nat * 2 ^ 48 + b 2%nat * 2 ^ 40 + b 3%nat * 2 ^ 32
                      + b 4%nat * 2 ^ 24 + b 5%nat * 2 ^ 16 + b 6%nat * 2 ^ 8 + b 7%nat)%Z).
Proof. exact cdc_token_explicit. Qed.

(* a CDC stream id is 16 bytes; for such keys the token is the normalised big-endian i64 of the
   first 8 bytes under every reading of the CDC partitioner (see docs/C03.md, "CDC") *)
Theorem C03_cdc_stream_id : forall chunks : list bytes,
  length (concat chunks) = 16%nat ->
  cdc_finish (fold_left cdc_write chunks cdc_init) =
  j_normalize (dec_signed (firstn 8 (concat chunks))).
Proof. exact cdc_chunking_stream_id. Qed.

(* partitioner selection (PartitionerName::from_str and its use in Session::prepare /
   ClusterState::compute_token): a table naming a class that ends in "CDCPartitioner" is
   hashed by the CDC hasher, one naming "...Murmur3Partitioner" by the Murmur3 hasher *)
Theorem C03_from_str_cdc : forall s,
  ends_with s cdc_suffix = true -> partitioner_from_str s = Some PCdc.
Proof. exact from_str_cdc. Qed.

Theorem C03_from_str_murmur3 : forall s,
  ends_with s murmur3_suffix = true -> partitioner_from_str s = Some PMurmur3.
Proof. exact from_str_murmur3. Qed.

(* exact characterisation of PartitionerName::from_str *)
Theorem C03_from_str_cdc_iff : forall s,
  partitioner_from_str s = Some PCdc <-> ends_with s cdc_suffix = true.
Proof. exact from_str_cdc_iff. Qed.

Theorem C03_from_str_murmur3_iff : forall s,
  partitioner_from_str s = Some PMurmur3 <-> ends_with s murmur3_suffix = true.
Proof. exact from_str_murmur3_iff. Qed.

Theorem C03_from_str_none_iff : forall s,
  partitioner_from_str s = None <->
  ends_with s cdc_suffix = false /\ ends_with s murmur3_suffix = false.
Proof. exact from_str_none_iff. Qed.

(* "tables using the CDC partitioner get the CDC token", for every chunking of the key *)
Theorem C03_cdc_table : forall s (chunks : list bytes),
  ends_with s cdc_suffix = true ->
  feed (table_partitioner (Some s)) chunks = cdc_token_spec (concat chunks).
Proof. exact cdc_table_token. Qed.

Theorem C03_murmur3_table : forall s (chunks : list bytes),
  ends_with s murmur3_suffix = true ->
  (Z.of_nat (length (concat chunks)) < 2 ^ 63)%Z ->
  feed (table_partitioner (Some s)) chunks = murmur3_token_spec (concat chunks).
Proof. exact murmur3_table_token. Qed.

(* the same through PartitionerName / PartitionerHasherAny, for both partitioners *)
Theorem C03_feed : forall p (chunks : list bytes),
  (Z.of_nat (length (concat chunks)) < 2 ^ 63)%Z ->
  feed p chunks = token_spec p (concat chunks).
Proof. exact feed_chunking. Qed.

Theorem C03_hash_one : forall p (data : bytes),
  (Z.of_nat (length data) < 2 ^ 63)%Z -> hash_one p data = token_spec p data.
Proof. exact hash_one_spec. Qed.

(* a Murmur3 token is a valid i64 and never i64::MIN *)
Theorem C03_token_range : forall key : bytes,
  (- 2 ^ 63 < murmur3_token_spec key < 2 ^ 63)%Z.
Proof. exact murmur3_token_range. Qed.

(* ---- partition key extraction ----------------------------------------------------------
   [chk] = the build's overflow-checks setting (true: debug, u16 overflow panics; false: release,
   it wraps): inside the quantifier the theorems hold for both. *)

(* whatever the order of the bind markers and whatever is bound to the other markers, slot j
   of the partition key receives the value bound to the marker announced as pk index j *)
Theorem C03_pk_order : forall chk ncols (wire : list N) (values : list raw_value),
  NoDup wire ->
  (forall i, In i wire -> (N.to_nat i < length values)%nat /\ (N.to_nat i < ncols)%nat) ->
  N.of_nat (length values) <= 65535 ->
  pk_new chk ncols wire values = Ok (map (fun i => as_value (nth (N.to_nat i) values RNull)) wire).
Proof. exact pk_new_order. Qed.

(* compute_partition_key is the serialized partition key of the specification *)
Theorem C03_partition_key : forall chk ncols wire values,
  key_ok ncols wire values ->
  (length wire = 1%nat \/ Forall fits (spec_components wire values)) ->
  ps_compute_partition_key chk ncols wire values =
  Ok (spec_serialized_key (spec_components wire values)).
Proof. exact ps_compute_partition_key_spec. Qed.

(* calculate_token is the partitioner's token of the serialized partition key, the components
   taken in partition-key order *)
Theorem C03_token : forall chk p ncols wire values,
  wire <> [] -> key_ok ncols wire values ->
  (length wire = 1%nat \/ Forall fits (spec_components wire values)) ->
  (Z.of_nat (length (spec_serialized_key (spec_components wire values))) < 2 ^ 63)%Z ->
  ps_calculate_token chk p ncols wire values = Ok (Some (spec_token p wire values)).
Proof. exact ps_calculate_token_spec. Qed.

Theorem C03_token_all : forall chk p ncols wire values,
  wire <> [] -> key_ok ncols wire values ->
  (length wire = 1%nat \/ Forall fits (spec_components wire values)) ->
  ps_calculate_token chk p ncols wire values = Ok (Some (spec_token p wire values)).
Proof. exact ps_calculate_token_spec_all. Qed.

(* a component of a composite key that does not fit the 2-byte length is refused, never
   truncated; and that is the only error inside the quantifier *)
Theorem C03_too_long : forall chk p ncols wire values,
  key_ok ncols wire values -> (1 < length wire)%nat ->
  Exists (fun c => 65535 < N.of_nat (length c)) (spec_components wire values) ->
  exists n, ps_calculate_token chk p ncols wire values = Err (ValueTooLong n) /\ 65535 < n /\
            In n (map (fun c => N.of_nat (length c)) (spec_components wire values)).
Proof. exact ps_calculate_token_too_long. Qed.

Theorem C03_errors : forall chk p ncols wire values e,
  key_ok ncols wire values -> ps_calculate_token chk p ncols wire values = Err e ->
  exists n, e = ValueTooLong n /\ 65535 < n.
Proof. exact ps_calculate_token_errors. Qed.

(* calculate_token_for_partition_key (behind ClusterState::compute_token and its variants) on the key columns given
   in partition-key order *)
Theorem C03_token_preserialized : forall p (comps : list bytes),
  (length comps = 1%nat \/ Forall fits comps) ->
  (Z.of_nat (length (spec_serialized_key comps)) < 2 ^ 63)%Z ->
  token_for_partition_key p (map RValue comps) = Ok (token_spec p (spec_serialized_key comps)).
Proof. exact token_for_partition_key_spec. Qed.

(* the token does not depend on how the key bytes are chunked while hashing ... *)
Theorem C03_chunk_independent : forall p (chunks1 chunks2 : list bytes),
  concat chunks1 = concat chunks2 -> (Z.of_nat (length (concat chunks1)) < 2 ^ 63)%Z ->
  feed p chunks1 = feed p chunks2.
Proof. exact feed_chunk_independent. Qed.

(* ... nor on where the key markers stand in the statement: two statements / bindings with
   the same key components in partition-key order get the same token *)
Theorem C03_marker_order : forall chk p ncols1 wire1 values1 ncols2 wire2 values2,
  wire1 <> [] -> key_ok ncols1 wire1 values1 -> key_ok ncols2 wire2 values2 ->
  spec_components wire1 values1 = spec_components wire2 values2 ->
  (length wire1 = 1%nat \/ Forall fits (spec_components wire1 values1)) ->
  (Z.of_nat (length (spec_serialized_key (spec_components wire1 values1))) < 2 ^ 63)%Z ->
  ps_calculate_token chk p ncols1 wire1 values1 = ps_calculate_token chk p ncols2 wire2 values2.
Proof. exact marker_order_irrelevant. Qed.

(* ---- from the metadata rows to the hasher (fetching.rs, Session::prepare) --------------- *)
(* "tables using the CDC partitioner get the CDC token": when the (last) scylla_tables row of the
   statement's table names a class ending in CDCPartitioner, the prepared statement hashes with
   the CDC hasher, for every chunking of the key *)
Theorem C03_cdc_table_chain : forall rows ks t name (chunks : list bytes),
  partitioners_get rows ks t None = Some (Some name) -> ends_with name cdc_suffix = true ->
  feed (prepared_partitioner (Some rows) true (Some (ks, t))) chunks = cdc_token_spec (concat chunks).
Proof. exact cdc_table_chain. Qed.

Theorem C03_murmur3_table_chain : forall rows ks t name (chunks : list bytes),
  partitioners_get rows ks t None = Some (Some name) -> ends_with name murmur3_suffix = true ->
  (Z.of_nat (length (concat chunks)) < 2 ^ 63)%Z ->
  feed (prepared_partitioner (Some rows) true (Some (ks, t))) chunks = murmur3_token_spec (concat chunks).
Proof. exact murmur3_table_chain. Qed.

(* the same with the HashMap semantics spelled out: the row of (ks, t) that no other row of
   (ks, t) follows decides ("last row wins"), whatever precedes it and whatever rows of other
   tables follow *)
Theorem C03_cdc_table_last_row : forall r1 r2 ks t name (chunks : list bytes),
  forallb (fun x => negb (row_is ks t x)) r2 = true -> ends_with name cdc_suffix = true ->
  feed (prepared_partitioner (Some (r1 ++ ((ks, t), Some name) :: r2)) true (Some (ks, t))) chunks
  = cdc_token_spec (concat chunks).
Proof. exact cdc_table_last_row. Qed.

Theorem C03_murmur3_table_last_row : forall r1 r2 ks t name (chunks : list bytes),
  forallb (fun x => negb (row_is ks t x)) r2 = true -> ends_with name murmur3_suffix = true ->
  (Z.of_nat (length (concat chunks)) < 2 ^ 63)%Z ->
  feed (prepared_partitioner (Some (r1 ++ ((ks, t), Some name) :: r2)) true (Some (ks, t))) chunks
  = murmur3_token_spec (concat chunks).
Proof. exact murmur3_table_last_row. Qed.

(* ... in both schema fetch modes that fetch anything: Minimal, and Full for a table that has
   column rows.  (Disabled fetches nothing and a Full-mode table without column rows gets no
   partitioner: both hash with Murmur3 - documented opt-out resp. degenerate table, modelled and
   tied, see C03_ex_fetch_modes.) *)
Theorem C03_cdc_table_fetch_modes : forall fm has_columns r1 r2 ks t name (chunks : list bytes),
  (fm = FetchMinimal \/ (fm = FetchFull /\ has_columns = true)) ->
  forallb (fun x => negb (row_is ks t x)) r2 = true -> ends_with name cdc_suffix = true ->
  feed (session_partitioner fm (Some (r1 ++ ((ks, t), Some name) :: r2)) true has_columns (Some (ks, t))) chunks
  = cdc_token_spec (concat chunks).
Proof. exact cdc_table_fetch_modes. Qed.

Theorem C03_murmur3_table_fetch_modes : forall fm has_columns r1 r2 ks t name (chunks : list bytes),
  (fm = FetchMinimal \/ (fm = FetchFull /\ has_columns = true)) ->
  forallb (fun x => negb (row_is ks t x)) r2 = true -> ends_with name murmur3_suffix = true ->
  (Z.of_nat (length (concat chunks)) < 2 ^ 63)%Z ->
  feed (session_partitioner fm (Some (r1 ++ ((ks, t), Some name) :: r2)) true has_columns (Some (ks, t))) chunks
  = murmur3_token_spec (concat chunks).
Proof. exact murmur3_table_fetch_modes. Qed.

(* exact characterisation of the HashMap lookup: it returns p exactly when the rows are
   r1 ++ ((ks,t),p) :: r2 with no row of (ks,t) in r2, and nothing exactly when no row matches *)
Theorem C03_partitioners_get_some_iff : forall rows ks t p,
  partitioners_get rows ks t None = Some p <->
  exists r1 r2, rows = r1 ++ ((ks, t), p) :: r2 /\
                forallb (fun x => negb (row_is ks t x)) r2 = true.
Proof. exact partitioners_get_some_iff. Qed.

Theorem C03_partitioners_get_none_iff : forall rows ks t,
  partitioners_get rows ks t None = None <-> forallb (fun x => negb (row_is ks t x)) rows = true.
Proof. exact partitioners_get_none_iff. Qed.

(* exact characterisation of the partitioner a Session gives a prepared statement (content for the
   two definitional fetch-mode theorems): CDC exactly when schema fetching is Minimal or (Full and
   the table has column rows), the table is listed, and the last scylla_tables row of the table
   names a class ending in CDCPartitioner; in every other case Murmur3 *)
Theorem C03_session_partitioner_cdc_iff : forall fm st in_tables has_columns spec,
  session_partitioner fm st in_tables has_columns spec = PCdc <->
  (fm = FetchMinimal \/ (fm = FetchFull /\ has_columns = true)) /\ in_tables = true /\
  exists rows ks t r1 r2 name,
    st = Some rows /\ spec = Some (ks, t) /\
    rows = r1 ++ ((ks, t), Some name) :: r2 /\
    forallb (fun x => negb (row_is ks t x)) r2 = true /\ ends_with name cdc_suffix = true.
Proof. exact session_partitioner_cdc_iff. Qed.

(* ---- typed values (serialize_values + C01's encoder) ----------------------------------- *)
(* the typed calculate_token / compute_partition_key are the token / serialized key of the
   serialized row ... *)
Theorem C03_token_typed : forall chk p cols wire cells raws,
  typed_row cols cells = Some raws ->
  wire <> [] -> key_ok (length cols) wire raws ->
  (length wire = 1%nat \/ Forall fits (spec_components wire raws)) ->
  (Z.of_nat (length (spec_serialized_key (spec_components wire raws))) < 2 ^ 63)%Z ->
  ps_calculate_token_typed chk p cols wire cells = Ok (Some (spec_token p wire raws)) /\
  ps_compute_partition_key_typed chk cols wire cells =
    Ok (spec_serialized_key (spec_components wire raws)).
Proof. exact typed_token_spec. Qed.

(* ... whose key components are the protocol encodings (C01's Enc) of the bound values *)
Theorem C03_typed_components : forall cols wire cells raws,
  typed_row cols cells = Some raws ->
  (forall i, In i wire -> (N.to_nat i < length cols)%nat /\
     exists v, nth (N.to_nat i) cells CNull = CVal v /\
               wf_type (nth (N.to_nat i) cols (TNative NBlob)) = true /\
               wf_val (nth (N.to_nat i) cols (TNative NBlob)) v = true /\
               vector_hole (nth (N.to_nat i) cols (TNative NBlob)) v = false) ->
  typed_components_ok cols wire cells (spec_components wire raws).
Proof. exact typed_components_enc. Qed.

(* ---- the token ring side (with C11's sharder) ------------------------------------------ *)
(* every specified token is an i64, i.e. inside the domain of Sharder::shard_of *)
Theorem C03_token_i64 : forall p (key : bytes), bytes_ok key ->
  (- 2 ^ 63 <= token_spec p key < 2 ^ 63)%Z.
Proof. exact token_spec_range. Qed.

(* never i64::MIN, except the CDC token of a key shorter than 8 bytes (Token::INVALID) *)
Theorem C03_token_not_min : forall p (key : bytes), bytes_ok key ->
  (p = PCdc -> (8 <= length key)%nat) -> token_spec p key <> (- 2 ^ 63)%Z.
Proof. exact token_spec_not_min. Qed.

(* `token.value as u64` in shard_of is exact on a token *)
Theorem C03_token_as_u64 : forall p (key : bytes), bytes_ok key ->
  Z.of_N (i64_as_u64 (token_spec p key)) =
  (if token_spec p key <? 0 then token_spec p key + 2 ^ 64 else token_spec p key)%Z.
Proof. exact token_as_u64_exact. Qed.

(* the shard computed from a hashed key is ScyllaDB's shard of the specified token (msb <= 63 as in
   C11: a larger msb_ignore overflows the Rust shift) *)
Theorem C03_token_shard : forall p (chunks : list bytes) n msb,
  (Z.of_nat (length (concat chunks)) < 2 ^ 63)%Z -> 0 < n -> msb <= 63 ->
  shard_of n msb (feed p chunks) = spec_shard_of n msb (token_spec p (concat chunks)) /\
  shard_of n msb (feed p chunks) < n.
Proof. exact feed_shard. Qed.

(* the executable predicates evaluated by the correspondence driver on the implementation's
   outputs: [key_okb] decides the quantifier exactly, and the model itself always satisfies
   the property predicates *)
Theorem C03_key_okb_iff : forall ncols wire values,
  key_okb ncols wire values = true <-> key_ok ncols wire values.
Proof. exact key_okb_iff. Qed.

Theorem C03_prop_model : forall chk p ncols wire values,
  (Z.of_nat (length (spec_serialized_key (spec_components wire values))) < 2 ^ 63)%Z ->
  prop_token_ok p ncols wire values (ps_calculate_token chk p ncols wire values) = true.
Proof. exact prop_token_model. Qed.

Theorem C03_prop_pk_model : forall p values,
  (Z.of_nat (length (spec_serialized_key (map bound_bytes values))) < 2 ^ 63)%Z ->
  prop_pk_token_ok p values (token_for_partition_key p values) = true.
Proof. exact prop_pk_token_model. Qed.

(* ---- deepening round 4 ----------------------------------------------------------------- *)
(* the driver's verdict predicates characterised exactly.  Inside the quantifier prop_token_ok
   accepts an observed result of calculate_token IFF it is the specified outcome
   ([spec_outcome], Proofs/C03_d4_proofs.v): no key columns and no token; or a serializable key
   and exactly the partitioner's token of the serialized key; or a composite key with a component
   over 65535 bytes and ValueTooLong n with 65535 < n.  So a `viol` of kinds K / R means exactly
   "the implementation's output is not the specified outcome", and `ok` by predicate that it is.
   Outside the quantifier the predicate claims nothing. *)
Theorem C03_prop_token_iff : forall p ncols wire values obs,
  key_ok ncols wire values ->
  (prop_token_ok p ncols wire values obs = true <->
   (wire = [] /\ obs = Ok None) \/
   (wire <> [] /\ (length wire = 1%nat \/ Forall fits (spec_components wire values)) /\
    obs = Ok (Some (spec_token p wire values))) \/
   ((1 < length wire)%nat /\
    Exists (fun c => 65535 < N.of_nat (length c)) (spec_components wire values) /\
    exists n, obs = Err (ValueTooLong n) /\ 65535 < n)).
Proof. exact prop_token_ok_iff. Qed.

Theorem C03_prop_token_outside : forall p ncols wire values obs,
  ~ key_ok ncols wire values -> prop_token_ok p ncols wire values obs = true.
Proof. exact prop_token_ok_outside. Qed.

(* the same for calculate_token_for_partition_key (kind T) on values that are all bound *)
Theorem C03_prop_pk_token_iff : forall p values obs,
  forallb is_value values = true ->
  (prop_pk_token_ok p values obs = true <->
   (((length (map bound_bytes values) <= 1)%nat \/ Forall fits (map bound_bytes values)) /\
    obs = Ok (token_spec p (spec_serialized_key (map bound_bytes values)))) \/
   ((1 < length (map bound_bytes values))%nat /\
    Exists (fun c => 65535 < N.of_nat (length c)) (map bound_bytes values) /\
    exists n, obs = Err (ValueTooLong n) /\ 65535 < n)).
Proof. exact prop_pk_token_ok_iff. Qed.

Theorem C03_prop_pk_token_outside : forall p values obs,
  forallb is_value values = false -> prop_pk_token_ok p values obs = true.
Proof. exact prop_pk_token_ok_outside. Qed.

(* the model satisfies the driver's predicates for EVERY input (the < 2^63 premise of
   C03_prop_model / C03_prop_pk_model discharged) *)
Theorem C03_prop_model_all : forall chk p ncols wire values,
  prop_token_ok p ncols wire values (ps_calculate_token chk p ncols wire values) = true.
Proof. exact prop_token_model_all. Qed.

Theorem C03_prop_pk_model_all : forall p values,
  prop_pk_token_ok p values (token_for_partition_key p values) = true.
Proof. exact prop_pk_token_model_all. Qed.

(* the other < 2^63 premises discharged: hash_one, chunk independence, the preserialized key,
   the shard of a hashed key *)
Theorem C03_hash_one_all : forall p (data : bytes), hash_one p data = token_spec p data.
Proof. exact hash_one_spec_all. Qed.

Theorem C03_chunk_independent_all : forall p (chunks1 chunks2 : list bytes),
  concat chunks1 = concat chunks2 -> feed p chunks1 = feed p chunks2.
Proof. exact feed_chunk_independent_all. Qed.

Theorem C03_token_preserialized_all : forall p (comps : list bytes),
  (length comps = 1%nat \/ Forall fits comps) ->
  token_for_partition_key p (map RValue comps) = Ok (token_spec p (spec_serialized_key comps)).
Proof. exact token_for_partition_key_spec_all. Qed.

Theorem C03_token_shard_all : forall p (chunks : list bytes) n msb,
  0 < n -> msb <= 63 ->
  shard_of n msb (feed p chunks) = spec_shard_of n msb (token_spec p (concat chunks)) /\
  shard_of n msb (feed p chunks) < n.
Proof. exact feed_shard_all. Qed.

(* str::ends_with (the extracted function behind from_str and the driver's choice of the expected
   partitioner for P / E) is "s = pre ++ suffix" *)
Theorem C03_ends_with_iff : forall s suffix,
  ends_with s suffix = true <-> exists pre, s = String.append pre suffix.
Proof. exact ends_with_iff. Qed.

(* ---- cross-checks and non-vacuity ------------------------------------------------------ *)

(* the literal vectors of partitioner.rs tests: "test", "xd", "primary_key", "kremówki" *)
Definition v_test : bytes := [0x74; 0x65; 0x73; 0x74].
Definition v_xd : bytes := [0x78; 0x64].
Definition v_primary_key : bytes :=
  [0x70; 0x72; 0x69; 0x6d; 0x61; 0x72; 0x79; 0x5f; 0x6b; 0x65; 0x79].
Definition v_kremowki : bytes := [0x6b; 0x72; 0x65; 0x6d; 0xc3; 0xb3; 0x77; 0x6b; 0x69].

Example C03_ex_vectors_spec :
  murmur3_token_spec v_test = (-6017608668500074083)%Z /\
  murmur3_token_spec v_xd = 4507812186440344727%Z /\
  murmur3_token_spec v_primary_key = (-1632642444691073360)%Z /\
  murmur3_token_spec v_kremowki = 4354931215268080151%Z.
Proof. repeat split; vm_compute; reflexivity. Qed.

Example C03_ex_vectors_model :
  hash_one PMurmur3 v_test = (-6017608668500074083)%Z /\
  hash_one PMurmur3 v_xd = 4507812186440344727%Z /\
  hash_one PMurmur3 v_primary_key = (-1632642444691073360)%Z /\
  hash_one PMurmur3 v_kremowki = 4354931215268080151%Z.
Proof. repeat split; vm_compute; reflexivity. Qed.

Example C03_ex_vectors_cdc :
  hash_one PCdc v_test = (-9223372036854775808)%Z /\
  hash_one PCdc v_xd = (-9223372036854775808)%Z /\
  hash_one PCdc v_primary_key = 8102654598100187487%Z /\
  hash_one PCdc v_kremowki = 7742362231512463211%Z /\
  cdc_token_spec v_primary_key = 8102654598100187487%Z /\
  cdc_token_spec v_kremowki = 7742362231512463211%Z.
Proof. repeat split; vm_compute; reflexivity. Qed.

(* published vectors of the standard MurmurHash3_x64_128 (seed 0) on ASCII input, where
   Cassandra's variant coincides with it: mmh3.hash64("foo"), mmh3.hash64("hello"), and the
   digest e34bbc7bbc071b6c7a433ca9c49a9347 of the 43-byte pangram (two blocks + an 11-byte
   tail, i.e. both tail halves) *)
Definition v_foo : bytes := [0x66; 0x6f; 0x6f].
Definition v_hello : bytes := [0x68; 0x65; 0x6c; 0x6c; 0x6f].
Definition v_fox : bytes :=
  [0x54; 0x68; 0x65; 0x20; 0x71; 0x75; 0x69; 0x63; 0x6b; 0x20; 0x62; 0x72; 0x6f; 0x77; 0x6e; 0x20;
   0x66; 0x6f; 0x78; 0x20; 0x6a; 0x75; 0x6d; 0x70; 0x73; 0x20; 0x6f; 0x76; 0x65; 0x72; 0x20; 0x74;
   0x68; 0x65; 0x20; 0x6c; 0x61; 0x7a; 0x79; 0x20; 0x64; 0x6f; 0x67].
Example C03_ex_published :
  hash3_x64_128 v_foo = ((-2129773440516405919)%Z, 9128664383759220103%Z) /\
  hash3_x64_128 v_hello = ((-3758069500696749310)%Z, 6565844092913065241%Z) /\
  hash3_x64_128 v_fox = (jlong 0xe34bbc7bbc071b6c, 0x7a433ca9c49a9347%Z).
Proof. repeat split; vm_compute; reflexivity. Qed.

(* vectors with bytes >= 0x80 in BOTH tail halves (k1: offsets 0..7, k2: offsets 8..14) and in
   whole blocks, produced by a JVM running the Java source of MurmurHash.hash3_x64_128 and,
   independently, by the unsigned reference in checks/c03.py (both halves of the hash); the
   standard unsigned-tail function gives different values on all four *)
Definition v_hi15 : bytes := map (fun i => 128 + i) (nrange 0 15).
Definition v_mix31 : bytes := map (fun i => (i * 37 + 131) mod 256) (nrange 0 31).
Definition v_ff47 : bytes := repeat 255 47.
Definition v_desc25 : bytes := map (fun i => (255 + 256 * 3 - 3 * i) mod 256) (nrange 9 25).
Example C03_ex_signed_tail_spec :
  hash3_x64_128 v_hi15 = (63099782945186636%Z, 2182381563788159242%Z) /\
  hash3_x64_128 v_mix31 = ((-2660492343151653474)%Z, 5064651862250545885%Z) /\
  hash3_x64_128 v_ff47 = (412418349843382352%Z, 3358633513818683839%Z) /\
  hash3_x64_128 v_desc25 = (4712412279767989472%Z, (-2463441715072205894)%Z).
Proof. repeat split; vm_compute; reflexivity. Qed.
Example C03_ex_signed_tail_model :
  hash_one PMurmur3 v_hi15 = 63099782945186636%Z /\
  hash_one PMurmur3 v_mix31 = (-2660492343151653474)%Z /\
  hash_one PMurmur3 v_ff47 = 412418349843382352%Z /\
  hash_one PMurmur3 v_desc25 = 4712412279767989472%Z.
Proof. repeat split; vm_compute; reflexivity. Qed.

(* the unsigned reference on the published digest of the pangram (e34bbc7bbc071b6c 7a433ca9c49a9347),
   on mmh3.hash128("foo") = h2 * 2^64 + h1, and on the JVM vectors with signed tail bytes *)
Example C03_ex_reference :
  u_hash3_x64_128 v_fox = (0xe34bbc7bbc071b6c, 0x7a433ca9c49a9347)%Z /\
  (snd (u_hash3_x64_128 v_foo) * 2 ^ 64 + fst (u_hash3_x64_128 v_foo)
   = 168394135621993849475852668931176482145)%Z /\
  u_token v_hi15 = 63099782945186636%Z /\ u_token v_mix31 = (-2660492343151653474)%Z /\
  u_token v_ff47 = 412418349843382352%Z /\ u_token v_desc25 = 4712412279767989472%Z /\
  u_token v_kremowki = 4354931215268080151%Z.
Proof. repeat split; vm_compute; reflexivity. Qed.

(* the normalisation and the CDC rule on concrete values *)
Example C03_ex_normalize :
  j_normalize (- 2 ^ 63) = (2 ^ 63 - 1)%Z /\ j_normalize (- 2 ^ 63 + 1) = (- 2 ^ 63 + 1)%Z /\
  token_new (- 2 ^ 63) = (2 ^ 63 - 1)%Z /\ j_normalize 5 = 5%Z.
Proof. repeat split; vm_compute; reflexivity. Qed.
Example C03_ex_cdc_spec :
  cdc_token_spec [1; 2; 3; 4; 5; 6; 7] = (- 2 ^ 63)%Z /\
  cdc_token_spec [0x80; 0; 0; 0; 0; 0; 0; 0; 9; 9] = (2 ^ 63 - 1)%Z /\
  cdc_token_spec [0xff; 0xff; 0xff; 0xff; 0xff; 0xff; 0xff; 0xfe; 1; 2; 3; 4; 5; 6; 7; 8] = (-2)%Z /\
  cdc_token_spec [0; 0; 0; 0; 0; 0; 1; 0] = 256%Z.
Proof. repeat split; vm_compute; reflexivity. Qed.

(* partitioner selection on the class names a table can carry *)
Example C03_ex_partitioner_names :
  partitioner_from_str murmur3_class = Some PMurmur3 /\
  partitioner_from_str cdc_class = Some PCdc /\
  partitioner_from_str random_class = None /\
  table_partitioner (Some cdc_class) = PCdc /\
  table_partitioner (Some random_class) = PMurmur3 /\ table_partitioner None = PMurmur3 /\
  ends_with cdc_class cdc_suffix = true /\ ends_with cdc_suffix cdc_class = false /\
  ends_with murmur3_class cdc_suffix = false.
Proof. repeat split; vm_compute; reflexivity. Qed.

(* a 41-byte stream with bytes >= 0x80 fed in chunks that straddle both 16-byte boundaries *)
Definition ex_stream : bytes := map (fun i => (i * 37 + 131) mod 256) (nrange 0 41).
Example C03_ex_chunking :
  feed PMurmur3 [firstn 5 ex_stream; []; firstn 20 (skipn 5 ex_stream); skipn 25 ex_stream]
  = murmur3_token_spec ex_stream /\
  concat [firstn 5 ex_stream; []; firstn 20 (skipn 5 ex_stream); skipn 25 ex_stream] = ex_stream /\
  murmur3_token_spec ex_stream = 7650976126945904119%Z.
Proof. repeat split; vm_compute; reflexivity. Qed.

(* the shuffled key of prepared.rs' test: pk indexes announced as [4; 0; 3] among five markers,
   the other two markers bound to a value and to null *)
Definition ex_wire : list N := [4; 0; 3].
Definition ex_values : list raw_value :=
  [RValue [67]; RNull; RValue [0; 0; 0; 23]; RValue [0; 0; 0; 0; 0; 0; 0; 89];
   RValue [1; 2; 3; 4; 5]].
Example C03_ex_key_ok : key_ok 5 ex_wire ex_values.
Proof. apply key_okb_sound. vm_compute. reflexivity. Qed.
Example C03_ex_key :
  pk_new true 5 ex_wire ex_values =
    Ok [Some [1; 2; 3; 4; 5]; Some [67]; Some [0; 0; 0; 0; 0; 0; 0; 89]] /\
  ps_compute_partition_key false 5 ex_wire ex_values =
    Ok [0; 5; 1; 2; 3; 4; 5; 0; 0; 1; 67; 0; 0; 8; 0; 0; 0; 0; 0; 0; 0; 89; 0] /\
  ps_calculate_token true PMurmur3 5 ex_wire ex_values = Ok (Some (spec_token PMurmur3 ex_wire ex_values)) /\
  spec_token PMurmur3 ex_wire ex_values = (-2929013484768013632)%Z.
Proof. repeat split; vm_compute; reflexivity. Qed.

(* the same key bound through a statement whose markers stand elsewhere *)
Example C03_ex_marker_order :
  key_ok 3 [0; 2; 1] [RValue [1; 2; 3; 4; 5]; RValue [0; 0; 0; 0; 0; 0; 0; 89]; RValue [67]] /\
  ps_calculate_token false PMurmur3 3 [0; 2; 1]
    [RValue [1; 2; 3; 4; 5]; RValue [0; 0; 0; 0; 0; 0; 0; 89]; RValue [67]]
  = ps_calculate_token true PMurmur3 5 ex_wire ex_values.
Proof. split; [apply key_okb_sound|]; vm_compute; reflexivity. Qed.

(* the serialized key and the property predicates on concrete inputs, rejecting ones included *)
Example C03_ex_serialized_key :
  spec_serialized_key [[7; 8]] = [7; 8] /\
  spec_serialized_key [[7; 8]; []] = [0; 2; 7; 8; 0; 0; 0; 0] /\
  spec_serialized_key [] = [] /\
  spec_components ex_wire ex_values = [[1; 2; 3; 4; 5]; [67]; [0; 0; 0; 0; 0; 0; 0; 89]].
Proof. repeat split; vm_compute; reflexivity. Qed.
Example C03_ex_key_okb :
  key_okb 5 ex_wire ex_values = true /\
  key_okb 5 [4; 0; 4] ex_values = false /\          (* duplicate pk index *)
  key_okb 5 [4; 1; 3] ex_values = false /\          (* key marker bound to null *)
  key_okb 5 [4; 0; 5] ex_values = false /\          (* pk index beyond the markers *)
  key_okb 4 ex_wire ex_values = false.               (* pk index beyond the column specs *)
Proof. repeat split; vm_compute; reflexivity. Qed.
Example C03_ex_prop_rejects :
  prop_token_ok PMurmur3 5 ex_wire ex_values (Ok (Some (-2929013484768013632)%Z)) = true /\
  prop_token_ok PMurmur3 5 ex_wire ex_values (Ok (Some (-2929013484768013631)%Z)) = false /\
  prop_token_ok PMurmur3 5 ex_wire ex_values (Ok None) = false /\
  prop_token_ok PMurmur3 5 ex_wire ex_values (Err (ValueTooLong 70000)) = false /\
  prop_token_ok PMurmur3 5 ex_wire ex_values (Err RustPanic) = false /\
  (* the token of the components in MARKER order instead of partition-key order is refused *)
  prop_token_ok PMurmur3 5 ex_wire ex_values
    (Ok (Some (token_spec PMurmur3 (spec_serialized_key
                 [[67]; [0; 0; 0; 0; 0; 0; 0; 89]; [1; 2; 3; 4; 5]])))) = false /\
  prop_token_ok PCdc 5 ex_wire ex_values (Ok (Some (-2929013484768013632)%Z)) = false /\
  prop_pk_token_ok PMurmur3 [RValue [1]; RValue [2]] (Ok 1%Z) = false /\
  prop_pk_token_ok PMurmur3 [RValue [1]; RValue [2]]
    (Ok (token_spec PMurmur3 [0; 1; 1; 0; 0; 1; 2; 0])) = true /\
  prop_pk_token_ok PMurmur3 [RValue [1]; RValue (repeat 0 (N.to_nat 65536))] (Ok 1%Z) = false /\
  prop_pk_token_ok PMurmur3 [RValue [1]; RValue (repeat 0 (N.to_nat 65536))]
    (Err (ValueTooLong 65536)) = true.
Proof. repeat split; vm_compute; reflexivity. Qed.

(* outside the quantifier the two build modes differ: a duplicate pk index panics with overflow
   checks and yields NoPkIndexValue without *)
Example C03_ex_build_modes :
  pk_new true 2 [1; 1] [RValue [1]; RValue [2]] = Err RustPanic /\
  pk_new false 2 [1; 1] [RValue [1]; RValue [2]] = Err (NoPkIndexValue 1 2) /\
  pk_new true 2 [1; 0] [RValue [1]; RValue [2]] = pk_new false 2 [1; 0] [RValue [1]; RValue [2]].
Proof. repeat split; vm_compute; reflexivity. Qed.

(* the metadata chain on concrete rows: last row wins, null / missing row / unknown table /
   no scylla_tables give Murmur3 *)
Example C03_ex_chain :
  prepared_partitioner (Some ex_rows) true (Some (ex_ks, ex_log)) = PCdc /\
  prepared_partitioner (Some ex_rows) true (Some (ex_other, ex_log)) = PMurmur3 /\
  prepared_partitioner (Some ex_rows) true (Some (ex_ks, ex_t)) = PMurmur3 /\
  prepared_partitioner (Some ex_rows) true (Some (ex_ks, ex_u)) = PMurmur3 /\
  prepared_partitioner (Some ex_rows) false (Some (ex_ks, ex_log)) = PMurmur3 /\
  prepared_partitioner None true (Some (ex_ks, ex_log)) = PMurmur3 /\
  prepared_partitioner (Some ex_rows) true None = PMurmur3 /\
  partitioners_get ex_rows ex_ks ex_log None = Some (Some cdc_class).
Proof. repeat split; vm_compute; reflexivity. Qed.

(* the fetch modes on the CDC table of ex_rows: Minimal and Full (with columns) find the CDC
   partitioner, Disabled and a Full-mode table without column rows fall back to Murmur3 *)
Example C03_ex_fetch_modes :
  session_partitioner FetchMinimal (Some ex_rows) true false (Some (ex_ks, ex_log)) = PCdc /\
  session_partitioner FetchFull (Some ex_rows) true true (Some (ex_ks, ex_log)) = PCdc /\
  session_partitioner FetchFull (Some ex_rows) true false (Some (ex_ks, ex_log)) = PMurmur3 /\
  session_partitioner FetchDisabled (Some ex_rows) true true (Some (ex_ks, ex_log)) = PMurmur3 /\
  session_partitioner FetchMinimal (Some ex_rows) false true (Some (ex_ks, ex_log)) = PMurmur3.
Proof. repeat split; vm_compute; reflexivity. Qed.

(* beyond the i64 range of the length: `total_len as i64` wraps, Java's length does not, and the
   final mixing still agrees (C03_chunking_all); here at total lengths 2^63 and 2^64 + 5 *)
Example C03_ex_length_beyond_i64 :
  m3_final 0 0 (2 ^ 63) = j_normalize (fst (j_final 0 0 (Z.of_N (2 ^ 63)))) /\
  m3_final 7 (-9) (2 ^ 64 + 5) = j_normalize (fst (j_final 7 (-9) (Z.of_N (2 ^ 64 + 5)))) /\
  m3_final 0 0 (2 ^ 63) = (-8108722261328812909)%Z.
Proof. repeat split; vm_compute; reflexivity. Qed.

(* a typed composite key (int, text) bound through markers in reverse order *)
Example C03_ex_typed :
  typed_row [TNative NText; TNative NInt] [CVal (CText [0x61; 0x62]); CVal (CInt (-2))]
    = Some [RValue [0x61; 0x62]; RValue [255; 255; 255; 254]] /\
  ps_compute_partition_key_typed true [TNative NText; TNative NInt] [1; 0]
    [CVal (CText [0x61; 0x62]); CVal (CInt (-2))]
    = Ok [0; 4; 255; 255; 255; 254; 0; 0; 2; 0x61; 0x62; 0] /\
  ps_calculate_token_typed true PMurmur3 [TNative NText; TNative NInt] [1; 0]
    [CVal (CText [0x61; 0x62]); CVal (CBigInt 5)] = Err TSerialization /\
  ps_calculate_token_typed true PMurmur3 [TNative NText; TNative NInt] [1; 0]
    [CVal (CText [0x61; 0x62])] = Err TSerialization.
Proof. repeat split; vm_compute; reflexivity. Qed.

(* tokens at the edge of the sharder's domain *)
Example C03_ex_ring :
  token_spec PCdc [0x80; 0; 0; 0; 0; 0; 0; 0] = (2 ^ 63 - 1)%Z /\
  shard_of 7 12 (token_spec PCdc [0x80; 0; 0; 0; 0; 0; 0; 0]) = shard_of 7 12 (2 ^ 63 - 1)%Z /\
  token_spec PCdc [1; 2] = (- 2 ^ 63)%Z /\ shard_of 7 0 (token_spec PCdc [1; 2]) = 0.
Proof. repeat split; vm_compute; reflexivity. Qed.

(* an over-long component of a composite key is refused *)
Example C03_ex_too_long :
  ps_calculate_token true PMurmur3 2 [1; 0] [RValue [1]; RValue (repeat 0 (N.to_nat 65536))]
  = Err (ValueTooLong 65536).
Proof. vm_compute. reflexivity. Qed.

(* round 4: the characterisations on the [4,0,3] key - the specified outcome is accepted, every
   other shape refused - on an all-bound T input, and the suffix witness of the CDC class *)
Example C03_ex_round4 :
  prop_token_ok PMurmur3 5 ex_wire ex_values (Ok (Some (spec_token PMurmur3 ex_wire ex_values))) = true /\
  prop_token_ok PMurmur3 5 ex_wire ex_values (Ok None) = false /\
  ~ key_ok 5 [4; 0; 4] ex_values /\
  forallb is_value [RValue [1]; RValue [2]] = true /\
  forallb is_value [RValue [1]; RNull] = false /\
  (exists pre, cdc_class = String.append pre cdc_suffix) /\
  ~ (exists pre, random_class = String.append pre cdc_suffix) /\
  hash_one PCdc v_primary_key = token_spec PCdc v_primary_key.
Proof.
  repeat split; try (vm_compute; reflexivity).
  - intros H. apply key_okb_complete in H. vm_compute in H. discriminate.
  - apply C03_ends_with_iff. vm_compute. reflexivity.
  - intros H. apply C03_ends_with_iff in H. vm_compute in H. discriminate.
Qed.

Print Assumptions C03_chunking.
Print Assumptions C03_reference.
Print Assumptions C03_reference_token.
Print Assumptions C03_chunking_reference.
Print Assumptions C03_cdc_explicit.
Print Assumptions C03_from_str_cdc_iff.
Print Assumptions C03_from_str_murmur3_iff.
Print Assumptions C03_from_str_none_iff.
Print Assumptions C03_partitioners_get_some_iff.
Print Assumptions C03_partitioners_get_none_iff.
Print Assumptions C03_session_partitioner_cdc_iff.
Print Assumptions C03_chunking_all.
Print Assumptions C03_feed_all.
Print Assumptions C03_token_all.
Print Assumptions C03_cdc_chunking.
Print Assumptions C03_cdc.
Print Assumptions C03_cdc_stream_id.
Print Assumptions C03_from_str_cdc.
Print Assumptions C03_from_str_murmur3.
Print Assumptions C03_cdc_table.
Print Assumptions C03_murmur3_table.
Print Assumptions C03_feed.
Print Assumptions C03_hash_one.
Print Assumptions C03_token_range.
Print Assumptions C03_pk_order.
Print Assumptions C03_partition_key.
Print Assumptions C03_token.
Print Assumptions C03_too_long.
Print Assumptions C03_errors.
Print Assumptions C03_token_preserialized.
Print Assumptions C03_chunk_independent.
Print Assumptions C03_marker_order.
Print Assumptions C03_cdc_table_chain.
Print Assumptions C03_murmur3_table_chain.
Print Assumptions C03_cdc_table_last_row.
Print Assumptions C03_murmur3_table_last_row.
Print Assumptions C03_cdc_table_fetch_modes.
Print Assumptions C03_murmur3_table_fetch_modes.
Print Assumptions C03_token_typed.
Print Assumptions C03_typed_components.
Print Assumptions C03_token_i64.
Print Assumptions C03_token_not_min.
Print Assumptions C03_token_as_u64.
Print Assumptions C03_token_shard.
Print Assumptions C03_key_okb_iff.
Print Assumptions C03_prop_model.
Print Assumptions C03_prop_pk_model.
Print Assumptions C03_prop_token_iff.
Print Assumptions C03_prop_token_outside.
Print Assumptions C03_prop_pk_token_iff.
Print Assumptions C03_prop_pk_token_outside.
Print Assumptions C03_prop_model_all.
Print Assumptions C03_prop_pk_model_all.
Print Assumptions C03_hash_one_all.
Print Assumptions C03_chunk_independent_all.
Print Assumptions C03_token_preserialized_all.
Print Assumptions C03_token_shard_all.
Print Assumptions C03_ends_with_iff.
