(* Property C15 — statements only.  Every theorem is closed by [exact] of a lemma from
   Proofs/Tablets_proofs.v, Proofs/TabletsPayload_proofs.v or Proofs/C15_d4_proofs.v; the statements are pinned again in /verif/pins/C15.v.

   [run hist] executes the model of tablets.rs on a history of Learn (payload received) and
   Maintain (TabletsInfo::perform_maintenance) events, starting from TabletsInfo::new();
   [None] would be a Rust panic.  [Forall op_i64 hist] says that the two bounds of every payload
   are i64 values (they are decoded from 8 bytes). *)
From SV Require Import Base.Prelude Base.Bytes Model.Cql Model.Tablets Model.TabletsPayload
  Proofs.Tablets_proofs Proofs.TabletsPayload_proofs Proofs.C15_d4_proofs.
Open Scope Z_scope.

(* the code never panics: Vec::drain(left_idx..right_idx) always gets left_idx <= right_idx *)
Theorem C15_no_panic : forall hist, Forall op_i64 hist -> run hist <> None.
Proof. exact run_no_panic. Qed.

(* after EVERY history, of any length, the tablets of every table are non-empty ranges inside
   i64, sorted and pairwise disjoint *)
Theorem C15_inv : forall hist s k tt,
  Forall op_i64 hist -> run hist = Some s -> find_table s k = Some tt -> tablets_inv (tt_list tt).
Proof. exact run_tablets_inv. Qed.

(* ... and after EVERY STEP of every history: each prefix ran, its tables satisfy the invariant and its
   lookups are the specification of the prefix (the whole history ran too: nothing panics) *)
Theorem C15_every_step : forall h1 h2,
  Forall op_i64 (h1 ++ h2) ->
  exists s1 s, run h1 = Some s1 /\ run (h1 ++ h2) = Some s /\
    (forall k tt, find_table s1 k = Some tt -> tablets_inv (tt_list tt)) /\
    (forall k tok, lookup s1 k tok = spec_lookup h1 k tok).
Proof. exact run_every_prefix. Qed.

(* the invariant is EXACT: the range lists a table can hold after some history are precisely the sorted,
   pairwise disjoint lists of non-empty ranges inside i64 that do not start at i64::MIN (first = a + 1) *)
Theorem C15_reachable_iff : forall k rs,
  (exists hist s, Forall op_i64 hist /\ run hist = Some s /\
                  map range_of (tt_list (or_empty (find_table s k))) = rs) <->
  (ranges_okb rs = true /\ Forall (fun r => i64_min < fst r) rs).
Proof. exact reachable_iff. Qed.

(* the boolean check the driver applies to the implementation's range lists IS the invariant *)
Theorem C15_ranges_okb_iff : forall l, ranges_okb (map range_of l) = true <-> tablets_inv l.
Proof. exact ranges_okb_iff. Qed.

(* the slices the three partition_point calls run on are partitioned by their predicates at the
   index the model uses, and that index is the only one (the contract of slice::partition_point) *)
Theorem C15_partitioned : forall l x, tablets_inv l ->
  split_at (fun t => t_last t <? x) l (partition_point (fun t => t_last t <? x) l) /\
  split_at (fun t => t_first t <=? x) l (partition_point (fun t => t_first t <=? x) l).
Proof. exact inv_partitioned. Qed.

Theorem C15_partition_point_unique : forall (p : tablet -> bool) l n,
  split_at p l n -> n = partition_point p l.
Proof. exact (@split_at_unique tablet). Qed.

(* REFINEMENT: for every history, table and token, the lookup of the code is the history-based
   specification: the latest learnt tablet covering the token, unless a later learnt tablet
   overlapped it or maintenance discarded it *)
Theorem C15_lookup : forall hist s k tok,
  Forall op_i64 hist -> run hist = Some s -> lookup s k tok = spec_lookup hist k tok.
Proof. exact lookup_refines. Qed.

(* the answering tablet covers the token *)
Theorem C15_lookup_covers : forall hist s k tok t,
  Forall op_i64 hist -> run hist = Some s -> lookup_tablet s k tok = Some t ->
  t_first t <= tok <= t_last t.
Proof. exact lookup_covers. Qed.

(* replica lists restricted to a datacenter are the restriction of the full replica list *)
Theorem C15_dc : forall hist s k tok dc,
  Forall op_i64 hist -> run hist = Some s ->
  lookup_dc s k tok dc = option_map (restrict_dc dc) (lookup s k tok).
Proof. exact lookup_dc_restrict. Qed.

Theorem C15_dc_spec : forall hist s k tok dc,
  Forall op_i64 hist -> run hist = Some s -> lookup_dc s k tok dc = spec_lookup_dc hist k tok dc.
Proof. exact lookup_dc_refines. Qed.

(* payload validation: an accepted payload (a, b, ...) yields exactly the tablet [a+1, b]:
   non-empty, inside i64, no wrap-around of a+1, no i64::MIN normalisation *)
Theorem C15_payload : forall a b raw f l r,
  i64_ok a -> i64_ok b -> payload_check a b raw = Ok (f, l, r) ->
  a < b /\ f = a + 1 /\ l = b /\ i64_ok f /\ i64_ok l /\ f <= l /\ conv_shards raw = Some r.
Proof. exact payload_check_ok. Qed.

(* the declarative reading of C15_lookup.
   LATEST WINS: the payload learnt last for a token answers it (with the maintenance events that
   followed applied to it) as long as no later accepted payload of the table overlaps its range *)
Theorem C15_latest_wins : forall pre post k a b raw known tok s,
  Forall op_i64 (pre ++ Learn k a b raw known :: post) ->
  run (pre ++ Learn k a b raw known :: post) = Some s ->
  spec_payload_ok a b raw = true -> a < tok <= b ->
  forallb (fun o => negb (accepted_overlap k (a + 1) b o)) post = true ->
  lookup s k tok = option_map e_reps (spec_maintain_all k post (spec_entry_of a b raw known)).
Proof. exact latest_wins. Qed.

(* NOTHING RATHER THAN STALE DATA: once an accepted payload overlapped the answering tablet without
   covering the token, the token is answered by nothing until a payload covering it arrives *)
Theorem C15_stale_none : forall pre post k a b raw known tok s0 t s,
  Forall op_i64 (pre ++ Learn k a b raw known :: post) ->
  run pre = Some s0 -> lookup_tablet s0 k tok = Some t ->
  spec_payload_ok a b raw = true -> ~ (a < tok <= b) ->
  ranges_overlap (a + 1) b (t_first t) (t_last t) = true ->
  forallb (fun o => negb (covering_learn k tok o)) post = true ->
  run (pre ++ Learn k a b raw known :: post) = Some s ->
  lookup s k tok = None.
Proof. exact stale_none. Qed.

Theorem C15_never_learnt : forall hist k tok s,
  Forall op_i64 hist -> run hist = Some s ->
  forallb (fun o => negb (covering_learn k tok o)) hist = true -> lookup s k tok = None.
Proof. exact never_learnt. Qed.

(* the declarative reading as an EQUIVALENCE: a token is answered with [reps] if and only if the history
   splits at an accepted payload covering the token that no later accepted payload of the table overlaps,
   and [reps] are its replicas after the later maintenance events *)
Theorem C15_answered_iff : forall hist s k tok reps,
  Forall op_i64 hist -> run hist = Some s ->
  (lookup s k tok = Some reps <->
   exists pre a b raw known post,
     hist = pre ++ Learn k a b raw known :: post /\ spec_payload_ok a b raw = true /\ a < tok <= b /\
     forallb (fun o => negb (accepted_overlap k (a + 1) b o)) post = true /\
     option_map e_reps (spec_maintain_all k post (spec_entry_of a b raw known)) = Some reps).
Proof. exact answered_iff. Qed.

(* after a maintenance call no answering tablet has unknown replicas, a replica on a removed node
   or the stale object of a recreated node, and its table is a table/view of a tablet keyspace *)
Theorem C15_maint_clean : forall hist kss removed current recreated s k tok t,
  Forall op_i64 hist -> run (hist ++ [Maintain kss removed current recreated]) = Some s ->
  lookup_tablet s k tok = Some t ->
  keep_table kss k = true /\ t_failed t = None /\
  (forall r, In r (r_all (t_reps t)) -> memN (host (fst r)) removed = false) /\
  (forall r n', In r (r_all (t_reps t)) -> find_node recreated (host (fst r)) = Some n' -> fst r = n').
Proof. exact maint_clean. Qed.

(* the has_unknown_replicas flags are never falsely false (they may be falsely true) *)
Theorem C15_flags : forall hist s,
  Forall op_i64 hist -> run hist = Some s ->
  (forall k tt t, find_table s k = Some tt -> tt_flag tt = false -> In t (tt_list tt) -> t_failed t = None) /\
  (i_flag s = false -> forall k tt, find_table s k = Some tt -> tt_flag tt = false).
Proof. exact run_flags. Qed.

(* a table has an entry (possibly without tablets) iff a payload was accepted for it since the
   last maintenance or the last maintenance found it among the tables/views of a tablet keyspace
   (keyspace names of a schema are unique: they are the keys of a HashMap) *)
Theorem C15_present : forall hist s k,
  Forall op_i64 hist -> Forall op_maps_ok hist -> run hist = Some s ->
  is_some (find_table s k) = spec_present hist k.
Proof. exact run_present. Qed.

(* [bsearch], a hand transcription of the nightly core::slice::binary_search_by (what
   slice::partition_point calls), returns, on the partitioned slices of the invariant, the index
   the model uses *)
Theorem C15_bsearch : forall l x, tablets_inv l ->
  partition_point_bs (fun t => t_last t <? x) l = partition_point (fun t => t_last t <? x) l /\
  partition_point_bs (fun t => t_first t <=? x) l = partition_point (fun t => t_first t <=? x) l.
Proof. exact partition_point_bs_eq. Qed.

(* histories as ClusterState produces them (payloads resolved against the current known nodes;
   every refresh derives removed / recreated nodes from the old and new known nodes, state.rs
   perform_tablets_maintenance): every replica a table answers with is one of the CURRENT Node
   objects -- no removed node and no stale object of a recreated node is ever handed out *)
Theorem C15_no_stale_nodes : forall known0 h s k tok t r,
  Forall op_i64 (cluster_ops known0 h) -> run (cluster_ops known0 h) = Some s ->
  lookup_tablet s k tok = Some t -> In r (r_all (t_reps t)) -> In (fst r) (cluster_known known0 h).
Proof. exact cluster_no_stale_nodes. Qed.

(* ---- byte level: RawTablet::from_custom_payload on the bytes of the "tablets-routing-v1" value ---- *)

(* an accepted byte string decodes to bounds a < bb that are i64 values and yields exactly [a+1, bb];
   it is an accepted value-level payload (payload_check) with the decoded replicas *)
Theorem C15_payload_bytes : forall b f l r,
  bytes_ok b -> parse_payload b = P_Ok f l r ->
  exists a bb, i64_ok a /\ i64_ok bb /\ a < bb /\ f = a + 1 /\ l = bb /\ i64_ok f /\ f <= l /\
    (exists cnt, parse_header b = Ok (a, bb, cnt)) /\
    payload_check a bb (map (fun hs => (fst hs, Z.of_N (snd hs))) r) = Ok (f, l, r).
Proof. exact parse_payload_ok. Qed.

(* bounds that decode with last <= first are refused as WrongTokenRange before any replica is read *)
Theorem C15_payload_bytes_range : forall b, bytes_ok b ->
  forall a bb cnt, parse_header b = Ok (a, bb, cnt) -> bb <= a -> parse_payload b = P_WrongTokenRange.
Proof. exact parse_payload_range. Qed.

(* the fuel of the replica loop (a model artefact) is never exhausted *)
Theorem C15_payload_bytes_no_fuel : forall b, parse_payload b <> P_Deser DE_OutOfFuel.
Proof. exact parse_payload_no_fuel. Qed.

(* a byte payload acts on the tablets exactly as the value-level event [learn_of_bytes] ... *)
Theorem C15_bytes_as_learn : forall s k b known,
  bytes_ok b -> step_bytes s k b known = step s (learn_of_bytes k b known) /\ op_i64 (learn_of_bytes k b known).
Proof. exact step_bytes_learn. Qed.

(* ... so histories of byte payloads are histories, and every theorem above applies to them *)
Theorem C15_bytes_histories : forall h,
  Forall bop_ok h -> run_b h = run (map abstract_bop h) /\ Forall op_i64 (map abstract_bop h).
Proof. exact run_b_abstract. Qed.

Theorem C15_bytes_inv : forall h s k tt,
  Forall bop_ok h -> run_b h = Some s -> find_table s k = Some tt -> tablets_inv (tt_list tt).
Proof. exact run_b_inv. Qed.

Theorem C15_bytes_lookup : forall h s k tok,
  Forall bop_ok h -> run_b h = Some s -> lookup s k tok = spec_lookup (map abstract_bop h) k tok.
Proof. exact run_b_lookup. Qed.

(* ROUND TRIP: the bytes ScyllaDB sends for bounds (a, b) and replicas [raw] (enc_payload: the CQL encoding of
   tuple<bigint,bigint,list<tuple<uuid,int>>>, hosts below 2^128, shards i32) are decoded to exactly the outcome of
   the value-level check of (a, b, raw) -- accepted tablet, WrongTokenRange or ShardNum, never Deserialization *)
Theorem C15_payload_roundtrip : forall a b raw,
  i64_ok a -> i64_ok b -> raw_wf raw -> (N.of_nat (List.length raw) <= 67108863)%N ->
  parse_payload (enc_payload a b raw) =
  match payload_check a b raw with
  | Ok (f, l, r) => P_Ok f l r
  | Err WrongTokenRange => P_WrongTokenRange
  | Err ShardNum => P_ShardNum
  end.
Proof. exact parse_enc_payload. Qed.

(* ... so the value-level event Learn k a b raw known IS the byte payload of its encoding *)
Theorem C15_learn_is_bytes : forall s k a b raw known,
  i64_ok a -> i64_ok b -> raw_wf raw -> (N.of_nat (List.length raw) <= 67108863)%N ->
  step_bytes s k (enc_payload a b raw) known = step s (Learn k a b raw known).
Proof. exact step_bytes_enc. Qed.

(* ---- several tables ---- *)

(* a payload for one table touches no other table; for a table the driver has no entry for, an
   accepted payload creates the entry holding exactly that tablet; a refused one changes nothing *)
Theorem C15_learn_tables : forall h s k0 a b raw known s',
  Forall op_i64 h -> run h = Some s -> i64_ok a -> i64_ok b ->
  step s (Learn k0 a b raw known) = Some s' ->
  (forall k, k <> k0 -> find_table s' k = find_table s k) /\
  (spec_payload_ok a b raw = false -> s' = s) /\
  (spec_payload_ok a b raw = true -> find_table s k0 = None ->
   exists t fl, find_table s' k0 = Some (mkTT [t] fl) /\ t_first t = a + 1 /\ t_last t = b /\
                r_all (t_reps t) = spec_resolved known (map (fun hs => (fst hs, Z.to_N (snd hs))) raw)).
Proof. exact learn_tables. Qed.

(* maintenance acts on every table on its own, tablet by tablet; a table that is not a table or view
   of a tablet keyspace loses all its tablets and (unique keyspace names) its entry *)
Theorem C15_maintain_tables : forall h kss removed current recreated s s' k,
  Forall op_i64 h -> run h = Some s -> step s (Maintain kss removed current recreated) = Some s' ->
  tt_list (or_empty (find_table s' k)) =
    (if keep_table kss k
     then filter_map (maint_tablet removed current recreated) (tt_list (or_empty (find_table s k)))
     else []) /\
  (NoDup (map ks_name kss) -> is_some (find_table s' k) = keep_table kss k).
Proof. exact maintain_tables. Qed.

(* non-vacuity: concrete histories meeting the hypotheses, with non-trivial outcomes *)
Definition ex_n1 := mkNode 1 0 (Some 0%N).
Definition ex_n2 := mkNode 2 0 (Some 1%N).
Definition ex_n1' := mkNode 1 1 (Some 1%N).
Definition ex_schema := [mkKs 1 true [1%N] []].
Definition ex_hist : list op :=
  [ Learn (1, 1)%N 0 10 [(1%N, 0); (2%N, 1)] [ex_n1; ex_n2];
    Learn (1, 1)%N 10 (2 ^ 63 - 1) [(1%N, 2)] [ex_n1; ex_n2];
    Learn (1, 1)%N 20 5 [] [];                                     (* refused: empty range *)
    Learn (1, 1)%N 8 12 [(2%N, 3); (3%N, 0)] [ex_n1; ex_n2];       (* overlaps both, replica 3 unknown *)
    Maintain ex_schema [] [ex_n1'; ex_n2; mkNode 3 0 None] [ex_n1'] ].
Example C15_ex_run :
  Forall op_i64 ex_hist /\
  (exists s, run ex_hist = Some s /\
     option_map (fun tt => map (fun t => (t_first t, t_last t)) (tt_list tt)) (find_table s (1, 1)%N)
       = Some [(9, 12)] /\
     lookup s (1, 1)%N 9 = Some [(ex_n2, 3%N); (mkNode 3 0 None, 0%N)] /\
     lookup_dc s (1, 1)%N 9 1 = Some [(ex_n2, 3%N)] /\
     lookup s (1, 1)%N 5 = None /\ spec_lookup ex_hist (1, 1)%N 5 = None /\
     spec_lookup (firstn 3 ex_hist) (1, 1)%N 5 = Some [(ex_n1, 0%N); (ex_n2, 1%N)]).
Proof.
  split.
  - repeat constructor; vm_compute; intuition discriminate.
  - eexists. split; [vm_compute; reflexivity|]. repeat split; vm_compute; reflexivity.
Qed.
Example C15_ex_swap_dc :
  let h := [ Learn (1, 1)%N 0 10 [(1%N, 0); (2%N, 1)] [ex_n1; ex_n2];
             Maintain ex_schema [] [ex_n1'; ex_n2] [ex_n1'] ] in
  exists s, run h = Some s /\ lookup s (1, 1)%N 5 = Some [(ex_n1', 0%N); (ex_n2, 1%N)] /\
            lookup_dc s (1, 1)%N 5 0 = Some [] /\ lookup_dc s (1, 1)%N 5 1 = Some [(ex_n1', 0%N); (ex_n2, 1%N)].
Proof. eexists. split; [vm_compute; reflexivity|]. repeat split; vm_compute; reflexivity. Qed.
Example C15_ex_partition :
  partition_point (fun x => x <? 5) [1; 2; 7; 9] = 2%nat /\ split_at (fun x => x <? 5) [1; 2; 7; 9] 2.
Proof. repeat split; vm_compute; try reflexivity. lia. Qed.
Example C15_ex_payload :
  payload_check (2 ^ 63 - 2) (2 ^ 63 - 1) [(7%N, 3)] = Ok (2 ^ 63 - 1, 2 ^ 63 - 1, [(7%N, 3%N)]) /\
  payload_check 5 5 [] = Err WrongTokenRange /\ payload_check (2 ^ 63 - 1) (- 2 ^ 63) [] = Err WrongTokenRange /\
  payload_check 0 1 [(7%N, -1)] = Err ShardNum.
Proof. repeat split; vm_compute; reflexivity. Qed.

Example C15_ex_declarative :
  let l1 := Learn (1, 1)%N 0 10 [(1%N, 0)] [ex_n1; ex_n2] in
  let m := Maintain ex_schema [] [ex_n1'; ex_n2] [ex_n1'] in
  let l2 := Learn (1, 1)%N 10 20 [(2%N, 0)] [ex_n1'; ex_n2] in
  let l3 := Learn (1, 1)%N 7 15 [(2%N, 1)] [ex_n1'; ex_n2] in
  (* latest wins, through a maintenance event and a touching (non-overlapping) insert *)
  forallb (fun o => negb (accepted_overlap (1, 1)%N (0 + 1) 10 o)) [m; l2] = true /\
  spec_lookup [l1; m; l2] (1, 1)%N 10 = Some [(ex_n1', 0%N)] /\
  (* stale: l3 overlaps [1,10] without covering 5 *)
  spec_lookup [l1; m; l2; l3] (1, 1)%N 5 = None /\ spec_lookup [l1; m; l2; l3] (1, 1)%N 8 = Some [(ex_n2, 1%N)] /\
  spec_present [l1; m; l2; l3] (1, 1)%N = true /\ spec_present [l1; Maintain [] [] [] []] (1, 1)%N = false /\
  Forall op_maps_ok [l1; m; l2; l3].
Proof. repeat split; try (vm_compute; reflexivity). repeat constructor; cbn; intuition discriminate. Qed.
Example C15_ex_bsearch :
  partition_point_bs (fun x => x <? 5) [1; 2; 3; 4; 7; 9; 11] = 4%nat /\
  partition_point_bs (fun x => x <? 5) [7] = 0%nat /\ partition_point_bs (fun x => x <? 5) ([] : list Z) = 0%nat.
Proof. repeat split; vm_compute; reflexivity. Qed.

Example C15_ex_cluster :
  let h := [ CLearn (1, 1)%N 0 10 [(1%N, 0); (3%N, 1)];                   (* replica 3 unknown *)
             CRefresh ex_schema [ex_n1'; ex_n2; mkNode 3 0 None];         (* 3 appears, 1 recreated (dc change) *)
             CLearn (1, 1)%N 10 20 [(2%N, 0)];
             CRefresh ex_schema [ex_n1'; mkNode 3 0 None] ] in            (* 2 removed *)
  cluster_known [ex_n1; ex_n2] h = [ex_n1'; mkNode 3 0 None] /\
  exists s, run (cluster_ops [ex_n1; ex_n2] h) = Some s /\
    lookup s (1, 1)%N 5 = Some [(ex_n1', 0%N); (mkNode 3 0 None, 1%N)] /\ lookup s (1, 1)%N 15 = None /\
    lookup_dc s (1, 1)%N 5 1 = Some [(ex_n1', 0%N)] /\ lookup_dc s (1, 1)%N 5 0 = Some [].
Proof. split; [reflexivity|]. eexists. split; [vm_compute; reflexivity|]. repeat split; vm_compute; reflexivity. Qed.

Example C15_ex_bytes :
  let u7 := 7%N in
  (* what ScyllaDB sends for (99, 100, [(7, 3)]): accepted as the single-token tablet [100, 100] *)
  parse_payload (enc_payload 99 100 [(u7, 3)]) = P_Ok 100 100 [(u7, 3%N)] /\
  parse_payload (enc_payload (2 ^ 63 - 2) (2 ^ 63 - 1) []) = P_Ok (2 ^ 63 - 1) (2 ^ 63 - 1) [] /\
  parse_payload (enc_payload 100 100 []) = P_WrongTokenRange /\
  parse_payload (enc_payload (2 ^ 63 - 1) (- 2 ^ 63) []) = P_WrongTokenRange /\
  parse_payload (enc_payload 0 1 [(u7, -1)]) = P_ShardNum /\
  (* empty value, trash, one field only, a 7-byte bound *)
  parse_payload [] = P_Deser DE_ExpectedNonNull /\
  parse_payload [1; 2; 3]%N = P_Deser DE_RawCqlBytesRead /\
  parse_payload (framed (enc_signed 8 5)) = P_Deser DE_ExpectedNonNull /\
  parse_payload (framed (enc_signed 7 5) ++ framed (enc_signed 8 9)) = P_Deser DE_ByteLengthMismatch /\
  (* two fields only / a null list: no replicas; trailing bytes are ignored *)
  parse_payload (framed (enc_signed 8 5) ++ framed (enc_signed 8 9)) = P_Ok 6 9 [] /\
  parse_payload (framed (enc_signed 8 5) ++ framed (enc_signed 8 9) ++ null_marker) = P_Ok 6 9 [] /\
  parse_payload (enc_payload 5 9 [] ++ [1; 2; 3]%N) = P_Ok 6 9 [] /\
  (* order of the checks: the range is checked before the replicas are read; among the replicas the
     first failing one decides *)
  parse_payload (framed (enc_signed 8 9) ++ framed (enc_signed 8 5) ++ framed (be32 1 ++ [0]%N)) = P_WrongTokenRange /\
  parse_payload (framed (enc_signed 8 5) ++ framed (enc_signed 8 9) ++ framed (be32 1 ++ [0]%N)) = P_Deser DE_RawCqlBytesRead /\
  parse_payload (framed (enc_signed 8 5) ++ framed (enc_signed 8 9) ++
                 framed (be32 2 ++ enc_replica (u7, -1) ++ [0]%N)) = P_ShardNum /\
  parse_payload (framed (enc_signed 8 5) ++ framed (enc_signed 8 9) ++
                 framed (be32 2 ++ framed (framed (be_enc 15 u7)) ++ enc_replica (u7, -1))) = P_Deser DE_ByteLengthMismatch /\
  (* a count of 2^31-1 with no element, a negative count *)
  parse_payload (framed (enc_signed 8 5) ++ framed (enc_signed 8 9) ++ framed (enc_signed 4 (2 ^ 31 - 1))) = P_Deser DE_RawCqlBytesRead /\
  parse_payload (framed (enc_signed 8 5) ++ framed (enc_signed 8 9) ++ framed (enc_signed 4 (-1))) = P_Deser DE_LengthDeser.
Proof. repeat split; vm_compute; reflexivity. Qed.
Example C15_ex_reachable :
  (* reachable: touching tablets up to i64::MAX; not reachable: a tablet starting at i64::MIN, overlapping,
     unsorted, empty *)
  (ranges_okb [(- 2 ^ 63 + 1, 0); (1, 1); (2, 2 ^ 63 - 1)] = true /\
   Forall (fun r => i64_min < fst r) [(- 2 ^ 63 + 1, 0); (1, 1); (2, 2 ^ 63 - 1)]) /\
  ~ Forall (fun r => i64_min < fst r) [(- 2 ^ 63, 0)] /\
  ranges_okb [(0, 5); (5, 9)] = false /\ ranges_okb [(3, 4); (0, 1)] = false /\ ranges_okb [(2, 1)] = false /\
  range_of (mkTablet 3 9 (mkReps [] []) None) = (3, 9) /\
  map (learn_range (1, 1)%N) [(1, 5)] = [Learn (1, 1)%N 0 5 [] []].
Proof.
  split; [split; [vm_compute; reflexivity|repeat constructor; vm_compute; reflexivity]|].
  split; [intros H; inversion H as [|? ? H1 _]; vm_compute in H1; discriminate|].
  repeat split; vm_compute; reflexivity.
Qed.
Example C15_ex_raw_wf :
  raw_wf [(7%N, 3); ((2 ^ 128 - 1)%N, - 2 ^ 31); (0%N, 2 ^ 31 - 1)] /\
  ~ raw_wf [((2 ^ 128)%N, 0)] /\ ~ raw_wf [(7%N, 2 ^ 31)] /\ ~ raw_wf [(7%N, - 2 ^ 31 - 1)].
Proof.
  split; [|split; [|split]].
  - repeat constructor; cbn [fst snd]; try (vm_compute; reflexivity).
  - intros H. inversion H as [|? ? [H1 _] _]. vm_compute in H1. discriminate.
  - intros H. inversion H as [|? ? [_ H2] _]. vm_compute in H2. discriminate.
  - intros H. inversion H as [|? ? [_ H2] _]. vm_compute in H2. discriminate.
Qed.
Example C15_ex_bytes_history :
  let h := [ BLearn (1, 1)%N (enc_payload 0 10 [(1%N, 0); (2%N, 1)]) [ex_n1; ex_n2];
             BLearn (1, 1)%N [1; 2; 3]%N [ex_n1; ex_n2];                       (* trash: ignored *)
             BLearn (1, 2)%N (enc_payload 5 20 [(2%N, 4)]) [ex_n1; ex_n2];     (* a table not known yet *)
             BOp (Maintain ex_schema [] [ex_n1; ex_n2] []) ] in               (* table (1,2) is not in the schema *)
  Forall bop_ok h /\
  exists s, run_b h = Some s /\ lookup s (1, 1)%N 5 = Some [(ex_n1, 0%N); (ex_n2, 1%N)] /\
            find_table s (1, 2)%N = None /\
            (exists s3, run_b (firstn 3 h) = Some s3 /\ lookup s3 (1, 2)%N 6 = Some [(ex_n2, 4%N)]) /\
            learn_of_bytes (1, 1)%N (enc_payload 0 10 [(1%N, 0)]) [] = Learn (1, 1)%N 0 10 [(1%N, 0)] [] /\
            learn_of_bytes (1, 1)%N [1; 2; 3]%N [] = Learn (1, 1)%N 0 0 [] [].
Proof.
  split.
  - apply Forall_forall. intros o [<-|[<-|[<-|[<-|[]]]]]; cbn [bop_ok op_i64]; try exact I;
      apply bytes_okb_ok; vm_compute; reflexivity.
  - eexists. split; [vm_compute; reflexivity|]. repeat split; try (vm_compute; reflexivity).
    eexists. split; vm_compute; reflexivity.
Qed.
Example C15_ex_overlapping_arguments :
  (* a host that is removed AND recreated: its tablets are dropped (the removed check runs before the swap);
     a pending tablet resolved against a current node that is also removed is dropped as well *)
  let l1 := Learn (1, 1)%N 0 10 [(1%N, 0); (2%N, 1)] [ex_n1; ex_n2] in
  let l2 := Learn (1, 1)%N 10 20 [(2%N, 0); (3%N, 0)] [ex_n1; ex_n2] in
  (exists s, run [l1; Maintain ex_schema [1%N] [ex_n1'; ex_n2] [ex_n1']] = Some s /\ lookup s (1, 1)%N 5 = None) /\
  (exists s, run [l2; Maintain ex_schema [3%N] [ex_n2; mkNode 3 0 None] []] = Some s /\ lookup s (1, 1)%N 15 = None) /\
  (* duplicate keys in a map argument: the first entry counts (the harness builds the HashMap that way) *)
  find_node [ex_n1; ex_n1'] 1 = Some ex_n1.
Proof. split; [|split]; try (eexists; split; vm_compute; reflexivity); try reflexivity. Qed.

(* anchors of the DEFINITIONS the theorems and the driver rely on: each specification function and
   each boolean property predicate evaluated on concrete inputs, accepting AND rejecting *)
Example C15_ex_ranges_okb :
  ranges_okb [(-5, -1); (0, 0); (1, 2 ^ 63 - 1)] = true /\
  ranges_okb [(0, 5); (5, 9)] = false /\                 (* overlapping in one token *)
  ranges_okb [(3, 4); (0, 1)] = false /\                 (* not sorted *)
  ranges_okb [(2, 1)] = false /\                         (* empty range *)
  ranges_okb [(0, 2 ^ 63)] = false /\ ranges_okb [(- 2 ^ 63 - 1, 0)] = false.   (* outside i64 *)
Proof. repeat split; vm_compute; reflexivity. Qed.
Example C15_ex_tablets_inv_rejects :
  let t f l := mkTablet f l (mkReps [] []) None in
  tablets_inv [t 0 4; t 5 9] /\ ~ tablets_inv [t 0 5; t 5 9] /\ ~ tablets_inv [t 5 9; t 0 4] /\ ~ tablets_inv [t 2 1].
Proof.
  cbn zeta. split; [|split; [|split]].
  - split.
    + intros t [<-|[<-|[]]]; vm_compute; intuition discriminate.
    + intros [|[|i]] [|[|[|j]]] x y Hij Hi Hj; try lia; cbn in Hi, Hj; try discriminate;
        try (destruct i; discriminate); try (destruct j; discriminate).
      injection Hi as <-. injection Hj as <-. cbn. lia.
  - intros [_ H]. specialize (H 0%nat 1%nat _ _ (Nat.lt_0_succ 0) eq_refl eq_refl). cbn in H. lia.
  - intros [_ H]. specialize (H 0%nat 1%nat _ _ (Nat.lt_0_succ 0) eq_refl eq_refl). cbn in H. lia.
  - intros [H _]. specialize (H _ (or_introl eq_refl)). cbn in H. lia.
Qed.
Example C15_ex_spec_payload_ok :
  spec_payload_ok 0 1 [(7%N, 0)] = true /\ spec_payload_ok 1 1 [] = false /\ spec_payload_ok 2 1 [] = false /\
  spec_payload_ok 0 1 [(7%N, -1)] = false.
Proof. repeat split; vm_compute; reflexivity. Qed.
Example C15_ex_spec_step :
  let e := mkEntry 1 10 [(ex_n1, 0%N)] None in
  (* a covering payload wins; a payload for another table / a refused payload changes nothing;
     an overlapping non-covering payload forgets; a touching one keeps *)
  spec_step (1, 1)%N 5 (Some e) (Learn (1, 1)%N 4 6 [(2%N, 1)] [ex_n2]) = Some (mkEntry 5 6 [(ex_n2, 1%N)] None) /\
  spec_step (1, 1)%N 5 (Some e) (Learn (1, 2)%N 4 6 [] []) = Some e /\
  spec_step (1, 1)%N 5 (Some e) (Learn (1, 1)%N 6 4 [] []) = Some e /\
  spec_step (1, 1)%N 5 (Some e) (Learn (1, 1)%N 7 20 [] []) = None /\
  spec_step (1, 1)%N 5 (Some e) (Learn (1, 1)%N 10 20 [] []) = Some e /\
  spec_step (1, 1)%N 5 None (Learn (1, 1)%N 10 20 [] []) = None /\
  ranges_overlap 8 20 1 10 = true /\ ranges_overlap 11 20 1 10 = false /\ ranges_overlap 1 10 11 20 = false.
Proof. repeat split; vm_compute; reflexivity. Qed.
Example C15_ex_spec_maintain :
  let e := mkEntry 1 10 [(ex_n1, 0%N); (ex_n2, 1%N)] None in
  let p := mkEntry 1 10 [(ex_n1, 0%N)] (Some [(1%N, 0%N); (3%N, 1%N)]) in
  spec_maintain ex_schema [] [ex_n1; ex_n2] [] (1, 1)%N e = Some e /\
  spec_maintain ex_schema [] [ex_n1; ex_n2] [] (1, 2)%N e = None /\                    (* table not in schema *)
  spec_maintain [mkKs 1 false [1%N] []] [] [ex_n1; ex_n2] [] (1, 1)%N e = None /\      (* keyspace not tablet based *)
  spec_maintain [] [] [ex_n1; ex_n2] [] (1, 1)%N e = None /\
  spec_maintain [mkKs 1 true [] [1%N]] [] [ex_n1; ex_n2] [] (1, 1)%N e = Some e /\     (* a view *)
  spec_maintain ex_schema [2%N] [ex_n1] [] (1, 1)%N e = None /\                        (* replica on a removed node *)
  spec_maintain ex_schema [] [ex_n1'; ex_n2] [ex_n1'] (1, 1)%N e =
    Some (mkEntry 1 10 [(ex_n1', 0%N); (ex_n2, 1%N)] None) /\                          (* recreated node swapped *)
  spec_maintain ex_schema [] [ex_n1; ex_n2] [] (1, 1)%N p = None /\                    (* still unknown: dropped *)
  spec_maintain ex_schema [] [ex_n1; mkNode 3 0 None] [] (1, 1)%N p =
    Some (mkEntry 1 10 [(ex_n1, 0%N); (mkNode 3 0 None, 1%N)] None).                    (* resolved *)
Proof. repeat split; vm_compute; reflexivity. Qed.
Example C15_ex_restrict_dc :
  restrict_dc 1 [(ex_n1, 0%N); (ex_n2, 1%N); (mkNode 3 0 None, 2%N); (ex_n1', 3%N)] = [(ex_n2, 1%N); (ex_n1', 3%N)] /\
  restrict_dc 7 [(ex_n1, 0%N); (mkNode 3 0 None, 2%N)] = [] /\
  spec_lookup_dc ex_hist (1, 1)%N 9 0 = Some [] /\ spec_lookup_dc ex_hist (1, 1)%N 5 0 = None.
Proof. repeat split; vm_compute; reflexivity. Qed.
Example C15_ex_split_at_rejects :
  ~ split_at (fun x => x <? 5) [1; 2; 7; 9] 1 /\ ~ split_at (fun x => x <? 5) [1; 2; 7; 9] 3 /\
  ~ split_at (fun x => x <? 5) [1; 7; 2] 1 /\ ~ split_at (fun x => x <? 5) [1] 2.
Proof.
  repeat split; intros (Hn & Hf & Hs); vm_compute in Hn, Hf, Hs; try discriminate; lia.
Qed.
Example C15_ex_covering_overlap :
  covering_learn (1, 1)%N 5 (Learn (1, 1)%N 4 5 [] []) = true /\
  covering_learn (1, 1)%N 5 (Learn (1, 1)%N 5 9 [] []) = false /\      (* left-open: 5 is not in (5, 9] *)
  covering_learn (1, 1)%N 5 (Learn (1, 1)%N 9 4 [] []) = false /\
  covering_learn (1, 1)%N 5 (Maintain [] [] [] []) = false /\
  accepted_overlap (1, 1)%N 1 10 (Learn (1, 1)%N 9 20 [] []) = true /\
  accepted_overlap (1, 1)%N 1 10 (Learn (1, 1)%N 10 20 [] []) = false /\
  accepted_overlap (1, 1)%N 1 10 (Learn (2, 1)%N 0 20 [] []) = false.
Proof. repeat split; vm_compute; reflexivity. Qed.
Example C15_ex_refresh :
  derive_removed [ex_n1; ex_n2] [ex_n1'] = [2%N] /\ derive_recreated [ex_n1; ex_n2] [ex_n1'; ex_n2] = [ex_n1'] /\
  derive_recreated [ex_n1; ex_n2] [ex_n1; ex_n2; mkNode 3 0 None] = [] /\
  op_i64b (Learn (1, 1)%N (2 ^ 63) 0 [] []) = false /\ op_i64b (Learn (1, 1)%N (- 2 ^ 63) (2 ^ 63 - 1) [] []) = true.
Proof. repeat split; vm_compute; reflexivity. Qed.

(* ---- deepening round 4: characterisations of the extracted functions the driver evaluates ---- *)

(* tablet_for_token on ANY list with the invariant (the implementation's printed list is judged by ranges_okb,
   C15_ranges_okb_iff): it answers with t iff t is in the list and covers the token, with nothing iff no tablet
   covers it, and at most one tablet covers a token -- without reference to histories or the specification *)
Theorem C15_tablet_for_token_iff : forall l tok, tablets_inv l ->
  (forall t, tablet_for_token l tok = Some t <-> In t l /\ t_first t <= tok <= t_last t) /\
  (tablet_for_token l tok = None <-> forall t, In t l -> ~ (t_first t <= tok <= t_last t)) /\
  (forall t1 t2, In t1 l -> In t2 l -> t_first t1 <= tok <= t_last t1 -> t_first t2 <= tok <= t_last t2 -> t1 = t2).
Proof. exact tablet_lookup_char. Qed.

(* C15_payload as an EQUIVALENCE, with the two refusal classes and the link to the specification's predicate *)
Theorem C15_payload_iff : forall a b raw, i64_ok a -> i64_ok b ->
  (forall f l r, payload_check a b raw = Ok (f, l, r) <->
     a < b /\ f = a + 1 /\ l = b /\ Forall (fun hs => 0 <= snd hs) raw /\
     r = map (fun hs => (fst hs, Z.to_N (snd hs))) raw) /\
  (payload_check a b raw = Err WrongTokenRange <-> b <= a) /\
  (payload_check a b raw = Err ShardNum <-> a < b /\ Exists (fun hs => snd hs < 0) raw) /\
  (spec_payload_ok a b raw = true <-> exists x, payload_check a b raw = Ok x).
Proof. exact payload_check_iff. Qed.

(* the driver's gate (error token-out-of-i64) IS the premise of the history theorems *)
Theorem C15_hist_i64b_iff : forall h, forallb op_i64b h = true <-> Forall op_i64 h.
Proof. exact hist_i64b_iff. Qed.

(* what refresh_op (ClusterState::perform_tablets_maintenance) hands to TabletsInfo::perform_maintenance:
   removed = hosts of old nodes with no new node of that host; recreated = new nodes whose host had a
   DIFFERENT Node object before; current = the new nodes *)
Theorem C15_refresh_derivation : forall kss old new,
  exists rm rc, refresh_op kss old new = Maintain kss rm new rc /\
    (forall h, In h rm <-> (exists o, In o old /\ host o = h) /\ (forall n, In n new -> host n <> h)) /\
    (forall n, In n rc <-> In n new /\ exists o, In o old /\ host o = host n /\ o <> n).
Proof. exact refresh_op_char. Qed.

(* Token::new: stays inside i64, never i64::MIN, identity elsewhere, i64::MIN -> i64::MAX, idempotent *)
Theorem C15_token_new : forall v, i64_ok v ->
  i64_ok (token_new v) /\ i64_min < token_new v /\
  (v <> i64_min -> token_new v = v) /\ token_new i64_min = i64_max /\ token_new (token_new v) = token_new v.
Proof. exact token_new_char. Qed.

(* ... and the normalisation matters: after EVERY history no table answers the raw token i64::MIN *)
Theorem C15_min_token_unanswered : forall hist s k,
  Forall op_i64 hist -> run hist = Some s -> lookup_tablet s k i64_min = None /\ lookup s k i64_min = None.
Proof. exact min_token_unanswered. Qed.

(* table presence after a maintenance call WITHOUT the unique-keyspace-names premise of C15_present /
   C15_maintain_tables: kept by the retain closure, or (re)created for a table/view of ANY listed
   tablet keyspace description *)
Theorem C15_maintain_presence : forall h kss removed current recreated s s' k,
  Forall op_i64 h -> run h = Some s -> step s (Maintain kss removed current recreated) = Some s' ->
  is_some (find_table s' k) =
  (is_some (find_table s k) && keep_table kss k) || existsb (fun k' => tkey_eqb k' k) (schema_tables kss).
Proof. exact maintain_presence. Qed.

(* the NoDup premise of C15_present / C15_maintain_tables is NECESSARY in the model: a duplicated keyspace name *)
Example C15_ex_dup_keyspace :
  let kss := [mkKs 1 false [] []; mkKs 1 true [1%N] []] in
  exists s', step info_empty (Maintain kss [] [] []) = Some s' /\
    keep_table kss (1, 1)%N = false /\ is_some (find_table s' (1, 1)%N) = true /\
    ~ NoDup (map ks_name kss).
Proof. exact maintain_presence_dup_witness. Qed.

Example C15_ex_round4 :
  let t f l := mkTablet f l (mkReps [] []) None in
  (* C15_tablet_for_token_iff: hit, gap, beyond the end *)
  tablet_for_token [t 0 4; t 6 9] 6 = Some (t 6 9) /\ tablet_for_token [t 0 4; t 6 9] 5 = None /\
  tablet_for_token [t 0 4; t 6 9] 10 = None /\
  (* C15_payload_iff: both refusal classes have inhabitants *)
  Exists (fun hs : N * Z => snd hs < 0) [(7%N, 0); (8%N, -1)] /\ payload_check 0 1 [(7%N, 0); (8%N, -1)] = Err ShardNum /\
  (* C15_hist_i64b_iff: accepting and rejecting *)
  forallb op_i64b [Learn (1, 1)%N (- 2 ^ 63) (2 ^ 63 - 1) [] []; Maintain [] [] [] []] = true /\
  forallb op_i64b [Learn (1, 1)%N 0 (2 ^ 63) [] []] = false /\
  (* C15_refresh_derivation: node 2 removed, node 1 recreated, node 3 new (neither) *)
  refresh_op [] [ex_n1; ex_n2] [ex_n1'; mkNode 3 0 None] = Maintain [] [2%N] [ex_n1'; mkNode 3 0 None] [ex_n1'] /\
  (* C15_token_new *)
  token_new (- 2 ^ 63) = 2 ^ 63 - 1 /\ token_new (- 2 ^ 63 + 1) = - 2 ^ 63 + 1 /\ token_new 5 = 5 /\
  (* C15_maintain_presence: an unknown table of the schema is created, a known table outside it is dropped *)
  (exists s s', run [Learn (1, 2)%N 0 10 [] []] = Some s /\
     step s (Maintain [mkKs 1 true [1%N] []] [] [] []) = Some s' /\
     is_some (find_table s (1, 2)%N) = true /\ is_some (find_table s' (1, 2)%N) = false /\
     is_some (find_table s (1, 1)%N) = false /\ is_some (find_table s' (1, 1)%N) = true).
Proof.
  cbn zeta. repeat split; try (vm_compute; reflexivity).
  - right. left. cbn. lia.
  - eexists. eexists. split; [vm_compute; reflexivity|]. repeat split; vm_compute; reflexivity.
Qed.

Print Assumptions C15_no_panic.
Print Assumptions C15_inv.
Print Assumptions C15_every_step.
Print Assumptions C15_reachable_iff.
Print Assumptions C15_ranges_okb_iff.
Print Assumptions C15_answered_iff.
Print Assumptions C15_partitioned.
Print Assumptions C15_partition_point_unique.
Print Assumptions C15_lookup.
Print Assumptions C15_lookup_covers.
Print Assumptions C15_dc.
Print Assumptions C15_dc_spec.
Print Assumptions C15_payload.
Print Assumptions C15_latest_wins.
Print Assumptions C15_stale_none.
Print Assumptions C15_never_learnt.
Print Assumptions C15_maint_clean.
Print Assumptions C15_flags.
Print Assumptions C15_present.
Print Assumptions C15_bsearch.
Print Assumptions C15_no_stale_nodes.
Print Assumptions C15_payload_bytes.
Print Assumptions C15_payload_bytes_range.
Print Assumptions C15_payload_bytes_no_fuel.
Print Assumptions C15_bytes_as_learn.
Print Assumptions C15_bytes_histories.
Print Assumptions C15_bytes_inv.
Print Assumptions C15_bytes_lookup.
Print Assumptions C15_learn_tables.
Print Assumptions C15_maintain_tables.
Print Assumptions C15_payload_roundtrip.
Print Assumptions C15_learn_is_bytes.
Print Assumptions C15_tablet_for_token_iff.
Print Assumptions C15_payload_iff.
Print Assumptions C15_hist_i64b_iff.
Print Assumptions C15_refresh_derivation.
Print Assumptions C15_token_new.
Print Assumptions C15_min_token_unanswered.
Print Assumptions C15_maintain_presence.
