(* Property C17 - statements only.  The theorems are closed by [exact] (for five of them a script
   of at most three lines) of lemmas from Proofs/Accept_proofs.v and Proofs/C17_round4.v, the witness (`_refuted`) theorems
   and the Examples by computation; the statements are pinned again in pins/C17.v.

   Vocabulary (Model/Accept.v):  [ser_buf k ws t v : writer] is `<K as SerializeValue>::serialize`
   on the buffer (a writer maps the buffer to the buffer after the call and the error, if any);
   [ser_out] is the same on the empty buffer;  [ser_accepts k t] / [deser_accepts k t] are the
   type checks of the code at the type level;  [doc_compat d k t] is the documentation alone,
   [spec_compat] the documentation plus three named concessions (flags of [compat]: short Rust
   tuple, Rust set at a list column, not-set markers below the bind marker), [code_compat] drops
   the vector element rule as well - that one is the defect F2b;  [val_fits k t v] says that the
   value, as it is written, is a value of the column type ([dyn_fits] for a CqlValue);
   [add_value], [sv_iter], [run_ops], [from_row] model SerializedValues;  [row_check] /
   [typed_rows] the row type check in `TypedRowIterator::new` (the other call site, pager.rs
   `TypedRowStream`, is outside this slice). *)
From SV Require Import Base.Prelude Base.Bytes Model.Vint Model.Cql Model.Accept Proofs.Cql_proofs Proofs.Accept_proofs Proofs.C17_round4.
From SV Require Model.Request.
From Coq Require Import Permutation.
Open Scope N_scope.

(* ---- the acceptance matrices ----------------------------------------------------------- *)

(* What the code's serialisation type checks are, with no premise at all: the documentation, the
   three concessions, and NO vector element rule - every carrier, every type, every depth
   (natives: 35 x 20 sweep by computation inside the proof; containers by induction) *)
Theorem C17_code_matrix : forall k top t, ser_accepts k t = compat as_code Ser top k t.
Proof. exact code_matrix. Qed.

(* Full-strength statement of the property, FALSE for the code as it is:
     forall k t, ser_accepts k t = doc_compat Ser k t.
   The four ways in which it fails, one witness each: the three concessions (accepted, harmless,
   undocumented: observations O1-O3 of docs/C17.md) and the known finding F2b. *)
Theorem C17_matrix_ser_doc_refuted :
  (exists k t, ser_accepts k t = true /\ doc_compat Ser k t = false /\
               compat {| r_tuple := true; r_set := false; r_unset := false; r_vec := false |} Ser true k t = true) /\
  (exists k t, ser_accepts k t = true /\ doc_compat Ser k t = false /\
               compat {| r_tuple := false; r_set := true; r_unset := false; r_vec := false |} Ser true k t = true) /\
  (exists k t, ser_accepts k t = true /\ doc_compat Ser k t = false /\
               compat {| r_tuple := false; r_set := false; r_unset := true; r_vec := false |} Ser true k t = true) /\
  (exists k t, ser_accepts k t = true /\ spec_compat Ser k t = false /\ known_class k t = true).
Proof.
  split; [exists (KTuple [KBase BI32]), (TTuple [TNative NInt; TNative NText])|].
  2: split; [exists (KHashSet (KBase BI32)), (TList (TNative NInt))|].
  3: split; [exists (KVec (KMaybeUnset (KBase BI32))), (TList (TNative NInt))|
             exists (KVec (KOption (KBase BI32))), (TVector (TNative NInt) 2)].
  all: vm_compute; repeat split; reflexivity.
Qed.

(* Outside the known class serialisation accepts exactly the documented pairs and the conceded ones.
   The half "accepted => in the specification" holds by the DEFINITION of known_class (accepted and
   not in the specification); the half with content is "in the specification => accepted".  What
   makes the class narrow are C17_code_matrix (no other rule difference) and C17_known_class_shape. *)
Theorem C17_matrix_ser : forall k t, known_class k t = false -> ser_accepts k t = spec_compat Ser k t.
Proof. exact matrix_ser. Qed.
Theorem C17_matrix_ser_doc : forall k t, known_class k t = false ->
  ser_accepts k t = doc_compat Ser k t || relaxed k t.
Proof. exact matrix_ser_doc. Qed.

(* the known class is real: Vec<Option<i32>> bound to vector<int, 2> is accepted, the null marker
   is written as element data (00000008 00000007 ffffffff), and the specification excludes it *)
Theorem C17_matrix_ser_refuted :
  exists k t v, known_class k t = true /\ ser_accepts k t = true /\ spec_compat Ser k t = false /\
                has_carrier k v = true /\
                ser_out k true t v = ([0; 0; 0; 8; 0; 0; 0; 7; 255; 255; 255; 255], None).
Proof.
  exists (KVec (KOption (KBase BI32))), (TVector (TNative NInt) 2), (VSeq [VWrap (VLeaf (CInt 7)); VNull]).
  vm_compute. repeat split; reflexivity.
Qed.

(* ... and narrow: only pairs the code accepts, and all of them have the shape of the defect (a
   nullable / unset / empty-able element carrier under a vector type) *)
Theorem C17_known_class_shape : forall k t, known_class k t = true ->
  ser_accepts k t = true /\ vector_elem_hole k t = true.
Proof.
  intros k t H. split; [|exact (known_class_shape k t H)].
  unfold known_class in H. apply andb_prop in H as [H _]. exact H.
Qed.

(* every pair the documentation lists is accepted (and is neither in the known class nor outside
   the specification) *)
Theorem C17_documented_accepted : forall k t, doc_compat Ser k t = true ->
  ser_accepts k t = true /\ spec_compat Ser k t = true /\ known_class k t = false.
Proof.
  intros k t H. split; [exact (documented_accepted_ser k t H)|exact (doc_in_spec k t H)].
Qed.

(* Deserialization: type_check accepts exactly the documented pairs, for every carrier that
   implements DeserializeValue, at every nesting depth (no concession applies on this side) *)
Theorem C17_matrix_deser : forall k t, deser_impl k = true -> deser_accepts k t = doc_compat De k t.
Proof. exact matrix_deser_doc. Qed.

(* ---- the read side: no column is reinterpreted ---------------------------------------------- *)

(* what TypedRowIterator::new checks once, before any row is read *)
Theorem C17_row_check : forall ks cols, forallb deser_impl ks = true ->
  row_accepts ks cols = (List.length ks =? List.length cols)%nat && all2 (doc_compat De) ks cols.
Proof. exact row_accepts_spec. Qed.
Theorem C17_row_check_ok : forall ks cols, row_check ks cols = RK_Ok <-> row_accepts ks cols = true.
Proof. exact row_check_ok. Qed.

(* [typed_rows] is a 4-line model of TypedRowIterator::new (tied by kind T, these two statements
   unfold it): the constructor hands out an iterator only over columns whose
   types the documentation lists for the Rust types of the row; otherwise the constructor returns
   the type-check error and no row is ever decoded *)
Theorem C17_read_guard : forall ks cols rows n, forallb deser_impl ks = true ->
  typed_rows ks cols rows = Ok n -> n = rows /\ Forall2 (fun k t => doc_compat De k t = true) ks cols.
Proof. exact typed_rows_guard. Qed.
Theorem C17_read_refuses : forall ks cols rows, row_accepts ks cols = false ->
  exists e, typed_rows ks cols rows = Err e /\ e <> RK_Ok.
Proof. exact typed_rows_refuses. Qed.

(* ---- the matrix is what happens to values ------------------------------------------------ *)

(* an accepted pair never raises a type-check error, whatever value of the carrier is bound
   (the only possible errors are the size / count / vector-length ones) *)
Theorem C17_accept_sound : forall k ws t v e,
  static k = true -> has_carrier k v = true -> ser_accepts k t = true ->
  snd (ser_out k ws t v) = Some e -> is_typeck e = false /\ e <> KE_IllTyped.
Proof. intros k ws t v e Hs Hv Ha He. exact (accept_sound k ws t v Hs Hv Ha e He). Qed.

(* a rejected pair is refused on every value that reaches all positions of the carrier.  The error
   is named by [refusal_named lenmis big e]: a type-check error (or ValueOverflow of a leaf
   conversion); VectorLen - only when some vector position of the value has the wrong length
   ([val_len_mis]); TooManyElements - only when some collection has more than i32::MAX elements
   ([kv_big]); SizeOverflow (a cell of more than i32::MAX bytes).  The last three are checked
   before / between the element checks and can pre-empt a type-check error further right. *)
Theorem C17_reject_complete : forall k ws t v,
  has_carrier k v = true -> populated v = true -> ser_accepts k t = false ->
  exists e, snd (ser_out k ws t v) = Some e /\ refusal_named (val_len_mis k t v) (kv_big v) e.
Proof. exact reject_complete_named. Qed.

(* Full-strength reading of "refused for every such pair", FALSE for the code: the type checks are
   lazy, a value that does not reach the mismatching position is accepted.  What is sent is a
   null / an empty collection - a value of the column type (val_fits), no mismatched byte
   (observation O4 of docs/C17.md, not a finding). *)
Theorem C17_matrix_ser_lazy_refuted :
  (exists k t v, ser_accepts k t = false /\ has_carrier k v = true /\ val_fits k t v = true /\
                 ser_out k true t v = ([255; 255; 255; 255], None)) /\
  (exists k t v, ser_accepts k t = false /\ has_carrier k v = true /\ val_fits k t v = true /\
                 ser_out k true t v = ([0; 0; 0; 4; 0; 0; 0; 0], None)).
Proof.
  split; [exists (KOption (KBase BI32)), (TNative NText), VNull|
          exists (KVec (KBase BI32)), (TList (TNative NText)), (VSeq [])];
  vm_compute; repeat split; reflexivity.
Qed.

(* ---- the property at the level of the bytes: every carrier, every value ------------------- *)

(* a value that, as written, is a value of the column type is never refused by a type check -
   CqlValue at any position included, populated or not *)
Theorem C17_value_accept : forall k ws t v e, val_fits k t v = true ->
  snd (ser_out k ws t v) = Some e -> is_size_err e = true.
Proof. intros k ws t v e H He. exact (val_accept_gen true k ws t v H e He). Qed.

(* a value that is not a value of the column type even WITHOUT the vector element rule ([val_lax])
   - the misfit at any depth, in any carrier - is refused, and the error is named.  No class
   premise: the vector element rule is the only rule the code lacks.  With the rule
   ([val_fits] instead of [val_lax]) the statement is FALSE: C17_value_reject_refuted. *)
Theorem C17_value_reject : forall k ws t v, has_carrier k v = true -> val_lax k t v = false ->
  exists e, snd (ser_out k ws t v) = Some e /\ refusal_named (val_len_mis k t v) (kv_big v) e.
Proof. exact val_reject_named. Qed.

(* with the right lengths, no oversized collection and no 2 GiB cell it IS a type-check error (or
   the failed conversion of a leaf) *)
Theorem C17_value_reject_typeck : forall k ws t v e, has_carrier k v = true -> val_lax k t v = false ->
  val_len_mis k t v = false -> kv_big v = false -> snd (ser_out k ws t v) = Some e -> e <> KE SE_SizeOverflow ->
  is_typeck e = true \/ e = KE_ValueOverflow.
Proof. exact val_reject_typeck. Qed.

(* the known class at the value level is narrow by construction and by theorem: such a value fits
   once the vector element rule is dropped - nothing else is wrong with it - and the code does not
   refuse it with a type check *)
Theorem C17_value_known : forall k ws t v e, val_known k t v = true ->
  val_lax k t v = true /\ val_fits k t v = false /\
  (snd (ser_out k ws t v) = Some e -> is_size_err e = true).
Proof.
  intros k ws t v e H. unfold val_known in H. apply andb_prop in H as [Hl Hs]. apply negb_true_iff in Hs.
  repeat split; auto. intros He. exact (val_accept_gen false k ws t v Hl e He).
Qed.

(* F2b through a typed container of CqlValue: Vec<CqlValue> = [Int 7, Empty] at vector<int, 2>
   comes out as a 4-byte vector *)
Theorem C17_value_reject_refuted :
  exists k t v, has_carrier k v = true /\ val_fits k t v = false /\ val_known k t v = true /\
                ser_out k true t v = ([0; 0; 0; 4; 0; 0; 0; 7], None).
Proof.
  exists (KVec KCqlValue), (TVector (TNative NInt) 2), (VSeq [VLeaf (CInt 7); VLeaf CEmpty]).
  vm_compute. repeat split; reflexivity.
Qed.

(* ---- the dynamic carrier ------------------------------------------------------------------ *)

(* the same for a top-level CqlValue ([dyn_lax]: a value of the type once the rule "no Empty in a
   vector of fixed-width elements" is dropped).  With the rule the statement is FALSE (F2b). *)
Theorem C17_dynamic_reject : forall t ws v, dyn_lax t v = false ->
  exists e, snd (ser_out KCqlValue ws t (VLeaf v)) = Some e /\ refusal_named (dyn_len_mis t v) (cval_big v) e.
Proof. intros t ws v H. exact (dyn_reject_named t ws v H). Qed.

(* the known class on the dynamic path: CqlValue::Vector([Int(7), Empty]) bound to vector<int, 2>
   is accepted and comes out as a 4-byte (short) vector *)
Theorem C17_dynamic_reject_refuted :
  exists t v, dyn_fits t v = false /\ dyn_known t v = true /\
              ser_out KCqlValue true t (VLeaf v) = ([0; 0; 0; 4; 0; 0; 0; 7], None).
Proof.
  exists (TVector (TNative NInt) 2), (CVector [CInt 7; CEmpty]). vm_compute. repeat split; reflexivity.
Qed.

(* a value of the type is never refused by a type check; only the i32 limits of the wire format
   can still stop it *)
Theorem C17_dynamic_accept : forall t ws v e, dyn_fits t v = true ->
  snd (ser_out KCqlValue ws t (VLeaf v)) = Some e -> is_size_err e = true.
Proof. intros t ws v e H He. exact (dyn_accept_gen true t ws v H e He). Qed.

(* the buffer-level dynamic serialiser is the serialiser of Model/Cql.v (property C01): same
   bytes ([out_of ws c] = c behind its 4-byte length when the writer is sized), same error leaf.
   [all_leaves small_leaf v]: inet / uuid / timeuuid payloads of the model value are not longer
   than i32::MAX bytes (in Rust they are 4 or 16 bytes). *)
Theorem C17_dynamic_is_C01 : forall t ws v, all_leaves small_leaf v = true ->
  match ser_value ws t v with
  | Ok c => ser_out KCqlValue ws t (VLeaf v) = (out_of ws c, None)
  | Err e => snd (ser_out KCqlValue ws t (VLeaf v)) = Some (KE e)
  end.
Proof. intros t ws v H. exact (ser_dyn_value t ws v H). Qed.

(* ---- nothing of a failed value stays --------------------------------------------------- *)

(* serialisation only appends, and what it appends (also when it fails half-way) does not depend
   on what the buffer already holds *)
Theorem C17_append_only : forall k ws t v buf,
  ser_buf k ws t v buf = (buf ++ fst (ser_out k ws t v), snd (ser_out k ws t v)).
Proof. exact ser_buf_out. Qed.

(* a value that fails to serialise - for whatever reason, at whatever depth - leaves no byte in
   the SerializedValues *)
Theorem C17_no_bytes : forall s k t v e, snd (ser_out k true t v) = Some e -> fst (add_value s k t v) = s.
Proof. exact add_value_no_bytes. Qed.

(* after ANY failed add_value (type mismatch, nested element failure after siblings were written,
   size overflow, too many values) bytes and count are exactly what they were *)
Theorem C17_rollback : forall s k t v s' e, add_value s k t v = (s', Some e) -> s' = s.
Proof. exact add_value_rollback. Qed.

(* a successful add_value appends one well-formed [value] and counts it *)
Theorem C17_add_ok : forall s k t v s', add_value s k t v = (s', None) ->
  exists o, ser_out k true t v = (o, None) /\ cell_out o /\ sv_count s <> u16_max /\
            s' = {| sv_bytes := sv_bytes s ++ o; sv_count := (sv_count s + 1) mod 65536 |}.
Proof.
  intros s k t v s' H. destruct (add_value_ok s k t v s' H) as (o & Ho & Hc & Hs).
  exists o. repeat split; auto. exact (sized_ser_buf k t v o Ho).
Qed.

Theorem C17_cap : forall s k t v, sv_count s = u16_max -> add_value s k t v = (s, Some RE_TooManyValues).
Proof. exact add_value_cap. Qed.

(* for every operation sequence: iter() does not panic and yields exactly element_count() cells,
   at most 65535 *)
Theorem C17_count : forall ops,
  exists cells, sv_iter (run_ops ops) = Some cells /\
                N.of_nat (List.length cells) = sv_count (run_ops ops) /\ sv_count (run_ops ops) <= u16_max.
Proof. exact run_ops_count. Qed.

(* rows: a SerializedValues exists only if every value serialised, and then holds one cell each *)
Theorem C17_row_count : forall cols vals s, from_row cols vals = Ok s ->
  exists cells, sv_iter s = Some cells /\ List.length cells = List.length vals /\
                sv_count s = N.of_nat (List.length vals) /\ sv_count s <= u16_max.
Proof. exact from_row_count. Qed.

Theorem C17_row_refuses : forall cols vals k t v i,
  nth_error cols i = Some t -> nth_error vals i = Some (k, v) ->
  (exists e, snd (ser_out k true t v) = Some e) -> exists e, from_row cols vals = Err e.
Proof. exact from_row_refuses. Qed.

(* the chunked state the correspondence driver keeps for long sequences is add_value *)
Theorem C17_chunks : forall cs cnt k t v,
  add_value {| sv_bytes := chunks_bytes cs; sv_count := cnt |} k t v =
  match add_value_chunks cs cnt k t v with
  | (cs', cnt', r) => ({| sv_bytes := chunks_bytes cs'; sv_count := cnt' |}, r)
  end.
Proof. exact add_value_chunks_eq. Qed.

(* the count invariant holds from every constructor on: after from_serializable too *)
Theorem C17_count_after_row : forall cols vals s ops, from_row cols vals = Ok s ->
  exists cells, sv_iter (fold_left apply_op ops s) = Some cells /\
                N.of_nat (List.length cells) = sv_count (fold_left apply_op ops s) /\
                sv_count (fold_left apply_op ops s) <= u16_max.
Proof. intros cols vals s ops H. exact (wf_ops_count s ops (from_row_wf cols vals s H)). Qed.

(* ---- rows bound by name (BTreeMap / HashMap<String | &str, T>) and the other built-in rows ------ *)
(* [from_typed_row] = C09's [Request.bind_row] (imported) instantiated with the real value serialiser.
   A SerializedValues comes out only if every column found its value (by name for maps) and every
   value serialised; it then holds exactly one well-formed cell per column - the bytes [ser_out]
   gives for the value supplied for THAT column -, nothing supplied is left over, and the invariant
   holds (count = cells, and so after any later add_value sequence: wf_ops_count) *)
Theorem C17_named_row_count : forall (cols : list (bytes * ctype)) r s, from_typed_row cols r = Ok s ->
  (exists cells, sv_iter s = Some cells /\ N.of_nat (List.length cells) = sv_count s) /\
  sv_count s = N.of_nat (List.length cols) /\
  Request.row_complete (carrier * kval) ctype cols r /\
  exists chunks : list bytes, sv_bytes s = concat chunks /\ List.length chunks = List.length cols /\
    forall i nm t, nth_error cols i = Some (nm, t) ->
      exists kv o, Request.supplied (carrier * kval) r i nm = Some kv /\
                   ser_out (fst kv) true t (snd kv) = (o, None) /\ nth_error chunks i = Some o.
Proof.
  intros cols r s H. destruct (typed_row_ok cols r s H) as (Hw & Hc & Hr & Hch).
  split; [|auto]. destruct (sv_wf_iter s Hw) as (cells & Hi & Hl & _). eauto.
Qed.

(* the rollback half for rows: a value that does not serialise (at any depth), a column without a
   value, or a key that names no column - and no SerializedValues exists at all *)
Theorem C17_named_row_refuses : forall (cols : list (bytes * ctype)) r i nm t kv,
  nth_error cols i = Some (nm, t) -> Request.supplied (carrier * kval) r i nm = Some kv ->
  (exists e, snd (ser_out (fst kv) true t (snd kv)) = Some e) -> exists e, from_typed_row cols r = Err e.
Proof. exact typed_row_refuses. Qed.
Theorem C17_named_row_names : forall (cols : list (bytes * ctype)) kvs s, from_typed_row cols (Request.RMap kvs) = Ok s ->
  (forall nm t, In (nm, t) cols -> exists kv, Request.assoc (carrier * kval) nm kvs = Some kv) /\
  (forall k, In k (map fst kvs) -> Request.col_named ctype cols k = true).
Proof. exact typed_row_map_names. Qed.

(* from_closure: the number of values written through a RowWriter (cells and appended rows) is
   either reported exactly or refused - it never wraps *)
Theorem C17_closure_count : forall parts,
  (forall e, closure_count parts = Err e <-> e = RE_TooManyValues /\ u16_max < fold_left N.add parts 0) /\
  (forall n, closure_count parts = Ok n <-> n = fold_left N.add parts 0 /\ n <= u16_max) /\
  (forall parts', Permutation parts parts' -> closure_count parts = closure_count parts').
Proof. exact closure_count_spec. Qed.
(* ... and it is the check the row models end in: the count a row (by position or by name) leaves
   in a SerializedValues is the [closure_count] of its one part, and a row refused for its count
   is refused by [closure_count] *)
Theorem C17_closure_count_rows :
  (forall cols vals s, from_row cols vals = Ok s ->
     closure_count [N.of_nat (List.length vals)] = Ok (sv_count s)) /\
  (forall cols vals, from_row cols vals = Err RE_TooManyValues ->
     closure_count [N.of_nat (List.length vals)] = Err RE_TooManyValues) /\
  (forall (cols : list (bytes * ctype)) r s, from_typed_row cols r = Ok s ->
     closure_count [N.of_nat (List.length cols)] = Ok (sv_count s)).
Proof. exact closure_count_rows. Qed.

(* ---- non-vacuity ----------------------------------------------------------------------- *)

Definition tint := TNative NInt.
Definition ttext := TNative NText.

(* the matrix has true and false cells at depth 2; the two relaxations are visible *)
(* ---- deepening round 3 ------------------------------------------------------------------ *)

(* Rows bound by name, with the keys of a Rust map (distinct): the result - bytes, count, and the
   error with the name it reports - does not depend on the order in which the map iterates
   (HashMap!), ... *)
Theorem C17_named_row_order : forall (cols : list (bytes * ctype)) kvs kvs',
  NoDup (map fst kvs) -> Permutation kvs kvs' ->
  from_typed_row cols (Request.RMap kvs) = from_typed_row cols (Request.RMap kvs').
Proof. exact typed_row_order. Qed.
(* ... and the cell of a column is the wire form of THE entry stored under the column's name
   (membership - no search order): a mis-binding, type-correct or not, is impossible *)
Theorem C17_named_row_unique : forall (cols : list (bytes * ctype)) kvs s, NoDup (map fst kvs) ->
  from_typed_row cols (Request.RMap kvs) = Ok s ->
  exists chunks : list bytes, sv_bytes s = concat chunks /\ List.length chunks = List.length cols /\
    forall i nm t, nth_error cols i = Some (nm, t) ->
      exists kv o, In (nm, kv) kvs /\ (forall kv', In (nm, kv') kvs -> kv' = kv) /\
                   ser_out (fst kv) true t (snd kv) = (o, None) /\ nth_error chunks i = Some o.
Proof. exact typed_row_unique. Qed.
(* exactly when it is possible: without distinct keys (which no Rust map can hold) the order counts *)
Theorem C17_named_row_order_refuted :
  ~ (forall (cols : list (bytes * ctype)) kvs kvs', Permutation kvs kvs' ->
       from_typed_row cols (Request.RMap kvs) = from_typed_row cols (Request.RMap kvs')).
Proof.
  intros H.
  specialize (H [([97], tint)] [([97], (KBase BI32, VLeaf (CInt 1))); ([97], (KBase BI32, VLeaf (CInt 2)))]
                [([97], (KBase BI32, VLeaf (CInt 2))); ([97], (KBase BI32, VLeaf (CInt 1)))] (perm_swap _ _ _)).
  vm_compute in H. discriminate H.
Qed.

(* [dyn_fits] (the boolean the reject / accept theorems and the driver use) is the typing
   relation [has_cql_type] (Proofs/Accept_proofs.v section 13: eight rules, no recursion over
   the value's entries, the UDT clause said with "the last entry of a name" and "the first field
   of a name"); a CqlValue in the typed path is judged by the same relation *)
Theorem C17_dynamic_typing : forall t v,
  (dyn_fits t v = true <-> has_cql_type t v) /\ val_fits KCqlValue t (VLeaf v) = dyn_fits t v.
Proof. intros t v. split; [exact (dyn_fits_typing t v)|reflexivity]. Qed.

Example C17_ex_matrix :
  ser_accepts (KVec (KOption (KBase BString))) (TList ttext) = true /\
  ser_accepts (KVec (KOption (KBase BString))) (TList tint) = false /\
  ser_accepts (KHashMap (KBase BI32) (KVec (KBase BUuid))) (TMap tint (TSet (TNative NUuid))) = true /\
  ser_accepts (KHashMap (KBase BI32) (KVec (KBase BUuid))) (TMap tint (TSet (TNative NTimeuuid))) = false /\
  deser_accepts (KTuple [KBase BI32; KBTreeSet (KBase BString)]) (TTuple [tint; TSet ttext]) = true /\
  deser_accepts (KTuple [KBase BI32; KBTreeSet (KBase BString)]) (TTuple [tint; TList ttext]) = false /\
  doc_compat Ser (KTuple [KBase BI32]) (TTuple [tint; ttext]) = false /\
  spec_compat Ser (KTuple [KBase BI32]) (TTuple [tint; ttext]) = true /\
  doc_compat Ser (KHashSet (KBase BI32)) (TList tint) = false /\
  spec_compat Ser (KHashSet (KBase BI32)) (TList tint) = true /\
  known_class (KVec (KBase BI32)) (TVector tint 2) = false /\
  known_class (KBTreeMap (KBase BI32) (KVec (KMaybeUnset (KBase BF32)))) (TMap tint (TVector (TNative NFloat) 3)) = true.
Proof. vm_compute. repeat split; reflexivity. Qed.

(* a nested element fails after two siblings were written: the buffer holds the placeholder, the
   count and the siblings when the error is raised; add_value hands back the old state *)
Example C17_ex_rollback :
  let s0 := run_ops [(KBase BI32, tint, VLeaf (CInt 5)); (KOption (KBase BString), ttext, VNull)] in
  let bad := VSeq [VLeaf (CList [CInt 1]); VLeaf (CList [CInt 2; CText [97]])] in
  sv_bytes s0 = [0; 0; 0; 4; 0; 0; 0; 5; 255; 255; 255; 255] /\ sv_count s0 = 2 /\
  ser_buf (KVec KCqlValue) true (TList (TList tint)) bad (sv_bytes s0) =
    (sv_bytes s0 ++ [255; 255; 255; 253; 0; 0; 0; 2;  0; 0; 0; 12; 0; 0; 0; 1; 0; 0; 0; 4; 0; 0; 0; 1;
                     255; 255; 255; 253; 0; 0; 0; 2; 0; 0; 0; 4; 0; 0; 0; 2], Some (KE SE_MismatchedType)) /\
  add_value s0 (KVec KCqlValue) (TList (TList tint)) bad = (s0, Some (RE_Ser (KE SE_MismatchedType))) /\
  sv_iter s0 = Some [RValue [0; 0; 0; 5]; RNull].
Proof. vm_compute. repeat split; reflexivity. Qed.

(* accept_sound / reject_complete have inhabitants: a populated value of an accepted pair
   serialises, the same carrier at a rejected type fails *)
Example C17_ex_values :
  let k := KTuple [KBase BI32; KVec (KBase BString)] in
  let v := VTup [VLeaf (CInt 1); VSeq [VLeaf (CText [97]); VLeaf (CText [])]] in
  static k = true /\ has_carrier k v = true /\ populated v = true /\
  ser_accepts k (TTuple [tint; TSet ttext; tint]) = true /\
  snd (ser_out k true (TTuple [tint; TSet ttext; tint]) v) = None /\
  ser_accepts k (TTuple [tint; TSet tint]) = false /\
  snd (ser_out k true (TTuple [tint; TSet tint]) v) = Some (KE SE_MismatchedType).
Proof. vm_compute. repeat split; reflexivity. Qed.

(* a misfit three levels down (a text inside list<int> inside a UDT field inside a map value)
   is refused; the same value with an int there is accepted *)
Example C17_ex_dynamic :
  let t := TMap tint (TUdt [107] [116] [([97], tint); ([98], TList tint)]) in
  let bad := CMap [(CInt 1, CUdt [107] [116] [([98], Some (CList [CInt 1; CText [120]])); ([97], None)])] in
  let good := CMap [(CInt 1, CUdt [107] [116] [([98], Some (CList [CInt 1; CInt 2])); ([97], None)])] in
  dyn_fits t bad = false /\ dyn_known t bad = false /\ snd (ser_out KCqlValue true t (VLeaf bad)) = Some (KE SE_MismatchedType) /\
  dyn_fits t good = true /\ snd (ser_out KCqlValue true t (VLeaf good)) = None /\
  all_leaves small_leaf bad = true /\ ser_value true t bad = Err SE_MismatchedType.
Proof. vm_compute. repeat split; reflexivity. Qed.

(* ---- anchors: the definitions the driver evaluates, on accepting AND rejecting inputs ------- *)

Example C17_ex_known_class_narrow :
  (* in the class *)
  known_class (KVec (KOption (KBase BI32))) (TVector tint 2) = true /\
  known_class (KVec (KMaybeEmpty (KBase BI32))) (TVector tint 2) = true /\
  (* the shape, but the code rejects the pair (other element type / a mismatching sibling) *)
  known_class (KVec (KOption (KBase BI32))) (TVector ttext 2) = false /\
  known_class (KTuple [KVec (KOption (KBase BI32)); KBase BI32]) (TTuple [TVector tint 2; ttext]) = false /\
  (* an ordinary wrong acceptance would not be in the class *)
  known_class (KBase BI32) ttext = false /\ known_class (KVec (KBase BI32)) (TVector tint 2) = false /\
  (* empty at a variable-width element type has a representation *)
  known_class (KVec (KMaybeEmpty (KBase BCqlVarint))) (TVector (TNative NVarint) 2) = false /\
  val_known (KVec KCqlValue) (TVector tint 2) (VSeq [VLeaf (CInt 7); VLeaf CEmpty]) = true /\
  val_known (KVec KCqlValue) (TVector tint 2) (VSeq [VLeaf (CInt 7); VLeaf (CText [97])]) = false /\
  val_known (KVec (KOption (KBase BI32))) (TVector tint 2) (VSeq [VWrap (VLeaf (CInt 7)); VWrap (VLeaf (CInt 8))]) = false /\
  dyn_known (TVector tint 2) (CVector [CInt 7; CText [97]]) = false /\
  (* a hole AND another misfit: not of the class (the code refuses these) *)
  dyn_known (TVector tint 2) (CVector [CEmpty; CText [97]]) = false /\
  val_known (KVec (KOption (KBase BI32))) (TVector ttext 2) (VSeq [VWrap (VLeaf (CInt 7)); VNull]) = false /\
  val_known (KTuple [KVec (KOption (KBase BI32)); KBase BI32]) (TTuple [TVector tint 2; ttext])
            (VTup [VSeq [VWrap (VLeaf (CInt 7)); VNull]; VLeaf (CInt 1)]) = false /\
  val_known (KVec (KOption (KBase BI32))) (TVector tint 2) (VSeq [VWrap (VLeaf (CInt 7)); VNull]) = true /\
  dyn_known (TVector ttext 2) (CVector [CText [97]; CEmpty]) = false.
Proof. vm_compute. repeat split; reflexivity. Qed.

Example C17_ex_spec :
  doc_compat Ser (KVec (KBase BUnset)) (TList tint) = false /\ spec_compat Ser (KVec (KBase BUnset)) (TList tint) = true /\
  doc_compat Ser (KMaybeUnset (KBase BI32)) tint = true /\ doc_compat Ser (KBase BUnset) ttext = true /\
  doc_compat Ser (KTuple [KBase BUnset; KMaybeUnset (KBase BI32)]) (TTuple [tint; tint]) = false /\
  doc_compat Ser (KBase BI32) (TNative NBigInt) = false /\ doc_compat Ser (KBase BString) (TNative NAscii) = true /\
  doc_compat De (KBase BArrU8) (TNative NBlob) = false /\ doc_compat De (KHashSet (KBase BI32)) (TList tint) = false /\
  doc_compat De (KCow (KBase BSliceU8)) (TNative NBlob) = true /\
  relaxed (KHashSet (KBase BI32)) (TList tint) = true /\ relaxed (KBase BI32) tint = false /\
  relaxed (KVec (KOption (KBase BI32))) (TVector tint 2) = false /\
  ser_cell_ok (KBase BI32) ttext true = false /\ ser_cell_ok (KBase BI32) tint false = false /\
  ser_cell_ok (KBase BI32) tint true = true /\ deser_cell_ok (KHashSet (KBase BI32)) (TList tint) true = false /\
  deser_cell_ok (KVec (KBase BI32)) (TList tint) false = false /\
  val_fits (KBase BI32) ttext (VLeaf (CInt 1)) = false /\ val_fits (KOption (KBase BI32)) ttext VNull = true /\
  val_fits (KHashSet (KBase BI32)) tint (VSeq []) = false /\ val_fits (KVec (KBase BI32)) (TList ttext) (VSeq []) = true /\
  val_fits (KVec (KOption (KBase BI32))) (TVector tint 2) (VSeq [VWrap (VLeaf (CInt 7)); VNull]) = false /\
  dyn_fits (TList tint) (CList [CInt 1; CText [97]]) = false /\ dyn_fits (TVector tint 2) (CVector [CInt 1]) = false /\
  dyn_fits (TTuple [tint; ttext]) (CTuple [Some (CInt 1)]) = true /\
  is_typeck (KE SE_VectorLen) = false /\ is_typeck (KE SE_NoSuchFieldInUdt) = true /\ is_size_err (KE SE_VectorLen) = false /\
  row_check [KBase BI32; KBase BString] [tint; tint] = RK_Column 1 TE_MismatchedType /\
  row_check [KBase BI32] [tint; tint] = RK_WrongColumnCount /\
  typed_rows [KBase BI32; KBase BString] [tint; ttext] 3 = Ok 3 /\
  closure_count [40000; 40000] = Err RE_TooManyValues /\ closure_count [65535] = Ok 65535 /\
  closure_count [65535; 1] = Err RE_TooManyValues.
Proof. vm_compute. repeat split; reflexivity. Qed.

(* the two conversions that can fail: a leap second, an exponent beyond i32.  BigDecimal has already
   taken a value builder, so the -3 placeholder is in the buffer when the error is raised (and is
   truncated by add_value like any other junk); the values do not fit, in-range ones do *)
Example C17_ex_value_overflow :
  ser_out (KBase BBigDecimal) true (TNative NDecimal) (VLeaf (CDecimal (2 ^ 31) [1])) = ([255; 255; 255; 253], Some KE_ValueOverflow) /\
  ser_out (KBase BBigDecimal) true (TNative NDecimal) (VLeaf (CDecimal (2 ^ 31 - 1) [1])) = ([0; 0; 0; 5; 127; 255; 255; 255; 1], None) /\
  ser_out (KBase BChronoTime) true (TNative NTime) (VLeaf (CTime 86400000000000)) = ([], Some KE_ValueOverflow) /\
  ser_out (KBase BCqlTime) true (TNative NTime) (VLeaf (CTime 86400000000000)) = ([0; 0; 0; 8; 0; 0; 78; 148; 145; 79; 0; 0], None) /\
  val_fits (KBase BBigDecimal) (TNative NDecimal) (VLeaf (CDecimal (2 ^ 31) [1])) = false /\
  val_fits (KBase BChronoTime) (TNative NTime) (VLeaf (CTime 86399999999999)) = true /\
  fst (add_value sv_new (KVec (KBase BBigDecimal)) (TList (TNative NDecimal))
         (VSeq [VLeaf (CDecimal 2 [1]); VLeaf (CDecimal (- 2 ^ 31 - 1) [1])])) = sv_new /\
  is_typeck KE_ValueOverflow = false /\ is_size_err KE_ValueOverflow = false /\ is_refusal KE_ValueOverflow = true.
Proof. vm_compute. repeat split; reflexivity. Qed.

(* a row bound by name: the columns are (b int, a text), the map supplies a and b in another order;
   an unknown key, a missing column and a value that does not fit refuse the row *)
Example C17_ex_named_row :
  let cols := [([98], tint); ([97], ttext)] in
  let va := (KBase BString, VLeaf (CText [120])) in
  let vb := (KOption (KBase BI32), VNull) in
  from_typed_row cols (Request.RMap [([97], va); ([98], vb)]) =
    Ok {| sv_bytes := [255; 255; 255; 255; 0; 0; 0; 1; 120]; sv_count := 2 |} /\
  from_typed_row cols (Request.RMap [([97], va); ([98], vb); ([99], vb)]) = Err (Request.NoColumnWithName [99]) /\
  from_typed_row cols (Request.RMap [([97], va)]) = Err (Request.ValueMissingForColumn [98]) /\
  from_typed_row cols (Request.RMap [([98], va); ([97], va)]) = Err (Request.ColumnSerializationFailed [98]) /\
  from_typed_row cols (Request.RSeq [vb; va]) = Ok {| sv_bytes := [255; 255; 255; 255; 0; 0; 0; 1; 120]; sv_count := 2 |} /\
  cell_of_out [0; 0; 0; 1; 120] = Request.CVal [120] /\ cell_wire (Request.CVal [120]) = [0; 0; 0; 1; 120].
Proof. vm_compute. repeat split; reflexivity. Qed.

(* The vocabulary of the reject theorems, frozen: [refusal_named] is exactly these five cases
   ([is_typeck] = the nine BuiltinTypeCheckErrorKind leaves), and the two premises it is used
   with - a vector position of the wrong length ([val_len_mis] / [dyn_len_mis]) and a collection
   of more than i32::MAX elements ([kv_big] / [cval_big]) - mean what their names say. *)
Example C17_ex_refusal_vocabulary :
  (forall lenmis big e, refusal_named lenmis big e <->
     (is_typeck e = true \/ e = KE_ValueOverflow \/ (e = KE SE_VectorLen /\ lenmis = true) \/
      (e = KE SE_TooManyElements /\ big = true) \/ e = KE SE_SizeOverflow)) /\
  map is_typeck [KE SE_MismatchedType; KE SE_NotEmptyable; KE SE_NotSetOrList; KE SE_NotMap; KE SE_NotTuple;
                 KE SE_TupleWrongCount; KE SE_NotUdt; KE SE_UdtNameMismatch; KE SE_NoSuchFieldInUdt;
                 KE SE_SizeOverflow; KE SE_TooManyElements; KE SE_VectorLen; KE_ValueOverflow; KE_IllTyped]
    = [true; true; true; true; true; true; true; true; true; false; false; false; false; false] /\
  refusal_named false false (KE SE_MismatchedType) /\ refusal_named true false (KE SE_VectorLen) /\
  refusal_named false true (KE SE_TooManyElements) /\
  ~ refusal_named false true (KE SE_VectorLen) /\ ~ refusal_named true false (KE SE_TooManyElements) /\
  ~ refusal_named true true KE_IllTyped /\
  (* a vector position of the wrong length: at the top, nested, and not *)
  val_len_mis (KVec (KBase BI32)) (TVector tint 2) (VSeq [VLeaf (CInt 1)]) = true /\
  val_len_mis (KVec (KBase BI32)) (TVector tint 2) (VSeq [VLeaf (CInt 1); VLeaf (CInt 2)]) = false /\
  val_len_mis (KVec (KVec (KBase BI32))) (TList (TVector tint 2))
              (VSeq [VSeq [VLeaf (CInt 1); VLeaf (CInt 2)]; VSeq [VLeaf (CInt 1)]]) = true /\
  val_len_mis (KVec (KBase BI32)) (TList tint) (VSeq [VLeaf (CInt 1)]) = false /\
  val_len_mis (KBase BI32) ttext (VLeaf (CInt 1)) = false /\
  val_len_mis KCqlValue (TVector tint 2) (VLeaf (CVector [CInt 1])) = true /\
  dyn_len_mis (TVector tint 2) (CVector [CInt 1]) = true /\
  dyn_len_mis (TVector tint 2) (CVector [CInt 1; CInt 2]) = false /\
  dyn_len_mis (TList (TVector tint 2)) (CList [CVector [CInt 1; CInt 2]; CVector []]) = true /\
  dyn_len_mis (TList tint) (CList [CInt 1]) = false /\ dyn_len_mis (TVector tint 2) (CInt 1) = false /\
  (* more than i32::MAX elements, here or below *)
  i32_max = 2147483647 /\
  (forall l, kv_big (VSeq l) = (i32_max <? N.of_nat (List.length l)) || existsb kv_big l) /\
  (forall l, cval_big (CList l) = (i32_max <? N.of_nat (List.length l)) || existsb cval_big l) /\
  (forall x, kv_big (VLeaf x) = cval_big x) /\
  kv_big (VSeq [VLeaf (CInt 1); VNull]) = false /\ kv_big (VLeaf (CInt 1)) = false /\
  kv_big (VMap [(VLeaf (CInt 1), VSeq [VLeaf (CInt 2)])]) = false /\
  cval_big (CVector [CInt 1; CList [CInt 2]]) = false /\ cval_big (CInt 1) = false.
Proof.
  split; [intros; reflexivity|].
  split; [reflexivity|].
  unfold refusal_named.
  repeat match goal with |- _ /\ _ => split end;
    try (vm_compute; reflexivity); try reflexivity; try (intros; reflexivity);
    try (vm_compute; tauto);
    try (intros [H|[H|[[H1 H2]|[[H1 H2]|H]]]]; (discriminate || (vm_compute in H; discriminate))).
Qed.

(* the typing relation, frozen: its eight rules as statements, and values it does / does not hold for *)
Example C17_ex_typing :
  (forall t, supports_empty t = true -> has_cql_type t CEmpty) /\
  (forall n m v, payload_kind v = Some m -> (n = m \/ (In n string_types /\ In m string_types)) -> has_cql_type (TNative n) v) /\
  (forall e v l, vec_elems v = Some l -> (forall x, In x l -> has_cql_type e x) -> has_cql_type (TList e) v /\ has_cql_type (TSet e) v) /\
  (forall e d v l, vec_elems v = Some l -> N.of_nat (List.length l) = d -> (type_size e <> None -> ~ In CEmpty l) ->
     (forall x, In x l -> has_cql_type e x) -> has_cql_type (TVector e d) v) /\
  (forall k e l, (forall a b, In (a, b) l -> has_cql_type k a) -> (forall a b, In (a, b) l -> has_cql_type e b) ->
     has_cql_type (TMap k e) (CMap l)) /\
  (forall ts l, (List.length l <= List.length ts)%nat ->
     (forall i x et, nth_error l i = Some (Some x) -> nth_error ts i = Some et -> has_cql_type et x) ->
     has_cql_type (TTuple ts) (CTuple l)) /\
  (forall ks nm fts fields, (forall f, In f (map fst fields) -> In f (map fst fts)) ->
     (forall fname ft x, lookup_first fname fts = Some ft -> udt_field_value fname fields = Some x -> has_cql_type ft x) ->
     has_cql_type (TUdt ks nm fts) (CUdt ks nm fields)) /\
  has_cql_type tint (CInt 7) /\ has_cql_type ttext (CAscii [97]) /\ has_cql_type tint CEmpty /\
  has_cql_type (TVector ttext 2) (CVector [CText [97]; CEmpty]) /\
  has_cql_type (TUdt [107] [117] [([97], tint)]) (CUdt [107] [117] [([97], Some (CText [120])); ([97], Some (CInt 1))]) /\
  ~ has_cql_type ttext (CInt 7) /\ ~ has_cql_type (TList tint) CEmpty /\
  ~ has_cql_type (TVector tint 2) (CVector [CInt 1; CEmpty]) /\ ~ has_cql_type (TVector tint 2) (CVector [CInt 1]) /\
  ~ has_cql_type (TList tint) (CList [CInt 1; CText [97]]) /\
  ~ has_cql_type (TUdt [107] [117] [([97], tint)]) (CUdt [107] [117] [([97], Some (CInt 1)); ([97], Some (CText [120]))]) /\
  ~ has_cql_type (TUdt [107] [117] [([97], tint)]) (CUdt [107] [117] [([98], None)]) /\
  ~ has_cql_type (TTuple [tint]) (CTuple [Some (CInt 1); None]).
Proof.
  repeat match goal with |- _ /\ _ => split end;
    try (intros; econstructor; eauto; fail);
    try (intros; split; econstructor; eauto; fail);
    try (apply dyn_fits_typing; vm_compute; reflexivity);
    try (intros H; apply dyn_fits_typing in H; vm_compute in H; discriminate H).
Qed.

(* ==== Deepening round 4 (proof only; lemmas in Proofs/C17_round4.v) ============================ *)

(* The row check, completely: the error names the FIRST column whose `type_check` fails and carries
   that check's leaf; every earlier column was accepted; WrongColumnCount iff the arities differ.
   With C17_row_check_ok this characterises all three outcomes of [row_check] (was: RK_Ok only). *)
Theorem C17_row_check_column : forall ks cols i e,
  row_check ks cols = RK_Column i e <->
  List.length ks = List.length cols /\
  exists k t, nth_error ks i = Some k /\ nth_error cols i = Some t /\ deser_check k t = Some e /\
    forall j k' t', (j < i)%nat -> nth_error ks j = Some k' -> nth_error cols j = Some t' ->
                    deser_accepts k' t' = true.
Proof. exact row_check_column. Qed.
Theorem C17_row_check_arity : forall ks cols,
  row_check ks cols = RK_WrongColumnCount <-> List.length ks <> List.length cols.
Proof. exact row_check_count. Qed.

(* TypedRowIterator::new returns exactly the row check's error, or an iterator over every row:
   C17_read_guard / C17_read_refuses as equivalences, the error named *)
Theorem C17_read_exact : forall ks cols rows,
  (forall n, typed_rows ks cols rows = Ok n <-> row_check ks cols = RK_Ok /\ n = rows) /\
  (forall e, typed_rows ks cols rows = Err e <-> row_check ks cols = e /\ e <> RK_Ok).
Proof. exact typed_rows_exact. Qed.

(* [deser_check] (what kind D compares leaf by leaf) against the documentation: for a carrier that
   implements DeserializeValue the answer is never the model artefact TE_NoImpl (the driver's
   `error carrier-has-no-deserialize-impl` branch is dead for such carriers), and it is an error
   exactly on the pairs the documentation does not list *)
Theorem C17_deser_check_doc : forall k t, deser_impl k = true ->
  deser_check k t <> Some TE_NoImpl /\
  (deser_check k t = None <-> doc_compat De k t = true).
Proof. exact deser_check_doc. Qed.

(* so a refused row names the first UNDOCUMENTED column, and no column before it is undocumented *)
Theorem C17_read_first_undocumented : forall ks cols rows i e, forallb deser_impl ks = true ->
  typed_rows ks cols rows = Err (RK_Column i e) ->
  e <> TE_NoImpl /\
  exists k t, nth_error ks i = Some k /\ nth_error cols i = Some t /\ doc_compat De k t = false /\
    forall j k' t', (j < i)%nat -> nth_error ks j = Some k' -> nth_error cols j = Some t' ->
                    doc_compat De k' t' = true.
Proof. exact read_first_undocumented. Qed.

(* The chunked state of the correspondence driver (kinds A / X), for EVERY reachable state - not
   one step as in C17_chunks: after any operation sequence the chunk list and counter ARE the
   SerializedValues of [run_ops]; every chunk parses as exactly one cell with the fuel the driver
   gives it (its `iter_ok` test never fails on the model side); the counter is the number of chunks;
   and `iter()` of the whole yields as many cells as there are chunks - the number the driver prints *)
Theorem C17_chunks_reachable : forall ops,
  run_ops ops = {| sv_bytes := chunks_bytes (fst (run_chunks ops)); sv_count := snd (run_chunks ops) |} /\
  Forall (fun ch => exists x, sv_iter_go (S (List.length ch)) ch = Some [x]) (fst (run_chunks ops)) /\
  snd (run_chunks ops) = N.of_nat (List.length (fst (run_chunks ops))) /\
  exists cells, sv_iter (run_ops ops) = Some cells /\
                List.length cells = List.length (fst (run_chunks ops)).
Proof. exact run_chunks_reachable. Qed.

(* non-vacuity of the round-4 statements: a refused row whose first failing column is the third
   (two documented columns before it, an undocumented one after it is not reached); an arity
   mismatch; a chunk sequence with a failed operation in the middle and a null cell *)
Example C17_ex_round4 :
  let ks := [KBase BI32; KVec (KBase BString); KHashSet (KBase BI32); KBase BI32] in
  let cols := [tint; TList ttext; TList tint; ttext] in
  forallb deser_impl ks = true /\
  typed_rows ks cols 5 = Err (RK_Column 2 TE_NotSet) /\
  deser_check (KHashSet (KBase BI32)) (TList tint) = Some TE_NotSet /\
  doc_compat De (KHashSet (KBase BI32)) (TList tint) = false /\
  doc_compat De (KVec (KBase BString)) (TList ttext) = true /\
  row_check [KBase BI32] [tint; tint] = RK_WrongColumnCount /\
  deser_impl (KSlice (KBase BI32)) = false /\ deser_check (KSlice (KBase BI32)) (TList tint) = Some TE_NoImpl /\
  let ops := [(KBase BI32, tint, VLeaf (CInt 5)); (KBase BI32, ttext, VLeaf (CInt 6));
              (KOption (KBase BString), ttext, VNull)] in
  run_chunks ops = ([[255; 255; 255; 255]; [0; 0; 0; 4; 0; 0; 0; 5]], 2) /\
  sv_iter (run_ops ops) = Some [RValue [0; 0; 0; 5]; RNull].
Proof. vm_compute. repeat split; reflexivity. Qed.

Print Assumptions C17_code_matrix.
Print Assumptions C17_matrix_ser_doc_refuted.
Print Assumptions C17_matrix_ser.
Print Assumptions C17_matrix_ser_doc.
Print Assumptions C17_matrix_ser_refuted.
Print Assumptions C17_known_class_shape.
Print Assumptions C17_documented_accepted.
Print Assumptions C17_matrix_deser.
Print Assumptions C17_row_check.
Print Assumptions C17_row_check_ok.
Print Assumptions C17_read_guard.
Print Assumptions C17_read_refuses.
Print Assumptions C17_accept_sound.
Print Assumptions C17_reject_complete.
Print Assumptions C17_matrix_ser_lazy_refuted.
Print Assumptions C17_value_accept.
Print Assumptions C17_value_reject.
Print Assumptions C17_value_reject_typeck.
Print Assumptions C17_value_known.
Print Assumptions C17_value_reject_refuted.
Print Assumptions C17_dynamic_reject.
Print Assumptions C17_dynamic_reject_refuted.
Print Assumptions C17_dynamic_accept.
Print Assumptions C17_dynamic_is_C01.
Print Assumptions C17_append_only.
Print Assumptions C17_no_bytes.
Print Assumptions C17_rollback.
Print Assumptions C17_add_ok.
Print Assumptions C17_cap.
Print Assumptions C17_count.
Print Assumptions C17_row_count.
Print Assumptions C17_row_refuses.
Print Assumptions C17_chunks.
Print Assumptions C17_count_after_row.
Print Assumptions C17_closure_count.
Print Assumptions C17_named_row_count.
Print Assumptions C17_named_row_refuses.
Print Assumptions C17_named_row_names.
Print Assumptions C17_closure_count_rows.
Print Assumptions C17_named_row_order.
Print Assumptions C17_named_row_unique.
Print Assumptions C17_named_row_order_refuted.
Print Assumptions C17_dynamic_typing.
Print Assumptions C17_row_check_column.
Print Assumptions C17_row_check_arity.
Print Assumptions C17_read_exact.
Print Assumptions C17_deser_check_doc.
Print Assumptions C17_read_first_undocumented.
Print Assumptions C17_chunks_reachable.
