(* Shared imports and arithmetic set-up for the whole development. *)
From Coq Require Export List Bool Arith NArith ZArith Lia.
From Coq Require Export ZifyBool ZifyNat ZifyN.
Export ListNotations.

Ltac Zify.zify_post_hook ::= Z.div_mod_to_equations.

Global Arguments N.add : simpl never.
Global Arguments N.sub : simpl never.
Global Arguments N.mul : simpl never.
Global Arguments N.div : simpl never.
Global Arguments N.modulo : simpl never.
Global Arguments N.pow : simpl never.
Global Arguments N.eqb : simpl never.
Global Arguments N.ltb : simpl never.
Global Arguments N.leb : simpl never.
Global Arguments Z.add : simpl never.
Global Arguments Z.sub : simpl never.
Global Arguments Z.mul : simpl never.
Global Arguments Z.div : simpl never.
Global Arguments Z.modulo : simpl never.
Global Arguments Z.pow : simpl never.
Global Arguments Z.eqb : simpl never.
Global Arguments Z.ltb : simpl never.
Global Arguments Z.leb : simpl never.

(* Result type used by every model: Ok v | Err class. *)
Inductive result (E A : Type) : Type :=
| Ok : A -> result E A
| Err : E -> result E A.
Arguments Ok {E A} _.
Arguments Err {E A} _.

Definition rbind {E A B} (r : result E A) (f : A -> result E B) : result E B :=
  match r with Ok a => f a | Err e => Err e end.

(* Ascending list lo, lo+1, ..., lo+len-1 over N. *)
Fixpoint nrange (lo : N) (len : nat) : list N :=
  match len with
  | O => []
  | S k => lo :: nrange (N.succ lo) k
  end.

Lemma nrange_length lo len : length (nrange lo len) = len.
Proof. revert lo; induction len as [|k IH]; intros lo; simpl; [reflexivity|now rewrite IH]. Qed.

Lemma nrange_In lo len x : In x (nrange lo len) <-> (lo <= x < lo + N.of_nat len)%N.
Proof.
  revert lo; induction len as [|k IH]; intros lo; simpl.
  - split; [tauto|lia].
  - rewrite IH. lia.
Qed.
