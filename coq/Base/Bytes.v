(* Byte strings and fixed-width big-endian integers shared by the codec models.
   A byte is an N below 256; a byte string is a [list N].  Decoders never assume the bound
   (they are total on any list); encoders produce bytes below 256 by construction. *)
From SV Require Import Base.Prelude.
Open Scope N_scope.

Definition byte := N.
Definition bytes := list N.

Definition bytes_ok (b : bytes) : Prop := Forall (fun x => x < 256) b.
Definition bytes_okb (b : bytes) : bool := forallb (fun x => x <? 256) b.

(* big-endian encoding of v mod 256^k on k bytes *)
Fixpoint be_enc (k : nat) (v : N) : bytes :=
  match k with
  | O => []
  | S k' => be_enc k' (v / 256) ++ [v mod 256]
  end.

(* big-endian decoding of a byte string (any length) *)
Definition be_dec (b : bytes) : N := fold_left (fun acc x => acc * 256 + x) b 0.

(* two's complement views on k bytes *)
Definition wrap_bits (bits : N) (z : Z) : N := Z.to_N (z mod 2 ^ Z.of_N bits).
Definition to_signed (bits : N) (v : N) : Z :=
  if v <? 2 ^ (bits - 1) then Z.of_N v else (Z.of_N v - 2 ^ Z.of_N bits)%Z.

Definition enc_signed (k : nat) (z : Z) : bytes := be_enc k (wrap_bits (8 * N.of_nat k) z).
Definition dec_signed (b : bytes) : Z := to_signed (8 * N.of_nat (length b)) (be_dec b).

(* take exactly n bytes from the front *)
Definition take (n : nat) (b : bytes) : option (bytes * bytes) :=
  if (n <=? length b)%nat then Some (firstn n b, skipn n b) else None.

Lemma be_enc_length k v : length (be_enc k v) = k.
Proof.
  revert v; induction k as [|k IH]; intros v; simpl; [reflexivity|].
  rewrite app_length, IH. simpl. lia.
Qed.

Lemma be_enc_ok k v : bytes_ok (be_enc k v).
Proof.
  revert v; induction k as [|k IH]; intros v; simpl; [constructor|].
  apply Forall_app. split; [apply IH|]. constructor; [|constructor].
  apply N.mod_lt. discriminate.
Qed.

Lemma be_dec_app a b : be_dec (a ++ b) = fold_left (fun acc x => acc * 256 + x) b (be_dec a).
Proof. unfold be_dec. apply fold_left_app. Qed.

Lemma be_dec_snoc a x : be_dec (a ++ [x]) = be_dec a * 256 + x.
Proof. rewrite be_dec_app. reflexivity. Qed.

Lemma pow256_succ k : 256 ^ N.of_nat (S k) = 256 * 256 ^ N.of_nat k.
Proof. rewrite Nat2N.inj_succ, N.pow_succ_r'. reflexivity. Qed.

Theorem be_dec_enc k v : be_dec (be_enc k v) = v mod 256 ^ N.of_nat k.
Proof.
  revert v; induction k as [|k IH]; intros v.
  - simpl. rewrite N.mod_1_r. reflexivity.
  - cbn [be_enc]. rewrite be_dec_snoc, IH, pow256_succ.
    assert (256 ^ N.of_nat k <> 0) as Hp by (apply N.pow_nonzero; discriminate).
    rewrite N.mod_mul_r by (assumption || discriminate). lia.
Qed.

Lemma be_dec_enc_small k v : v < 256 ^ N.of_nat k -> be_dec (be_enc k v) = v.
Proof. intros H. rewrite be_dec_enc. apply N.mod_small. exact H. Qed.

Lemma be_dec_lt b : bytes_ok b -> be_dec b < 256 ^ N.of_nat (length b).
Proof.
  induction b as [|x b IH] using rev_ind; intros H.
  - simpl. reflexivity.
  - apply Forall_app in H as [Hb Hx]. inversion Hx as [|? ? Hx' _]; subst.
    rewrite be_dec_snoc, app_length. simpl length. rewrite Nat.add_1_r, pow256_succ.
    specialize (IH Hb). lia.
Qed.

Theorem be_enc_dec b : bytes_ok b -> be_enc (length b) (be_dec b) = b.
Proof.
  induction b as [|x b IH] using rev_ind; intros H; [reflexivity|].
  apply Forall_app in H as [Hb Hx]. inversion Hx as [|? ? Hx' _]; subst.
  rewrite app_length. simpl length. rewrite Nat.add_1_r. cbn [be_enc].
  rewrite be_dec_snoc.
  replace ((be_dec b * 256 + x) / 256) with (be_dec b) by lia.
  replace ((be_dec b * 256 + x) mod 256) with x by lia.
  rewrite IH by assumption. reflexivity.
Qed.

(* signed round trip: a k-byte two's complement encoding decodes to the same integer *)
Theorem dec_enc_signed k z : (0 < k)%nat ->
  (- 2 ^ (8 * Z.of_nat k - 1) <= z < 2 ^ (8 * Z.of_nat k - 1))%Z ->
  dec_signed (enc_signed k z) = z.
Proof.
  intros Hk Hz. unfold dec_signed, enc_signed. rewrite be_enc_length.
  set (bits := 8 * N.of_nat k).
  assert (Hbits : Z.of_N bits = (8 * Z.of_nat k)%Z) by (unfold bits; lia).
  assert (Hpow : (2 ^ Z.of_N bits = 2 * 2 ^ (8 * Z.of_nat k - 1))%Z).
  { rewrite Hbits. rewrite <- Z.pow_succ_r by lia. f_equal. lia. }
  assert (H256 : 256 ^ N.of_nat k = 2 ^ bits).
  { unfold bits. change 256 with (2 ^ 8). rewrite <- N.pow_mul_r. reflexivity. }
  assert (Hw : wrap_bits bits z < 256 ^ N.of_nat k).
  { rewrite H256. unfold wrap_bits. apply N2Z.inj_lt. rewrite Z2N.id.
    - rewrite N2Z.inj_pow. apply Z.mod_pos_bound. apply Z.pow_pos_nonneg; lia.
    - apply Z.mod_pos_bound. apply Z.pow_pos_nonneg; lia. }
  rewrite be_dec_enc_small by exact Hw.
  unfold to_signed, wrap_bits.
  assert (Hhalf : Z.of_N (2 ^ (bits - 1)) = (2 ^ (8 * Z.of_nat k - 1))%Z).
  { rewrite N2Z.inj_pow. f_equal. unfold bits. lia. }
  set (P := (2 ^ (8 * Z.of_nat k - 1))%Z) in *.
  assert (0 < P)%Z by (apply Z.pow_pos_nonneg; lia).
  destruct (Z.to_N (z mod 2 ^ Z.of_N bits) <? 2 ^ (bits - 1)) eqn:E.
  - apply N.ltb_lt in E. apply N2Z.inj_lt in E. rewrite Hhalf in E.
    rewrite Z2N.id in * by (apply Z.mod_pos_bound; lia).
    rewrite Hpow in *.
    destruct (Z_lt_le_dec z 0) as [Hn|Hp].
    + replace z with ((z + 2 * P) + (-1) * (2 * P))%Z in E by lia.
      rewrite Z.mod_add in E by lia. rewrite Z.mod_small in E by lia. lia.
    + rewrite Z.mod_small by lia. reflexivity.
  - apply N.ltb_ge in E. apply N2Z.inj_le in E. rewrite Hhalf in E.
    rewrite Z2N.id in * by (apply Z.mod_pos_bound; lia).
    rewrite Hpow in *.
    destruct (Z_lt_le_dec z 0) as [Hn|Hp].
    + replace z with ((z + 2 * P) + (-1) * (2 * P))%Z at 1 by lia.
      rewrite Z.mod_add by lia. rewrite Z.mod_small by lia. lia.
    + rewrite Z.mod_small in E by lia. lia.
Qed.

Lemma take_app n a b : length a = n -> take n (a ++ b) = Some (a, b).
Proof.
  intros H. unfold take. rewrite app_length.
  destruct (n <=? length a + length b)%nat eqn:E; [|apply Nat.leb_gt in E; lia].
  subst n. rewrite firstn_app, Nat.sub_diag, firstn_all, skipn_app, Nat.sub_diag, skipn_all.
  simpl. rewrite app_nil_r. reflexivity.
Qed.

Lemma take_some n b x r : take n b = Some (x, r) -> b = x ++ r /\ length x = n.
Proof.
  unfold take. destruct (n <=? length b)%nat eqn:E; [|discriminate].
  intros H. inversion H; subst. apply Nat.leb_le in E. split.
  - symmetry. apply firstn_skipn.
  - apply firstn_length_le. exact E.
Qed.
